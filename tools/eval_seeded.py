#!/usr/bin/env python3
"""Evaluate one seeded change:  tools/eval_seeded.py <dir with patch.diff + demo.py> <Cxx> [tier]
Confirms (in a scratch worktree outside /repo and /verif) that the change applies, the unedited test-suite still passes,
the demonstration fails with it and passes without it, then runs ./check Cxx against the changed tree (VERIF_REPO)."""
import json
import os
import shutil
import subprocess
import sys
import tempfile
import time

d, pid = os.path.abspath(sys.argv[1]), sys.argv[2]
tier = sys.argv[3] if len(sys.argv) > 3 else "quick"
skip_tests = "--skip-tests" in sys.argv
name = os.path.basename(d.rstrip("/"))
wt = tempfile.mkdtemp(prefix="ev-%s-" % name, dir="/tmp")
os.rmdir(wt)
out = {"name": name, "property": pid, "tier": tier}


def sh(cmd, cwd=None, env=None, timeout=3600):
    e = dict(os.environ)
    e.update(env or {})
    p = subprocess.run(cmd, shell=True, cwd=cwd, env=e, capture_output=True, text=True, timeout=timeout)
    return p.returncode, p.stdout + p.stderr


try:
    rc, o = sh("git -C /repo worktree add --detach %s HEAD" % wt)
    assert rc == 0, o
    rc, o = sh("PYTHONPATH=%s /venv/bin/python %s/demo.py" % (wt, d), cwd=wt, timeout=900)
    out["demo_clean_rc"] = rc
    rc, o = sh("git apply %s/patch.diff" % d, cwd=wt)
    out["applies"] = rc == 0
    if rc != 0:
        out["apply_error"] = o[-400:]
    else:
        rc, o = sh("PYTHONPATH=%s /venv/bin/python %s/demo.py" % (wt, d), cwd=wt, timeout=900)
        out["demo_mutant_rc"] = rc
        if not skip_tests:
            rc, o = sh("/venv/bin/python -m pytest -q -p no:cacheprovider --timeout=900 2>&1 | tail -3", cwd=wt)
            out["tests"] = o.strip().splitlines()[-1] if o.strip() else ""
        ev = tempfile.mkdtemp(prefix="ev-evidence-")
        t0 = time.time()
        rc, o = sh("./check %s --tier %s" % (pid, tier), cwd="/verif",
                   env={"VERIF_REPO": wt, "VERIF_EVIDENCE_DIR": ev, "VERIF_REPLAY_DIR": ev})
        out["check_rc"] = rc
        out["check_wall"] = round(time.time() - t0, 1)
        out["check_violations"] = [l for l in o.splitlines() if l.startswith("VIOLATION") or l.strip().startswith("what:")][:6]
        out["check_tail"] = o.strip().splitlines()[-3:]
        shutil.rmtree(ev, ignore_errors=True)
finally:
    sh("git -C /repo worktree remove --force %s" % wt)
    shutil.rmtree(wt, ignore_errors=True)
print(json.dumps(out, indent=1))
