"""G01: generates specs/Discovery_*.cfg (model checking, replay graphs, negative controls) - run once after editing."""
import os
BASE = dict(Peers='{"p1", "p2"}', Ghosts='{"g1"}', Trackers='{"t1"}', Own='"own"',
            UseWalk="FALSE", UseEdge="FALSE", UseChurn="FALSE",
            Window=2, WalkTimeout=1, TargetInterval=0, TargetPeers=-1, MaxPeers=-1,
            EdgeLen=3, NbSize=1, EdgeTimeout=1,
            SampleSize=2, PingInterval=1, InactiveTime=1, DropTime=3, MaxPings=2, PingCacheTimeout=1,
            BootTimeout=2, MaxTime=3, TickLens="{1}", IntroOwn="FALSE", Dev="{}")
INV = ["TypeOK", "NetOK", "WalkWindow", "NoOwnAddress", "EdgeShape", "EdgeBound"]
PROP = ["DropOnlyAfterSilence", "PingDiscipline", "WalkTargets", "ForgetOnlyUnreachable", "WalkSpacing", "EdgeGrowsVerified", "PongCounted"]

def write(name, inv=None, prop=None, comment="", **kw):
    c = dict(BASE); c.update(kw)
    lines = ["\\* " + comment, "SPECIFICATION Spec", "CONSTANTS"]
    for k, v in c.items():
        if isinstance(v, int) and v < 0:
            assert v == -1
            lines.append("  %s <- MinusOne" % k)
        else:
            lines.append("  %s = %s" % (k, v))
    lines.append("CONSTRAINT Bounded")
    for i in (INV if inv is None else inv):
        lines.append("INVARIANT " + i)
    for p in (PROP if prop is None else prop):
        lines.append("PROPERTY " + p)
    with open(os.path.join("/verif/specs", "Discovery_%s.cfg" % name), "w") as f:
        f.write("\n".join(lines) + "\n")

W = dict(UseWalk="TRUE")
C = dict(UseChurn="TRUE")
E = dict(UseEdge="TRUE")
# ---- model checking (no replay)
write("walk", comment="RandomWalk alone, 2 peers + ghost + tracker, window 2", **W)
write("walk_slow", comment="RandomWalk with target_interval and target_peers/max_peers limits", **W,
      TargetInterval=1, TargetPeers=2, MaxPeers=1, Window=1, Ghosts="{}", MaxTime=4)
write("churn", comment="RandomChurn alone: 2 peers, sampling window 1", **C, SampleSize=1, Ghosts="{}", Trackers="{}",
      PingInterval=1, InactiveTime=2, DropTime=4, MaxTime=7)
write("edge", comment="EdgeWalk alone: 3 peers, neighbourhood 1, edges of 3", **E, Peers='{"p1", "p2", "p3"}', Ghosts="{}",
      MaxTime=2)
write("all", comment="all three strategies on one Network (interplay), tiny universe", **W, **C, **E, Ghosts="{}", Trackers="{}",
      MaxTime=2, InactiveTime=0, DropTime=1, PingInterval=0, MaxPings=1, EdgeLen=2, Window=1)
write("walk3", comment="RandomWalk, 3 peers, window 2 (thorough)", **W, Peers='{"p1", "p2", "p3"}', Ghosts="{}", MaxTime=2)
write("edge_nb2", comment="EdgeWalk, neighbourhood 2, edges of 3 (thorough)", **E, Peers='{"p1", "p2", "p3"}', Ghosts="{}", Trackers="{}",
      NbSize=2, MaxTime=3)
# ---- replay graphs (every edge executed on the real code)
write("r_walk", comment="replay: RandomWalk", **W, MaxTime=2, Window=1)
write("r_walk2", comment="replay: RandomWalk, window 2, no tracker, own address may be introduced", **W, Trackers="{}",
      MaxTime=2, IntroOwn="TRUE", Peers='{"p1"}', Ghosts='{"g1", "g2"}')
write("r_churn", comment="replay: RandomChurn, 2 peers, window 1, max_peers 0 (one peer admitted by requests)", **C, Ghosts="{}", Trackers="{}",
      SampleSize=1, DropTime=2, MaxTime=3, MaxPings=5, MaxPeers=0)
write("r_churn1", comment="replay: RandomChurn, 1 peer up to full round-trip history", **C, Peers='{"p1"}', Ghosts="{}", Trackers="{}",
      PingInterval=0, InactiveTime=1, DropTime=2, MaxTime=8, MaxPings=5)
write("r_edge", comment="replay: EdgeWalk", **E, Ghosts="{}", Trackers="{}", MaxTime=2, Peers='{"p1", "p2"}', NbSize=1, EdgeLen=3)
# ---- negative controls
write("ctl_dropearly", inv=[], prop=["DropOnlyAfterSilence"], comment="control: churn drops after InactiveTime", **C,
      Ghosts="{}", Trackers="{}", DropTime=3, MaxTime=5, Dev='{"dropEarly"}')
write("ctl_nopingguard", inv=[], prop=["DropOnlyAfterSilence"], comment="control: churn drops without a ping on record", **C,
      Ghosts="{}", Trackers="{}", DropTime=2, MaxTime=5, MaxPings=0, Dev='{"noPingGuard"}')
write("ctl_pingflood", inv=[], prop=["PingDiscipline"], comment="control: ping at every step", **C,
      Ghosts="{}", Trackers="{}", Dev='{"pingFlood"}')
write("ctl_pongunmatched", inv=[], prop=["PongCounted"], comment="control: pongs never match their ping cache (pinned send_ping beyond global time 65535)", **C,
      Ghosts="{}", Trackers="{}", Dev='{"pongUnmatched"}')
write("ctl_nowindow", inv=["WalkWindow"], prop=[], comment="control: window not enforced", **W, Window=1, Dev='{"noWindow"}')
write("ctl_walkverified", inv=[], prop=["WalkTargets"], comment="control: walk to verified addresses", **W, Dev='{"walkVerified"}')
write("ctl_forgetanswered", inv=[], prop=["DropOnlyAfterSilence"], comment="control: walk time-out forgets answering peers", **W,
      Dev='{"forgetAnswered"}')
write("ctl_edgeany", inv=["EdgeShape"], prop=[], comment="control: edge grows with any verified peer", **E,
      Peers='{"p1", "p2", "p3"}', Ghosts="{}", Dev='{"edgeAny"}')

# ---- quick-tier variants
write("churn_q", comment="RandomChurn alone, 2 peers, window 1 (quick)", **C, SampleSize=1, Ghosts="{}", Trackers="{}",
      PingInterval=1, InactiveTime=1, DropTime=2, MaxTime=4)
write("edge_q", comment="EdgeWalk alone, 3 peers, neighbourhood 1, edges of 3, immediate edge time-out (quick)", **E,
      Peers='{"p1", "p2", "p3"}', Ghosts="{}", Trackers="{}", EdgeTimeout=0, MaxTime=1)
write("walk_q", comment="RandomWalk alone, 2 peers + ghost + tracker, window 2 (quick)", **W, MaxTime=2)
