import sys, asyncio, time as T
sys.path.insert(0,'/verif'); sys.path.insert(0,'/repo')
import logging; logging.disable(logging.CRITICAL)
from harness import vloop
loop = vloop.install(vloop.VLoop())
from harness.simnet import SimNet, attach
from harness.nodes import Node, introduce_all
from ipv8.messaging.anonymization.community import TunnelCommunity
from ipv8.messaging.anonymization.tunnel import *
net = attach(loop, SimNet(loop))
w0=vloop._REAL_TIME()
async def main():
    nodes=[Node(net) for _ in range(4)]
    for i,n in enumerate(nodes):
        fl={PEER_FLAG_RELAY,PEER_FLAG_SPEED_TEST}|({PEER_FLAG_EXIT_BT,PEER_FLAG_EXIT_IPV8} if i==3 else set())
        n.add(TunnelCommunity, peer_flags=fl)
    introduce_all(nodes)
    await asyncio.sleep(1)
    o=nodes[0].overlay
    print("cands",len(o.candidates))
    c=o.create_circuit(3)
    await c.ready
    print("ready", c.state, len(c.hops), [ (len(n.overlay.circuits),len(n.overlay.relay_from_to),len(n.overlay.exit_sockets)) for n in nodes])
    o.send_data(c.hop.address, c.circuit_id, ("1.2.3.4",5000), ("0.0.0.0",0), b"d1:ad2:id20:abcdefghij0123456789e1:q4:ping1:t2:aa1:y1:qe")
    await asyncio.sleep(1)
    print("outside", [(x[0],x[2][:10],x[3]) for x in net.outside_log])
    net.transports[0].inject(b"d1:rd2:id20:mnopqrstuvwxyz123456e1:t2:aa1:y1:re", ("1.2.3.4",5000))
    await asyncio.sleep(1)
    await asyncio.sleep(130)
    print("after idle", [ (len(n.overlay.circuits),len(n.overlay.relay_from_to),len(n.overlay.exit_sockets)) for n in nodes], [t.closed for t in net.transports])
    for n in nodes: await n.overlay.unload()
loop.run_until_complete(main())
print("wire", len(net.wire), "wall", vloop._REAL_TIME()-w0)
