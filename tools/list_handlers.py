import sys
sys.path.insert(0,'/verif'); sys.path.insert(0,'/repo')
import logging; logging.disable(logging.CRITICAL)
from harness import vloop
loop = vloop.install(vloop.VLoop())
from harness.simnet import SimNet, attach
from harness.nodes import Node
net = attach(loop, SimNet(loop))
from ipv8.peerdiscovery.community import DiscoveryCommunity
from ipv8.dht.community import DHTCommunity
from ipv8.dht.discovery import DHTDiscoveryCommunity
from ipv8.messaging.anonymization.community import TunnelCommunity
from ipv8.messaging.anonymization.hidden_services import HiddenTunnelCommunity
from ipv8.messaging.anonymization.pex import PexCommunity
from ipv8.attestation.identity.community import IdentityCommunity
from ipv8.attestation.wallet.community import AttestationCommunity
import ipv8.lazy_community as lc
def kind(f):
    f=getattr(f,'__func__',f)
    # find which decorator made it: look at closure freevars & code's qualname
    q=f.__qualname__
    code=f.__code__
    return code.co_qualname if hasattr(code,'co_qualname') else q
async def main():
  for cls in [DiscoveryCommunity,DHTCommunity,DHTDiscoveryCommunity,TunnelCommunity,HiddenTunnelCommunity,IdentityCommunity,AttestationCommunity]:
    n=Node(net)
    kw={}
    if cls is IdentityCommunity or cls is AttestationCommunity: kw={'working_directory':':memory:'}
    try:
        o=n.add(cls,**kw)
    except Exception as e:
        print(cls.__name__,"ERR",repr(e)); continue
    print("==",cls.__name__, o.get_prefix().hex())
    for i,h in enumerate(o.decode_map):
        if h is not None:
            print("  ",i,getattr(h,'__name__',h), "|", kind(h))
    if hasattr(o,'decode_map_private'):
        for i,h in o.decode_map_private.items():
            print("   cell",i,getattr(h,'__name__',h), "|", kind(h))
    await o.unload()
loop.run_until_complete(main())
