#!/usr/bin/env python3
"""Markdown table for DESIGN.md section 14 from seeded/<id>/{meta,result}.json (result.json written by eval_all_seeded.sh)."""
import glob
import json
import os
import re

rows = []
for d in sorted(glob.glob("/verif/seeded/c??-?")):
    name = os.path.basename(d)
    meta = json.load(open(os.path.join(d, "meta.json")))
    try:
        res = json.load(open(os.path.join(d, "result.json")))
    except Exception:  # noqa: BLE001
        res = {}
    first = open(os.path.join(d, "README.md")).read().strip().splitlines()[0].lstrip("# ").strip()
    first = re.sub(r"^(C\d\d[- ]?(change )?[a-f]\s*[-:–—]*\s*|Change [a-f]\s*[-:–—]*\s*)", "", first, flags=re.I)
    what = ""
    for l in res.get("check_violations", []):
        if l.strip().startswith("what:"):
            what = l.strip()[5:].strip()
            break
    what = re.sub(r"\s+", " ", what)[:170]
    status = {1: "caught", 0: "MISSED", 2: "machinery failure"}.get(res.get("check_rc"), "not evaluated")
    if res.get("applies") is False:
        status = "patch does not apply"
    # a change evaluated against the check of another property as well (result_<Cxx>.json)
    for other in sorted(glob.glob(os.path.join(d, "result_C??.json"))):
        o = json.load(open(other))
        if o.get("check_rc") == 1 and status != "caught":
            status = "caught by %s (own check: %s)" % (o["property"], status.lower())
            for l in o.get("check_violations", []):
                if l.strip().startswith("what:"):
                    what = re.sub(r"\s+", " ", l.strip()[5:].strip())[:170]
                    break
    rows.append("| %s | %s | %s | %s |" % (name, first[:150].replace("|", "/"), status, what.replace("|", "/")))
print("| change | what it does | `./check %s --tier quick` | first violation reported |" % "Cxx")
print("|---|---|---|---|")
print("\n".join(rows))
n = sum(1 for r in rows if "| caught" in r)
print("\n%d of %d seeded changes caught by the quick tier of the check of their property." % (n, len(rows)))
