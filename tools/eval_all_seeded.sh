#!/bin/sh
# re-evaluates every stored seeded change against the current checks: tools/eval_all_seeded.sh [lanes]  -> seeded/<id>/result.json
LANES=${1:-3}
cd /verif
ls -d seeded/c??-? | xargs -P $LANES -I{} sh -c 'n=$(basename {}); p=$(echo $n | cut -c1-3 | tr a-z A-Z); python3 tools/eval_seeded.py /verif/seeded/$n $p quick --skip-tests > /verif/seeded/$n/result.json 2>/dev/null; echo "$n $(python3 -c "import json;d=json.load(open(\"/verif/seeded/$n/result.json\"));print(\"caught\" if d.get(\"check_rc\")==1 else \"MISSED rc=%s\"%d.get(\"check_rc\"), d.get(\"check_wall\"))")"'
