SPECIFICATION Spec
CONSTANTS Addrs = {"A1"} Keys = {"K1"} Signers = {"S2"} OwnSigner = "" MaxVer = 0 Datas = {} UData = {"a"}
          Forged = FALSE Sizes = FALSE Multi = FALSE Base = 24 Scale = 1 MaxRot = 4 MaxClock = 9 InitCloser = 7 MaxCloser = 7
          MaxIssued = 2 PeerStore = FALSE Locals = FALSE EqReplaces = TRUE OtherTokens = {} MaxStored = 8
          KeepSecrets = 2 CleanAll = TRUE Validity = 4 RotatePeriod = 2 ExpiredYields = FALSE
INVARIANT TypeOK
INVARIANT StoreNeedsOwnFreshToken
INVARIANT Limits
INVARIANT SignedMeansVerified
INVARIANT OneEntryPerId
INVARIANT ExpiredGoneAfterClean
INVARIANT StorePeerOnlyOwnMid
INVARIANT WindowIsTwoNewest
INVARIANT RotationOnTime
PROPERTY NoDowngrade
ACTION_CONSTRAINT SmallStore
