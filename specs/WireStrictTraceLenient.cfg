SPECIFICATION TraceSpec
CONSTANTS Lenient = TRUE Alphabet = {} MaxLen = 0
CONSTANT Formats <- TrFormats
