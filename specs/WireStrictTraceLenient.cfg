SPECIFICATION TraceSpec
CONSTANTS ArrBE = FALSE Lenient = TRUE Alphabet = {} MaxLen = 0
CONSTANT Formats <- TrFormats
