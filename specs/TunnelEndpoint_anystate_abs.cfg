SPECIFICATION Spec
CONSTANTS Pfx = {"A", "B"} MaxHops = 2 MaxCid = 2 QCap = 100 MaxDepth = 5 LeakDetached = FALSE AnyState = TRUE MaxInst = 2 Lifecycle = FALSE UnloadClears = FALSE CandInit = {TRUE, FALSE} CloseWays = {"closeR", "remove"} ReasonDecides = FALSE ReadyInit = FALSE Expiry = FALSE
PROPERTY ImplRefinesAbs
