\* replayed graph (quick), request flow: node 1 requests twice from node 2, one time-out, reordering
SPECIFICATION SpecL
CONSTANTS
 Nodes = {1, 2} Adv = {} Requesters = {1} Verifiers = {}
 Values <- Vals1 NChunks = 2 Window = 10 Pre <- NoPre
 MaxReq = 2 MaxVer = 0 MaxHon = 0 MaxDup = 0 MaxDrop = 0 MaxAdv = 0 MaxTimeouts = 1 MaxTicks = 0
 AdvKinds = {"junk", "data", "resp", "chal"} AdvResps = {0, 1, 2, 3}
 TickSteps = {}
 OnceOnly = TRUE CheckPeer = TRUE CheckHash = TRUE AskConsent = TRUE
INVARIANT StoredIntact
INVARIANT ChunkIsolation
INVARIANT CachesSane
