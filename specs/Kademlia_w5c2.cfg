\* 5 bit identifiers, every history of 4 calls (thorough)
SPECIFICATION Spec
CONSTANTS W = 5 Bits <- SeqBits Cap = 2 MyNum = 21 IdNums = {0, 1, 2, 3, 4, 5, 6, 7, 8, 9, 10, 11, 12, 13, 14, 15, 16, 17, 18, 19, 20, 21, 22, 23, 24, 25, 26, 27, 28, 29, 30, 31}
          RTTs = {1, 2} Addrs = {1} AddBads = {FALSE} KMax = 0 MaxDepth = 4
          WithGen = FALSE GenInBucket = TRUE OwnPathOnly = TRUE
INVARIANT TypeOK
INVARIANT PrefixFreeComplete
INVARIANT PartitionBrute
INVARIANT NodeInOwningBucket
INVARIANT Capacity
INVARIANT OwnPathShape
INVARIANT GeneratedIdInBucket
INVARIANT FirstDiffAgree
PROPERTY SplitOnlyOwnPath
