\* CONTROL: the pinned on_challenge_response (completion callback not guarded)
SPECIFICATION Spec
CONSTANTS
 Nodes = {1, 2} Adv = {} Requesters = {} Verifiers = {1}
 Values <- Vals1 NChunks = 2 Window = 10 Pre <- PreOwn2
 MaxReq = 0 MaxVer = 2 MaxHon = 2 MaxDup = 1 MaxDrop = 1 MaxAdv = 0 MaxTimeouts = 2 MaxTicks = 0
 AdvKinds = {"junk", "data", "resp", "chal"} AdvResps = {0, 1, 2, 3}
 TickSteps = {}
 OnceOnly = FALSE CheckPeer = TRUE CheckHash = TRUE AskConsent = TRUE
INVARIANT StoredIntact
INVARIANT ChunkIsolation
INVARIANT VerifyOnce
INVARIANT ResultConsistent
INVARIANT ConsentGiven
INVARIANT CachesSane
PROPERTY DbAppendOnly
