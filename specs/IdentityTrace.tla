---------------------------- MODULE IdentityTrace ----------------------------
(* Sessions recorded on a real IdentityCommunity node (harness/drivers/c17.py, binding T) checked    *)
(* against Identity.tla: every event must be the corresponding action of the specification and       *)
(* reproduce the logged observation - the datagrams that left the node and the projection of its     *)
(* tables, trees, consent table and permissions.  The property invariants are evaluated in every     *)
(* state of every session.                                                                            *)
EXTENDS Identity, Json, IOUtils, TLCExt

CONSTANT Compare   \* TRUE: validation.  FALSE: only apply the logged inputs (used to print the state the
                   \* specification expects after a rejected event - diagnosis, IdentityTrace_expect.cfg)

Traces == JsonDeserialize(IOEnv.TRACE_FILE)

VARIABLES tid, l
tvars == <<vars, tid, l>>

Ev == Traces[tid].events
ToSet(s) == {s[i] : i \in 1..Len(s)}

TraceInit == tid \in 1..Len(Traces) /\ l = 1 /\ Init

Step(e) ==
  CASE e.a = "reg"        -> AddKnownHash(e.h, e.name, e.subj, e.meta)
    [] e.a = "tick"       -> Tick(e.d)
    [] e.a = "disc"       -> RecvDisclose(e.p, e.mds, e.toks, e.atts)
    [] e.a = "miss"       -> RecvMissingResponse(e.p, e.toks)
    [] e.a = "selfadv"    -> SelfAdvertise
    [] e.a = "reqadv"     -> RequestAdvert(e.p, ToSet(e.out.toks))
    [] e.a = "reqmissing" -> RecvRequestMissing(e.p, e.k)
    [] e.a = "attest"     -> RecvAttest(e.p, e.x)
    [] e.a = "fault"      -> Fault(e.tab)
    [] OTHER              -> FALSE

Observed(e) ==
  /\ out' = [to |-> e.out.to, att |-> ToSet(e.out.att), miss |-> e.out.miss, missKnown |-> e.out.missKnown,
             respSent |-> e.out.respSent, discSent |-> e.out.discSent, toks |-> ToSet(e.out.toks)]
  /\ clock' = e.clock
  /\ \A h \in Hashes : known'[h] = e.known[h]
  /\ \A p \in Peers : els'[p] = ToSet(e.els[p]) /\ unch'[p] = ToSet(e.unch[p]) /\ perm'[p] = e.perm[p]
  /\ mdTab' = ToSet(e.md)
  /\ attTab' = {[subj |-> r[1], auth |-> r[2], signer |-> r[3], md |-> r[4]] : r \in ToSet(e.att)}
  /\ chain' = e.chain
  /\ fault' = e.fault

TraceNext == /\ l <= Len(Ev)
             /\ Step(Ev[l]) /\ (Compare => Observed(Ev[l]))
             /\ l' = l + 1 /\ UNCHANGED tid

TraceSpec == TraceInit /\ [][TraceNext]_tvars

(* total verdict: a session is rejected exactly when some logged event is not an enabled spec step *)
TraceAccepted == l <= Len(Ev) => ENABLED TraceNext
(* diagnosis: violated in the state after the last event, whose values TLC then prints *)
NotDone == l <= Len(Ev)
=============================================================================
