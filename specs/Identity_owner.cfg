\* owner role: own chain, permissions, missing-token requests, incoming attestations
SPECIFICATION MCSpec
CONSTANTS AlreadyChecked = TRUE PkPerAuthority = TRUE CheckSubject = TRUE CheckPermission = TRUE CommitBeforeSend = TRUE Window = 300 RespCap = 10 FitAll = 8
  Regs = {} Senders = {} TokIdx = {} MdIdx = {} AttIdx = {} MissIdx = {}
  Ticks = {} OwnerPeers = {1, 2} KnownVals = {0, 1, 2, 5} AttSend = {1, 2, 4} RegFirst = FALSE FaultTabs = {}
  MaxReg = 0 MaxMsg = 3 MaxTick = 0 MaxOwn = 3 MaxFault = 0
INVARIANT TypeOK
INVARIANT SignsOnlyConsented
INVARIANT StoresOnlyValidlySigned
INVARIANT TokensOnlyUpToPermitted
INVARIANT TreesVerified
INVARIANT SentOnlyRecorded
