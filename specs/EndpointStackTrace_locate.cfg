SPECIFICATION TraceSpec
CONSTANTS
  Ifaces = {"v4", "v6"}
  Listeners = {"A", "B", "G"}
  Prefixes = {"p1", "p2"}
  AddrKinds = {"c4", "c6", "t4", "t6", "lan4", "dom", "junk"}
  Sizes = {22, 23, 25, 40}
  MsgIds = {1, 2, 245}
  WithStats = TRUE
  Closing = TRUE
  ClosedSendRaises = FALSE
  Explicit = FALSE
  MaxBytes = 0
  MaxMsgs = 0
  DupGeneral = FALSE
  StatsForwards = TRUE
  SendWhileClosing = FALSE
INVARIANT TraceAccepted
INVARIANT TypeOK
INVARIANT SendRouting
INVARIANT NotifyOnce
INVARIANT FanOut
INVARIANT CountersExact
INVARIANT StatsExact
INVARIANT NoLeak
