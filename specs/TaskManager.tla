---------------------------- MODULE TaskManager ----------------------------
(* ipv8/taskmanager.py : TaskManager.register_task, replace_task, cancel_pending_task,            *)
(* shutdown_task_manager, on top of the asyncio machinery they rely on.                            *)
(*                                                                                                 *)
(* Implementation layer: the registry _pending_tasks (name -> task), the _shutdown flag and the    *)
(* FIFO ready queue of the event loop. One Tick = one loop iteration: the handles that are ready   *)
(* at its start run in order, handles they schedule run in the next iteration. Queue entries:      *)
(*   step(g)  first step / wake-up of task g          done(g)  the done-callbacks of task g        *)
(*   rcb(n)   replace_task callback on an already     gcb(g)   gather() callback on an already     *)
(*            finished (or absent) old task                    finished task                       *)
(*   sd       first step of shutdown_task_manager()   sdwake   its wake-up after gather()          *)
(* Task bodies are the simplest possible: start, await one external event (Finish), return.        *)
(* Instance 1 is the introspection task every TaskManager registers for itself (_check_tasks).     *)
(*                                                                                                 *)
(* Abstract layer (what property C11 demands):                                                     *)
(*   NoDuplicateActiveName    - never two live, not cancelled tasks under one name                 *)
(*   ReplaceAfterOldFinished  - the task started by replace_task is created after the old one ended*)
(*   NothingAfterShutdown     - after shutdown_task_manager() returned no task is live, none starts*)
EXTENDS Integers, Sequences, FiniteSets, TLC

CONSTANTS Names,        \* user visible task names
          MaxT,         \* task instances 1..MaxT (1 = the checker)
          MaxOps,       \* bound on public calls
          IdentityPop   \* TRUE: a finished task removes the registry entry only if the entry is still itself
                        \* (repaired). FALSE: pinned code pops by name, whatever is registered there now.

Chk      == "_check_tasks"
AllNames == Names \cup {Chk}
Inst     == 1..MaxT

VARIABLES sd,       \* _shutdown
          reg,      \* AllNames -> 0..MaxT : _pending_tasks
          st,       \* Inst -> "unborn" | "new" | "waiting" | "woken" | "finished" | "cancelled"
          mc,       \* Inst -> BOOLEAN : cancellation requested, CancelledError not delivered yet
          nm,       \* Inst -> name the instance was registered under
          cbs,      \* Inst -> Seq(Names) : replace_task callbacks waiting for this instance to end
          q,        \* ready queue of the loop
          nxt,      \* next unused instance
          sdw,      \* instances the gather() of shutdown still counts
          sda,      \* subset of sdw whose gather callback sits in the instance's own callback list
          sdp,      \* "idle" | "queued" | "waiting" | "woken" | "done" : the shutdown coroutine
          started,  \* instances whose body began to execute
          dup,      \* number of RuntimeError("Task already exists")
          drop,     \* number of registrations refused because of shutdown
          ops,      \* public calls so far
          rep       \* history: <<old, new>> pairs created by replace_task (old = 0: there was none)
vars == <<sd, reg, st, mc, nm, cbs, q, nxt, sdw, sda, sdp, started, dup, drop, ops, rep>>

S0 == [sd |-> sd, reg |-> reg, st |-> st, mc |-> mc, nm |-> nm, cbs |-> cbs, q |-> q, nxt |-> nxt, sdw |-> sdw,
       sda |-> sda, sdp |-> sdp, started |-> started, dup |-> dup, drop |-> drop, rep |-> rep]

Set(S) == /\ sd' = S.sd /\ reg' = S.reg /\ st' = S.st /\ mc' = S.mc /\ nm' = S.nm /\ cbs' = S.cbs /\ q' = S.q
          /\ nxt' = S.nxt /\ sdw' = S.sdw /\ sda' = S.sda /\ sdp' = S.sdp /\ started' = S.started
          /\ dup' = S.dup /\ drop' = S.drop /\ rep' = S.rep

Done(S, g) == S.st[g] \in {"finished", "cancelled"}
Live(S, g) == S.st[g] \in {"new", "waiting", "woken"}

Step(g)  == [k |-> "step", g |-> g, n |-> ""]
DoneE(g) == [k |-> "done", g |-> g, n |-> ""]
Gcb(g)   == [k |-> "gcb", g |-> g, n |-> ""]
Rcb(n)   == [k |-> "rcb", g |-> 0, n |-> n]
SdE      == [k |-> "sd", g |-> 0, n |-> ""]
SdWake   == [k |-> "sdwake", g |-> 0, n |-> ""]

(* asyncio.Task.cancel() *)
CancelInst(S, g) ==
  IF S.mc[g] \/ ~Live(S, g) THEN S
  ELSE IF S.st[g] = "waiting"
       THEN [S EXCEPT !.mc[g] = TRUE, !.q = Append(@, Step(g))]   \* the awaited future is cancelled -> wake-up
       ELSE [S EXCEPT !.mc[g] = TRUE]                             \* a step is queued already

(* register_task(name, coroutine function); old = instance replaced (history only, -1: plain registration) *)
RegisterF(S, n, old) ==
  IF S.sd THEN [S EXCEPT !.drop = @ + 1]
  ELSE IF S.reg[n] # 0 /\ ~Done(S, S.reg[n]) THEN [S EXCEPT !.dup = @ + 1]
  ELSE LET g == S.nxt IN
       [S EXCEPT !.st[g] = "new", !.nm[g] = n, !.reg[n] = g, !.q = Append(@, Step(g)), !.nxt = g + 1,
                 !.rep = IF old >= 0 THEN @ \cup {<<old, g>>} ELSE @]

RECURSIVE RegisterAll(_, _, _)
RegisterAll(S, names, old) ==
  IF names = <<>> THEN S ELSE RegisterAll(RegisterF(S, Head(names), old), Tail(names), old)

(* the callback gather() attaches to every awaited future *)
GatherCb(S, g) ==
  IF g \notin S.sdw THEN S
  ELSE LET S1 == [S EXCEPT !.sdw = @ \ {g}, !.sda = @ \ {g}] IN
       IF S.sdp # "waiting" THEN S1
       ELSE IF S.st[g] = "cancelled" \/ S1.sdw = {}
            THEN [S1 EXCEPT !.sdp = "woken", !.q = Append(@, SdWake)]   \* outer future completes
            ELSE S1

(* cancel_all_pending_tasks + gather: the registered instances in a fixed order *)
RECURSIVE ShutdownOver(_, _)
ShutdownOver(S, names) ==
  IF names = {} THEN S
  ELSE LET n == CHOOSE x \in names : TRUE
           g == S.reg[n]
           S1 == IF g = 0 THEN S
                 ELSE IF Done(S, g)
                      THEN [S EXCEPT !.sdw = @ \cup {g}, !.q = Append(@, Gcb(g))]
                      ELSE [CancelInst(S, g) EXCEPT !.reg[n] = 0, !.sdw = @ \cup {g}, !.sda = @ \cup {g}]
       IN ShutdownOver(S1, names \ {n})

ProcessEntry(S, e) ==
  CASE e.k = "step" ->
         LET g == e.g IN
         IF ~Live(S, g) THEN S
         ELSE IF S.mc[g] THEN [S EXCEPT !.st[g] = "cancelled", !.mc[g] = FALSE, !.q = Append(@, DoneE(g))]
         ELSE IF S.st[g] = "new" THEN [S EXCEPT !.st[g] = "waiting", !.started = @ \cup {g}]
         ELSE IF S.st[g] = "woken" THEN [S EXCEPT !.st[g] = "finished", !.q = Append(@, DoneE(g))]
         ELSE S
    [] e.k = "done" ->
         LET g  == e.g
             n  == S.nm[g]
             S1 == IF IdentityPop /\ S.reg[n] # g THEN S ELSE [S EXCEPT !.reg[n] = 0]
             S2 == RegisterAll([S1 EXCEPT !.cbs[g] = <<>>], S1.cbs[g], g)
         IN IF g \in S2.sda THEN GatherCb(S2, g) ELSE S2
    [] e.k = "gcb" -> GatherCb(S, e.g)
    [] e.k = "rcb" -> RegisterF(S, e.n, 0)
    [] e.k = "sd" ->
         LET S1 == ShutdownOver([S EXCEPT !.sd = TRUE], AllNames) IN
         IF S1.sdw = {} THEN [S1 EXCEPT !.sdp = "done"] ELSE [S1 EXCEPT !.sdp = "waiting"]
    [] e.k = "sdwake" -> [S EXCEPT !.sdp = "done"]

RECURSIVE Run(_, _)
Run(S, n) == IF n = 0 THEN S
             ELSE Run(ProcessEntry([S EXCEPT !.q = Tail(@)], Head(S.q)), n - 1)

(* replace callbacks that will still create instances *)
RECURSIVE SumLen(_, _)
SumLen(f, D) == IF D = {} THEN 0 ELSE LET x == CHOOSE y \in D : TRUE IN Len(f[x]) + SumLen(f, D \ {x})
Reserved == SumLen(cbs, Inst) + Cardinality({i \in 1..Len(q) : q[i].k = "rcb"})
Room     == nxt + Reserved <= MaxT

Init == /\ sd = FALSE
        /\ reg = [n \in AllNames |-> IF n = Chk THEN 1 ELSE 0]
        /\ st = [g \in Inst |-> IF g = 1 THEN "new" ELSE "unborn"]
        /\ mc = [g \in Inst |-> FALSE]
        /\ nm = [g \in Inst |-> IF g = 1 THEN Chk ELSE ""]
        /\ cbs = [g \in Inst |-> <<>>]
        /\ q = <<Step(1)>>
        /\ nxt = 2 /\ sdw = {} /\ sda = {} /\ sdp = "idle" /\ started = {} /\ dup = 0 /\ drop = 0 /\ ops = 0
        /\ rep = {}

Public == ops < MaxOps /\ ops' = ops + 1

(* register_task(n, body) *)
Register(n) == /\ Public /\ (Room \/ sd) /\ Set(RegisterF(S0, n, -1))

(* replace_task(n, body) *)
Replace(n) ==
  /\ Public /\ Room
  /\ LET g == reg[n] IN
     IF g = 0 \/ Done(S0, g)
     THEN Set([S0 EXCEPT !.q = Append(@, Rcb(n))])
     ELSE Set([CancelInst(S0, g) EXCEPT !.reg[n] = 0, !.cbs[g] = Append(@, n)])

(* cancel_pending_task(n) *)
Cancel(n) ==
  /\ Public
  /\ LET g == reg[n] IN
     /\ g # 0 /\ ~Done(S0, g)
     /\ Set([CancelInst(S0, g) EXCEPT !.reg[n] = 0])

(* the event a body waits for happens *)
Finish(g) == /\ Public /\ g # 1 /\ st[g] = "waiting" /\ ~mc[g]
             /\ Set([S0 EXCEPT !.st[g] = "woken", !.q = Append(@, Step(g))])

(* create_task(shutdown_task_manager()) *)
Shutdown == /\ Public /\ sdp = "idle"
            /\ Set([S0 EXCEPT !.sdp = "queued", !.q = Append(@, SdE)])

(* one iteration of the event loop *)
Tick == /\ q # <<>> /\ Set(Run(S0, Len(q))) /\ UNCHANGED ops

Next == \/ \E n \in Names : Register(n)
        \/ \E n \in Names : Replace(n)
        \/ \E n \in Names : Cancel(n)
        \/ \E g \in Inst : Finish(g)
        \/ Shutdown
        \/ Tick

Spec == Init /\ [][Next]_vars

-----------------------------------------------------------------------------
TypeOK == /\ sd \in BOOLEAN /\ reg \in [AllNames -> 0..MaxT] /\ nxt \in 2..(MaxT + 1)
          /\ st \in [Inst -> {"unborn", "new", "waiting", "woken", "finished", "cancelled"}]
          /\ sdp \in {"idle", "queued", "waiting", "woken", "done"}
          /\ sda \subseteq sdw /\ sdw \subseteq Inst /\ started \subseteq Inst

Active(g) == Live(S0, g) /\ ~mc[g]

NoDuplicateActiveName ==
  \A g, h \in Inst : (g # h /\ Active(g) /\ Active(h)) => nm[g] # nm[h]

(* every live, not cancelled task is findable under its name (otherwise shutdown cannot reach it) *)
RegistryComplete == \A g \in Inst : Active(g) => reg[nm[g]] = g

ReplaceAfterOldFinished == \A p \in rep : (p[1] > 0 /\ st[p[2]] # "unborn") => Done(S0, p[1])

NothingAfterShutdown == sdp = "done" => \A g \in Inst : ~Live(S0, g)

NoNewAfterShutdown == [][sd => nxt' = nxt]_vars
=============================================================================
