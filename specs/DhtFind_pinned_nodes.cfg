SPECIFICATION Spec
CONSTANTS MaxTables = 2 Vals = {1, 2, 3} MaxLen = 2 PinnedDebugMerge = FALSE PinnedDebugNodes = TRUE
INVARIANT InvFindAll
