---------------------------- MODULE EndpointStack ----------------------------
(* G08 - the endpoint stack below the overlays.                                                        *)
(*   ipv8/messaging/interfaces/endpoint.py            Endpoint (listener registry), EndpointListener   *)
(*   ipv8/messaging/interfaces/udp/endpoint.py        UDPEndpoint / UDPv6Endpoint                      *)
(*   ipv8/messaging/interfaces/dispatcher/endpoint.py DispatcherEndpoint, guess_interface              *)
(*   ipv8/messaging/interfaces/statistics_endpoint.py StatisticsEndpoint                               *)
(* The stack is  [StatisticsEndpoint ->] DispatcherEndpoint -> one interface per entry of Ifaces, every *)
(* call enters at the top of the stack (as the overlays and ipv8_service.py use it).                    *)
(*                                                                                                      *)
(* One action per public call / handler / loop step:                                                    *)
(*   Add, AddP, Remove       add_listener / add_prefix_listener / remove_listener (top of the stack)    *)
(*   Recv(i, ..)             datagram_received of interface i (a real datagram when i is open, a direct  *)
(*                           call of the handler when it is not)                                        *)
(*   Notify                  notify_listeners at the top of the stack                                   *)
(*   Send(k, x, ..)          send(address of kind k [, interface = x])                                  *)
(*   DOpen, DClose           open() / close() of the stack;  IOpen(i), IClose(i) of one interface       *)
(*   Settle                  one turn of the event loop: transports that are closing lose their socket  *)
(*   Reset                   reset_byte_counters;  Enable(p, b)  enable_community_statistics            *)
(*   ErrorCb(i)              error_received of the datagram protocol                                    *)
(*                                                                                                      *)
(* ABSTRACT LAYER (what the documentation demands, order free): reg (who asked for what), sentB / rcvdB  *)
(* (bytes that really left / arrived since the last reset), exp (messages of tracked prefixes that      *)
(* really were handed down / up), and the outcome record `last` of the most recent call.                *)
(* IMPLEMENTATION LAYER: per interface the _listeners list and the _prefix_map (as bags: multiplicity   *)
(* = number of on_packet calls), its life-cycle state, its byte counters and sockets; the statistics    *)
(* table.                                                                                               *)
(*                                                                                                      *)
(* SAFETY PROPERTIES                                                                                    *)
(*  P1 SendRouting   a send leaves through at most one interface: the requested one or else the one of  *)
(*                   the address family (FAST_ADDR_TO_INTERFACE / guess_interface), through no other,   *)
(*                   and never through an interface that is not open ("closed" = is_open() is False:    *)
(*                   never opened, or close() has returned).                                            *)
(*  P2 NotifyOnce    a datagram accepted by an open interface is handed exactly once to every listener  *)
(*                   registered for all traffic or for its prefix, to nobody else - in particular not   *)
(*                   to a listener after remove_listener - and a closed interface hands nothing on.     *)
(*  P3 FanOut        registration calls reach every interface: each interface's registry is the one the  *)
(*                   calls describe (add_listener: all traffic; add_prefix_listener: that prefix only).  *)
(*  P4 CountersExact bytes_up / bytes_down of an interface = the bytes that left / were accepted there   *)
(*                   since the last reset (so a closed interface counts nothing).                       *)
(*  P5 Monotone      (action property) byte counters never decrease except by reset_byte_counters.      *)
(*  P6 StatsExact    per tracked prefix and message id the statistics count every message handed to the *)
(*                   endpoint below / received from it exactly once, with its length; nothing for        *)
(*                   prefixes that are not tracked or datagrams without a message id (22 bytes).        *)
(*                   (Transparency - the statistics layer never changes P1..P5 - is checked by          *)
(*                   replaying the same graphs on stacks with and without the layer.)                   *)
(*  P7 NoLeak        an interface owns one socket while open (or while its transport is closing), none   *)
(*                   otherwise: open/close are idempotent, re-opening does not pile sockets up.          *)
(*                                                                                                      *)
(* Left open on purpose (intent unclear, every behaviour allowed / parameter of the world):             *)
(*  - whether send on an interface that was closed raises EndpointClosedException or drops the packet   *)
(*    silently (ClosedSendRaises: the recording fake raises, UDPEndpoint drops); a never opened          *)
(*    interface raises (assert_open) in both.                                                           *)
(*  - the statistics count a send that returned normally even if the layer below dropped it.            *)
(*  - a listener registered twice for the same thing, or for all traffic AND a prefix (guards of        *)
(*    Add/AddP keep the model out of that).                                                             *)
(*  - notify_listeners of a dispatcher hands the packet to every open interface (n copies for n).        *)
(*                                                                                                      *)
(*  - which port a re-opened endpoint ends up on (the harness makes open() fall back to the next port). *)
(*                                                                                                      *)
(* Pinned deviations (constants; TRUE/FALSE as noted = the behaviour of the pinned tree, the negative    *)
(* controls): DupGeneral = TRUE (G08-2), StatsForwards = FALSE (G08-1), SendWhileClosing = TRUE (G08-3). *)
(* Bindings: harness/drivers/g08.py replays the dumped state graphs on the real classes (R) and lets    *)
(* TLC validate recorded random executions of the full stack (T, EndpointStackTrace.tla).               *)
EXTENDS Naturals, FiniteSets, TLC

CONSTANTS Ifaces,            \* loaded interfaces, a subset of {"v4", "v6"} (UDPIPv4 / UDPIPv6)
          Listeners,         \* overlay listeners
          Prefixes,          \* prefixes that listeners register for / statistics may track
          AddrKinds,         \* destination address kinds used by Send (see Fam)
          Sizes,             \* datagram lengths (22 = a bare prefix without message id)
          MsgIds,            \* message ids (byte 22)
          WithStats,         \* the stack is topped by a StatisticsEndpoint
          Closing,           \* real transports: close() leaves the socket open until the loop turns
          ClosedSendRaises,  \* send on a closed (not: never opened) interface raises instead of dropping
          Explicit,          \* Send may name the interface (DispatcherEndpoint.send(.., interface=))
          MaxBytes, MaxMsgs, \* state constraint
          DupGeneral,        \* pinned: add_prefix_listener appends the general listeners again
          StatsForwards,     \* FALSE = pinned: (de)registration through the statistics layer ends in a table nobody reads
          SendWhileClosing   \* pinned: UDPEndpoint.send still transmits (and counts) between close() and the loop turn

VARIABLES ifs,      \* [Ifaces -> {"new", "open", "closing", "closed"}]
          socks,    \* [Ifaces -> Nat]  OS sockets held on behalf of the interface
          gen,      \* [Ifaces -> bag]  Endpoint._listeners
          pm,       \* [Ifaces -> [Prefixes -> [on, m]]]  Endpoint._prefix_map (on = key present)
          up, down, \* [Ifaces -> Nat]  bytes_up / bytes_down
          tracked,  \* SUBSET Prefixes   keys of StatisticsEndpoint.statistics
          stat,     \* [Prefixes -> [MsgIds -> [nu, nd, bu, bd]]]  the NetworkStat objects
          reg,      \* abstract: [Listeners -> SUBSET (Prefixes \cup {"gen"})]
          sentB, rcvdB, \* abstract: [Ifaces -> Nat]
          exp,      \* abstract: like stat
          last      \* outcome of the most recent call
vars == <<ifs, socks, gen, pm, up, down, tracked, stat, reg, sentB, rcvdB, exp, last>>

S      == "S"         \* the StatisticsEndpoint as a listener of the endpoint below it
AllL   == Listeners \cup (IF WithStats THEN {S} ELSE {})
NoPfx  == "px"        \* a prefix nobody registers for
Pfx    == Prefixes \cup {NoPfx}
HdrLen == 22
MinId  == CHOOSE m \in MsgIds : \A n \in MsgIds : m <= n

(* FAST_ADDR_TO_INTERFACE (c4 = UDPv4Address, c6 = UDPv6Address) and guess_interface (t4/t6 = plain tuples, lan4 = *)
(* UDPv4LANAddress, dom = DomainAddress, junk = a tuple whose host is no IP literal)                               *)
Fam(k) == CASE k \in {"c4", "t4", "lan4"} -> "v4"
            [] k \in {"c6", "t6"}         -> "v6"
            [] OTHER                      -> "none"

ZB    == [l \in AllL |-> 0]
ZL    == [l \in Listeners |-> 0]
Z4    == [nu |-> 0, nd |-> 0, bu |-> 0, bd |-> 0]
ZStat == [p \in Prefixes |-> [m \in MsgIds |-> Z4]]
ZI    == [i \in Ifaces |-> 0]
Supp(b) == {l \in AllL : b[l] > 0}
Quiet(a) == [act |-> a, deliv |-> ZL, wire |-> {}, out |-> "ok", tgt |-> "-", p |-> "-", n |-> 0]

Init == /\ ifs = [i \in Ifaces |-> "new"] /\ socks = ZI
        /\ gen = [i \in Ifaces |-> [l \in AllL |-> IF l = S THEN 1 ELSE 0]]   \* StatisticsEndpoint.__init__: add_listener(self)
        /\ pm = [i \in Ifaces |-> [p \in Prefixes |-> [on |-> FALSE, m |-> ZB]]]
        /\ up = ZI /\ down = ZI /\ sentB = ZI /\ rcvdB = ZI
        /\ tracked = {} /\ stat = ZStat /\ exp = ZStat
        /\ reg = [l \in Listeners |-> {}]
        /\ last = Quiet("other")

(* ------------------------------------ listener registry ------------------------------------------- *)
Reach == ~WithStats \/ StatsForwards     \* registration calls arrive at the dispatcher, which fans them out

Add(l) ==
  /\ reg[l] = {}
  /\ reg' = [reg EXCEPT ![l] = {"gen"}]
  /\ IF Reach
     THEN /\ gen' = [i \in Ifaces |-> [gen[i] EXCEPT ![l] = @ + 1]]
          /\ pm' = [i \in Ifaces |-> [p \in Prefixes |->
                      IF pm[i][p].on THEN [pm[i][p] EXCEPT !.m[l] = @ + 1] ELSE pm[i][p]]]
     ELSE UNCHANGED <<gen, pm>>
  /\ last' = Quiet("other")
  /\ UNCHANGED <<ifs, socks, up, down, tracked, stat, sentB, rcvdB, exp>>

AddP(l, p) ==
  /\ "gen" \notin reg[l] /\ p \notin reg[l]
  /\ reg' = [reg EXCEPT ![l] = @ \cup {p}]
  /\ IF Reach
     THEN pm' = [i \in Ifaces |-> [pm[i] EXCEPT ![p] =
                   LET old    == IF pm[i][p].on THEN pm[i][p].m ELSE ZB
                       addgen == DupGeneral \/ ~pm[i][p].on
                   IN [on |-> TRUE,
                       m  |-> [x \in AllL |-> old[x] + (IF x = l THEN 1 ELSE 0) + (IF addgen THEN gen[i][x] ELSE 0)]]]]
     ELSE UNCHANGED pm
  /\ last' = Quiet("other")
  /\ UNCHANGED <<ifs, socks, gen, up, down, tracked, stat, sentB, rcvdB, exp>>

(* remove_listener: every copy goes; a prefix entry whose listeners are just the general ones is dropped *)
Remove(l) ==
  /\ reg' = [reg EXCEPT ![l] = {}]
  /\ IF Reach
     THEN /\ gen' = [i \in Ifaces |-> [gen[i] EXCEPT ![l] = 0]]
          /\ pm' = [i \in Ifaces |-> [p \in Prefixes |->
                      IF ~pm[i][p].on THEN pm[i][p]
                      ELSE LET m2 == [pm[i][p].m EXCEPT ![l] = 0]
                               g2 == [gen[i] EXCEPT ![l] = 0]
                           IN IF Supp(m2) # Supp(g2) THEN [on |-> TRUE, m |-> m2] ELSE [on |-> FALSE, m |-> ZB]]]
     ELSE UNCHANGED <<gen, pm>>
  /\ last' = Quiet("other")
  /\ UNCHANGED <<ifs, socks, up, down, tracked, stat, sentB, rcvdB, exp>>

(* ------------------------------------------ traffic ----------------------------------------------- *)
Bag(i, p)  == IF p \in Prefixes /\ pm[i][p].on THEN pm[i][p].m ELSE gen[i]    \* Endpoint.notify_listeners
Want(l, p) == IF "gen" \in reg[l] \/ p \in reg[l] THEN 1 ELSE 0
IsOpen(i)  == i \in Ifaces /\ ifs[i] = "open"
Counted(p, s) == WithStats /\ p \in tracked /\ s > HdrLen
Settled(f) == [j \in Ifaces |-> IF f[j] = "closing" THEN "closed" ELSE f[j]]
SettledSocks(f, k) == [j \in Ifaces |-> IF f[j] = "closing" THEN k[j] - 1 ELSE k[j]]
StatCalls(i, p) == IF WithStats THEN Bag(i, p)[S] ELSE 0

Recv(i, p, m, s) ==
  /\ (s = HdrLen \/ ~WithStats) => m = MinId            \* the message id matters to the statistics only
  /\ IF ifs[i] = "open"
     THEN /\ down' = [down EXCEPT ![i] = @ + s] /\ rcvdB' = [rcvdB EXCEPT ![i] = @ + s]
          /\ last' = [act |-> "recv", deliv |-> [l \in Listeners |-> Bag(i, p)[l]], wire |-> {}, out |-> "ok",
                      tgt |-> "-", p |-> p, n |-> 1]
          /\ IF Counted(p, s)
             THEN /\ stat' = [stat EXCEPT ![p][m] = [@ EXCEPT !.nd = @ + StatCalls(i, p), !.bd = @ + s * StatCalls(i, p)]]
                  /\ exp'  = [exp  EXCEPT ![p][m] = [@ EXCEPT !.nd = @ + 1, !.bd = @ + s]]
             ELSE UNCHANGED <<stat, exp>>
          /\ ifs' = Settled(ifs) /\ socks' = SettledSocks(ifs, socks)      \* the datagram travels: the loop turns
     ELSE /\ last' = [Quiet("recv") EXCEPT !.p = p]
          /\ UNCHANGED <<down, rcvdB, stat, exp, ifs, socks>>
  /\ UNCHANGED <<gen, pm, up, tracked, reg, sentB>>

OpenSet == {i \in Ifaces : ifs[i] = "open"}
SumOpen(f(_)) == (IF IsOpen("v4") THEN f("v4") ELSE 0) + (IF IsOpen("v6") THEN f("v6") ELSE 0)

Notify(p, m, s) ==
  /\ (s = HdrLen \/ ~WithStats) => m = MinId
  /\ LET n  == Cardinality(OpenSet)
         sc == IF Reach THEN SumOpen(LAMBDA i : StatCalls(i, p)) ELSE 0
     IN /\ last' = [act |-> "notify", wire |-> {}, out |-> "ok", tgt |-> "-", p |-> p, n |-> n,
                    deliv |-> [l \in Listeners |-> IF Reach THEN SumOpen(LAMBDA i : Bag(i, p)[l]) ELSE 0]]
        /\ IF Counted(p, s) /\ n > 0
           THEN /\ stat' = [stat EXCEPT ![p][m] = [@ EXCEPT !.nd = @ + sc, !.bd = @ + s * sc]]
                /\ exp'  = [exp  EXCEPT ![p][m] = [@ EXCEPT !.nd = @ + n, !.bd = @ + s * n]]
           ELSE UNCHANGED <<stat, exp>>
  /\ UNCHANGED <<ifs, socks, gen, pm, up, down, tracked, reg, sentB, rcvdB>>

Send(k, x, p, m, s) ==
  /\ s = HdrLen => m = MinId
  /\ ~WithStats => (m = MinId /\ p = NoPfx)             \* ... and so does the prefix of an outgoing packet
  /\ x \in (IF Explicit THEN Ifaces \cup {"auto"} ELSE {"auto"})
  /\ LET tgt == IF x # "auto" THEN x ELSE Fam(k)
         qo  == IF ClosedSendRaises THEN "raise" ELSE "dropped"
         out == IF tgt \notin Ifaces THEN "dropped"
                ELSE CASE ifs[tgt] = "new"     -> "raise"
                       [] ifs[tgt] = "open"    -> "sent"
                       [] ifs[tgt] = "closing" -> IF SendWhileClosing THEN "sent" ELSE qo
                       [] ifs[tgt] = "closed"  -> qo
     IN /\ IF out = "sent"
           THEN up' = [up EXCEPT ![tgt] = @ + s] /\ sentB' = [sentB EXCEPT ![tgt] = @ + s]
           ELSE UNCHANGED <<up, sentB>>
        /\ IF Counted(p, s) /\ out # "raise"
           THEN /\ stat' = [stat EXCEPT ![p][m] = [@ EXCEPT !.nu = @ + 1, !.bu = @ + s]]
                /\ exp'  = [exp  EXCEPT ![p][m] = [@ EXCEPT !.nu = @ + 1, !.bu = @ + s]]
           ELSE UNCHANGED <<stat, exp>>
        /\ last' = [act |-> "send", deliv |-> ZL, wire |-> IF out = "sent" THEN {tgt} ELSE {}, out |-> out,
                    tgt |-> tgt, p |-> p, n |-> 0]
  /\ UNCHANGED <<ifs, socks, gen, pm, down, tracked, reg, rcvdB>>

(* ----------------------------------------- life cycle --------------------------------------------- *)
(* open() is a coroutine that waits for the loop when it has to make a transport: the loop turns       *)
OpenOne(f, k, i) == <<[Settled(f) EXCEPT ![i] = "open"],
                      [SettledSocks(f, k) EXCEPT ![i] = IF f[i] = "open" THEN @ ELSE @ + 1]>>
RECURSIVE OpenAll(_, _, _)
OpenAll(f, k, todo) == IF todo = {} THEN <<f, k>>
                       ELSE LET i == CHOOSE j \in todo : TRUE
                                r == OpenOne(f, k, i)
                            IN OpenAll(r[1], r[2], todo \ {i})
CloseOne(f, k, i) == IF f[i] # "open" THEN <<f, k>>
                     ELSE IF Closing THEN <<[f EXCEPT ![i] = "closing"], k>>
                     ELSE <<[f EXCEPT ![i] = "closed"], [k EXCEPT ![i] = @ - 1]>>

DOpen ==
  /\ LET r == OpenAll(ifs, socks, Ifaces) IN ifs' = r[1] /\ socks' = r[2]
  /\ last' = Quiet("other")
  /\ UNCHANGED <<gen, pm, up, down, tracked, stat, reg, sentB, rcvdB, exp>>

IOpen(i) ==
  /\ LET r == OpenOne(ifs, socks, i) IN ifs' = r[1] /\ socks' = r[2]
  /\ last' = Quiet("other")
  /\ UNCHANGED <<gen, pm, up, down, tracked, stat, reg, sentB, rcvdB, exp>>

DClose ==
  /\ ifs' = [i \in Ifaces |-> CloseOne(ifs, socks, i)[1][i]]
  /\ socks' = [i \in Ifaces |-> CloseOne(ifs, socks, i)[2][i]]
  /\ last' = Quiet("other")
  /\ UNCHANGED <<gen, pm, up, down, tracked, stat, reg, sentB, rcvdB, exp>>

IClose(i) ==
  /\ LET r == CloseOne(ifs, socks, i) IN ifs' = r[1] /\ socks' = r[2]
  /\ last' = Quiet("other")
  /\ UNCHANGED <<gen, pm, up, down, tracked, stat, reg, sentB, rcvdB, exp>>

Settle ==
  /\ \E i \in Ifaces : ifs[i] = "closing"
  /\ ifs' = Settled(ifs) /\ socks' = SettledSocks(ifs, socks)
  /\ last' = Quiet("other")
  /\ UNCHANGED <<gen, pm, up, down, tracked, stat, reg, sentB, rcvdB, exp>>

ErrorCb(i) ==
  /\ last' = Quiet("error")
  /\ UNCHANGED <<ifs, socks, gen, pm, up, down, tracked, stat, reg, sentB, rcvdB, exp>>

Reset ==
  /\ up' = ZI /\ down' = ZI /\ sentB' = ZI /\ rcvdB' = ZI
  /\ last' = Quiet("reset")
  /\ UNCHANGED <<ifs, socks, gen, pm, tracked, stat, reg, exp>>

Enable(p, b) ==
  /\ WithStats
  /\ IF b THEN /\ tracked' = tracked \cup {p}
               /\ UNCHANGED <<stat, exp>>
     ELSE /\ tracked' = tracked \ {p}
          /\ stat' = [stat EXCEPT ![p] = [m \in MsgIds |-> Z4]]
          /\ exp'  = [exp  EXCEPT ![p] = [m \in MsgIds |-> Z4]]
  /\ last' = Quiet("other")
  /\ UNCHANGED <<ifs, socks, gen, pm, up, down, reg, sentB, rcvdB>>

Next == \/ \E l \in Listeners : Add(l)
        \/ \E l \in Listeners, p \in Prefixes : AddP(l, p)
        \/ \E l \in Listeners : Remove(l)
        \/ \E i \in Ifaces, p \in Pfx, m \in MsgIds, s \in Sizes : Recv(i, p, m, s)
        \/ \E p \in Pfx, m \in MsgIds, s \in Sizes : Notify(p, m, s)
        \/ \E k \in AddrKinds, x \in Ifaces \cup {"auto"}, p \in Pfx, m \in MsgIds, s \in Sizes : Send(k, x, p, m, s)
        \/ DOpen \/ DClose \/ Settle \/ Reset
        \/ \E i \in Ifaces : IOpen(i)
        \/ \E i \in Ifaces : IClose(i)
        \/ \E i \in Ifaces : ErrorCb(i)
        \/ \E p \in Prefixes, b \in BOOLEAN : Enable(p, b)

Spec == Init /\ [][Next]_vars

Bound == /\ \A i \in Ifaces : up[i] <= MaxBytes /\ down[i] <= MaxBytes
         /\ \A p \in Prefixes, m \in MsgIds : exp[p][m].nu + exp[p][m].nd <= MaxMsgs

(* --------------------------------------- properties ----------------------------------------------- *)
States == {"new", "open", "closing", "closed"}
TypeOK == /\ ifs \in [Ifaces -> States]
          /\ \A i \in Ifaces : (ifs[i] = "closing" => Closing)
          /\ tracked \subseteq Prefixes
          /\ \A l \in Listeners : reg[l] \subseteq Prefixes \cup {"gen"}
          /\ \A l \in Listeners : "gen" \in reg[l] => reg[l] = {"gen"}

SendRouting == last.act = "send" =>
                 /\ Cardinality(last.wire) <= 1
                 /\ last.wire \subseteq {last.tgt} \cap OpenSet
                 /\ (IsOpen(last.tgt) => last.wire = {last.tgt} /\ last.out = "sent")
                 /\ (last.tgt \in Ifaces /\ ifs[last.tgt] = "new" => last.out = "raise")

NotifyOnce == last.act \in {"recv", "notify"} =>
                 \A l \in Listeners : last.deliv[l] = last.n * Want(l, last.p)

FanOut == \A i \in Ifaces :
            /\ \A l \in Listeners : gen[i][l] = (IF "gen" \in reg[l] THEN 1 ELSE 0)
            /\ \A p \in Prefixes :
                 /\ pm[i][p].on = (\E l \in Listeners : p \in reg[l])
                 /\ pm[i][p].on => \A l \in Listeners : pm[i][p].m[l] = Want(l, p)
                 /\ pm[i][p].on /\ WithStats => pm[i][p].m[S] = 1
            /\ WithStats => gen[i][S] = 1

CountersExact == \A i \in Ifaces : up[i] = sentB[i] /\ down[i] = rcvdB[i]

StatsExact == /\ stat = exp
              /\ \A p \in Prefixes \ tracked : stat[p] = [m \in MsgIds |-> Z4]

NoLeak == \A i \in Ifaces : socks[i] = (IF ifs[i] \in {"open", "closing"} THEN 1 ELSE 0)

Monotone == [][(\A i \in Ifaces : up'[i] >= up[i] /\ down'[i] >= down[i]) \/ last'.act = "reset"]_vars

(* what EndpointListener.my_estimated_lan has to answer (read by the driver, not a state variable):     *)
(* the null address while the endpoint it listens on is closed                                          *)
LanIsNull == OpenSet = {}
=============================================================================
