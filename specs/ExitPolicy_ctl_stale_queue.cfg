\* negative control: a packet that waited (for its name / for the transports) keeps the verdict taken when it arrived
SPECIFICATION Spec
CONSTANTS QCap = 2 MaxPend = 1 MaxOps = 5
          NoInboundFilter = FALSE NoNullCheck = FALSE AnyoneOpens = FALSE
          RepIds = {1, 7}
          TrackHistory = FALSE FlowCache = "none" HostIps = {"x"} HostPorts = {1}
          StaleVerdict = "queue" HopFollowsPeer = FALSE VerdictMemo = "none"
          FlagChoices = {{}, {"BT"}} SignedSrcs = {}
          SrcSet = {"prev"} DkSet = {"v4", "dom4"}
INVARIANT EmitOnlyAllowed
