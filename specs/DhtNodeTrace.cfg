SPECIFICATION TraceSpec
CONSTANTS Interval = 5000000 Limit = 10 PingInterval = 25000000 PingTimeout = 5000000 FindTimeout = 2000000
          GoodWindow = 900000000 MaxFail = 2 MaxOut = 3
          WithQuery = TRUE WithPing = FALSE WithLookup = FALSE ChurnEveryTick = FALSE
          CtlCountRefused = FALSE CtlNotAdmitted = FALSE CtlNoReset = FALSE CtlNoRemove = FALSE
CONSTANT Jumps <- AnyJump
INVARIANT TraceAccepted
INVARIANT InvWindow
INVARIANT InvRefuse
