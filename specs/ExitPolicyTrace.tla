-------------------------- MODULE ExitPolicyTrace --------------------------
(***************************************************************************)
(* C06, binding T: executions of a real exit node (TunnelCommunity +       *)
(* TunnelExitSocket with recording outside transports, harness/drivers/    *)
(* c06.py) checked against ExitPolicy.tla.  Packets are logged by the      *)
(* bytes a classifier may look at (head, length, last byte); this module   *)
(* classifies them itself with the operators of ExitClassifier.            *)
(*                                                                         *)
(* Two verdicts:                                                           *)
(*  TraceSpec / TraceAccepted : every logged event is exactly the step of  *)
(*     ExitPolicy.tla (socket state, waiting queue, pending resolutions,   *)
(*     emissions, packets sent back into the tunnel).                      *)
(*  ObsSpec / ObsOK : only what the property demands, evaluated on the     *)
(*     logged observations alone (used to tell a property violation from a *)
(*     harmless difference between model and code, e.g. a stricter filter).*)
(***************************************************************************)
EXTENDS ExitPolicy, Json, IOUtils, TLCExt

Traces == JsonDeserialize(IOEnv.TRACE_FILE)

VARIABLES tid, l
tvars == <<vars, tid, l>>

Tr == Traces[tid]
Ev == Tr.events
Rng(s) == {s[i] : i \in DOMAIN s}

(* logged addresses are JSON objects {"ip": ..., "port": ...}: the records Addr(ip, port) of ExitPolicy *)
ObsPk(s) == [i \in 1..Len(s) |-> [p |-> Mk(s[i].p), dk |-> s[i].dk, a |-> s[i].a]]
ObsTun(s) == [i \in 1..Len(s) |-> [p |-> Mk(s[i].p), fam |-> s[i].fam, a |-> s[i].a]]

TraceInit == /\ tid \in 1..Len(Traces) /\ l = 1
             /\ flags = Rng(Tr.flags) /\ prefix = Tr.prefix
             /\ st = "disabled" /\ queue = <<>> /\ pend = <<>> /\ emit = <<>> /\ tun = <<>>
             /\ opener = "none" /\ ops = 0
             /\ asked = {} /\ sentTo = {} /\ heard = {} /\ judged = {}
             /\ cfgs = {flags} /\ seen = "prev"

(* data: a = destination written into the DATA cell; res: rip = the address the harness' resolver answers;        *)
(* out: a = source address of the datagram handed to the socket's protocol; flags: fl = the flag set written to    *)
(* settings.peer_flags; signed: src = where a validly signed overlay message made by the previous hop node (kind:  *)
(* introduction request, puncture, destroy of an unknown circuit) was delivered from                               *)
Step(e) == CASE e.k = "data" -> DataFromTunnel(e.src, e.dk, e.a, Mk(e.p))
             [] e.k = "tr" -> TransportReady
             [] e.k = "res" -> ResolveDone(e.i, e.rip)
             [] e.k = "out" -> OutsideDatagram(e.fam, e.a, Mk(e.p))
             [] e.k = "close" -> Close
             [] e.k = "flags" -> SetFlags(Rng(e.fl))
             [] e.k = "signed" -> SignedMessage(e.src)

TraceNext == /\ l <= Len(Ev)
             /\ LET e == Ev[l] IN
                  /\ Step(e)
                  /\ st' = e.st
                  /\ queue' = ObsPk(e.q)
                  /\ Len(pend') = e.np
                  /\ emit' = ObsPk(e.emit)
                  /\ tun' = ObsTun(e.tun)
             /\ l' = l + 1 /\ UNCHANGED tid

TraceSpec == TraceInit /\ [][TraceNext]_tvars

(* total verdict: a trace is rejected exactly when some logged event is not an enabled spec step *)
TraceAccepted == l <= Len(Ev) => ENABLED TraceNext

-----------------------------------------------------------------------------
(* The property on the observations alone.  Nothing in it depends on which outside address a packet is for or    *)
(* from, nor on what the socket did with that address earlier: the traces contain datagrams from addresses the    *)
(* socket sent allowed packets to / was asked to send to / accepted datagrams from, and data towards them.        *)

(* `flags` follows the logged reconfigurations: every observation is judged by the flags configured when it was made *)
ObsNext == /\ l <= Len(Ev) /\ l' = l + 1
           /\ flags' = IF Ev[l].k = "flags" THEN Rng(Ev[l].fl) ELSE flags
           /\ cfgs' = cfgs \cup {flags'}
           /\ UNCHANGED <<prefix, st, queue, pend, emit, tun, opener, ops, asked, sentTo, heard, seen, judged, tid>>
ObsSpec == TraceInit /\ [][ObsNext]_tvars

Opened(s) == s \in {"enabling0", "enabling4", "ready"}
StBefore == IF l = 1 THEN "disabled" ELSE Ev[l - 1].st

ObsOK == l <= Len(Ev) =>
           LET e == Ev[l] IN
             \* whatever reaches the outside passes the policy and does not go to 0.0.0.0:0
             /\ \A i \in 1..Len(e.emit) : Allowed(flags, Mk(e.emit[i].p), prefix) /\ e.emit[i].dk # "null"
             \* whatever comes back from outside into the tunnel passes the same policy
             /\ \A i \in 1..Len(e.tun) : Allowed(flags, Mk(e.tun[i].p), prefix)
             \* the socket is opened only by tunnel data from the previous hop's IP address (src is where the driver
             \* delivered the cell from, relative to the node the circuit was built through) ...
             /\ (~Opened(StBefore) /\ Opened(e.st)) => (e.k = "data" /\ e.src # "other" /\ StBefore = "disabled")
             \* ... and nothing leaves through a socket that was never opened
             /\ (e.emit # <<>>) => Opened(e.st)
=============================================================================
