SPECIFICATION Spec
CONSTANTS BitSpace = 4 Honest = TRUE Window = 1 MaxRounds = 2 MaxHon = 0 MaxDup = 0 CreditBy = "object"
INVARIANT TypeOK
INVARIANT SubProfile
INVARIANT AggIsAnswers
INVARIANT Reconstructs
INVARIANT ResultIsProfile
INVARIANT Scores
