\* replayed graph: node 1 requests from honest 2; adversarial node 3 sends chunks (junk, own blob)
SPECIFICATION SpecL
CONSTANTS
 Nodes = {1, 2, 3} Adv = {3} Requesters = {1} Verifiers = {}
 Values <- Vals1 NChunks = 2 Window = 10 Pre <- PreAdv
 MaxReq = 1 MaxVer = 0 MaxHon = 0 MaxDup = 0 MaxDrop = 0 MaxAdv = 2 MaxTimeouts = 1 MaxTicks = 0
 AdvKinds = {"junk", "data", "resp", "chal"} AdvResps = {0, 1, 2, 3}
 TickSteps = {}
 OnceOnly = TRUE CheckPeer = TRUE CheckHash = TRUE AskConsent = TRUE
INVARIANT StoredIntact
INVARIANT ChunkIsolation
INVARIANT VerifyOnce
INVARIANT ResultConsistent
INVARIANT ConsentGiven
INVARIANT CachesSane
