SPECIFICATION Spec
CONSTANTS QCap = 3 MaxPend = 2 MaxOps = 7
          NoInboundFilter = FALSE NoNullCheck = FALSE AnyoneOpens = FALSE
          RepIds = {1, 5, 7}
INVARIANT TypeOK
INVARIANT EmitOnlyAllowed
INVARIANT NeverToNull
INVARIANT OpenedOnlyByPrevHop
INVARIANT EmitOnlyWhenOpen
INVARIANT QueueClean
