\* OBSERVATION (expected to be violated, not a demanded property): the owner answers only peers it allowed
SPECIFICATION Spec
CONSTANTS
 Nodes = {1, 2, 3} Adv = {3} Requesters = {} Verifiers = {1}
 Values <- Vals1 NChunks = 2 Window = 10 Pre <- PreAdv
 MaxReq = 0 MaxVer = 1 MaxHon = 1 MaxDup = 0 MaxDrop = 0 MaxAdv = 4 MaxTimeouts = 1 MaxTicks = 0
 AdvKinds = {"junk", "data", "resp", "chal"} AdvResps = {1, 3}
 TickSteps = {}
 OnceOnly = TRUE CheckPeer = TRUE CheckHash = TRUE AskConsent = TRUE
INVARIANT StoredIntact
INVARIANT ChunkIsolation
INVARIANT VerifyOnce
INVARIANT ResultConsistent
INVARIANT ConsentGiven
INVARIANT StrictConsent
INVARIANT CachesSane
PROPERTY DbAppendOnly
