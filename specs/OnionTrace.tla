----------------------------- MODULE OnionTrace -----------------------------
(* Executions of real TunnelCommunity nodes recorded by harness/onion.py, validated against Onion.tla:     *)
(* every logged step must be the named spec action with the logged arguments, and the tables, caches,      *)
(* in-flight datagrams and delivery logs projected from the real objects must equal the spec's next state. *)
(* All invariants / action properties of Onion.tla are evaluated on the validated behaviour.               *)
EXTENDS Onion, Json, IOUtils, TLCExt

File == JsonDeserialize(IOEnv.TRACE_FILE)
Traces == File.traces
Hdr == File.hdr

FlagsT == [n \in Node |-> Range(Hdr.flags[n])]
CandsT == [n \in Node |-> [relays |-> Hdr.cands[n].relays, exits |-> Hdr.cands[n].exits]]
FirstT == [n \in Node |-> Hdr.first[n]]
RankT == [n \in Node |-> 0]

VARIABLES tid, l
tvars == <<vars, tid, l>>
Ev == Traces[tid].events

(* ---- the projection of the spec's NEXT state, in the shape harness/onion.py logs it ---- *)
PCirc(n, cmpact) == {[cid |-> c, goal |-> circ'[n][c].goal, hops |-> HopPeers(circ'[n][c]), unv |-> circ'[n][c].unv.peer,
              via |-> FirstHopAddr(circ'[n][c]),      \* the address cells of this circuit are sent to / accepted from
              \* last activity (what the inactivity sweep goes by); not compared while the circuit has no hop: a cell for it
              \* carries no layer that could be checked, the code counts it as activity (the sweep ignores such circuits)
              \* (compared only in the scripted scenarios that ask for it: the random families reach corners of the
              \* heart-beat bookkeeping that the specification does not follow to the millisecond)
              act |-> IF circ'[n][c].hops = <<>> \/ ~cmpact THEN 0 ELSE circ'[n][c].act,
              closing |-> circ'[n][c].closing, early |-> circ'[n][c].early, ctype |-> circ'[n][c].ctype,
              hs |-> circ'[n][c].hs # NoKey] : c \in DOMAIN circ'[n]}
PRelay(n) == {[cid |-> c, to |-> relay'[n][c].to, next |-> relay'[n][c].next, dir |-> relay'[n][c].dir,
               early |-> relay'[n][c].early, rdv |-> relay'[n][c].rdv] : c \in DOMAIN relay'[n]}
PExit(n) == {[cid |-> c, prev |-> exit'[n][c].prev, pk |-> exit'[n][c].pk, enabled |-> exit'[n][c].enabled,
              open |-> exit'[n][c].open, queued |-> Len(exit'[n][c].q)] : c \in DOMAIN exit'[n]}
PRetry(n) == {[cid |-> c, ident |-> retryC'[n][c].ident, tries |-> retryC'[n][c].tries, alts |-> retryC'[n][c].alts,
               kind |-> retryC'[n][c].kind] : c \in DOMAIN retryC'[n]}
PCreate(n) == {[ident |-> i, to |-> createC'[n][i].to, from |-> createC'[n][i].from, peer |-> createC'[n][i].peer,
                toPeer |-> createC'[n][i].toPeer] : i \in DOMAIN createC'[n]}
\* layers that authenticate, counted from the outside (what the harness measures on the real bytes)
RECURSIVE VDepth(_)
VDepth(L) == IF L = <<>> \/ ~Head(L).ok \/ Head(L).k = AdvKey THEN 0 ELSE 1 + VDepth(Tail(L))
PNet == {IF d.t = "cell" THEN [id |-> d.id, src |-> d.src, dst |-> d.dst, t |-> "cell", cid |-> d.cid, plain |-> d.plain,
                               early |-> d.early, depth |-> VDepth(d.L)]
         ELSE [id |-> d.id, src |-> d.src, dst |-> d.dst, t |-> "destroy", cid |-> d.cid, signer |-> d.signer] : d \in net'}
LNet(p) == {IF d.t = "cell" THEN [id |-> d.id, src |-> d.src, dst |-> d.dst, t |-> "cell", cid |-> d.cid, plain |-> d.plain,
                                  early |-> d.early, depth |-> d.depth]
            ELSE IF d.t = "destroy" THEN [id |-> d.id, src |-> d.src, dst |-> d.dst, t |-> "destroy", cid |-> d.cid,
                                          signer |-> d.signer]
            ELSE d : d \in Range(p.net)}

PostOK(p) ==
  /\ \A n \in Node :
       /\ PCirc(n, "cmpact" \in DOMAIN p /\ p.cmpact) = Range(p.circ[n])
       /\ PRelay(n) = Range(p.relay[n])
       /\ PExit(n) = Range(p.exit[n])
       /\ PRetry(n) = Range(p.retryC[n])
       /\ DOMAIN createdC'[n] = Range(p.createdC[n])
       /\ PCreate(n) = Range(p.createC[n])
       /\ DOMAIN pingC'[n] \ hist'.tests = Range(p.pingC[n])
       /\ DOMAIN pingC'[n] \cap hist'.tests = Range(p.testC[n])
       \* every outside socket the node ever opened and has not closed belongs to a live exit entry
       \* (an open exit entry owns two outside sockets, or one while the second is still being opened - Transport4Ready)
       /\ p.transports_open[n] <= 2 * Cardinality({c \in DOMAIN exit'[n] : exit'[n][c].open})
       /\ p.transports_open[n] >= Cardinality({c \in DOMAIN exit'[n] : exit'[n][c].open})
  /\ PNet = LNet(p)
  /\ hist'.exitLog = Range(p.exitLog)
  /\ hist'.origLog = Range(p.origLog)

Step(e) ==
  CASE e.a = "CreateCircuit" -> CreateCircuit(e.o, e.goal, e.first, e.alts)
    [] e.a = "SendData"      -> SendData(e.o, e.cid, "outside")
    [] e.a = "RemoveCircuit" -> RemoveCircuit(e.o, e.cid, e.destroy)
    [] e.a = "ExitReturn"    -> ExitReturn(e.x, e.cid, e.p)
    [] e.a = "LinkE2E"       -> LinkE2E(e.rp, e.c1, e.c2, e.o1, e.k1, e.o2, e.k2)
    [] e.a = "SendE2E"       -> SendE2E(e.o, e.cid)
    [] e.a = "SendTest"      -> SendTest(e.o, e.cid)
    [] e.a = "RPForge"       -> RPForge(e.rp, e.cid)
    [] e.a = "RPReflect"     -> \E d \in net : d.id = e.id /\ RPReflect(e.rp, d)
    [] e.a = "OutsideNested" -> OutsideNested(e.x, e.cid, e.target)
    [] e.a = "TransportsReady" -> TransportsReady(e.n, e.cid)
    [] e.a = "Transport4Ready" -> Transport4Ready(e.n, e.cid)
    [] e.a = "Deliver"       -> \E d \in net : d.id = e.id /\ Deliver(d)
    [] e.a = "Lose"          -> \E d \in net : d.id = e.id /\ Lose(d)
    [] e.a = "Dup"           -> \E d \in net : d.id = e.id /\ Dup(d)
    [] e.a = "Tick"          -> Tick(e.t)
    [] e.a = "Sweep"         -> Sweep(e.n)
    [] e.a = "DoPing"        -> DoPing(e.n)
    [] e.a = "PendPop"       -> LET M == {q \in pend : q.n = e.n /\ q.kind = e.kind /\ q.cid = e.cid /\ q.due <= now} IN
                                  \* the oldest matching sleeper wakes first (keeps the trace spec deterministic)
                                  M # {} /\ PendPop(CHOOSE q \in M : \A q2 \in M : q.k <= q2.k)
    [] e.a = "JoinResume"    -> \E q \in pend : q.kind = "join" /\ q.n = e.n /\ q.cid = e.cid /\ q.k = e.k /\ JoinResume(q)
    [] e.a = "RetryTimeout"  -> RetryTimeout(e.n, e.cid)
    [] e.a = "CacheTimeout"  -> CacheTimeout(e.n, e.kind, e.k)
    [] e.a = "Tamper"        -> \E d \in net : d.id = e.id /\ Tamper(d)
    [] e.a = "TamperHeader"  -> \E d \in net : d.id = e.id /\ TamperHeader(d, e.what)
    [] e.a = "Splice"        -> \E d \in net : d.id = e.id /\ Splice(d, e.cid)
    [] e.a = "Inject"        -> Inject(e.src, e.dst, e.cid, e.mt)
    [] e.a = "AdvCreate"     -> AdvCreate(e.src, e.dst, e.cid)
    [] e.a = "AdvPlain"      -> AdvPlain(e.src, e.dst, e.cid, e.mt)
    [] e.a = "ForgeDestroy"  -> ForgeDestroy(e.src, e.dst, e.cid, e.signer)
    [] e.a = "MangleAnswer"  -> \E d \in net : d.id = e.id /\ MangleAnswer(d, e.how, e.cid)
    [] e.a = "Vanish"        -> Vanish(e.n)
    [] e.a = "NodeRemoveRelay" -> NodeRemoveRelay(e.n, e.cid)
    [] e.a = "NodeRemoveExit"  -> NodeRemoveExit(e.n, e.cid)
    [] e.a = "ExpectQuietOthers" -> (\A n \in Node \ {e.n} : circ[n] = EmptyF /\ relay[n] = EmptyF /\ exit[n] = EmptyF
                                                          /\ e.post.transports_open[n] = 0)
                                /\ UNCHANGED <<circ, relay, exit, retryC, createdC, createC, pingC, pend, net, ctr, now,
                                               sweepAt, pingAt, hist, budget>>
    [] e.a = "ExpectQuiet"   -> Quiet /\ (\A n \in Node : e.post.transports_open[n] = 0)
                                /\ UNCHANGED <<circ, relay, exit, retryC, createdC, createC, pingC, pend, net, ctr, now,
                                               sweepAt, pingAt, hist, budget>>
    [] e.a = "Noop"          -> UNCHANGED <<circ, relay, exit, retryC, createdC, createC, pingC, pend, net, ctr, now,
                                             sweepAt, pingAt, hist, budget>>
    [] OTHER                 -> FALSE

TraceInit == Init /\ tid \in 1..Len(Traces) /\ l = 1

TraceNext ==
  /\ l <= Len(Ev)
  /\ Step(Ev[l])
  /\ (Ev[l].a # "Vanish" => gone' = gone)
  /\ Tail2
  /\ ("nocheck" \in DOMAIN Ev[l]) \/ PostOK(Ev[l].post)
  /\ l' = l + 1 /\ UNCHANGED tid

TraceSpec == TraceInit /\ [][TraceNext]_tvars

(* total verdict: the trace is a behaviour of Onion.tla iff every logged step is enabled *)
TraceAccepted == l <= Len(Ev) => ENABLED TraceNext
\* debugging aid: a trace whose last event is marked "nocheck" stops here and prints the spec's state after it
DebugStop == ~(l = Len(Ev) + 1 /\ Len(Ev) > 0 /\ "nocheck" \in DOMAIN Ev[Len(Ev)])
=============================================================================
