\* history: outside addresses x and y; packets foreign-IPv8 / own / junk; tunnel data only from the previous hop;
\* what an address did / was sent before never changes the verdict on its next packet
SPECIFICATION Spec
CONSTANTS QCap = 2 MaxPend = 1 MaxOps = 6
          NoInboundFilter = FALSE NoNullCheck = FALSE AnyoneOpens = FALSE
          RepIds = {4, 5, 7}
          TrackHistory = TRUE FlowCache = "none" HostIps = {"x", "y"} HostPorts = {1}
          StaleVerdict = "none" HopFollowsPeer = FALSE VerdictMemo = "none" FlagChoices = {} SignedSrcs = {}
          SrcSet = {"prev"} DkSet = {"v4", "v6", "dom4"}
INVARIANT TypeOK
INVARIANT EmitOnlyAllowed
INVARIANT NeverToNull
INVARIANT OpenedOnlyByPrevHop
INVARIANT EmitOnlyWhenOpen
INVARIANT QueueClean
INVARIANT VerdictByOwnShape
