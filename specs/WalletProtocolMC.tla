--------------------------- MODULE WalletProtocolMC ---------------------------
(* constant definitions for the model-checking configurations of WalletProtocol.tla *)
EXTENDS WalletProtocol
NoPre     == <<>>
(* node 2 owns attestation 1 (made by node 2's attester, node 2 itself here), two bit-pairs *)
PreOwn2   == <<[owner |-> 2, by |-> 2, ans |-> <<1, 2>>]>>
PreOwn4   == <<[owner |-> 2, by |-> 2, ans |-> <<1, 2, 0, 1>>]>>
PreOwn2x3 == <<[owner |-> 2, by |-> 2, ans |-> <<1, 2, 0>>]>>
(* the adversary (node 3) owns an attestation it made itself *)
PreAdv    == <<[owner |-> 2, by |-> 2, ans |-> <<1, 2>>], [owner |-> 3, by |-> 3, ans |-> <<1, 1>>]>>
PreAdvOnly == <<[owner |-> 3, by |-> 3, ans |-> <<1, 1>>]>>
Vals1     == {<<1, 2>>}
Vals2     == {<<1, 2>>, <<0, 0>>}
(* simulation of the challenge window: 12 bit-pairs > Window = 10 *)
PreOwn12  == <<[owner |-> 2, by |-> 2, ans |-> <<1, 2, 0, 1, 1, 2, 0, 0, 1, 2, 1, 0>>]>>

=============================================================================
