--------------------------- MODULE ExitClassifier ---------------------------
(***************************************************************************)
(* C06, pure part: the traffic classifier of an exit node and the exit     *)
(* policy predicate over packets d \in Seq(0..255), written from the       *)
(* documented rules (BEP 29 uTP header, BEP 15 UDP tracker action word,    *)
(* bencoded dictionary for the DHT, IPv8 prefix 00 01|02 <20 byte id>).    *)
(* Used by ExitPolicy.tla (state machine of one exit socket),              *)
(* ExitPolicyEnum.tla (enumeration of expected classifications) and        *)
(* ExitPolicyTrace.tla (validation of recorded executions).                *)
(***************************************************************************)
EXTENDS Naturals, Sequences

(* Bytes are numbered from 1 (d[1] is the first byte). *)

Hi(b) == b \div 16
Lo(b) == b % 16

(* uTP (BEP 29): header of 20 bytes; type 0..4 in the high nibble and version 1 in the low nibble of  *)
(* the first byte; extension 0..3 in the second byte.                                                 *)
CouldBeUtp(d) == /\ Len(d) >= 20
                 /\ Hi(d[1]) \in 0..4
                 /\ Lo(d[1]) = 1
                 /\ d[2] \in 0..3

(* UDP tracker (BEP 15): the 32 bit big-endian action field is 0..3 and sits at offset 0 (responses,  *)
(* at least action + transaction id = 8 bytes) or at offset 8 (requests: after the connection id).    *)
(* TLC integers are 32 bit signed, so "the word is in 0..3" is written byte-wise.                      *)
ActionAt(d, off) == /\ d[off + 1] = 0 /\ d[off + 2] = 0 /\ d[off + 3] = 0
                    /\ d[off + 4] \in 0..3
CouldBeTracker(d) == \/ Len(d) >= 8 /\ ActionAt(d, 0)
                     \/ Len(d) >= 12 /\ ActionAt(d, 8)

(* DHT: a bencoded dictionary "d" ... "e" of more than one byte. *)
CouldBeDht(d) == Len(d) > 1 /\ d[1] = 100 /\ d[Len(d)] = 101

CouldBeBt(d) == CouldBeUtp(d) \/ CouldBeTracker(d) \/ CouldBeDht(d)

(* IPv8: 22 byte prefix (00, version 01|02, 20 byte community id) followed by at least a message id. *)
CouldBeIpv8(d) == Len(d) >= 23 /\ d[1] = 0 /\ d[2] \in {1, 2}

BelongsTo(d, pfx) == Len(d) >= 22 /\ SubSeq(d, 1, 22) = pfx

(* The exit policy: flags \subseteq {"BT", "IPV8", "RELAY"}; pfx = prefix of the tunnel overlay itself. *)
(* bt, ipv8, own: the packet is BitTorrent-shaped, IPv8-shaped, carries the prefix of the tunnel overlay itself *)
AllowedClass(fl, bt, ipv8, own) == \/ bt /\ "BT" \in fl
                                   \/ ipv8 /\ "IPV8" \in fl
                                   \/ ipv8 /\ own
Allowed(fl, d, pfx) == AllowedClass(fl, CouldBeBt(d), CouldBeIpv8(d), BelongsTo(d, pfx))

(* A packet given by the bytes the classifier can look at: head h, length n, last byte z; everything  *)
(* in between is the filler 170.  Used by the enumeration and by the trace specification.             *)
MkF(v) == [i \in 1..v.n |-> IF i <= Len(v.h) THEN v.h[i] ELSE IF i = v.n THEN v.z ELSE 170]
Mk(v) == SubSeq(MkF(v), 1, v.n)   \* (as an explicit tuple)

(* ... and back: the bytes of d a classifier rule can look at.  Every rule above reads offsets < 22, the length  *)
(* and the last byte only, so d and Mk(ViewOf(d)) are in the same classes.                                       *)
ViewOf(d) == [h |-> SubSeq(d, 1, IF Len(d) < 22 THEN Len(d) ELSE 22), n |-> Len(d),
              z |-> IF Len(d) = 0 THEN 0 ELSE d[Len(d)]]

=============================================================================
