\* negative control: should_sign without the subject-key comparison
SPECIFICATION MCSpec
CONSTANTS AlreadyChecked = TRUE PkPerAuthority = TRUE CheckSubject = FALSE CheckPermission = TRUE CommitBeforeSend = TRUE Window = 300 RespCap = 10 FitAll = 8
  Regs = {1, 2} Senders = {1, 2} TokIdx = {4} MdIdx = {2, 6, 7, 11} AttIdx = {1} MissIdx = {1}
  Ticks = {} OwnerPeers = {} KnownVals = {} AttSend = {} RegFirst = TRUE FaultTabs = {}
  MaxReg = 2 MaxMsg = 2 MaxTick = 0 MaxOwn = 0 MaxFault = 0
INVARIANT SignsOnlyConsented
