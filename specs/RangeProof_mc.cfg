SPECIFICATION Spec
CONSTANTS MaxV = 4 Below = 2 WidthOnly = FALSE
INVARIANT TypeOK
INVARIANT BuildableIffInside
INVARIANT InsideBuilds
INVARIANT InsideAccepted
INVARIANT OutsideNeverAccepted
