SPECIFICATION Spec
CONSTANTS MaxV = 4
INVARIANT TypeOK
INVARIANT BuildableIffInside
INVARIANT InsideBuilds
INVARIANT InsideAccepted
INVARIANT OutsideNeverAccepted
