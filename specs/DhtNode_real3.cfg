SPECIFICATION Spec
CONSTANTS Interval = 5 Limit = 3 PingInterval = 25 PingTimeout = 5 FindTimeout = 2 GoodWindow = 900 MaxFail = 2
          Jumps = {1, 4, 20, 870} MaxOut = 2 WithQuery = TRUE WithPing = TRUE WithLookup = TRUE ChurnEveryTick = FALSE
          CtlCountRefused = FALSE CtlNotAdmitted = FALSE CtlNoReset = FALSE CtlNoRemove = FALSE
INVARIANT TypeOK
INVARIANT InvWindow
INVARIANT InvRefuse
INVARIANT InvStatus
INVARIANT InvChurn
