SPECIFICATION Spec
CONSTANTS
 o = o
 o2 = o2
 r1 = r1
 r2 = r2
 x = x
 Node = {o, r1, x}
 Adv = adv
 Flags <- FlagsDef
 Cands <- CandsSmall
 FirstHops <- FirstHopsDef
 MaxJoined = 10
 MaxEarly = 3
 Tries = 2
 NextHop = 4 Unstable = 24 CacheTO = 4 Inactive = 8 RemoveDelay = 2 SweepEvery = 2 PingEvery = 3 MaxTime = 1000
 CreateGuard = TRUE
 MaxCircuits = 1 MaxData = 2 MaxLoss = 0 MaxDup = 0 MaxAdv = 2 MaxNow = 0
 Goals = {1, 2}
 Origins = {o}
 AdvKinds = {"tamper", "splice", "inject", "header", "plain"}
 NodeRank <- RankDef
 AdvSrcs = {adv}
 TrackWire = TRUE
 UseIds = FALSE
 NodeTeardown = FALSE
 MayVanish = FALSE
 SweepRelays = TRUE
 TestCells = FALSE
 E2E = FALSE
 Aead = TRUE
 CheckIdent = TRUE
 RelayOnce = TRUE
 CandsGuard = TRUE
 DataGuard = TRUE
 SuspendJoin = FALSE
 JoinCacheFirst = TRUE
 AutoTimers = TRUE
INVARIANT TypeOK
INVARIANT ExitIntegrity
INVARIANT ReturnIntegrity
INVARIANT LayerDepth
INVARIANT NoRepeatOnLinks
