SPECIFICATION Spec
CONSTANTS Addrs = {"A1", "A1p", "A1m"} Keys = {"K1", "K2"} Signers = {"S2"} OwnSigner = "" MaxVer = 0 Datas = {} UData = {"a"}
          Forged = FALSE Sizes = FALSE Multi = FALSE Base = 2 Scale = 1 MaxRot = 2 MaxClock = 0 InitCloser = 7 MaxCloser = 7
          MaxIssued = 2 PeerStore = TRUE Locals = FALSE EqReplaces = TRUE OtherTokens = {"foreign", "junk"} MaxStored = 8
          KeepSecrets = 2 CleanAll = TRUE Validity = 0 RotatePeriod = 0 ExpiredYields = FALSE
INVARIANT TypeOK
INVARIANT StoreNeedsOwnFreshToken
INVARIANT Limits
INVARIANT SignedMeansVerified
INVARIANT OneEntryPerId
INVARIANT ExpiredGoneAfterClean
INVARIANT StorePeerOnlyOwnMid
INVARIANT WindowIsTwoNewest
PROPERTY NoDowngrade
ACTION_CONSTRAINT SmallStore
