------------------------------- MODULE DhtFind -------------------------------
(* ipv8/dht/community.py : DHTCommunity.find / find_values - the layer above the crawls of DhtCrawl.tla:     *)
(* "find_values will crawl both IPv4 and IPv6": one crawl per routing table (address family), the values     *)
(* found by the crawls are reported together; with debug=True the Crawl objects are returned as well.        *)
(*                                                                                                           *)
(* TLC enumerates the number of routing tables (0..MaxTables), what the crawl of each table finds (a list of *)
(* distinct values, possibly empty) and the debug flag; Return is the call returning.                        *)
(*                                                                                                           *)
(* SAFETY PROPERTY                                                                                           *)
(*  F1 InvFindAll   the call returns (no exception) exactly the values found by its crawls, table by table,  *)
(*                  in both modes; with debug=True it hands back one Crawl per routing table                 *)
(*                                                                                                           *)
(* PinnedDebugMerge = TRUE is the pinned code: its star-argument tuple call only works for one routing table *)
(* (proposed_fixes/G02-1.diff).                                                                              *)
EXTENDS Integers, Sequences, FiniteSets, TLC

CONSTANTS MaxTables, Vals, MaxLen, PinnedDebugMerge

VARIABLES tables,   \* Seq of value lists: what the crawl of each routing table finds
          debug,
          ret       \* [done, ok, values, ncrawls]
vars == <<tables, debug, ret>>

Range(s) == {s[i] : i \in DOMAIN s}
Lists == {s \in UNION {[1..k -> Vals] : k \in 0..MaxLen} : \A i, j \in 1..Len(s) : i # j => s[i] # s[j]}

RECURSIVE Concat(_)
Concat(ss) == IF ss = <<>> THEN <<>> ELSE Head(ss) \o Concat(Tail(ss))

Pending == [done |-> FALSE, ok |-> FALSE, values |-> <<>>, ncrawls |-> 0]

Init == /\ tables \in UNION {[1..k -> Lists] : k \in 0..MaxTables}
        /\ debug \in BOOLEAN
        /\ ret = Pending

Return == /\ ~ret.done
          /\ ret' = IF PinnedDebugMerge /\ debug /\ Len(tables) > 1
                    THEN [done |-> TRUE, ok |-> FALSE, values |-> <<>>, ncrawls |-> 0]
                    ELSE [done |-> TRUE, ok |-> TRUE, values |-> Concat(tables), ncrawls |-> IF debug THEN Len(tables) ELSE 0]
          /\ UNCHANGED <<tables, debug>>

Next == Return
Spec == Init /\ [][Next]_vars

InvFindAll == ret.done =>
                /\ ret.ok
                /\ Len(ret.values) = Len(Concat(tables))
                /\ \A i \in 1..Len(tables) : Range(tables[i]) \subseteq Range(ret.values)
                /\ Range(ret.values) \subseteq UNION {Range(tables[i]) : i \in 1..Len(tables)}
                /\ (debug => ret.ncrawls = Len(tables))
=============================================================================
