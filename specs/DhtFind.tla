------------------------------- MODULE DhtFind -------------------------------
(* ipv8/dht/community.py : DHTCommunity.find / find_values - the layer above the crawls of DhtCrawl.tla:     *)
(* "find_values will crawl both IPv4 and IPv6": one crawl per routing table (address family), the values     *)
(* found by the crawls are reported together; with debug=True the Crawl objects are returned as well.        *)
(*                                                                                                           *)
(* TLC enumerates the number of routing tables (0..MaxTables), what the crawl of each table finds (a list of *)
(* distinct values, possibly empty), the kind of lookup (find_values / find_nodes) and the debug flag;       *)
(* Return is the call returning.  A node lookup reports the nodes its crawls contacted: here one node per    *)
(* routing table (named 100 + table index).                                                                  *)
(*                                                                                                           *)
(* SAFETY PROPERTY                                                                                           *)
(*  F1 InvFindAll   the call returns (no exception) exactly the values found (find_values) / the nodes       *)
(*                  contacted (find_nodes) by its crawls, table by table, with and without debug; with       *)
(*                  debug=True it hands back one Crawl per routing table                                     *)
(*                                                                                                           *)
(* PinnedDebugMerge = TRUE is the pinned code: its star-argument tuple call only works for one routing table *)
(* (proposed_fixes/G02-1.diff).  PinnedDebugNodes = TRUE is the pinned code as well: _find ignores `debug`   *)
(* for node lookups and find() then takes the node list apart as if it were (values, crawl)                  *)
(* (proposed_fixes/G02-2.diff).                                                                              *)
EXTENDS Integers, Sequences, FiniteSets, TLC

CONSTANTS MaxTables, Vals, MaxLen, PinnedDebugMerge, PinnedDebugNodes

VARIABLES tables,   \* Seq of value lists: what the crawl of each routing table finds
          mode,     \* "values" (find_values) | "nodes" (find_nodes)
          debug,
          ret       \* [done, ok, values, ncrawls]
vars == <<tables, mode, debug, ret>>

Range(s) == {s[i] : i \in DOMAIN s}
Lists == {s \in UNION {[1..k -> Vals] : k \in 0..MaxLen} : \A i, j \in 1..Len(s) : i # j => s[i] # s[j]}

RECURSIVE Concat(_)
Concat(ss) == IF ss = <<>> THEN <<>> ELSE Head(ss) \o Concat(Tail(ss))

Found == IF mode = "values" THEN Concat(tables) ELSE [i \in 1..Len(tables) |-> 100 + i]

Pending == [done |-> FALSE, ok |-> FALSE, values |-> <<>>, ncrawls |-> 0]

Init == /\ tables \in UNION {[1..k -> Lists] : k \in 0..MaxTables}
        /\ mode \in {"values", "nodes"}
        /\ (mode = "nodes" => \A i \in 1..Len(tables) : tables[i] = <<>>)     \* (what is stored does not matter then)
        /\ debug \in BOOLEAN
        /\ ret = Pending

Return == /\ ~ret.done
          /\ ret' = IF \/ PinnedDebugMerge /\ debug /\ Len(tables) > 1
                       \/ PinnedDebugNodes /\ debug /\ mode = "nodes" /\ Len(tables) > 0
                    THEN [done |-> TRUE, ok |-> FALSE, values |-> <<>>, ncrawls |-> 0]
                    ELSE [done |-> TRUE, ok |-> TRUE, values |-> Found, ncrawls |-> IF debug THEN Len(tables) ELSE 0]
          /\ UNCHANGED <<tables, mode, debug>>

Next == Return
Spec == Init /\ [][Next]_vars

InvFindAll == ret.done =>
                /\ ret.ok
                /\ mode = "values" => /\ Len(ret.values) = Len(Concat(tables))
                                      /\ \A i \in 1..Len(tables) : Range(tables[i]) \subseteq Range(ret.values)
                                      /\ Range(ret.values) \subseteq UNION {Range(tables[i]) : i \in 1..Len(tables)}
                /\ mode = "nodes" => ret.values = [i \in 1..Len(tables) |-> 100 + i]
                /\ (debug => ret.ncrawls = Len(tables))
=============================================================================
