SPECIFICATION Spec
CONSTANTS NC = 3 NI = 2 Delays = {1} PassTimeouts = {0} Filters = {"all"}
          Nesting = TRUE ReAdds = 0 ExtFut = 0 ReapOwnOnly = TRUE LateCancel = TRUE
          HScripts = {"none", "raise", "pop", "add"} CoHandlers = TRUE ClaimFirst = TRUE
          TMShutdown = TRUE ShutGuard = FALSE NFut = 3 FutLoop = "all"
INVARIANT TypeOK
INVARIANT ExactlyOnce
INVARIANT ClaimedOnce
INVARIANT NoTimeoutAfterClaim
INVARIANT OutstandingWillEnd
INVARIANT TableAgrees
INVARIANT LateResponseFindsNothing
INVARIANT UniqueIdentity
INVARIANT FuturesCompletedOnTimeout
INVARIANT AfterShutdown
INVARIANT AfterFlag
INVARIANT NoLateTimeout
INVARIANT EndedIsQuiet
