SPECIFICATION Spec
CONSTANTS
  Ifaces = {"v4"}
  Listeners = {"A","B"}
  Prefixes = {"p1"}
  AddrKinds = {"c4"}
  Sizes = {23}
  MsgIds = {1}
  WithStats = TRUE
  Closing = FALSE
  ClosedSendRaises = TRUE
  Explicit = FALSE
  MaxBytes = 23
  MaxMsgs = 2
  DupGeneral = TRUE
  StatsForwards = TRUE
  SendWhileClosing = FALSE
CONSTRAINT Bound
INVARIANT StatsExact
