\* two subjects, crossed registrations (the hash of subject 1 also registered for subject 2), no clock
SPECIFICATION MCSpec
CONSTANTS AlreadyChecked = TRUE PkPerAuthority = TRUE CheckSubject = TRUE CheckPermission = TRUE CommitBeforeSend = TRUE Window = 300 RespCap = 10 FitAll = 8
  Regs = {1, 2, 3} Senders = {1, 2} TokIdx = {4} MdIdx = {2, 6, 7, 11} AttIdx = {1} MissIdx = {1}
  Ticks = {} OwnerPeers = {} KnownVals = {} AttSend = {} RegFirst = FALSE FaultTabs = {}
  MaxReg = 3 MaxMsg = 3 MaxTick = 0 MaxOwn = 0 MaxFault = 0
INVARIANT TypeOK
INVARIANT SignsOnlyConsented
INVARIANT StoresOnlyValidlySigned
INVARIANT TokensOnlyUpToPermitted
INVARIANT TreesVerified
INVARIANT SentOnlyRecorded
