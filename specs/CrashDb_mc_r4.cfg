SPECIFICATION Spec
CONSTANTS MaxRecs = 3 MaxCalls = 5 MaxRuns = 4 CommitBeforeReturn = TRUE TolerantVersionRead = TRUE
          AtomicUpgrade = TRUE Legacy = FALSE
INVARIANT TypeOK
INVARIANT AckedDurable
INVARIANT NoPartialRecord
INVARIANT ReopenOk
INVARIANT PseudonymVerifies
