SPECIFICATION Spec
CONSTANTS Nodes = {1, 2, 3} Adv = {3} Storers = {2} Connectors = {1} AltAddr = {} AdvReqTargets = {1} AdvRespTargets = {1} ConnKeys = {2} ConnPings = {0, 2}
          Acts = {"connect", "unload"}
          Timeout = 1 PingInterval = 5 KeepAlive = 12 Enough = 2 MaxFind = 8
          Jumps = {1} MaxClock = 7 MaxId = 2 MaxEpoch = 1 MaxSent = 6
          EmptyKeyHit = FALSE PingTimeoutOk = FALSE NoTokenCheck = FALSE NoTargetCheck = FALSE AckFromSender = FALSE
          NoSweep = FALSE NoPuncture = FALSE PunctSwapped = FALSE SendRefused = TRUE PongUnsolicitedResets = FALSE
CONSTANT TokenPairs <- TP_conn
CONSTANT FindSets <- FS_conn
CONSTRAINT Bound
INVARIANT TypeOK
INVARIANT StoreAuth
INVARIANT StoreForMeAcked
INVARIANT ConnectExact
INVARIANT RefusedNotSent
INVARIANT ConnectResult
INVARIANT UnsolicitedInert
INVARIANT SweptFresh
PROPERTY KeepAlive_P
