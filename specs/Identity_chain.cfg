\* chain verification: dangling / foreign / reordered tokens, missing responses, an outsider sending
SPECIFICATION MCSpec
CONSTANTS AlreadyChecked = TRUE PkPerAuthority = TRUE CheckSubject = TRUE CheckPermission = TRUE CommitBeforeSend = TRUE Window = 300 RespCap = 10 FitAll = 8
  Regs = {1, 6} Senders = {1, 3} TokIdx = {1, 2, 3, 4, 5, 6, 7} MdIdx = {1, 2, 5, 10} AttIdx = {1} MissIdx = {1, 2, 3, 6}
  Ticks = {} OwnerPeers = {} KnownVals = {} AttSend = {} RegFirst = FALSE FaultTabs = {}
  MaxReg = 2 MaxMsg = 3 MaxTick = 0 MaxOwn = 0 MaxFault = 0
INVARIANT TypeOK
INVARIANT SignsOnlyConsented
INVARIANT StoresOnlyValidlySigned
INVARIANT TokensOnlyUpToPermitted
INVARIANT TreesVerified
INVARIANT SentOnlyRecorded
