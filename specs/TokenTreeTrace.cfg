SPECIFICATION TraceSpec
CONSTANTS N = 24 UCap = 26 WakeAll = TRUE WithContent = TRUE
INVARIANT TraceAccepted
INVARIANT TypeOK
INVARIANT OnlyValidConnected
INVARIANT Complete
INVARIANT NeverBad
INVARIANT ContentBound
INVARIANT PublicRoundTrip
