SPECIFICATION TraceSpec
CONSTANTS N = 24 UCap = 26 WakeAll = TRUE WithContent = TRUE
          Views = {"pub", "full", "own"} ReduceKey = TRUE WireStops = FALSE WireLen = 1
INVARIANT TraceAccepted
INVARIANT TypeOK
INVARIANT KeyIsPublic
INVARIANT OnlyValidConnected
INVARIANT Complete
INVARIANT NeverBad
INVARIANT ContentBound
INVARIANT PublicRoundTrip
INVARIANT PublicReloadsClean
