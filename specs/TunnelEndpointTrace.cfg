SPECIFICATION TraceSpec
CONSTANTS Pfx = {"A", "B", "C"} MaxHops = 3 MaxCid = 1000000 QCap = 100 MaxDepth = 1000000 LeakDetached = FALSE AnyState = FALSE MaxInst = 1000000 Lifecycle = TRUE UnloadClears = FALSE CandInit = {TRUE, FALSE} CloseWays = {"close", "closeR", "remove", "removeR", "removeNow", "removeD"} ReasonDecides = FALSE ReadyInit = FALSE Expiry = TRUE
INVARIANT TraceAccepted
