\* closest_nodes walk = brute force, every history of 4 calls (thorough)
SPECIFICATION Spec
CONSTANTS W = 4 Bits <- SeqBits Cap = 2 MyNum = 5 IdNums = {0, 1, 2, 3, 4, 5, 6, 7, 8, 9, 10, 11, 12, 13, 14, 15}
          RTTs = {0} Addrs = {1} AddBads = {FALSE, TRUE} KMax = 3 MaxDepth = 4
          WithGen = FALSE GenInBucket = TRUE OwnPathOnly = TRUE
INVARIANT TypeOK
INVARIANT PrefixFreeComplete
INVARIANT PartitionBrute
INVARIANT NodeInOwningBucket
INVARIANT Capacity
INVARIANT OwnPathShape
INVARIANT GeneratedIdInBucket
INVARIANT ClosestExact
INVARIANT FirstDiffAgree
PROPERTY SplitOnlyOwnPath
