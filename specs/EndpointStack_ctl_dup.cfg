SPECIFICATION Spec
CONSTANTS
  Ifaces = {"v4"}
  Listeners = {"A","B","G"}
  Prefixes = {"p1"}
  AddrKinds = {"c4"}
  Sizes = {23}
  MsgIds = {1}
  WithStats = FALSE
  Closing = FALSE
  ClosedSendRaises = TRUE
  Explicit = FALSE
  MaxBytes = 23
  MaxMsgs = 1
  DupGeneral = TRUE
  StatsForwards = TRUE
  SendWhileClosing = FALSE
CONSTRAINT Bound
INVARIANT NotifyOnce
