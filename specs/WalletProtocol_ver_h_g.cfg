\* replayed graph: verification with up to two honesty checks, no network faults
SPECIFICATION SpecL
CONSTANTS
 Nodes = {1, 2} Adv = {} Requesters = {} Verifiers = {1}
 Values <- Vals1 NChunks = 2 Window = 10 Pre <- PreOwn2
 MaxReq = 0 MaxVer = 1 MaxHon = 2 MaxDup = 0 MaxDrop = 0 MaxAdv = 0 MaxTimeouts = 0 MaxTicks = 0
 AdvKinds = {"junk", "data", "resp", "chal"} AdvResps = {0, 1, 2, 3}
 TickSteps = {}
 OnceOnly = TRUE CheckPeer = TRUE CheckHash = TRUE AskConsent = TRUE
INVARIANT StoredIntact
INVARIANT ChunkIsolation
INVARIANT VerifyOnce
INVARIANT ResultConsistent
INVARIANT ConsentGiven
INVARIANT CachesSane
