------------------------------ MODULE Kademlia ------------------------------
(* ipv8/dht/routing.py : RoutingTable.add / remove_bad_nodes / closest_nodes, Bucket.add / split /     *)
(* owns / generate_id, on top of ipv8/dht/trie.py (the trie maps bucket prefixes to buckets).         *)
(*                                                                                                     *)
(* Bucket prefixes are bit sequences (most significant bit first).  Identifiers are W bit numbers of   *)
(* which the specification only ever reads the bits, through Bits(id): when model checking they are    *)
(* bit sequences themselves (W = 3..5, Bits <- SeqBits), when recorded histories of the real code are  *)
(* validated they are indexes into the dictionary of 160 bit identifiers of the trace file.            *)
(*                                                                                                     *)
(* Abstract layer (what the property demands, stated without reference to any history):               *)
(*   PrefixFreeComplete, NodeInOwningBucket, Capacity, OwnPathShape / SplitOnlyOwnPath,                *)
(*   IsClosest (brute force definition of the k nearest live nodes), GeneratedIdInBucket.             *)
(* Implementation layer: buckets keyed by prefix, the retry loop of RoutingTable.add (AddRes),        *)
(*   the subtree walk of closest_nodes (ClosestWalk).                                                  *)
(* The property is silent about the eviction policy of a full bucket; the specification therefore     *)
(* allows ANY non-empty set of evictable nodes (bad, or at least twice as slow as the newcomer) to be *)
(* replaced - the pinned code (first bad + first slow node in insertion order) is one such choice.    *)
EXTENDS Naturals, Sequences, FiniteSets, TLC

CONSTANTS W,            \* identifier width (bits)
          Bits(_),      \* Bits(id) : the W bits of identifier id as a sequence, most significant first
          Cap,          \* bucket capacity of the model (Bucket.max_size)
          MyNum,        \* our own identifier as a number < 2^W (model)
          IdNums,       \* the identifiers (as numbers) the model offers to add()
          RTTs,         \* round trip times a node may carry (0 = not measured)
          Addrs,        \* addresses a node may be seen at
          AddBads,      \* subset of BOOLEAN: may a node already be BAD when it is offered to add()
          KMax,         \* closest_nodes(max_nodes = 1..KMax) is compared in every state (0: queries not checked)
          WithGen,      \* explore Bucket.generate_id as well
          GenInBucket,  \* TRUE: generated ids carry the bucket prefix (repaired). FALSE: pinned code ignored the prefix
          OwnPathOnly,  \* TRUE: only buckets owning our own id are split. FALSE: any full bucket is split (control)
          MaxDepth      \* 0: unbounded; n: only behaviours of at most n steps (breadth first search only)

VARIABLES my,           \* our own identifier (never changes)
          cap,          \* bucket capacity (never changes)
          buckets,      \* prefix |-> set of identifiers      (RoutingTable.trie : key -> Bucket.nodes)
          attrs,        \* identifier |-> [rtt, bad, addr]     (the stored Node objects)
          gen           \* <<>> or <<prefix, id>> : the last Bucket.generate_id call and its result
vars == <<my, cap, buckets, attrs, gen>>

(* bounded exploration: a guard of every action, not a CONSTRAINT (TLC evaluates invariants on states    *)
(* outside a constraint again and again)                                                               *)
InDepth == MaxDepth = 0 \/ TLCGet("level") <= MaxDepth

(* identifiers of the model: bit sequences *)
SeqBits(id) == id
Bit(id, i)  == Bits(id)[i]
RECURSIVE NumToBits(_, _)
NumToBits(n, w) == IF w = 0 THEN <<>> ELSE Append(NumToBits(n \div 2, w - 1), n % 2)
(* (enumerated when model checking only; TLC evaluates constant definitions eagerly, hence the guard) *)
Small       == W <= 8
AllIDs      == IF Small THEN {NumToBits(n, W) : n \in 0..(2^W - 1)} ELSE {}    \* targets of queries, generated ids
IDs         == {NumToBits(n, W) : n \in IdNums}                               \* nodes that may be added
AllPrefixes == IF Small THEN UNION {{NumToBits(n, w) : n \in 0..(2^w - 1)} : w \in 0..W} ELSE {}

Range(s) == {s[i] : i \in DOMAIN s}
Min(a, b) == IF a <= b THEN a ELSE b

(* Bucket.owns : the identifier starts with the prefix *)
Owns(p, id)    == Len(p) <= W /\ p = SubSeq(Bits(id), 1, Len(p))
IsPrefix(p, q) == Len(p) <= Len(q) /\ \A i \in 1..Len(p) : p[i] = q[i]

Prefixes    == DOMAIN buckets
NodesOf(bk) == UNION {bk[p] : p \in DOMAIN bk}
Nodes       == NodesOf(buckets)

(* RoutingTable.get_bucket : value of the longest stored prefix of the identifier.                     *)
(* (no recursion here and in Closer: TLC's cost of a recursive operator grows with the square of its   *)
(* depth, and prefixes of recorded tables are up to 160 bits long)                                     *)
Owner(bk, id) == CHOOSE p \in DOMAIN bk : Owns(p, id) /\ \A q \in DOMAIN bk : Owns(q, id) => Len(q) <= Len(p)

(* Bucket.split + the three trie updates of RoutingTable.add *)
Split(bk, p) ==
  LET p0 == Append(p, 0)
      p1 == Append(p, 1)
  IN [q \in ((DOMAIN bk) \ {p}) \cup {p0, p1} |->
        IF q = p0 THEN {n \in bk[p] : Bit(n, Len(p) + 1) = 0}
        ELSE IF q = p1 THEN {n \in bk[p] : Bit(n, Len(p) + 1) = 1}
        ELSE bk[q]]

MaySplit(p) == Len(p) < W /\ (OwnPathOnly => Owns(p, my))

Evictable(bk, p, rtt) == {n \in bk[p] : attrs[n].bad \/ (rtt > 0 /\ attrs[n].rtt >= 2 * rtt)}

(* every table RoutingTable.add may produce for an identifier that is not stored yet *)
RECURSIVE AddRes(_, _, _)
AddRes(bk, id, rtt) ==
  LET p == Owner(bk, id) IN
  IF Cardinality(bk[p]) < cap
  THEN {[bk EXCEPT ![p] = @ \cup {id}]}
  ELSE {[bk EXCEPT ![p] = (@ \ E) \cup {id}] : E \in (SUBSET Evictable(bk, p, rtt)) \ {{}}}
       \cup (IF MaySplit(p) THEN AddRes(Split(bk, p), id, rtt) ELSE {bk})

AddChoice(id, rtt, bad, addr, nb) ==
  /\ buckets' = nb
  /\ attrs' = [n \in NodesOf(nb) |-> IF n = id THEN [rtt |-> rtt, bad |-> bad, addr |-> addr] ELSE attrs[n]]
  /\ gen' = <<>>
  /\ UNCHANGED <<my, cap>>

(* RoutingTable.add(node) *)
Add(id, rtt, bad, addr) ==
  /\ InDepth
  /\ IF id \in Nodes
     THEN /\ attrs' = [attrs EXCEPT ![id].addr = addr]       \* known node: only its address is refreshed
          /\ buckets' = buckets /\ gen' = <<>> /\ UNCHANGED <<my, cap>>
     ELSE \E nb \in AddRes(buckets, id, rtt) : AddChoice(id, rtt, bad, addr, nb)

(* the community updates a stored node in place: node.failed += 1 / = 0, node.rtt = ... *)
Touch(id, rtt, bad) ==
  /\ InDepth
  /\ id \in Nodes
  /\ attrs' = [attrs EXCEPT ![id].rtt = rtt, ![id].bad = bad]
  /\ gen' = <<>> /\ UNCHANGED <<my, cap, buckets>>

(* RoutingTable.remove_bad_nodes() *)
RemoveBad ==
  LET dead == {n \in Nodes : attrs[n].bad} IN
  /\ InDepth
  /\ buckets' = [p \in Prefixes |-> buckets[p] \ dead]
  /\ attrs' = [n \in Nodes \ dead |-> attrs[n]]
  /\ gen' = <<>> /\ UNCHANGED <<my, cap>>

(* Bucket.generate_id() of the bucket stored under prefix p returned id *)
GenerateId(p, id) ==
  /\ InDepth
  /\ p \in Prefixes
  /\ GenInBucket => Owns(p, id)
  /\ gen' = <<p, id>>
  /\ UNCHANGED <<my, cap, buckets, attrs>>

Init == /\ my = NumToBits(MyNum, W) /\ cap = Cap
        /\ buckets = (<<>> :> {}) /\ attrs = <<>> /\ gen = <<>>

Next == \/ \E id \in IDs, rtt \in RTTs, bad \in AddBads, addr \in Addrs : Add(id, rtt, bad, addr)
        \/ \E id \in IDs, rtt \in RTTs, bad \in BOOLEAN : Touch(id, rtt, bad)
        \/ RemoveBad
        \/ \E p \in AllPrefixes, id \in (IF WithGen THEN AllIDs ELSE {}) : GenerateId(p, id)

Spec == Init /\ [][Next]_vars

(* ------------------------------------------ queries ------------------------------------------------ *)
(* a XOR t < b XOR t as W bit numbers: at the first bit where a and b differ, a agrees with t.         *)
(* FirstDiff = 1 + length of the longest common prefix, found by bisection on whole slices (8 steps    *)
(* for 160 bits; slices are compared by TLC natively) - FirstDiffPlain is the definition.              *)
FirstDiffPlain(x, y) == CHOOSE i \in 1..W : x[i] # y[i] /\ \A j \in 1..(i - 1) : x[j] = y[j]
RECURSIVE Lcp(_, _, _, _)       \* x and y agree on 1..lo; the answer lies in lo..hi
Lcp(x, y, lo, hi) == IF lo = hi THEN lo
                     ELSE LET mid == (lo + hi + 1) \div 2
                          IN IF SubSeq(x, lo + 1, mid) = SubSeq(y, lo + 1, mid) THEN Lcp(x, y, mid, hi)
                                                                                ELSE Lcp(x, y, lo, mid - 1)
FirstDiff(x, y) == Lcp(x, y, 0, W) + 1
Closer(a, b, t) == a # b /\ LET i == FirstDiff(Bits(a), Bits(b)) IN Bit(a, i) = Bit(t, i)
FirstDiffAgree  == \A x, y \in AllIDs : x # y => FirstDiff(x, y) = FirstDiffPlain(x, y)

(* X = {} or {exclude_node.id} *)
Live(X) == {n \in Nodes : ~attrs[n].bad /\ n \notin X}

(* abstract definition: ans is the list of the k live nodes nearest to t, nearest first *)
IsClosest(ans, t, k, X) ==
  LET live == Live(X) IN
  /\ Range(ans) \subseteq live
  /\ Len(ans) = Min(k, Cardinality(live))
  /\ \A i \in 1..(Len(ans) - 1) : Closer(ans[i], ans[i + 1], t)
  /\ Len(ans) > 0 => \A n \in live \ Range(ans) : Closer(ans[Len(ans)], n, t)

RECURSIVE SortByDist(_, _)
SortByDist(S, t) == IF S = {} THEN <<>>
                    ELSE LET m == CHOOSE a \in S : \A b \in S \ {a} : Closer(a, b, t)
                         IN <<m>> \o SortByDist(S \ {m}, t)
FirstK(s, k)     == [i \in 1..Min(k, Len(s)) |-> s[i]]
ClosestBrute(t, k, X) == FirstK(SortByDist(Live(X), t), k)

(* implementation layer: closest_nodes collects whole subtrees, from the bucket owning t outwards,    *)
(* until it holds more than k nodes, then sorts what it collected and cuts the list                   *)
RECURSIVE Collect(_, _, _, _, _)
Collect(pre, i, acc, k, X) ==
  LET sub  == UNION {buckets[q] : q \in {r \in Prefixes : IsPrefix(SubSeq(pre, 1, i), r)}}
      acc2 == acc \cup (sub \cap Live(X))
  IN IF Cardinality(acc2) > k \/ i = 0 THEN acc2 ELSE Collect(pre, i - 1, acc2, k, X)
Collected(t, k, X) == LET pre == Owner(buckets, t) IN Collect(pre, Len(pre), {}, k, X)
ClosestWalk(t, k, X) == FirstK(SortByDist(Collected(t, k, X), t), k)

(* ----------------------------------------- properties ---------------------------------------------- *)
TypePrefixes == \A p \in Prefixes : Len(p) <= W /\ Range(p) \subseteq {0, 1}
TypeOK == /\ TypePrefixes
          /\ DOMAIN attrs = Nodes
          /\ gen = <<>> \/ Len(gen) = 2

(* the prefixes are exactly the leaves of a full binary tree: below every inner node both halves hold  *)
(* stored prefixes (complete) and a stored prefix has nothing stored below it (prefix free).           *)
(* S = the stored prefixes that extend p.  Formulated on the prefixes only: works at any id width.     *)
RECURSIVE FullTree(_, _)
FullTree(p, S) ==
  IF p \in S THEN S = {p}
  ELSE LET S0 == {q \in S : q[Len(p) + 1] = 0}
           S1 == {q \in S : q[Len(p) + 1] = 1}
       IN S0 # {} /\ S1 # {} /\ FullTree(Append(p, 0), S0) /\ FullTree(Append(p, 1), S1)
PrefixFreeComplete == Prefixes # {} /\ FullTree(<<>>, Prefixes)
(* the same, by brute force over the prefixes and the identifier space of the model *)
PartitionBrute == /\ \A p, q \in Prefixes : p # q => ~IsPrefix(p, q)
                  /\ \A id \in AllIDs : Cardinality({p \in Prefixes : Owns(p, id)}) = 1

NodeInOwningBucket == \A p \in Prefixes : \A n \in buckets[p] : Owns(p, n)
Capacity           == \A p \in Prefixes : Cardinality(buckets[p]) <= cap
(* a bucket only exists because its parent was split, and only buckets on our own path are split *)
OwnPathShape       == \A p \in Prefixes : p = <<>> \/ Owns(SubSeq(p, 1, Len(p) - 1), my)
SplitStep          == /\ \A p \in Prefixes \ DOMAIN buckets' : Owns(p, my)
                      /\ \A q \in (DOMAIN buckets') \ Prefixes : \E p \in Prefixes \ DOMAIN buckets' : IsPrefix(p, q)
SplitOnlyOwnPath   == [][SplitStep]_vars

(* in every state, for every target, k and excluded node the walk returns the brute force answer.     *)
(* (sorting the collected subset = filtering the sorted list of all live nodes: one sort per target) *)
ClosestExact ==
  \A t \in AllIDs, X \in {{}} \cup {{n} : n \in Live({})} :
     LET all == SortByDist(Live(X), t) IN
     \A k \in 1..KMax :
        LET c   == Collected(t, k, X)
            ans == FirstK(SelectSeq(all, LAMBDA n : n \in c), k)
        IN ans = FirstK(all, k) /\ IsClosest(ans, t, k, X)
(* the two formulations of the walk's result agree (checked on a small configuration only) *)
WalkFormulations ==
  \A t \in AllIDs, X \in {{}} \cup {{n} : n \in Live({})}, k \in 1..KMax :
     ClosestWalk(t, k, X) = FirstK(SelectSeq(SortByDist(Live(X), t), LAMBDA n : n \in Collected(t, k, X)), k)

GeneratedIdInBucket == gen # <<>> => Owns(gen[1], gen[2])
=============================================================================
