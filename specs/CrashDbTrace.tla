---------------------------- MODULE CrashDbTrace ----------------------------
(* Statement logs of the real IdentityDatabase / AttestationsDB / PseudonymManager, recorded by      *)
(* harness/c19_child.py in processes that are SIGKILLed at an enumerated point and reopened by fresh  *)
(* processes (harness/drivers/c19.py), validated against CrashDb.tla.                                 *)
(* Strict = FALSE : every logged statement must be a step of the sqlite layer (layer 1) - the order   *)
(*                  in which the code issues statements is NOT prescribed - and the properties are    *)
(*                  evaluated in every state; what the reopened process really read (Observe) must    *)
(*                  equal the durable image of the model, byte for byte (digests).                    *)
(*                  The records of a trace and the refs between them are fixed by the workload (names),  *)
(*                  not by the order in which the code wrote them: a record may point to a record that  *)
(*                  is written later or never - PseudonymVerifies decides in every state.  "with        *)
(*                  database:" blocks nest (Enter / Leave of a database at any depth).                   *)
(* Strict = TRUE  : every logged statement must in addition be the next step of the program layer     *)
(*                  (layer 2), i.e. the code has the shape that was model checked.                    *)
EXTENDS CrashDb, Json, IOUtils, TLCExt, SequencesExt

CONSTANT Strict

Traces == JsonDeserialize(IOEnv.TRACE_FILE)

VARIABLES tid, l, obs
tvars == <<allvars, tid, l, obs>>

Tr == Traces[tid]
Ev == Tr.events

NoObs == [seen |-> FALSE, id |-> {}, att |-> {}, nid |-> 0, natt |-> 0, verifies |-> TRUE,
          tree |-> {}, creds |-> {}, atts |-> {}, ntree |-> 0, ncreds |-> 0, natts |-> 0]

TraceInit == /\ tid \in 1..Len(Traces) /\ l = 1 /\ obs = NoObs
             /\ recs = [i \in 1..Len(Traces[tid].recs) |->
                          [kind |-> Traces[tid].recs[i].kind, ref |-> Traces[tid].recs[i].ref]]
             /\ InitDb(Range(Traces[tid].legacy))
             /\ calls = 0 /\ pc = Down /\ pend = [d \in DBs |-> 0] /\ batches = 0 /\ faults = 0

Lib(a)      == a /\ UNCHANGED <<pc, calls, recs, legacy, pend, batches, faults>>
Step(a, p)  == IF Strict THEN p ELSE Lib(a)
Skip        == UNCHANGED vars

(* program layer: either PReadVersion has failed already, or the ALTER TABLE of the upgrade fails now *)
StrictOpenError == \/ (pc = <<"failed">> /\ Skip)
                   \/ (\E d \in DBs : At(d, "alter") /\ T[d].cols = 2 /\ PAlter(d))

(* Database.close() commits a transaction that is still open (kept by a failed COMMIT, left by an abandoned block) *)
(* before it closes: PExit of the program layer, seen as two events                                              *)
StrictCloseCommit(d) == /\ pc = <<"idle">> /\ l < Len(Ev) /\ Ev[l + 1].a \in {"Exit", "Commit"}
                        /\ DbCommit(d) /\ UNCHANGED <<pc, calls, recs, legacy, pend, batches, faults>>
StrictFail(d, rb) == \/ \E i \in Recs : DbOf(i) = d /\ PCommitFail(i, rb)
                     \/ PLeaveCommitFail(d, rb)
                     \/ (* the commit of Database.close() is refused: close() raises, the process ends as by a kill *)
                        /\ pc = <<"idle">> /\ inTxn[d] /\ l < Len(Ev) /\ Ev[l + 1].a = "Crash"
                        /\ DbFail(d, rb) /\ UNCHANGED <<pc, calls, recs, legacy, pend, batches, faults>>

Event(e) ==
  \/ /\ e.a = "Start"       /\ Step(DbStart, PStart)
  \/ /\ e.a = "ReadVersion" /\ IF Strict THEN PReadVersion(e.d) ELSE up /\ Skip
  \/ /\ e.a = "Begin"       /\ Step(DbBegin(e.d), POpenBegin(e.d) \/ \E i \in Recs : DbOf(i) = e.d /\ PBegin(i))
  \/ /\ e.a = "Commit"      /\ Step(DbCommit(e.d), \/ POpenCommit(e.d) \/ (inTxn[e.d] /\ PLeaveCommit(e.d))
                                                    \/ StrictCloseCommit(e.d)
                                                    \/ \E i \in Recs : DbOf(i) = e.d /\ pend[e.d] = 0 /\ PCommit(i))
  \/ /\ e.a = "Rollback"    /\ ~Strict /\ Lib(DbRollback(e.d))
  \/ /\ e.a = "CreateData"  /\ Step(DbCreateData(e.d), PCreateData(e.d) \/ (At(e.d, "copt") /\ T[e.d].data /\ Skip))
  \/ /\ e.a = "CreateOpt"   /\ Step(DbCreateOpt(e.d), PCreateOpt(e.d))
  \/ /\ e.a = "DeleteVer"   /\ Step(DbDeleteVer(e.d), PDeleteVer(e.d))
  \/ /\ e.a = "InsertVer"   /\ Step(DbInsertVer(e.d), PInsertVer(e.d))
  \/ /\ e.a = "SetVer"      /\ ~Strict /\ Lib(DbSetVer(e.d))
  \/ /\ e.a = "Alter"       /\ Step(DbAlter(e.d), PAlter(e.d))
  \/ /\ e.a = "Update"      /\ Step(DbUpdate(e.d), PUpdate(e.d))
  \/ /\ e.a = "Call"        /\ e.r \in Recs /\ IF Strict THEN PCall(e.r) /\ pc'[4] = e.v ELSE up /\ Skip
  (* e.v: which of the forms (byte strings) written under this primary key the statement carries; e.mode: the  *)
  (* conflict clause of the INSERT                                                                              *)
  \/ /\ e.a = "Exec"        /\ e.r \in Recs /\ Step(DbExecute(e.r, e.v, e.mode),
                                                      Ins(e.r, "exec") /\ pc[4] = e.v /\ ModeOf(e.r) = e.mode
                                                      /\ PExecute(e.r))
  (* a statement raised an error of the database (not a constraint): nothing of its own happened; e.rb: sqlite  *)
  (* has rolled the open transaction back                                                                       *)
  \/ /\ e.a = "Fail"        /\ Step(DbFail(e.d, e.rb), StrictFail(e.d, e.rb))
  \/ /\ e.a = "Return"      /\ e.r \in Recs /\ Step(DbReturn(e.r), PReturn(e.r))
  \/ /\ e.a = "Enter"       /\ Step(DbEnter(e.d), PEnter(e.d))
  \/ /\ e.a = "Leave"       /\ Step(DbLeave(e.d, e.how), PLeave(e.d, e.how))
  \/ /\ e.a = "Deferred"    /\ IF Strict THEN \E i \in Recs : DbOf(i) = e.d /\ pend[e.d] > 0 /\ PCommit(i) ELSE up /\ Skip
  \/ /\ e.a = "Crash"       /\ Step(DbCrash, PCrash)
  \/ /\ e.a = "Exit"        /\ Step(DbExit, PExit)
  \/ /\ e.a = "OpenError"   /\ IF Strict THEN StrictOpenError ELSE Lib(DbOpenError)
  (* e.a = "Unknown": the code did something the alphabet above has no event for (a statement of another  *)
  (* kind, a row written outside the insert path or on behalf of no workload item); no disjunct matches,   *)
  (* the trace is rejected at that event by TraceAccepted                                                  *)

Observe(e) == /\ e.a = "Observe"
              /\ IF Strict THEN PObserve ELSE Lib(DbReload)
              /\ obs' = [seen |-> TRUE, id |-> Range(e.id), att |-> Range(e.att),
                         nid |-> Len(e.id), natt |-> Len(e.att), verifies |-> e.verifies,
                         tree |-> Range(e.tree), creds |-> Range(e.creds), atts |-> Range(e.atts),
                         ntree |-> Len(e.tree), ncreds |-> Len(e.creds), natts |-> Len(e.atts)]

TraceNext == /\ l <= Len(Ev)
             /\ \/ Event(Ev[l]) /\ obs' = NoObs /\ rebuilt' = NoRebuilt
                \/ Observe(Ev[l])
             /\ l' = l + 1 /\ UNCHANGED tid

TraceSpec == TraceInit /\ [][TraceNext]_tvars

(* total verdict: a trace is rejected exactly when some logged event is not an enabled step *)
TraceAccepted == l <= Len(Ev) => ENABLED TraceNext

(* ----- what the reopened process really read, against the model ----- *)
ObsRows(d) == {x.r : x \in obs[d]}
(* the rows read back are exactly the durable image the model predicts from the statement log *)
ObsMatchesDurable == obs.seen => \A d \in DBs : ObsRows(d) = D[d].rows
(* every acknowledged record is among the rows read back *)
ObsAckedPresent   == obs.seen => \A r \in acked : r \in ObsRows(DbOf(r))
(* every row read back is a record that was inserted, in its table, with the inserted bytes; no duplicates *)
ObsNoPartial      == obs.seen => /\ \A d \in DBs : \A x \in obs[d] :
                                      /\ x.r \in Recs /\ x.r \in executed /\ DbOf(x.r) = d
                                      /\ x.dig \in Range(Tr.recs[x.r].digs)
                                 /\ obs.nid = Cardinality(ObsRows("id")) /\ obs.natt = Cardinality(ObsRows("att"))
(* ... and unchanged: every row read back has exactly the bytes of the form the model holds for it - which for an *)
(* acknowledged record is (AckedUnchanged) the form it had when it was acknowledged                               *)
FormDig(r, v)     == IF v \in 1..Len(Tr.recs[r].digs) THEN Tr.recs[r].digs[v] ELSE "?"
ObsUnchanged      == obs.seen => \A d \in DBs : \A x \in obs[d] :
                                      (x.r \in Recs /\ x.r \in D[d].rows) => x.dig = FormDig(x.r, D[d].val[x.r])
(* the pseudonym / wallet rebuilt from the files by the real reload path verifies *)
ObsVerifies       == obs.seen => obs.verifies
(* ----- the pseudonym the real reload path rebuilt (PseudonymManager.__init__), against the model's reload ----- *)
ObsSet(f) == {x.r : x \in obs[f]}
(* the rebuilt tree / credentials / attestations are exactly the ones the model's reload yields *)
ObsRebuiltMatches == obs.seen => /\ ObsSet("tree") = rebuilt.tree /\ ObsSet("creds") = rebuilt.creds
                                 /\ ObsSet("atts") = rebuilt.atts
(* every rebuilt object is an inserted record of the right kind with the inserted bytes, present once;      *)
(* every token of the rebuilt tree passed the real TokenTree.verify (signatures, chain back to the genesis) *)
ObsRebuiltWhole   == obs.seen =>
                       /\ \A x \in obs.tree  : /\ x.r \in Recs /\ recs[x.r].kind = "token"
                                                /\ x.dig \in Range(Tr.recs[x.r].digs) /\ x.ok
                       /\ \A x \in obs.creds : /\ x.r \in Recs /\ recs[x.r].kind = "metadata"
                                                /\ x.dig \in Range(Tr.recs[x.r].digs) /\ x.ok
                       /\ \A x \in obs.atts  : /\ x.r \in Recs /\ recs[x.r].kind = "attestation"
                                                /\ x.dig \in Range(Tr.recs[x.r].digs) /\ x.ok
                       /\ \A x \in obs.tree \cup obs.creds \cup obs.atts :
                            (x.r \in Recs /\ x.r \in T["id"].rows) => x.dig = FormDig(x.r, T["id"].val[x.r])
                       /\ obs.ntree = Cardinality(ObsSet("tree")) /\ obs.ncreds = Cardinality(ObsSet("creds"))
                       /\ obs.natts = Cardinality(ObsSet("atts"))
=============================================================================
