---------------------------- MODULE CrashDbTrace ----------------------------
(* Statement logs of the real IdentityDatabase / AttestationsDB / PseudonymManager, recorded by      *)
(* harness/c19_child.py in processes that are SIGKILLed at an enumerated point and reopened by fresh  *)
(* processes (harness/drivers/c19.py), validated against CrashDb.tla.                                 *)
(* Strict = FALSE : every logged statement must be a step of the sqlite layer (layer 1) - the order   *)
(*                  in which the code issues statements is NOT prescribed - and the properties are    *)
(*                  evaluated in every state; what the reopened process really read (Observe) must    *)
(*                  equal the durable image of the model, byte for byte (digests).                    *)
(* Strict = TRUE  : every logged statement must in addition be the next step of the program layer     *)
(*                  (layer 2), i.e. the code has the shape that was model checked.                    *)
EXTENDS CrashDb, Json, IOUtils, TLCExt, SequencesExt

CONSTANT Strict

Traces == JsonDeserialize(IOEnv.TRACE_FILE)

VARIABLES tid, l, obs
tvars == <<vars, tid, l, obs>>

Tr == Traces[tid]
Ev == Tr.events

NoObs == [seen |-> FALSE, id |-> {}, att |-> {}, nid |-> 0, natt |-> 0, verifies |-> TRUE]

TraceInit == /\ tid \in 1..Len(Traces) /\ l = 1 /\ obs = NoObs
             /\ recs = [i \in 1..Len(Traces[tid].recs) |->
                          [kind |-> Traces[tid].recs[i].kind, ref |-> Traces[tid].recs[i].ref]]
             /\ InitDb(Range(Traces[tid].legacy))
             /\ calls = 0 /\ pc = Down

Lib(a)      == a /\ UNCHANGED <<pc, calls, recs, legacy>>
Step(a, p)  == IF Strict THEN p ELSE Lib(a)
Skip        == UNCHANGED vars

(* program layer: either PReadVersion has failed already, or the ALTER TABLE of the upgrade fails now *)
StrictOpenError == \/ (pc = <<"failed">> /\ Skip)
                   \/ (\E d \in DBs : At(d, "alter") /\ T[d].cols = 2 /\ PAlter(d))

Event(e) ==
  \/ /\ e.a = "Start"       /\ Step(DbStart, PStart)
  \/ /\ e.a = "ReadVersion" /\ IF Strict THEN PReadVersion(e.d) ELSE up /\ Skip
  \/ /\ e.a = "Begin"       /\ Step(DbBegin(e.d), POpenBegin(e.d) \/ \E i \in Recs : DbOf(i) = e.d /\ PBegin(i))
  \/ /\ e.a = "Commit"      /\ Step(DbCommit(e.d), POpenCommit(e.d) \/ \E i \in Recs : DbOf(i) = e.d /\ PCommit(i))
  \/ /\ e.a = "Rollback"    /\ ~Strict /\ Lib(DbRollback(e.d))
  \/ /\ e.a = "CreateData"  /\ Step(DbCreateData(e.d), PCreateData(e.d) \/ (At(e.d, "copt") /\ T[e.d].data /\ Skip))
  \/ /\ e.a = "CreateOpt"   /\ Step(DbCreateOpt(e.d), PCreateOpt(e.d))
  \/ /\ e.a = "DeleteVer"   /\ Step(DbDeleteVer(e.d), PDeleteVer(e.d))
  \/ /\ e.a = "InsertVer"   /\ Step(DbInsertVer(e.d), PInsertVer(e.d))
  \/ /\ e.a = "SetVer"      /\ ~Strict /\ Lib(DbSetVer(e.d))
  \/ /\ e.a = "Alter"       /\ Step(DbAlter(e.d), PAlter(e.d))
  \/ /\ e.a = "Update"      /\ Step(DbUpdate(e.d), PUpdate(e.d))
  \/ /\ e.a = "Call"        /\ e.r \in Recs /\ IF Strict THEN PCall(e.r) ELSE up /\ Skip
  \/ /\ e.a = "Exec"        /\ e.r \in Recs /\ Step(DbExecute(e.r), PExecute(e.r))
  \/ /\ e.a = "Return"      /\ e.r \in Recs /\ Step(DbReturn(e.r), PReturn(e.r))
  \/ /\ e.a = "Crash"       /\ Step(DbCrash, PCrash)
  \/ /\ e.a = "Exit"        /\ Step(DbExit, PExit)
  \/ /\ e.a = "OpenError"   /\ IF Strict THEN StrictOpenError ELSE Lib(DbOpenError)

Observe(e) == /\ e.a = "Observe"
              /\ IF Strict THEN PObserve ELSE up /\ Skip
              /\ obs' = [seen |-> TRUE, id |-> Range(e.id), att |-> Range(e.att),
                         nid |-> Len(e.id), natt |-> Len(e.att), verifies |-> e.verifies]

TraceNext == /\ l <= Len(Ev)
             /\ \/ Event(Ev[l]) /\ obs' = NoObs
                \/ Observe(Ev[l])
             /\ l' = l + 1 /\ UNCHANGED tid

TraceSpec == TraceInit /\ [][TraceNext]_tvars

(* total verdict: a trace is rejected exactly when some logged event is not an enabled step *)
TraceAccepted == l <= Len(Ev) => ENABLED TraceNext

(* ----- what the reopened process really read, against the model ----- *)
ObsRows(d) == {x.r : x \in obs[d]}
(* the rows read back are exactly the durable image the model predicts from the statement log *)
ObsMatchesDurable == obs.seen => \A d \in DBs : ObsRows(d) = D[d].rows
(* every acknowledged record is among the rows read back *)
ObsAckedPresent   == obs.seen => \A r \in acked : r \in ObsRows(DbOf(r))
(* every row read back is a record that was inserted, in its table, with the inserted bytes; no duplicates *)
ObsNoPartial      == obs.seen => /\ \A d \in DBs : \A x \in obs[d] :
                                      /\ x.r \in Recs /\ x.r \in executed /\ DbOf(x.r) = d
                                      /\ x.dig \in Range(Tr.recs[x.r].digs)
                                 /\ obs.nid = Cardinality(ObsRows("id")) /\ obs.natt = Cardinality(ObsRows("att"))
(* the pseudonym / wallet rebuilt from the files by the real reload path verifies *)
ObsVerifies       == obs.seen => obs.verifies
=============================================================================
