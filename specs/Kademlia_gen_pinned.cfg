\* NEGATIVE CONTROL: pinned generate_id ignores the prefix -> GeneratedIdInBucket must be violated
SPECIFICATION Spec
CONSTANTS W = 3 Bits <- SeqBits Cap = 1 MyNum = 5 IdNums = {0, 1, 2, 3, 4, 5, 6, 7}
          RTTs = {1} Addrs = {1} AddBads = {FALSE} KMax = 0 MaxDepth = 0
          WithGen = TRUE GenInBucket = FALSE OwnPathOnly = TRUE
INVARIANT TypeOK
INVARIANT PrefixFreeComplete
INVARIANT PartitionBrute
INVARIANT NodeInOwningBucket
INVARIANT Capacity
INVARIANT OwnPathShape
INVARIANT GeneratedIdInBucket
PROPERTY SplitOnlyOwnPath
