SPECIFICATION Spec
CONSTANTS P = 2 PinnedAdd = FALSE Seed = 0 NX = 0 NY = 0 NZ = 0
CONSTANT Exps <- ExpsStd
CONSTANT DomX <- DomAll
CONSTANT DomY <- DomAll
CONSTANT DomZ <- DomOneZ
INVARIANT TypeOK
INVARIANT MulFromDefinition
INVARIANT ImplRefines
