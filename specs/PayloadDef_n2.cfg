SPECIFICATION DSpec
CONSTANTS
  Pinned = {}
  Pads = {}
  FmtSel = {}
  ClsSel = {}
  K = 4
  DerivedMax = 2
  MaxFields = 2
  MaxConsts = 2
  CKinds = {"int", "text", "msgid", "method"}
  Kinds = {"?", "H", "I", "q", "20s", "varlenH", "varlenHutf8", "bits", "payload", "payload-list", "address", "arrayH-q", "d", "arrayH-?", "arrayH-d", "raw"}
INVARIANT RoundTripDef
INVARIANT DefaultsUsed
INVARIANT ConstsOffWire
INVARIANT AnnotationsMean
CONSTRAINT MembersFocus
CONSTRAINT AnnFocus
