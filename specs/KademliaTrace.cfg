\* validation of recorded executions of the real code; identifiers are dictionary indexes of the trace file
SPECIFICATION TraceSpec
CONSTANTS W <- DictW Bits <- DictBits
          Cap = 1 MyNum = 0 IdNums = {} RTTs = {} Addrs = {} AddBads = {} KMax = 0 MaxDepth = 0
          WithGen = TRUE GenInBucket = TRUE OwnPathOnly = TRUE
INVARIANT TypeOKT
INVARIANT PrefixFreeCompleteT
INVARIANT NodeInOwningBucket
INVARIANT Capacity
INVARIANT OwnPathShapeT
INVARIANT GeneratedIdInBucket
PROPERTY SplitOnlyOwnPathT
POSTCONDITION AllConsumed
