SPECIFICATION Spec
CONSTANTS Pfx = {"A", "B"} MaxHops = 2 MaxCid = 2 QCap = 100 MaxDepth = 6 LeakDetached = FALSE AnyState = FALSE MaxInst = 2 Lifecycle = FALSE UnloadClears = FALSE CandInit = {TRUE, FALSE} CloseWays = {"remove"} ReasonDecides = FALSE ReadyInit = FALSE Expiry = FALSE
INVARIANT TypeOK
INVARIANT NoRawForAnon
INVARIANT TunnelledOnlyOverReadyRightCircuit
INVARIANT QueueBounded
INVARIANT PlainUnaffected
INVARIANT SwitchFollowsRequests
INVARIANT StateFollowsClose
PROPERTY ImplRefinesAbs
PROPERTY PlainLeavesQueue
PROPERTY ClosedForGood
