----------------------------- MODULE PayloadDef -----------------------------
(* C20 - the meaning of a payload *definition*: what the plain, interpreted VariablePayload does with   *)
(* field formats, defaults and per-field fix_pack_ / fix_unpack_ rules.  The compiled (vp_compile) and  *)
(* the dataclass (DataClassPayload) forms of the same definition must construct, encode and decode     *)
(* exactly like it.  Bytes come from the reference codec of Wire.tla.                                   *)
(*                                                                                                      *)
(* A definition is built field by field (AddField) and then instantiated (Call) in one of three ways:  *)
(* all arguments positional, the second half as keywords, or with every defaulted field left out.      *)
(* TLC enumerates all definitions up to MaxFields exhaustively and draws longer ones with -simulate.   *)
(* A definition may also be *derived* (Derive): the fields defined so far become a base class of their  *)
(* own and the one or two fields added afterwards belong to a subclass of it.  Its meaning is that of   *)
(* the concatenated field list - whichever of the two classes was materialised or used first.           *)
(*                                                                                                      *)
(* A class body holds more than wire fields (AddConst): class-level constants - written as a bare       *)
(* assignment `MAX = 8` or, in the dataclass form, annotated `MAX: ClassVar[int] = 8` -, helper methods *)
(* and the message id (bare / ClassVar / given in the class header, `DataClassPayload[17]` resp. a       *)
(* `VariablePayloadWID` with msg_id).  By the rules of the language none of these is a field: they may   *)
(* stand before, between or after the fields, in the base class or in the subclass (which then overrides *)
(* the base's value), and the definition still means the same field list, bytes and decoding; the       *)
(* members keep the value they were given, on the class, on a constructed and on a decoded instance.    *)
(*                                                                                                      *)
(* The dataclass form does not name formats: it *annotates* every field with a type and derives the     *)
(* format from it (payload_dataclass.py: type_map).  The annotation language - a native type, a type     *)
(* variable named after a format, a nested payload class, each alone or as the element of list[T] /       *)
(* tuple[T, ...] / typing.List[T] / typing.Tuple[T, ...], written as an object or (PEP 563) as a string  *)
(* - and its meaning (TypeMap, from the "unserialized type" column of doc/reference/serialization.rst)   *)
(* are part of the definition: every field carries the annotation the dataclass form writes for it       *)
(* (Annotate replaces the customary one by any other annotation with the same meaning), and the format   *)
(* list the dataclass form ends up with (dfmt) must be that of the plain definition (AnnotationsMean).   *)
EXTENDS Wire

CONSTANTS MaxFields,      \* longest definition explored
          DerivedMax,     \* longest *derived* definition explored (base fields ++ own fields)
          Kinds,          \* field kinds (registered format names) used by the definitions
          MaxConsts,      \* most non-field members (constants, methods, message id) written into the class bodies
          CKinds          \* kinds of non-field members used by the definitions

NestedCls == "messaging.anonymization.payload.IntroductionInfo"     \* shipped class used for nested / listed fields
Item(k)   == [fmt |-> k, cls |-> IF k \in {"payload", "payload-list"} THEN NestedCls ELSE ""]
Hookable  == {"?", "H", "I", "20s", "varlenH", "varlenHutf8", "bits", "payload-list", "arrayH-?"}

(* per-field custom rules: fix_pack_<name> is applied before packing, fix_unpack_<name> after unpacking; *)
(* named bijections so that the harness can install the same rule on the three forms                    *)
RotL(v) == IF Len(v) = 0 THEN v ELSE Tail(v) \o <<Head(v)>>
RotR(v) == IF Len(v) = 0 THEN v ELSE <<v[Len(v)]>> \o SubSeq(v, 1, Len(v) - 1)
HookPack(k, v) ==
  CASE k = "?" -> ~v
    [] k = "H" -> (v + 1) % 65536
    [] k = "I" -> Compl(v)
    [] k \in {"20s", "varlenH", "varlenHutf8"} -> RotL(v)
    [] k = "bits" -> [j \in 1..8 |-> IF j = 1 THEN 1 - v[1] ELSE v[j]]       \* rule on the first bit name only
    [] k \in {"payload-list", "arrayH-?"} -> Rev(v)
HookUnpack(k, v) ==
  CASE k = "?" -> ~v
    [] k = "H" -> (v + 65535) % 65536
    [] k = "I" -> Compl(v)
    [] k \in {"20s", "varlenH", "varlenHutf8"} -> RotR(v)
    [] k = "bits" -> [j \in 1..8 |-> IF j = 1 THEN 1 - v[1] ELSE v[j]]
    [] k \in {"payload-list", "arrayH-?"} -> Rev(v)

(* small value domains (three per kind, the last one is used as the default value) *)
N1 == [address |-> V4Dom[2], key |-> Pat(5, 1), seeder_pk |-> <<>>, source |-> 1]
N2 == [address |-> V6Dom[3], key |-> <<>>, seeder_pk |-> Pat(33, 2), source |-> 255]
N3 == [address |-> V4Dom[5], key |-> <<0>>, seeder_pk |-> <<255>>, source |-> 0]
F8 == CompDom(BY8)
KDom(k) ==
  CASE k = "?" -> <<FALSE, TRUE, TRUE, TRUE>>
    [] k = "H" -> <<0, 4660, 65535, 7>>
    [] k = "I" -> <<U4Dom[1], U4Dom[4], U4Dom[8], U4Dom[3]>>
    [] k = "q" -> <<S8Dom[1], S8Dom[5], S8Dom[8], S8Dom[3]>>
    [] k = "20s" -> <<Pat(20, 1), Fill(20, 0), Fill(20, 255), Pat(20, 9)>>
    [] k = "varlenH" -> << <<>>, Pat(3, 1), Pat(40, 2), <<100, 0, 255>> >>
    [] k = "varlenHutf8" -> << <<>>, <<104, 105>>, <<97, 233, 8364, 128512>>, <<100, 233, 34, 102, 39, 108, 116>> >>
    [] k = "bits" -> << <<0, 0, 0, 0, 0, 0, 0, 0>>, <<1, 0, 1, 0, 0, 1, 1, 1>>, <<1, 1, 1, 1, 1, 1, 1, 1>>, <<0, 1, 0, 0, 0, 0, 0, 1>> >>
    [] k = "payload" -> <<N1, N2, N3, N2>>
    [] k = "payload-list" -> << <<>>, <<N1>>, <<N2, N1, N3>>, <<>> >>
    [] k = "address" -> <<V4Dom[2], V6Dom[3], DmDom[2], V4Dom[3]>>
    [] k = "arrayH-q" -> << <<>>, <<S8Dom[3]>>, <<S8Dom[2], S8Dom[8], S8Dom[5]>>, <<S8Dom[2]>> >>
    [] k = "raw" -> << <<>>, Pat(4, 1), Pat(30, 2), <<1, 2>> >>
    [] k = "d" -> <<F8[1], F8[2], F8[3], F8[6]>>                      \* 0.0, 1.0, +infinity, -pi (IEEE bytes)
    [] k = "arrayH-?" -> << <<>>, <<TRUE>>, <<FALSE, TRUE, TRUE>>, <<TRUE, FALSE>> >>
    [] k = "arrayH-d" -> << <<>>, <<F8[2]>>, <<F8[6], F8[1], F8[4]>>, <<F8[2], F8[6]>> >>
ArgVal(k, i, j) == KDom(k)[((i + j) % 3) + 1]
(* default values: literals of the field's type (the 4th entry above); the text default contains both  *)
(* kinds of quotes and a non-ASCII letter ( d e-acute " f ' l t ); the default of a listed field is the  *)
(* empty list                                                                                           *)
DefaultVal(k) == KDom(k)[4]

(* non-field members of a class body.  ck: what it is; sty: how it is written ("bare" assignment / def, *)
(* "classvar" = annotated with typing.ClassVar in the dataclass form, "subscript" = message id in the    *)
(* class header); the value depends on the class that declares it, so that an override is visible       *)
ConstKinds == {"int", "text", "tuple", "msgid", "method"}
ConstStyles(ck) == CASE ck = "msgid" -> {"bare", "classvar", "subscript"}
                     [] ck = "method" -> {"bare"}
                     [] OTHER -> {"bare", "classvar"}
CVal(ck, sub) ==
  CASE ck = "int"    -> IF sub THEN 9 ELSE 8
    [] ck = "text"   -> IF sub THEN <<110, 47, 97>> ELSE <<233, 34, 39>>
    [] ck = "tuple"  -> IF sub THEN <<1, 2>> ELSE <<7>>
    [] ck = "msgid"  -> IF sub THEN 18 ELSE 17
    [] ck = "method" -> IF sub THEN 43 ELSE 42            \* what calling the helper method returns

(* ---------------------------------------------------------------------------------------------------- *)
(* the annotation language of the dataclass form and what an annotation means                            *)
(* c: "" (the type itself) | "list" | "tuple" | "List" | "Tuple"  (list[T], tuple[T, ...], typing.List[T], *)
(*    typing.Tuple[T, ...]);  b: the type T - a native type, "format" (a type variable named f, made by    *)
(*    type_from_format(f)) or "payload" (the nested payload class);  s: written as a string (postponed     *)
(*    evaluation of annotations, what `from __future__ import annotations` does to every class body)      *)
(* ---------------------------------------------------------------------------------------------------- *)
Ann(c, b, f, s) == [c |-> c, b |-> b, f |-> f, s |-> s]
NoAnn      == Ann("", "none", "", FALSE)              \* 'bits' binds eight names: no dataclass field can say that
Containers == {"", "list", "tuple", "List", "Tuple"}
NativeFmt  == ("bool" :> "?") @@ ("int" :> "q") @@ ("float" :> "d") @@ ("bytes" :> "varlenH") @@ ("str" :> "varlenHutf8")
ElemFmt(a) == CASE a.b = "format" -> a.f [] a.b = "payload" -> "payload" [] OTHER -> NativeFmt[a.b]
(* documented meaning: the type's own format; a sequence of payloads is a payload-list, a sequence of     *)
(* natives the array of the element's format ("[bool]" -> arrayH-?, "[int]" -> arrayH-q, "[float]" -> arrayH-d) *)
TypeMap(a) == IF a.c = "" THEN ElemFmt(a)
              ELSE IF a.b = "payload" THEN "payload-list"
              ELSE "arrayH-" \o ElemFmt(a)
(* pinned deviation used as a negative control: the element test of a sequence annotation accepts every   *)
(* subclass of int - and bool is one - so that [bool] is sent as [int]                                     *)
TypeMapImpl(a) == IF "elem_int_subclass" \in Pinned /\ a.c # "" /\ a.b = "bool" THEN "arrayH-q" ELSE TypeMap(a)
(* the annotation one customarily writes for a field of format k: the native type where there is one,     *)
(* else the type variable of the format                                                                  *)
Canon(k) ==
  CASE k = "?" -> Ann("", "bool", "", FALSE) [] k = "q" -> Ann("", "int", "", FALSE) [] k = "d" -> Ann("", "float", "", FALSE)
    [] k = "varlenH" -> Ann("", "bytes", "", FALSE) [] k = "varlenHutf8" -> Ann("", "str", "", FALSE)
    [] k = "arrayH-?" -> Ann("list", "bool", "", FALSE) [] k = "arrayH-q" -> Ann("list", "int", "", FALSE)
    [] k = "arrayH-d" -> Ann("list", "float", "", FALSE)
    [] k = "payload" -> Ann("", "payload", "", FALSE) [] k = "payload-list" -> Ann("list", "payload", "", FALSE)
    [] k = "bits" -> NoAnn
    [] OTHER -> Ann("", "format", k, FALSE)
AnnSpace == {Ann(c, b, "", s) : c \in Containers, b \in (DOMAIN NativeFmt) \cup {"payload"}, s \in BOOLEAN}
            \cup {Ann("", "format", f, s) : f \in Kinds \ {"bits", "payload", "payload-list"}, s \in BOOLEAN}
(* (a format type variable as the *element* of a sequence has no stated meaning: not part of the language) *)
(* kinds and annotations that the exhaustive configurations enumerate in single-field definitions only   *)
FocusKinds == {"d", "arrayH-?", "arrayH-d"}

VARIABLES def,       \* sequence of [k: kind, d: has a default, h: has custom rules, dv: the default value,
                     \*              ann: the annotation the dataclass form writes for the field]
          split,     \* 0, or the number of leading fields that belong to the base class of a derived definition
          dphase,    \* "define" | "called"
          style,     \* "" | "positional" | "keyword" | "defaulted"
          args,      \* the argument given for every field (ignored for an omitted one)
          fields,    \* field values the instance must have after construction
          pbytes,    \* bytes the instance must pack to
          pdec,      \* what decoding those bytes must give
          consts,    \* sequence of [ck, sty, pos: number of fields written before it, sub: written in the subclass body,
                     \*              v: the value written there]
          cvals,     \* value every member of consts must show on the (most derived) class and on its instances
          bcvals,    \* the same for the base class of a derived definition (its own members only)
          dfmt       \* the format list the dataclass form derives from its annotations (<<>>: no dataclass form)
dvars == <<def, split, dphase, style, args, fields, pbytes, pdec, consts, cvals, bcvals, dfmt>>
WireIdle == /\ kind = "none" /\ fmt = "" /\ val = <<>> /\ pad = 0 /\ bytes = <<>> /\ data = <<>> /\ dec = Err
            /\ re = <<>> /\ phase = "none"

EncDef(df, vals) == CatN([i \in 1..Len(df) |->
                            EncF(Item(df[i].k), IF df[i].h THEN HookPack(df[i].k, vals[i]) ELSE vals[i])], Len(df))
RECURSIVE DecDefFrom(_, _, _, _, _)
DecDefFrom(df, i, d, off, acc) ==
  IF i > Len(df) THEN R(acc, off)
  ELSE LET r == DecF(Item(df[i].k), d, off) IN
       IF ~r.ok THEN Err
       ELSE DecDefFrom(df, i + 1, d, r.end, Append(acc, IF df[i].h THEN HookUnpack(df[i].k, r.val) ELSE r.val))
DecDef(df, d) == DecDefFrom(df, 1, d, 0, <<>>)

DInit == /\ def = <<>> /\ split = 0 /\ dphase = "define" /\ style = "" /\ args = <<>> /\ fields = <<>> /\ pbytes = <<>> /\ pdec = Err
         /\ consts = <<>> /\ cvals = <<>> /\ bcvals = <<>> /\ dfmt = <<>>

AddField(k, d, h) ==
  /\ dphase = "define" /\ Len(def) < MaxFields
  /\ split > 0 => (Len(def) - split < 2 /\ Len(def) < DerivedMax)   \* a subclass adds one or two fields
  /\ Len(def) > 0 => def[Len(def)].k # "raw"                      \* 'raw' swallows the rest: last field only
  /\ h => (k \in Hookable /\ \A i \in 1..Len(def) : ~def[i].h)      \* at most one field with custom rules
  /\ (Len(def) > 0 /\ def[Len(def)].d) => d                        \* defaults form a suffix (Python signature rule)
  /\ def' = Append(def, [k |-> k, d |-> d, h |-> h, dv |-> IF d THEN DefaultVal(k) ELSE <<>>, ann |-> Canon(k)])
  /\ UNCHANGED <<split, dphase, style, args, fields, pbytes, pdec, consts, cvals, bcvals, dfmt>>

(* the field written last is annotated differently in the dataclass form: any annotation that means the  *)
(* same format (the plain and the compiled form, which name the format, are not touched by this)         *)
Annotate(a) ==
  /\ dphase = "define" /\ Len(def) > 0
  /\ LET n == Len(def) IN
       /\ def[n].k # "bits" /\ def[n].ann = Canon(def[n].k) /\ a # def[n].ann
       /\ TypeMap(a) = def[n].k
       /\ def' = [def EXCEPT ![n].ann = a]
  /\ UNCHANGED <<split, dphase, style, args, fields, pbytes, pdec, consts, cvals, bcvals, dfmt>>

(* the fields so far become a base class; what follows is defined in a class derived from it *)
Derive ==
  /\ dphase = "define" /\ split = 0 /\ Len(def) > 0 /\ Len(def) < DerivedMax /\ Len(def) < MaxFields
  /\ def[Len(def)].k # "raw"
  /\ split' = Len(def)
  /\ UNCHANGED <<def, dphase, style, args, fields, pbytes, pdec, consts, cvals, bcvals, dfmt>>

(* a member that is not a wire field is written at this point of the class body (of the subclass, once  *)
(* the definition is derived); a name is declared once per class body; the class header comes first     *)
AddConst(ck, sty) ==
  /\ dphase = "define" /\ Len(consts) < MaxConsts
  /\ sty \in ConstStyles(ck)
  /\ sty = "subscript" => (split = 0 /\ Len(def) = 0 /\ Len(consts) = 0)
  /\ \A i \in 1..Len(consts) : ~(consts[i].ck = ck /\ consts[i].sub = (split > 0))
  /\ consts' = Append(consts, [ck |-> ck, sty |-> sty, pos |-> Len(def), sub |-> split > 0, v |-> CVal(ck, split > 0)])
  /\ UNCHANGED <<def, split, dphase, style, args, fields, pbytes, pdec, cvals, bcvals, dfmt>>

Overridden(ck) == \E j \in 1..Len(consts) : consts[j].ck = ck /\ consts[j].sub
BaseConsts == SelectSeq(consts, LAMBDA c : ~c.sub)
(* pinned deviation used as a negative control: a member annotated in the class body is taken for a     *)
(* dataclass field, i.e. the instance gets one more field (holding the member's value)                   *)
Strays == IF "const_as_field" \in Pinned THEN SelectSeq(consts, LAMBDA c : c.sty = "classvar") ELSE <<>>

Call(st) ==
  /\ dphase = "define" /\ Len(def) > 0
  /\ split > 0 => Len(def) > split
  /\ st = "defaulted" => \E i \in 1..Len(def) : def[i].d
  /\ LET j  == CASE st = "positional" -> 1 [] st = "keyword" -> 2 [] st = "defaulted" -> 3
         a  == [i \in 1..Len(def) |-> ArgVal(def[i].k, i, j)]
         fs == [i \in 1..Len(def) |->
                  IF st = "defaulted" /\ def[i].d
                  THEN (IF "default_text" \in Pinned /\ def[i].k = "varlenHutf8" THEN <<>> ELSE def[i].dv)
                  ELSE a[i]]                   \* pinned _compile_init: the text of the default is pasted into the source
         b  == EncDef(def, fs)
     IN /\ args' = a /\ pbytes' = b /\ pdec' = DecDef(def, b)
        /\ fields' = fs \o [i \in 1..Len(Strays) |-> Strays[i].v]
  /\ cvals' = [i \in 1..Len(consts) |-> CVal(consts[i].ck, Overridden(consts[i].ck))]
  /\ bcvals' = [i \in 1..Len(BaseConsts) |-> CVal(BaseConsts[i].ck, FALSE)]
  /\ dfmt' = IF \E i \in 1..Len(def) : def[i].k = "bits" THEN <<>> ELSE [i \in 1..Len(def) |-> TypeMapImpl(def[i].ann)]
  /\ style' = st /\ dphase' = "called"
  /\ UNCHANGED <<def, split, consts>>

DNext == (\/ \E k \in Kinds, d \in BOOLEAN, h \in BOOLEAN : AddField(k, d, h)
          \/ \E a \in AnnSpace : Annotate(a)
          \/ Derive
          \/ \E ck \in CKinds, sty \in {"bare", "classvar", "subscript"} : AddConst(ck, sty)
          \/ \E st \in {"positional", "keyword", "defaulted"} : Call(st))
         /\ UNCHANGED vars
DSpec == (DInit /\ WireIdle) /\ [][DNext]_<<dvars, vars>>

(* the plain definition is itself sound: decoding what it packs gives back the constructed fields and   *)
(* consumes everything (custom rules are inverse pairs)                                                 *)
RoundTripDef == dphase = "called" => pdec.ok /\ pdec.val = fields /\ pdec.end = Len(pbytes)
DefaultsUsed == dphase = "called" =>
                  \A i \in 1..Len(def) : fields[i] = IF style = "defaulted" /\ def[i].d THEN def[i].dv ELSE args[i]
(* state constraint of the exhaustive configurations: definitions with members are enumerated over one   *)
(* field kind without custom rules, with one member or a base declaration and its override in the       *)
(* subclass (all kinds, rules and up to MaxConsts members together: simulated definitions)               *)
MembersFocus == Len(consts) > 0 =>
                  /\ Len(consts) = 1 \/ (Len(consts) = 2 /\ consts[1].ck = consts[2].ck)
                  /\ \A i \in 1..Len(def) : def[i].k = "H" /\ ~def[i].h

(* the same for annotations: free annotations and the kinds that exist for them are enumerated over      *)
(* single-field definitions without members (longer ones: simulated definitions)                        *)
AnnFocus == (\E i \in 1..Len(def) : def[i].ann # Canon(def[i].k) \/ def[i].k \in FocusKinds) =>
              Len(def) = 1 /\ split = 0 /\ Len(consts) = 0

(* what the annotations of the dataclass form mean: it ends up with exactly the format list of the plain *)
(* definition, whichever of the equivalent annotations was written                                       *)
AnnotationsMean == dphase = "called" =>
                     /\ \A i \in 1..Len(def) : def[i].k # "bits" => TypeMap(def[i].ann) = def[i].k
                     /\ dfmt # <<>> => dfmt = [i \in 1..Len(def) |-> def[i].k]
                     /\ dfmt = <<>> <=> \E i \in 1..Len(def) : def[i].k = "bits"

(* members that are not fields stay off the wire and keep their value: the instance has exactly the     *)
(* defined fields, the bytes are those of the field list alone, and every member shows the value of its *)
(* most derived declaration                                                                              *)
ConstsOffWire == dphase = "called" =>
                   /\ Len(fields) = Len(def) /\ pbytes = EncDef(def, fields)
                   /\ Len(cvals) = Len(consts)
                   /\ \A i \in 1..Len(consts) :
                        cvals[i] = CVal(consts[i].ck, consts[i].sub \/ \E j \in 1..Len(consts) : consts[j].ck = consts[i].ck /\ consts[j].sub)
                   /\ Len(bcvals) = Cardinality({i \in 1..Len(consts) : ~consts[i].sub})
=============================================================================
