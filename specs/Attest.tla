------------------------------- MODULE Attest -------------------------------
(* ipv8/attestation/wallet/bonehexact : attest, create_challenge(s), create_challenge_response,    *)
(* process_challenge_response, binary_relativity(_match/_certainty); BonehExactAlgorithm.certainty. *)
(* Exact-match attribute proof with IDEALISED encryption: a ciphertext is a slot whose content (the *)
(* sum of one pair of hash bits) nobody but the key owner can read, and the attestation is the      *)
(* shuffled list of slots. The shuffle is hidden, so the content of a slot is fixed at the moment   *)
(* it is first decrypted, constrained only by what is left of the value's bit-pair profile          *)
(* (`revealed`). Pairings, the 2-DNF homomorphism that makes a*b*complement decrypt to the pair     *)
(* sum, and discrete logarithms are outside TLA+ (see DESIGN.md C18).                               *)
(* Abstract layer  : Profile(bits), the property's demands (Reconstructs, TrueValueScores, ...).    *)
(* Implementation layer : challenge / response / aggregate bookkeeping, the certainty rule          *)
(*                   match * (1 - 2^-n) of binary_relativity_certainty.                             *)
EXTENDS Naturals, Sequences, FiniteSets, TLC

CONSTANTS BitSpace,  \* hash bits in the exhaustive model (the trace spec takes the length from the trace)
          Honest     \* TRUE: the prover answers with what it decrypts. FALSE: anything (negative control)

VARIABLES bits,      \* hash bits of the attested value, most significant first
          revealed,  \* slot -> pair sum, for the slots decrypted so far
          pending,   \* slots whose challenge is on its way to the prover
          answers,   \* slot -> response on its way back to the verifier
          agg,       \* the verifier's aggregate (relativity map) 0..3 -> count
          done       \* slots whose response has been processed
vars == <<bits, revealed, pending, answers, agg, done>>

NP    == Len(bits) \div 2
Slots == 1..NP
PairSum(b, j) == b[2 * j - 1] + b[2 * j]
Profile(b) == [k \in 0..3 |-> Cardinality({j \in 1..(Len(b) \div 2) : PairSum(b, j) = k})]
Count(f, k) == Cardinality({i \in DOMAIN f : f[i] = k})
Total(m) == m[0] + m[1] + m[2] + m[3]

Init == /\ bits \in [1..BitSpace -> {0, 1}]
        /\ revealed = <<>> /\ pending = {} /\ answers = <<>> /\ done = {}
        /\ agg = [k \in 0..3 |-> 0]

(* verifier: create_challenges()[i] is sent *)
Challenge(i) == /\ i \in Slots /\ i \notin pending /\ i \notin DOMAIN answers /\ i \notin done
                /\ pending' = pending \cup {i}
                /\ UNCHANGED <<bits, revealed, answers, agg, done>>

(* prover: create_challenge_response = decrypt the challenged slot (3 = not one of 0, 1, 2) *)
Respond(i, r) == /\ i \in pending
                 /\ IF Honest
                    THEN /\ r \in 0..2
                         /\ IF i \in DOMAIN revealed THEN r = revealed[i]
                            ELSE Count(revealed, r) < Profile(bits)[r]
                    ELSE r \in 0..3
                 /\ revealed' = IF i \in DOMAIN revealed THEN revealed ELSE (i :> r) @@ revealed
                 /\ pending' = pending \ {i}
                 /\ answers' = (i :> r) @@ answers
                 /\ UNCHANGED <<bits, agg, done>>

(* verifier: process_challenge_response *)
Process(i) == /\ i \in DOMAIN answers
              /\ agg' = [agg EXCEPT ![answers[i]] = @ + 1]
              /\ answers' = [j \in (DOMAIN answers) \ {i} |-> answers[j]]
              /\ done' = done \cup {i}
              /\ UNCHANGED <<bits, revealed, pending>>

DoChallenge == \E i \in Slots : Challenge(i)
DoRespond   == \E i \in Slots : \E r \in 0..3 : Respond(i, r)
DoProcess   == \E i \in Slots : Process(i)
Next == DoChallenge \/ DoRespond \/ DoProcess
Spec == Init /\ [][Next]_vars

-----------------------------------------------------------------------------
(* the certainty rule (binary_relativity_match / _certainty) as a rational <<num, den>> *)
Pow2(n) == 2 ^ n
Mismatch(exp, val) == \E k \in 0..3 : exp[k] < val[k]
Factor(e, v) == IF e = 0 \/ v = 0 THEN <<1, 1>> ELSE <<v, e>>
MatchOf(exp, val) ==
    IF Mismatch(exp, val) THEN <<0, 1>>
    ELSE LET f == [k \in 0..3 |-> Factor(exp[k], val[k])]
         IN <<f[0][1] * f[1][1] * f[2][1] * f[3][1], f[0][2] * f[1][2] * f[2][2] * f[3][2]>>
Certainty(cand) == LET m == MatchOf(Profile(cand), agg)
                       n == Total(agg)
                   IN <<m[1] * (Pow2(n) - 1), m[2] * Pow2(n)>>

FullRound == done = Slots

TypeOK == /\ DOMAIN revealed \subseteq Slots /\ pending \subseteq Slots /\ done \subseteq Slots
          /\ DOMAIN answers \subseteq Slots /\ DOMAIN agg = 0..3
(* the verifier reconstructs exactly the profile of the attested value *)
SubProfile   == \A k \in 0..3 : agg[k] <= Profile(bits)[k]
AggIsAnswers == \A k \in 0..3 : agg[k] = Cardinality({i \in done : revealed[i] = k})
Reconstructs == FullRound => agg = Profile(bits)
(* after the n answers of a full round the true value scores 1 - 2^-n ... *)
TrueValueScores == FullRound => LET c == Certainty(bits) IN c[1] * Pow2(NP) = c[2] * (Pow2(NP) - 1)
(* ... and every value with another profile scores zero *)
OtherProfilesZero == FullRound =>
    \A cand \in [1..Len(bits) -> {0, 1}] : Profile(cand) # Profile(bits) => Certainty(cand)[1] = 0

-----------------------------------------------------------------------------
(* What the property demands of an observed score, used by the trace specification.               *)
(* s20 = round(certainty * 2^20), pos = (certainty > 0). Only full rounds are constrained by the   *)
(* statement; in partial rounds a certainty merely is a number in [0, 1].                          *)
Full20(n) == IF n >= 21 THEN Pow2(20) ELSE Pow2(20) - Pow2(20 - n)
ScoreOK(cand, pos, s20) ==
    /\ s20 >= 0 /\ s20 <= Pow2(20)
    /\ FullRound => IF Profile(cand) = Profile(bits)
                    THEN pos /\ s20 = Full20(NP)
                    ELSE ~pos /\ s20 = 0
=============================================================================
