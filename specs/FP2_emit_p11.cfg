SPECIFICATION Spec
CONSTANTS P = 11 PinnedAdd = FALSE Seed = 0 NX = 40 NY = 40 NZ = 0
CONSTANT Exps <- ExpsWide
CONSTANT DomX <- DomMixX
CONSTANT DomY <- DomMixY
CONSTANT DomZ <- DomOneZ
INVARIANT TypeOK
INVARIANT MulFromDefinition
INVARIANT ImplRefines
