--------------------------- MODULE LifecycleTrace ---------------------------
(* Recorded runs of the real ipv8_service.IPv8 under the virtual clock (harness/g04_runs.py: natural   *)
(* scheduling, real RandomWalk strategies and DispersyBootstrapper on the simulated network, API calls *)
(* at random instants) checked against Lifecycle.tla: every logged event must be the named action of   *)
(* the specification with the logged observations.                                                      *)
(*   Start / Wake : one run of the ticker task up to its next sleep; steps = the strategies whose       *)
(*                  take_step was entered, d = the requested sleep in ms (smoothing pause or interval)  *)
(*   SetPeers     : the peer count the ticker saw for an overlay differs from the one it saw before     *)
(*   Close        : endpoint.close() was called - only acceptable once the specification has closed it  *)
(*   Check        : the user task compares the registered overlays / strategies / life-cycle states     *)
EXTENDS LifecycleMC, Json, IOUtils, TLCExt

Traces == JsonDeserialize(IOEnv.TRACE_FILE)

VARIABLES tid, l
tvars == <<vars, tid, l>>

Ev == Traces[tid].events

TraceInit == tid \in 1..Len(Traces) /\ l = 1 /\ Init

SleepOK(e) == e.d = 1000 * (IF tk'.st = "mid" THEN tk'.smooth ELSE WI)

Same(e) == /\ overlays = e.ovl /\ strategies = e.strs
           /\ \A o \in Ov : ovst[o] = e.ovst[o] /\ ucalls[o] = e.ucalls[o]
           /\ ep = e.ep /\ svc = e.svc

Step(e) ==
  CASE e.op = "Start"         -> Start /\ steps' = e.steps /\ SleepOK(e)
    [] e.op = "Wake"          -> Wake /\ steps' = e.steps /\ SleepOK(e)
    [] e.op = "AddStrategy"   -> AddStrategy(e.a)
    [] e.op = "UnloadOverlay" -> UnloadOverlay(e.a)
    [] e.op = "UnloadRun"     -> UnloadRun(e.a)
    [] e.op = "Stop"          -> Stop
    [] e.op = "SetPeers"      -> SetPeers(e.a, e.k)
    [] e.op = "Close"         -> ep = "closed" /\ UNCHANGED vars
    [] e.op = "Check"         -> Same(e) /\ UNCHANGED vars
    [] OTHER                  -> FALSE

TraceNext == /\ l <= Len(Ev)
             /\ Step(Ev[l])
             /\ l' = l + 1 /\ UNCHANGED tid

TraceSpec == TraceInit /\ [][TraceNext]_tvars

(* total verdict: a trace is rejected exactly when some logged event is not an enabled spec step *)
TraceAccepted == l <= Len(Ev) => ENABLED TraceNext
=============================================================================
