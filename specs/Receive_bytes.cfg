SPECIFICATION MCSpec
CONSTANTS PL = 2 CidLen = 1 CellId = 0 NoCrypto = {2} ExtendId = 3 MaxRelayEarly = 2 Pinned = FALSE
          MaxOps = 0 MaxRecv = 1 MaxLen = 9 Mode = "bytes"
CONSTANTS Pkts <- MCPkts Lids <- MCLids Pfxs <- MCPfxs Tuns <- MCTuns XPkts <- MCXPkts Vias <- MCVias
          Dev = {} Ipv8Versions = {2, 3} TunOps = {}
INVARIANT Total
INVARIANT PrefixIsolation
INVARIANT OnlyRegisteredIds
INVARIANT AllListenersServed
INVARIANT RegistryServed
INVARIANT NothingWhenClosed
INVARIANT TableOK
INVARIANT TunOK
