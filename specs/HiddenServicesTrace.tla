------------------------ MODULE HiddenServicesTrace ------------------------
(* Executions of real HiddenTunnelCommunity nodes (harness/g06_world.py: step-mode loop, manual simulated network,   *)
(* virtual time) validated against HiddenServices.tla: every logged step must be the named action with the logged   *)
(* arguments; the hidden-services messages the nodes really sent in that step must be exactly the messages the action *)
(* sends; the state projected from the real objects (swarms, connections, introduction points, circuits by role,      *)
(* exit sockets, introduction / rendezvous tables, rendezvous routes, PEX announcements, the five request caches,     *)
(* callbacks, DHT) must equal the specification's next state.  All properties of HiddenServices.tla are evaluated on  *)
(* the validated behaviour.                                                                                           *)
EXTENDS HiddenServices, Json, IOUtils, TLCExt

File == JsonDeserialize(IOEnv.TRACE_FILE)
Traces == File.traces

VARIABLES tid, l
tvars == <<vars, tid, l>>
Ev == Traces[tid].events

Big == 0..1000000
NoNodes == {}
SetOf(s) == {s[i] : i \in DOMAIN s}
Msg(m) == IF m.t = "PR" THEN [m EXCEPT !.peers = SetOf(m.peers)] ELSE m

PostOK(p) ==
  /\ \A n \in Nodes :
       /\ swarm'[n] = SetOf(p.swarm[n])
       /\ conns'[n] = SetOf(p.conns[n])
       /\ ips'[n] = SetOf(p.ips[n])
       /\ {[id |-> r.id, ct |-> r.ct, ih |-> r.ih, st |-> r.st, x |-> r.x, req |-> r.req, e2e |-> r.e2e, hs |-> r.hs # NoKey] : r \in circ'[n]}
            = SetOf(p.circ[n])
       /\ exits'[n] = SetOf(p.exits[n])
       /\ intro'[n] = SetOf(p.intro[n])
       /\ rdv'[n] = SetOf(p.rdv[n])
       /\ links'[n] = SetOf(p.links[n])
       /\ pex'[n] = SetOf(p.pex[n])
       /\ pexOn'[n] = SetOf(p.pexOn[n])
       /\ {[k |-> q.k, id |-> q.id, c |-> q.c] : q \in caches'[n]} = SetOf(p.caches[n])
       /\ cbs'[n] = p.cbs[n]
  /\ dht' = SetOf(p.dht)

Skip == UNCHANGED vars

Step(e) ==
  CASE e.a = "Skip" -> Skip
    [] e.a = "JoinSwarm" -> JoinSwarm(e.n, e.ih, e.seeding, e.k)
    [] e.a = "LeaveSwarm" -> LeaveSwarm(e.n, e.ih)
    [] e.a = "CreateIntroPoint" -> CreateIntroPoint(e.n, e.ih, e.c, e.req)
    [] e.a = "Lookup" -> Lookup(e.n, e.ih, SetOf(e.aged), SetOf(e.reqs), e.dhtmode)
    [] e.a = "OnPeersRequestCell" -> OnPeersRequestCell(e.n, Msg(e.m), SetOf(e.ps))
    [] e.a = "OnPeersRequestSock" -> OnPeersRequestSock(e.n, Msg(e.m), SetOf(e.ps))
    [] e.a = "OnPeersResponse" -> OnPeersResponse(e.n, Msg(e.m), SetOf(e.new))
    [] e.a = "PeersTimeout" -> PeersTimeout(e.n, e.id, SetOf(e.new))
    [] e.a = "OnEstablishIntro" -> OnEstablishIntro(e.n, e.m)
    [] e.a = "OnIntroEstablished" -> OnIntroEstablished(e.n, e.m)
    [] e.a = "IPTimeout" -> IPTimeout(e.n, e.id)
    [] e.a = "OnEstablishRendezvous" -> OnEstablishRendezvous(e.n, e.m)
    [] e.a = "OnRendezvousEstablished" -> OnRendezvousEstablished(e.n, e.m, e.e2, e.tag)
    [] e.a = "RPTimeout" -> RPTimeout(e.n, e.id)
    [] e.a = "OnCreateE2ESock" -> OnCreateE2ESock(e.n, e.m)
    [] e.a = "OnCreateE2ECirc" -> OnCreateE2ECirc(e.n, e.m, e.c, e.req)
    [] e.a = "OnCreatedE2E" -> OnCreatedE2E(e.n, e.m, e.c)
    [] e.a = "CircuitReady" -> CircuitReady(e.n, e.c, e.x, e.id, e.ck)
    [] e.a = "OnLinkE2E" -> OnLinkE2E(e.n, e.m)
    [] e.a = "OnLinkedE2E" -> OnLinkedE2E(e.n, e.m)
    [] e.a = "WrongEnd" -> WrongEnd(e.n, e.m)
    [] e.a = "QuietTimeout" -> QuietTimeout(e.n, e.k, e.id)
    [] e.a = "DataCircuit" -> DataCircuit(e.n, e.c, e.req)
    [] e.a = "ExitNew" -> ExitNew(e.n, e.c)
    [] e.a = "ExitConvert" -> ExitConvert(e.n, e.c)
    [] e.a = "ExitEnable" -> ExitEnable(e.n, e.c)
    [] e.a = "CircClose" -> CircClose(e.n, e.c)
    [] e.a = "CircPop" -> CircPop(e.n, e.c)
    [] e.a = "ExitClose" -> ExitClose(e.n, e.c)
    [] e.a = "ExitPop" -> ExitPop(e.n, e.c)
    [] e.a = "RelayGone" -> RelayGone(e.n, e.c)
    [] e.a = "Forge" -> Forge(Msg(e.m), e.b)
    [] OTHER -> FALSE

TraceInit == tid \in 1..Len(Traces) /\ l = 1 /\ Init

TraceNext == /\ l <= Len(Ev)
             /\ LET e == Ev[l] IN
                  /\ Step(e)
                  /\ ("sent" \in DOMAIN e) => msgs' = msgs \cup {Msg(m) : m \in SetOf(e.sent)}
                  /\ ("post" \in DOMAIN e) => PostOK(e.post)
             /\ l' = l + 1 /\ UNCHANGED <<tid, budget>>

TraceSpec == TraceInit /\ [][TraceNext]_tvars

(* total verdict (locating run): a trace is rejected exactly when some logged event is not an enabled spec step *)
TraceAccepted == l <= Len(Ev) => ENABLED TraceNext
(* explaining run: violated by the state the (shortened) trace ends in, which TLC then prints *)
NotDone == l <= Len(Ev)
=============================================================================
