SPECIFICATION MCSpecT
CONSTANTS PL = 2 CidLen = 1 CellId = 0 NoCrypto = {2} ExtendId = 3 MaxRelayEarly = 2 Pinned = FALSE
          MaxOps = 0 MaxRecv = 2 MaxLen = 0 Mode = "tables"
CONSTANTS Pkts <- MCPkts Lids <- MCLids Pfxs <- MCPfxs Tuns <- MCTuns XPkts <- MCXPkts Vias <- MCVias
          Dev = {"pair", "rdv", "exit"} Ipv8Versions = {2, 3} TunOps = {"tick", "sweep"}
INVARIANT TotalRdv
INVARIANT NeverHalfRdv
INVARIANT TotalPair
INVARIANT TotalExit
INVARIANT NeverHalfRelayed
INVARIANT NeverExitForwarded
INVARIANT NeverExitDropped
