SPECIFICATION TraceSpec
CONSTANTS NC = 50 NI = 10 Delays = {1, 2, 3, 4} PassTimeouts = {0, 1, 2} Filters = {"all", "A"}
          Nesting = TRUE ReAdds = 1000000 ExtFut = 1000 ReapOwnOnly = TRUE LateCancel = TRUE
          HScripts = {"none", "raise", "pop", "add"} CoHandlers = TRUE ClaimFirst = TRUE
          TMShutdown = TRUE ShutGuard = FALSE NFut = 3 FutLoop = "all"
INVARIANT TraceAccepted
INVARIANT TypeOK
INVARIANT ExactlyOnce
INVARIANT ClaimedOnce
INVARIANT NoTimeoutAfterClaim
INVARIANT OutstandingWillEnd
INVARIANT TableAgrees
INVARIANT LateResponseFindsNothing
INVARIANT UniqueIdentity
INVARIANT FuturesCompletedOnTimeout
INVARIANT AfterShutdown
INVARIANT AfterFlag
INVARIANT NoLateTimeout
INVARIANT EndedIsQuiet
