SPECIFICATION TraceSpec
CONSTANTS QCap = 10 MaxPend = 100000 MaxOps = 1000000
          NoInboundFilter = FALSE NoNullCheck = FALSE AnyoneOpens = FALSE RepIds = {}
          TrackHistory = TRUE FlowCache = "none" HostIps = {} HostPorts = {} SrcSet = {} DkSet = {}
          StaleVerdict = "none" HopFollowsPeer = FALSE VerdictMemo = "none" FlagChoices = {} SignedSrcs = {}
INVARIANT TraceAccepted
INVARIANT TypeOK
INVARIANT EmitOnlyAllowed
INVARIANT NeverToNull
INVARIANT OpenedOnlyByPrevHop
INVARIANT EmitOnlyWhenOpen
INVARIANT QueueClean
INVARIANT VerdictByOwnShape
