\* 2 peers x 2 addresses x 1 service, cache capacities 1, 5 calls.  The driver (harness/drivers/c12.py) generates its
\* configurations with literal constants per tier; this file is the quick-tier "small" model, for running TLC by hand.
SPECIFICATION Spec
CONSTANTS NP = 2 NA = 2 NS = 1 V6 = {} BlackAddr = {} BlackMid = {} IpCap = 1 IntroCap = 1 SvcCap = 1
          NB = 0 IterBufs = {} Defects = {} MaxDepth = 5
VIEW NoRetOp
INVARIANT TypeOK
INVARIANT LookupsAgree
INVARIANT HistoryAgrees
INVARIANT BlacklistedNeverVerified
INVARIANT SnapshotRoundTrip
PROPERTY QueriesPure
PROPERTY RemovedIsGone
PROPERTY RemovedIsClean
PROPERTY ReAddWorks
