--------------------------- MODULE IdentityWorld ---------------------------
(* The fixed universe of signed objects used by Identity.tla and by harness/drivers/c17.py.        *)
(* The driver reads this module's values from TLC (IdentityCat.tla) and builds every object with   *)
(* real keys and the real Token / Metadata / Attestation classes - the specification is the single *)
(* source of the universe.                                                                          *)
(*                                                                                                  *)
(* Keys:      0 = the node under test (attestor and owner of its own chain), 1, 2 = subjects,       *)
(*            3 = an outsider that nobody ever registers.                                           *)
(* Hashes:    attribute hashes 1, 2.        Names: 1 = "n1", 2 = "n2".                               *)
(* Extra:     extra metadata of a Metadata object: 1 = {} , 2 = {"a": "b"}                          *)
(* RegMeta:   metadata fixed by a registration: 0 = None (not fixed), 1 = {} , 2 = {"a": "b"}       *)
EXTENDS Naturals, Sequences

Self     == 0
Peers    == 1..3
Subjects == {1, 2}
Hashes   == {1, 2}

(* tokens: 1 <- 2 is the chain of subject 1 (attribute hashes 1, 2); 3 <- 4 the chain of subject 2 *)
(* (attribute hashes 2, 1): subject 2 owns a token over the hash that is normally registered for   *)
(* subject 1.  Parent 0 = genesis of the owner's tree.                                             *)
W == [ tokOwner  |-> <<1, 1, 2, 2>>,
       tokPar    |-> <<0, 1, 0, 3>>,
       tokHash   |-> <<1, 2, 2, 1>>,
       (* metadata: 1 honest (subject 1, token 1, "n1"); 2 same with extra metadata; 3 wrong name; *)
       (* 4 subject 1's token 2; 5, 6 subject 2's tokens; 7 lacks the "schema" field; 8 points to  *)
       (* a token that does not exist (pointer id 9)                                                *)
       mdSigner  |-> <<1, 1, 1, 1, 2, 2, 1, 1>>,
       mdTok     |-> <<1, 1, 1, 2, 3, 4, 1, 9>>,
       mdName    |-> <<1, 1, 2, 1, 1, 1, 1, 1>>,
       mdExtra   |-> <<1, 2, 1, 1, 1, 1, 1, 1>>,
       mdReq     |-> <<TRUE, TRUE, TRUE, TRUE, TRUE, TRUE, FALSE, TRUE>>,
       (* attestations: 1 outsider over metadata 1; 2 the node's own attestation over metadata 1   *)
       (* (what it sends out once it attests, replayed to it); 3 outsider over metadata 5;         *)
       (* 4 subject 1 over its own metadata 1                                                       *)
       attSigner |-> <<3, 0, 3, 1>>,
       attMd     |-> <<1, 1, 5, 1>> ]

Toks == 1..Len(W.tokOwner)
Mds  == 1..Len(W.mdSigner)
Atts == 1..Len(W.attSigner)

(* ------------------------------------------------------------------------------------------------ *)
(* Message catalogues of the exhaustive configurations (IdentityMC.tla picks index subsets).         *)
(* registrations add_known_hash(hash, name, subject key, metadata)                                   *)
RegCat == << [h |-> 1, name |-> 1, subj |-> 1, meta |-> 0],     \* 1 the honest registration for subject 1
             [h |-> 2, name |-> 1, subj |-> 2, meta |-> 0],     \* 2 the honest registration for subject 2
             [h |-> 1, name |-> 1, subj |-> 2, meta |-> 0],     \* 3 hash 1 for subject 2
             [h |-> 1, name |-> 1, subj |-> 1, meta |-> 2],     \* 4 fixes the extra metadata {"a": "b"}
             [h |-> 1, name |-> 2, subj |-> 1, meta |-> 0],     \* 5 other name
             [h |-> 2, name |-> 1, subj |-> 1, meta |-> 0],     \* 6 hash 2 for subject 1
             [h |-> 1, name |-> 1, subj |-> 1, meta |-> 1] >>   \* 7 fixes "no extra metadata"

(* token parts of a disclosure, per sender: own chain in both orders, dangling child, foreign token  *)
TokCat == << << <<>>, <<1>>, <<2>>, <<1, 2>>, <<2, 1>>, <<3>>, <<1, 3>> >>,
             << <<>>, <<3>>, <<4>>, <<3, 4>>, <<4, 3>>, <<1>>, <<3, 1>> >>,
             << <<>>, <<1>>, <<3>>, <<1, 2>>, <<3, 4>>, <<2>>, <<1, 3>> >> >>

MdCat  == << <<>>, <<1>>, <<2>>, <<3>>, <<4>>, <<5>>, <<6>>, <<7>>, <<8>>, <<1, 4>>, <<5, 6>>, <<2, 1>> >>

(* attestation parts: pairs <<attestation, claimed authority>>                                       *)
AttCat == << <<>>, << <<1, 3>> >>, << <<1, 2>> >>, << <<2, 0>> >>, << <<3, 3>> >>, << <<4, 1>> >>,
             << <<1, 3>>, <<4, 1>> >> >>
=============================================================================
