SPECIFICATION Spec
CONSTANTS MaxRecs = 4 MaxCalls = 5 MaxRuns = 3 CommitBeforeReturn = TRUE TolerantVersionRead = TRUE
          AtomicUpgrade = TRUE Legacy = TRUE
INVARIANT TypeOK
INVARIANT AckedDurable
INVARIANT NoPartialRecord
INVARIANT ReopenOk
INVARIANT PseudonymVerifies
