SPECIFICATION Spec
CONSTANTS N = 5 UCap = 7 WakeAll = FALSE WithContent = FALSE
          Views = {"pub"} ReduceKey = TRUE WireStops = FALSE WireLen = 0
INVARIANT TypeOK
INVARIANT KeyIsPublic
INVARIANT OnlyValidConnected
INVARIANT Complete
INVARIANT NeverBad
INVARIANT WaitingAreDisjoint
INVARIANT ContentBound
INVARIANT PublicRoundTrip
INVARIANT PublicReloadsClean
INVARIANT PathRoundTrip
