SPECIFICATION Spec
CONSTANTS N = 5 UCap = 7 WakeAll = FALSE WithContent = FALSE
INVARIANT TypeOK
INVARIANT OnlyValidConnected
INVARIANT Complete
INVARIANT NeverBad
INVARIANT WaitingAreDisjoint
INVARIANT ContentBound
INVARIANT PublicRoundTrip
INVARIANT PathRoundTrip
