SPECIFICATION Spec
CONSTANTS N = 4 UCap = 6 WakeAll = TRUE WithContent = FALSE
INVARIANT TypeOK
INVARIANT OnlyValidConnected
INVARIANT Complete
INVARIANT NeverBad
INVARIANT WaitingAreDisjoint
INVARIANT ContentBound
INVARIANT PublicRoundTrip
INVARIANT PathRoundTrip
