SPECIFICATION Spec
CONSTANTS N = 4 UCap = 6 WakeAll = TRUE WithContent = FALSE
          Views = {"full"} ReduceKey = TRUE WireStops = FALSE WireLen = 0
INVARIANT TypeOK
INVARIANT KeyIsPublic
INVARIANT OnlyValidConnected
INVARIANT Complete
INVARIANT NeverBad
INVARIANT WaitingAreDisjoint
INVARIANT ContentBound
INVARIANT PublicRoundTrip
INVARIANT PublicReloadsClean
INVARIANT PathRoundTrip
