SPECIFICATION Spec
CONSTANTS
  Pinned = {"flags_offset"}
  Pads = {0, 1}
  FmtSel = {"flags"}
  ClsSel = {}
  K = 1
INVARIANT ExactConsumption
