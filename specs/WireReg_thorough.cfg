SPECIFICATION RSpec
CONSTANTS
  Pinned = {}
  Pads = {}
  FmtSel = {}
  ClsSel = {}
  K = 3
  Insts = {"tunnel1", "tunnel2", "hidden1", "dht1", "appA1", "appB1"}
  MaxAdds = 1
  UseJ = {2, 3}
  UsePads = {0, 3}
  SharedModes = {FALSE, TRUE}
INVARIANT OwnRegistry
INVARIANT Isolation
INVARIANT DocumentedUse
INVARIANT CtlIsolation
