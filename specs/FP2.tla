-------------------------------- MODULE FP2 --------------------------------
(* ipv8/attestation/wallet/primitives/value.py : FP2Value.                                         *)
(* A value is a fraction of two polynomials <<a,b,c,aC,bC,cC>> = (a+bx+cx^2)/(aC+bCx+cCx^2) over   *)
(* F_P, taken modulo x^2+x+1 (a field, F_{P^2}, because P % 3 = 2).                                 *)
(* Abstract layer  : the arithmetic written from the definition - polynomial convolution, stepwise  *)
(*                   reduction with x^2 = -x-1, fractions by cross multiplication (R* operators).   *)
(*                   TLC checks the field laws on it (invariants over the operands x, y, z).        *)
(* Implementation layer : the closed bilinear forms FP2Value uses (I* operators, 6-tuples), square  *)
(*                   and multiply, normalize, wp_compress. TLC checks that they compute exactly the *)
(*                   abstract results (ImplRefines).  PinnedAdd = TRUE is the pinned __add__ whose  *)
(*                   numerator misses two terms.                                                    *)
(* One action per public call; every successor state is one implementation test: the driver calls  *)
(* the real method on (x, y) and compares with `res` (the field value the property demands) and     *)
(* `raw` (the representation the implementation layer predicts).                                    *)
EXTENDS Integers, Sequences, FiniteSets, TLC

CONSTANTS P,          \* prime modulus with P % 3 = 2
          DomX, DomY, DomZ,   \* operand sets (6-tuples); substituted by one of the Dom* operators below
          Exps,       \* exponents for intpow
          PinnedAdd,  \* TRUE: implementation layer = pinned __add__ (negative control)
          Seed, NX, NY, NZ    \* parameters of the seeded domains

ASSUME P \in Nat /\ P > 1 /\ P % 3 = 2
ASSUME P <= 10007     \* sums of twelve products of residues must fit TLC's 32-bit integers

M(n) == n % P

-----------------------------------------------------------------------------
(* Abstract layer: polynomials are coefficient tuples <<c0, c1, ...>> of degree <= 2 (explicit    *)
(* tuples, so that TLC evaluates them once).                                                        *)
Coef(u, i) == IF i <= Len(u) THEN u[i] ELSE 0

(* product of two polynomials of degree <= 2: coefficient k is the sum of u_i * v_j over i + j = k *)
Conv(u, v) == << M(Coef(u, 1) * Coef(v, 1)),
                 M(Coef(u, 1) * Coef(v, 2) + Coef(u, 2) * Coef(v, 1)),
                 M(Coef(u, 1) * Coef(v, 3) + Coef(u, 2) * Coef(v, 2) + Coef(u, 3) * Coef(v, 1)),
                 M(Coef(u, 2) * Coef(v, 3) + Coef(u, 3) * Coef(v, 2)),
                 M(Coef(u, 3) * Coef(v, 3)) >>

(* reduction modulo x^2 + x + 1, one degree at a time: t*x^k = -t*x^(k-1) - t*x^(k-2) *)
Red4(s) == <<s[1], s[2], M(s[3] - s[5]), M(s[4] - s[5])>>      \* removes the x^4 term
Red3(s) == <<s[1], M(s[2] - s[4]), M(s[3] - s[4])>>            \* removes the x^3 term
Red2(s) == <<M(s[1] - s[3]), M(s[2] - s[3])>>                  \* removes the x^2 term
Reduce(s) == IF Len(s) = 5 THEN Red2(Red3(Red4(s)))
             ELSE IF Len(s) = 3 THEN Red2(s)
             ELSE <<M(s[1]), M(s[2])>>

Zero == <<0, 0>>
One  == <<M(1), 0>>
PMulDef(u, v) == Reduce(Conv(u, v))                       \* product by the definition
(* the same product of two reduced polynomials in closed form (MulFromDefinition checks that the two  *)
(* agree on every operand TLC sees); used everywhere below because TLC evaluates it ten times faster   *)
PMul(u, v) == <<M(u[1] * v[1] - u[2] * v[2]), M(u[1] * v[2] + u[2] * v[1] - u[2] * v[2])>>
PAdd(u, v) == <<M(u[1] + v[1]), M(u[2] + v[2])>>
PNeg(u)    == <<M(0 - u[1]), M(0 - u[2])>>
PSub(u, v) == PAdd(u, PNeg(v))
PScale(u, k) == <<M(u[1] * k), M(u[2] * k)>>

(* fractions <<numerator, denominator>> of reduced polynomials *)
Num(X)  == Reduce(<<X[1], X[2], X[3]>>)
Den(X)  == Reduce(<<X[4], X[5], X[6]>>)
Frac(X) == <<Num(X), Den(X)>>
Valid(X)   == Den(X) # Zero          \* denotes a field element
NonZero(X) == Num(X) # Zero
FOne == <<One, One>>

RAddF(F, G) == <<PAdd(PMul(F[1], G[2]), PMul(G[1], F[2])), PMul(F[2], G[2])>>
RNegF(F)    == <<PNeg(F[1]), F[2]>>
RSubF(F, G) == <<PSub(PMul(F[1], G[2]), PMul(G[1], F[2])), PMul(F[2], G[2])>>
RMulF(F, G) == <<PMul(F[1], G[1]), PMul(F[2], G[2])>>
RInvF(F)    == <<F[2], F[1]>>
RDivF(F, G) == RMulF(F, RInvF(G))
REqF(F, G)  == PMul(F[1], G[2]) = PMul(G[1], F[2])      \* equality of fractions: cross multiplication
RECURSIVE RPowN(_, _)
RPowN(F, n) == IF n = 0 THEN FOne ELSE RMulF(RPowN(F, n - 1), F)   \* repeated product
RPowF(F, k) == IF k >= 0 THEN RPowN(F, k) ELSE RInvF(RPowN(F, 0 - k))

(* inverse in F_P by the extended Euclidean algorithm: <<g, s, t>> with s*a + t*b = g *)
RECURSIVE EGcd(_, _)
EGcd(a, b) == IF b = 0 THEN <<a, 1, 0>>
              ELSE LET r == EGcd(b, a % b) IN <<r[1], r[3], r[2] - (a \div b) * r[3]>>
ModInv(n) == M(EGcd(M(n), P)[2])
(* inverse of a polynomial: conjugate / norm, (d0 + d1 x)(d0 + d1 x^2) = d0^2 - d0 d1 + d1^2 *)
Norm(d) == M(M(d[1] * d[1]) - M(d[1] * d[2]) + M(d[2] * d[2]))
PInv(d) == PScale(<<M(d[1] - d[2]), M(0 - d[2])>>, ModInv(Norm(d)))
Canon(F) == PMul(F[1], PInv(F[2]))                       \* the field element as a0 + a1 x

-----------------------------------------------------------------------------
(* Implementation layer: value.py's formulas on 6-tuples (s = self, o = other) *)
IAddNum(s, o) ==
    s[4]*o[1] - s[6]*o[1] + s[1]*o[4] - s[3]*o[4] - s[5]*o[2] + s[6]*o[2]
    - s[4]*o[3] + s[5]*o[3] - s[1]*o[6] + s[2]*o[6]
    + (IF PinnedAdd THEN 0 ELSE s[3]*o[5] - s[2]*o[5])
IDen1(s, o) == s[4]*o[4] - s[6]*o[4] - s[5]*o[5] + s[6]*o[5] - s[4]*o[6] + s[5]*o[6]
IDen2(s, o) == s[5]*o[4] - s[6]*o[4] + s[4]*o[5] - s[5]*o[5] - s[4]*o[6] + s[6]*o[6]
IAdd(s, o) == <<M(IAddNum(s, o)),
                M(s[5]*o[1] - s[6]*o[1] + s[2]*o[4] - s[3]*o[4] + s[4]*o[2] - s[5]*o[2] + s[1]*o[5]
                  - s[2]*o[5] - s[4]*o[3] + s[6]*o[3] - s[1]*o[6] + s[3]*o[6]),
                0, M(IDen1(s, o)), M(IDen2(s, o)), 0>>
ISub(s, o) == <<M(0 - s[4]*o[1] + s[6]*o[1] + s[1]*o[4] - s[3]*o[4] + s[5]*o[2] - s[6]*o[2] - s[2]*o[5]
                  + s[3]*o[5] + s[4]*o[3] - s[5]*o[3] - s[1]*o[6] + s[2]*o[6]),
                M(0 - s[5]*o[1] + s[6]*o[1] + s[2]*o[4] - s[3]*o[4] - s[4]*o[2] + s[5]*o[2] + s[1]*o[5]
                  - s[2]*o[5] + s[4]*o[3] - s[6]*o[3] - s[1]*o[6] + s[3]*o[6]),
                0, M(IDen1(s, o)), M(IDen2(s, o)), 0>>
IMul(s, o) == <<M(s[1]*o[1] - s[3]*o[1] - s[2]*o[2] + s[3]*o[2] - s[1]*o[3] + s[2]*o[3]),
                M(s[2]*o[1] - s[3]*o[1] + s[1]*o[2] - s[2]*o[2] - s[1]*o[3] + s[3]*o[3]),
                0, M(IDen1(s, o)), M(IDen2(s, o)), 0>>
IInv(s) == <<s[4], s[5], s[6], s[1], s[2], s[3]>>
IDiv(s, o) == IMul(s, IInv(o))
INorm(s) == LET mp == ModInv(s[4]) IN
            IF M(s[4]) # 0
            THEN <<M(s[1]*mp), M(s[2]*mp), M(s[3]*mp), M(1), M(s[5]*mp), M(s[6]*mp)>>
            ELSE s
IOne == <<M(1), 0, 0, M(1), 0, 0>>
RECURSIVE ISqMul(_, _, _)
ISqMul(R, U, n) == IF n = 0 THEN R
                   ELSE ISqMul(IF n % 2 = 1 THEN IMul(R, U) ELSE R, IMul(U, U), n \div 2)
IPow(s, k) == IF k >= 0 THEN ISqMul(IOne, s, k) ELSE INorm(IInv(ISqMul(IOne, s, 0 - k)))
ICompress(s) == LET c == Canon(Frac(s)) IN <<c[1], c[2], 0, M(1), 0, 0>>
Tup(X) == <<M(X[1]), M(X[2]), M(X[3]), M(X[4]), M(X[5]), M(X[6])>>

-----------------------------------------------------------------------------
(* Operand domains (selected in the cfg: DomX <- DomAll etc.) *)
Cs == 0..(P - 1)
DomAll  == {X \in Cs \X Cs \X Cs \X Cs \X Cs \X Cs : Valid(X)}              \* all six coefficients free
DomLin  == {X \in Cs \X Cs \X {0} \X Cs \X Cs \X {0} : Valid(X)}            \* c = cC = 0
Dom01   == {0, 1} \X {0, 1} \X {0, 1} \X {0, 1} \X {0, 1} \X {0, 1}          \* incl. zero denominators
(* seeded samples: Lehmer steps g(s) = 75 s mod 65537 over s in 1..65536 (never 0) *)
Step(s) == (s * 75) % 65537
RECURSIVE Draw(_, _)
Draw(s, n) == IF n = 0 THEN <<>> ELSE <<s>> \o Draw(Step(s), n - 1)
Edge == <<0, 1, 2, P - 1, P - 2, (P - 1) \div 2, (P + 1) \div 2>>               \* boundary grid
RC(v) == (v \div 7) % P
RndTuple(s)  == LET d == Draw(s, 6) IN <<RC(d[1]), RC(d[2]), RC(d[3]), RC(d[4]), RC(d[5]), RC(d[6])>>
EC(v) == M(Edge[((v \div 7) % 7) + 1])
EdgeTuple(s) == LET d == Draw(s, 6) IN <<EC(d[1]), EC(d[2]), EC(d[3]), EC(d[4]), EC(d[5]), EC(d[6])>>
Start(k, i)  == ((Seed * 7919 + k * 104729 + i * 611) % 65536) + 1
DomRnd(k, n)  == {X \in {RndTuple(Start(k, i)) : i \in 1..n} : Valid(X)}
DomEdge(k, n) == {X \in {EdgeTuple(Start(k, i)) : i \in 1..n} : Valid(X)}
DomRndX == DomRnd(1, NX)
DomRndY == DomRnd(2, NY)
DomRndZ == DomRnd(3, NZ)
DomEdgeX == DomEdge(4, NX)
DomEdgeY == DomEdge(5, NY)
DomEdgeZ == DomEdge(6, NZ)
DomMixX == DomRndX \cup DomEdgeX
DomMixY == DomRndY \cup DomEdgeY
DomMixZ == DomRndZ \cup DomEdgeZ
DomOneZ == {<<0, 0, 0, 1, 0, 0>>}
ExpsStd == (0 - 3)..5
ExpsWide == (0 - 5)..9

-----------------------------------------------------------------------------
VARIABLES x, y, z,  \* operands
          op,       \* "init" or the call made
          res,      \* what the property demands: a fraction <<num, den>>, or a BOOLEAN for Eq
          raw,      \* what the implementation layer returns (6-tuple; BOOLEAN for Eq)
          form      \* "value": only the field value is demanded; "unitAC": and aC = 1 (normalize);
                    \* "compressed": exactly <<a, b, 0, 1, 0, 0>> (wp_compress)
vars == <<x, y, z, op, res, raw, form>>

Z0 == CHOOSE v \in DomZ : TRUE
Y0 == CHOOSE v \in DomY : TRUE

Init == /\ x \in DomX /\ y \in DomY /\ z \in DomZ
        /\ op = "init" /\ res = <<>> /\ raw = <<>> /\ form = "none"

Binary == op = "init" /\ z = Z0
Unary  == op = "init" /\ z = Z0 /\ y = Y0
Result(name, r, i, f) == /\ op' = name /\ res' = r /\ raw' = i /\ form' = f /\ UNCHANGED <<x, y, z>>

Add == Binary /\ Result("Add", RAddF(Frac(x), Frac(y)), IAdd(x, y), "value")
Sub == Binary /\ Result("Sub", RSubF(Frac(x), Frac(y)), ISub(x, y), "value")
Mul == Binary /\ Result("Mul", RMulF(Frac(x), Frac(y)), IMul(x, y), "value")
FloorDiv == Binary /\ Result("FloorDiv", RDivF(Frac(x), Frac(y)), IDiv(x, y), "value")
Eq  == /\ Binary /\ Valid(x) /\ Valid(y)
       /\ Result("Eq", REqF(Frac(x), Frac(y)), REqF(Frac(x), Frac(y)), "bool")
Inverse   == Unary /\ Result("Inverse", RInvF(Frac(x)), IInv(x), "value")
Normalize == Unary /\ Result("Normalize", Frac(x), INorm(x), "unitAC")
Compress  == /\ Unary /\ Valid(x) /\ M(x[3]) = 0 /\ M(x[6]) = 0
             /\ Result("Compress", <<Canon(Frac(x)), One>>, ICompress(x), "compressed")
IntPow(k) == /\ Unary /\ (k < 0 => Valid(x))
             /\ Result("IntPow", RPowF(Frac(x), k), IPow(x, k), "value")

Next == Add \/ Sub \/ Mul \/ FloorDiv \/ Eq \/ Inverse \/ Normalize \/ Compress
        \/ \E k \in Exps : IntPow(k)
Spec == Init /\ [][Next]_vars

-----------------------------------------------------------------------------
(* Field laws on the abstract layer (the operands are field elements: valid denominators) *)
fx == Frac(x)
fy == Frac(y)
fz == Frac(z)
InInit == op = "init"
(* laws in three operands are evaluated on every initial state, laws in two operands where z = Z0, laws *)
(* in one operand where also y = Y0 (each operand combination exactly once)                            *)
Elems == InInit /\ Valid(x) /\ Valid(y) /\ Valid(z)
Two   == Elems /\ z = Z0
Single == Two /\ y = Y0

TypeOK == /\ x \in Seq(Int) /\ Len(x) = 6 /\ Len(y) = 6 /\ Len(z) = 6
          /\ op \in {"init", "Add", "Sub", "Mul", "FloorDiv", "Eq", "Inverse", "Normalize", "Compress", "IntPow"}
AddCommutes   == Two => REqF(RAddF(fx, fy), RAddF(fy, fx))
MulCommutes   == Two => REqF(RMulF(fx, fy), RMulF(fy, fx))
AddAssoc      == Elems => REqF(RAddF(RAddF(fx, fy), fz), RAddF(fx, RAddF(fy, fz)))
MulAssoc      == Elems => REqF(RMulF(RMulF(fx, fy), fz), RMulF(fx, RMulF(fy, fz)))
Distributes   == Elems => REqF(RMulF(fx, RAddF(fy, fz)), RAddF(RMulF(fx, fy), RMulF(fx, fz)))
SubIsAddNeg   == Two => REqF(RSubF(fx, fy), RAddF(fx, RNegF(fy)))
Identities    == Single => /\ REqF(RAddF(fx, <<Zero, One>>), fx) /\ REqF(RMulF(fx, FOne), fx)
                                    /\ REqF(RSubF(fx, fx), <<Zero, One>>)
DivThenMul    == Two /\ NonZero(y) => REqF(RMulF(RDivF(fx, fy), fy), fx)
InverseLaw    == Single /\ NonZero(x) => REqF(RMulF(fx, RInvF(fx)), FOne)
PolyInverse   == Single => PMul(Den(x), PInv(Den(x))) = One
CanonIsValue  == Single => REqF(<<Canon(fx), One>>, fx)
EqIsCanonEq   == Two => (REqF(fx, fy) <=> Canon(fx) = Canon(fy))
PowLaw        == Single /\ NonZero(x) =>
                    \A k \in Exps : \A j \in Exps :
                       (k + j \in Exps) => REqF(RPowF(fx, k + j), RMulF(RPowF(fx, k), RPowF(fx, j)))
MulFromDefinition ==
    (InInit /\ z = Z0) =>
       \A u \in {Num(x), Den(x), Num(y), Den(y)} : \A v \in {Num(x), Den(x), Num(y), Den(y)} :
           PMul(u, v) = PMulDef(u, v)
(* the implementation layer computes exactly the abstract results *)
AsFrac(T) == <<Reduce(<<T[1], T[2], T[3]>>), Reduce(<<T[4], T[5], T[6]>>)>>
ImplRefines ==
    /\ (InInit /\ z = Z0) =>
              /\ AsFrac(IAdd(x, y)) = RAddF(fx, fy)
              /\ AsFrac(ISub(x, y)) = RSubF(fx, fy)
              /\ AsFrac(IMul(x, y)) = RMulF(fx, fy)
              /\ AsFrac(IDiv(x, y)) = RDivF(fx, fy)
    /\ (InInit /\ z = Z0 /\ y = Y0 /\ Valid(x)) =>
              /\ REqF(AsFrac(INorm(x)), fx)
              /\ (M(x[3]) = 0 /\ M(x[6]) = 0 => REqF(AsFrac(ICompress(x)), fx))
              /\ (NonZero(x) => \A k \in Exps : REqF(AsFrac(IPow(x, k)), RPowF(fx, k)))
=============================================================================
