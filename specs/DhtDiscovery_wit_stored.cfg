SPECIFICATION Spec
CONSTANTS Nodes = {1, 2, 3} Adv = {3} Storers = {1} Connectors = {} AltAddr = {9} AdvReqTargets = {2} AdvRespTargets = {1} ConnKeys = {} ConnPings = {0}
          Acts = {"token", "rotate", "store", "adv-spreq", "adv-spresp"}
          Timeout = 1 PingInterval = 5 KeepAlive = 12 Enough = 2 MaxFind = 8
          Jumps = {} MaxClock = 5 MaxId = 2 MaxEpoch = 2 MaxSent = 4
          EmptyKeyHit = FALSE PingTimeoutOk = FALSE NoTokenCheck = FALSE NoTargetCheck = FALSE AckFromSender = FALSE
          NoSweep = FALSE NoPuncture = FALSE PunctSwapped = FALSE SendRefused = FALSE PongUnsolicitedResets = FALSE
CONSTANT TokenPairs <- TP_store
CONSTANT FindSets <- FS_store
CONSTRAINT Bound
INVARIANT WitnessStored
