SPECIFICATION Spec
CONSTANTS
 Boots <- B1
 Kind <- KindD
 ConfIPs <- IPsD
 Names <- NamesD
 DnsAddr = {"B", "D"}
 Others = {"X"}
 TO = 2
 MaxT = 3
 NoEnsure = FALSE NoRate = FALSE LeakSocket = FALSE
INVARIANT TypeOK
INVARIANT ContactedBlacklisted
INVARIANT NoPeerAfterContact
INVARIANT RateLimit
INVARIANT InitOnce
INVARIANT BootIPsBlacklisted
INVARIANT QuietAfterUnload
INVARIANT SocketsClosed
PROPERTY BlacklistMonotone
PROPERTY ForeignIgnored
