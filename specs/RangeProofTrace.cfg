SPECIFICATION TraceSpec
CONSTANTS MaxV = 0
INVARIANT TraceAccepted
INVARIANT TypeOK
INVARIANT BuildableIffInside
INVARIANT InsideBuilds
INVARIANT InsideAccepted
INVARIANT OutsideNeverAccepted
