SPECIFICATION TraceSpec
CONSTANTS MaxV = 0 Below = 0 WidthOnly = FALSE
INVARIANT TraceAccepted
INVARIANT TypeOK
INVARIANT BuildableIffInside
INVARIANT InsideBuilds
INVARIANT InsideAccepted
INVARIANT OutsideNeverAccepted
