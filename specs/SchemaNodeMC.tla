---------------------------- MODULE SchemaNodeMC ----------------------------
(* constants of the exhaustive runs of SchemaNode.tla: two algorithms with two parameterisations each *)
EXTENDS SchemaNode
MCFormats == {[algorithm |-> a, par |-> p] : a \in {"exact", "range"}, p \in 1..2}
=============================================================================
