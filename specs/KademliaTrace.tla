--------------------------- MODULE KademliaTrace ---------------------------
(* Executions of the real RoutingTable recorded by harness/drivers/c14.py, checked against            *)
(* Kademlia.tla.  The file holds a dictionary 'ids' of identifiers (bit sequences of the real width w, *)
(* referred to by index everywhere else: Bits <- DictBits, W <- DictW) and traces.  A trace is a chunk   *)
(* of one history: the real table at the start of the chunk, then events.                              *)
(*   add / touch / removebad : must be a step of the specification's action; what the driver saw       *)
(*       (evicted nodes, number of splits, and - when snap = 1 - the complete real table afterwards)   *)
(*       selects among the tables the specification allows and must match one of them.                 *)
(*   closest : the logged answer of closest_nodes must satisfy the brute force definition IsClosest.   *)
(*   gen     : the logged result of Bucket.generate_id must be a step of GenerateId.                    *)
(* All structural invariants of Kademlia.tla are evaluated on every state, in particular on the real   *)
(* tables that start the chunks.                                                                       *)
EXTENDS Kademlia, Json, IOUtils, TLCExt

Doc    == JsonDeserialize(IOEnv.TRACE_FILE)
Traces == Doc.traces
RECURSIVE SumLen(_)
SumLen(j) == IF j = 0 THEN 0 ELSE Len(Traces[j].events) + SumLen(j - 1)
FoldSum == SumLen(Len(Traces))
DictW  == Doc.w
DictBits(id) == Doc.ids[id]

VARIABLES tid,      \* which trace of the file
          l,        \* next event
          fresh     \* the set of bucket prefixes is new (initial table of a chunk, or the last call split buckets)
tvars == <<vars, tid, l, fresh>>

T  == Traces[tid]
Ev == T.events

TableOf(tb) == [p \in {tb[j].p : j \in 1..Len(tb)} |->
                  UNION {Range(tb[j].n) : j \in {jj \in 1..Len(tb) : tb[jj].p = p}}]
AttrOf(at)  == [n \in {at[j].i : j \in 1..Len(at)} |->
                  LET j == CHOOSE jj \in 1..Len(at) : at[jj].i = n
                  IN [rtt |-> at[j].rtt, bad |-> at[j].bad, addr |-> at[j].addr]]

TraceInit == /\ tid \in 1..Len(Traces) /\ l = 1 /\ fresh = TRUE
             /\ my = T.my /\ cap = T.cap
             /\ buckets = TableOf(T.table) /\ attrs = AttrOf(T.attr) /\ gen = <<>>

(* what the driver observed about a state changing call *)
Observed(e) ==
  /\ Nodes \ NodesOf(buckets') = Range(e.ev)
  /\ Cardinality(DOMAIN buckets') = Cardinality(Prefixes) + e.sp
  /\ e.snap = 1 => (buckets' = TableOf(e.table) /\ attrs' = AttrOf(e.attr))

Step(e) ==
  CASE e.op = "add"       -> Add(e.i, e.rtt, e.bad, e.addr) /\ Observed(e)
    [] e.op = "touch"     -> Touch(e.i, e.rtt, e.bad) /\ Observed(e)
    [] e.op = "removebad" -> RemoveBad /\ Observed(e)
    [] e.op = "closest"   -> /\ IsClosest(e.ans, e.t, e.k, Range(e.x))
                             /\ UNCHANGED vars
    [] e.op = "gen"       -> GenerateId(e.p, e.i)

TraceNext == /\ l <= Len(Ev)
             /\ Step(Ev[l])
             /\ fresh' = (DOMAIN buckets' # DOMAIN buckets)
             /\ l' = l + 1 /\ UNCHANGED tid

TraceSpec == TraceInit /\ [][TraceNext]_tvars

(* the invariants that only read the set of bucket prefixes are re-evaluated whenever that set is new *)
TypeOKT             == (fresh => TypePrefixes) /\ DOMAIN attrs = Nodes /\ (gen = <<>> \/ Len(gen) = 2)
PrefixFreeCompleteT == fresh => PrefixFreeComplete
OwnPathShapeT       == fresh => OwnPathShape

(* total verdict: a trace is rejected exactly when some logged event is not an enabled step.           *)
(* Fast path: every event of every trace was consumed (one state per event + one per trace);           *)
(* KademliaTrace_locate.cfg names the trace and the event with ENABLED when that fails.                *)
AllConsumed   == TLCGet("distinct") = Len(Traces) + FoldSum
TraceAccepted == l <= Len(Ev) => ENABLED TraceNext

SplitOnlyOwnPathT == [][SplitStep]_tvars
=============================================================================
