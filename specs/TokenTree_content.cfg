SPECIFICATION Spec
CONSTANTS N = 3 UCap = 1 WakeAll = TRUE WithContent = TRUE
          Views = {"own"} ReduceKey = TRUE WireStops = FALSE WireLen = 0
INVARIANT TypeOK
INVARIANT KeyIsPublic
INVARIANT OnlyValidConnected
INVARIANT Complete
INVARIANT NeverBad
INVARIANT WaitingAreDisjoint
INVARIANT ContentBound
INVARIANT PublicRoundTrip
INVARIANT PublicReloadsClean
INVARIANT PathRoundTrip
