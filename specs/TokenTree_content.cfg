SPECIFICATION Spec
CONSTANTS N = 3 UCap = 1 WakeAll = TRUE WithContent = TRUE
INVARIANT TypeOK
INVARIANT OnlyValidConnected
INVARIANT Complete
INVARIANT NeverBad
INVARIANT WaitingAreDisjoint
INVARIANT ContentBound
INVARIANT PublicRoundTrip
INVARIANT PathRoundTrip
