\* negative control = the pinned Attestations key (subject, metadata): a piggy-backed attestation shadows the own row
SPECIFICATION MCSpec
CONSTANTS AlreadyChecked = TRUE PkPerAuthority = FALSE CheckSubject = TRUE CheckPermission = TRUE CommitBeforeSend = TRUE Window = 300 RespCap = 10 FitAll = 8
  Regs = {1} Senders = {1} TokIdx = {2} MdIdx = {2} AttIdx = {1, 2, 6} MissIdx = {1}
  Ticks = {} OwnerPeers = {} KnownVals = {} AttSend = {} RegFirst = TRUE FaultTabs = {}
  MaxReg = 1 MaxMsg = 2 MaxTick = 0 MaxOwn = 0 MaxFault = 0
INVARIANT SignsOnlyConsented
