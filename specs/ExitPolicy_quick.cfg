SPECIFICATION Spec
CONSTANTS QCap = 2 MaxPend = 1 MaxOps = 5
          NoInboundFilter = FALSE NoNullCheck = FALSE AnyoneOpens = FALSE
          RepIds = {1, 4, 5, 7}
          TrackHistory = FALSE FlowCache = "none" HostIps = {"x"} HostPorts = {1}
          StaleVerdict = "none" HopFollowsPeer = FALSE VerdictMemo = "none" FlagChoices = {} SignedSrcs = {}
          SrcSet = {"prev", "port", "other"} DkSet = {"v4", "v6", "dom4", "dom6", "domfail", "null"}
INVARIANT TypeOK
INVARIANT EmitOnlyAllowed
INVARIANT NeverToNull
INVARIANT OpenedOnlyByPrevHop
INVARIANT EmitOnlyWhenOpen
INVARIANT QueueClean
INVARIANT VerdictByOwnShape
