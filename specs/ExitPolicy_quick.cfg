SPECIFICATION Spec
CONSTANTS QCap = 2 MaxPend = 1 MaxOps = 5
          NoInboundFilter = FALSE NoNullCheck = FALSE AnyoneOpens = FALSE
          RepIds = {1, 4, 5, 7}
INVARIANT TypeOK
INVARIANT EmitOnlyAllowed
INVARIANT NeverToNull
INVARIANT OpenedOnlyByPrevHop
INVARIANT EmitOnlyWhenOpen
INVARIANT QueueClean
