SPECIFICATION DSpec
CONSTANTS
  Pinned = {}
  Pads = {}
  FmtSel = {}
  ClsSel = {}
  K = 1
  DefKinds = {"H", "bits", "varlenH", "?", "I", "raw"}
  MinFields = 1
  MaxFields = 3
  DeriveMax = 3
  DeriveUses = {"msg", "nest", "list"}
  Styles = {"plain", "compiled", "dataclass"}
  DefUses = {"msg", "nest", "list"}
  DefK = 2
  DefKN = 1
  DevModes = {{}, {"rules_by_format_count", "base_only"}}
INVARIANT DRoundTrip
INVARIANT DExactConsumption
INVARIANT DReEncode
INVARIANT DefTruncationRejected
INVARIANT CtlRules
INVARIANT CtlDerive
