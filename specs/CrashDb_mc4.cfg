SPECIFICATION Spec
CONSTANTS MaxRecs = 4 MaxCalls = 5 MaxRuns = 3 CommitBeforeReturn = TRUE TolerantVersionRead = TRUE
          AtomicUpgrade = TRUE Legacy = FALSE MaxBatches = 0 GateResetOnError = TRUE ReloadWait = 0 MaxDepth = 1 EnterKeepsPending = TRUE ParentFirst = TRUE
CONSTANTS MaxVers = 1 TokenConflict = "ignore" MaxFaults = 0 CommitErrorRaises = TRUE
INVARIANT TypeOK
INVARIANT AckedUnchanged
INVARIANT AckedDurable
INVARIANT NoPartialRecord
INVARIANT ReopenOk
INVARIANT PseudonymVerifies
INVARIANT RebuiltHasAcked
INVARIANT RebuiltVerifies
