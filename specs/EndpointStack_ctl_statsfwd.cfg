SPECIFICATION Spec
CONSTANTS
  Ifaces = {"v4"}
  Listeners = {"A"}
  Prefixes = {"p1"}
  AddrKinds = {"c4"}
  Sizes = {23}
  MsgIds = {1}
  WithStats = TRUE
  Closing = FALSE
  ClosedSendRaises = TRUE
  Explicit = FALSE
  MaxBytes = 23
  MaxMsgs = 1
  DupGeneral = FALSE
  StatsForwards = FALSE
  SendWhileClosing = FALSE
CONSTRAINT Bound
INVARIANT NotifyOnce
