------------------------------ MODULE OnionMC ------------------------------
(* constant definitions for the model-checking configurations of Onion.tla *)
EXTENDS Onion
CONSTANTS o, o2, r1, r2, x
FlagsDef == [n \in Node |-> IF n = x THEN {"relay", "exit"} ELSE IF n \in {r1, r2} THEN {"relay"} ELSE {"relay"}]
CandsDef == [n \in Node |-> IF n = r1 THEN [relays |-> <<r2>>, exits |-> <<x>>]
                            ELSE IF n = r2 THEN [relays |-> <<r1>>, exits |-> <<x>>]
                            ELSE [relays |-> <<r1, r2>>, exits |-> <<x>>]]
FirstHopsDef == [n \in Node |-> <<r1>>]
RankDef == [n \in Node |-> IF n = o THEN 1 ELSE IF n = o2 THEN 2 ELSE IF n = r1 THEN 3 ELSE IF n = r2 THEN 4 ELSE 5]
\* two exits (x and r2): a retry of the last hop has somewhere else to go
FlagsTwo == [n \in Node |-> IF n \in {x, r2} THEN {"relay", "exit"} ELSE {"relay"}]
CandsTwo == [n \in Node |-> [relays |-> <<>>, exits |-> <<x, r2>>]]
\* reachability probe (expected to be VIOLATED - non-vacuity): a circuit whose second hop is the retry candidate r2
ProbeRetriedHop == \A n \in Node : \A c \in DOMAIN circ[n] : Len(circ[n][c].hops) < 2 \/ circ[n][c].hops[2].peer # r2
FirstHopsTwo == [n \in Node |-> <<r1, r2>>]
CandsSmall == [n \in Node |-> [relays |-> <<>>, exits |-> <<x>>]]
=============================================================================
