------------------------------ MODULE OnionMC ------------------------------
(* constant definitions for the model-checking configurations of Onion.tla *)
EXTENDS Onion
CONSTANTS o, o2, r1, r2, x
FlagsDef == [n \in Node |-> IF n = x THEN {"relay", "exit"} ELSE IF n \in {r1, r2} THEN {"relay"} ELSE {"relay"}]
CandsDef == [n \in Node |-> IF n = r1 THEN [relays |-> <<r2>>, exits |-> <<x>>]
                            ELSE IF n = r2 THEN [relays |-> <<r1>>, exits |-> <<x>>]
                            ELSE [relays |-> <<r1, r2>>, exits |-> <<x>>]]
FirstHopsDef == [n \in Node |-> <<r1>>]
CandsSmall == [n \in Node |-> [relays |-> <<>>, exits |-> <<x>>]]
=============================================================================
