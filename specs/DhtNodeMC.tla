----------------------------- MODULE DhtNodeMC -----------------------------
(* depth-bounded exploration of DhtNode.tla with the shipped time constants (graphs replayed by drivers/g02.py) *)
EXTENDS DhtNode
CONSTANT MaxDepth
DepthOK == TLCGet("level") <= MaxDepth
=============================================================================
