----------------------------- MODULE SchemaNode -----------------------------
(* ipv8/attestation/schema/manager.py : SchemaManager.register_schema / register_default_schemas /  *)
(* get_algorithm_instance, and ipv8/attestation/wallet/community.py : get_id_algorithm - the place   *)
(* where a node turns the format NAME carried by an attestation packet into the algorithm object it  *)
(* then attests / challenges / scores with.                                                          *)
(* A node owns a registry  name -> format (algorithm + its parameters: hash mode, key size, range).  *)
(* The property quantifies over formats, so what a node does under a name must be governed by the    *)
(* parameters registered under THAT name - whatever the node handled before (its history `used`),    *)
(* and whatever other nodes registered or handled.                                                   *)
(* Abstract layer       : registry, used, Eff (the format a resolution yields), ResolvesRegistered.  *)
(* Implementation layer : `cache` - only populated by the deviations (CacheBy / Shared), which are   *)
(*                        the negative controls: an instance kept per ALGORITHM name, or kept in a   *)
(*                        place shared by all nodes of the process.                                  *)
EXTENDS Naturals, FiniteSets, TLC

CONSTANTS Nodes,     \* node ids (positive integers); slot 0 is the process-wide cache of the Shared deviation
          Names,     \* format names of the exhaustive model (the trace spec takes them from the trace)
          Formats,   \* formats of the exhaustive model: records with at least the field `algorithm`
          CacheBy,   \* "none": every resolution builds the instance from the registry (the repository)
                     \* "schema": an instance is kept per format name (harmless: names are never redefined)
                     \* "algorithm": deviation - an instance is kept per algorithm name
          Shared     \* TRUE: deviation - the kept instances are shared by all nodes (class / module attribute)

VARIABLES registry,  \* node -> (partial function) name -> format
          used,      \* node -> set of names it resolved so far (the history the property is independent of)
          cache      \* (partial function) <<slot, key>> -> format
nvars == <<registry, used, cache>>

Slot(n) == IF Shared THEN 0 ELSE n
Key(f, name) == IF CacheBy = "schema" THEN name ELSE f.algorithm
Registered(n, name) == name \in DOMAIN registry[n]

(* the format the object returned by get_algorithm_instance(name) on node n operates with *)
Eff(n, name) ==
    LET f == registry[n][name]
        k == <<Slot(n), Key(f, name)>>
    IN IF CacheBy # "none" /\ k \in DOMAIN cache THEN cache[k] ELSE f

NodeInit == /\ registry = [n \in Nodes |-> <<>>]
            /\ used = [n \in Nodes |-> {}]
            /\ cache = <<>>

(* register_schema. A name keeps its meaning: registering it again is only allowed with the same     *)
(* parameters (register_default_schemas twice); redefinition is outside the property's statement.     *)
Register(n, name, f) ==
    /\ Registered(n, name) => registry[n][name] = f
    /\ registry' = [registry EXCEPT ![n] = (name :> f) @@ @]
    /\ UNCHANGED <<used, cache>>

(* the cache after node n resolved `name` (only the deviations keep anything) *)
Kept(c, n, name) ==
    LET f == registry[n][name]
        k == <<Slot(n), Key(f, name)>>
    IN IF CacheBy = "none" \/ k \in DOMAIN c THEN c ELSE (k :> f) @@ c

(* get_algorithm_instance(name) on node n *)
Resolve(n, name) ==
    /\ Registered(n, name)
    /\ used' = [used EXCEPT ![n] = @ \cup {name}]
    /\ cache' = Kept(cache, n, name)
    /\ UNCHANGED registry

NodeNext == \/ \E n \in Nodes, name \in Names, f \in Formats : Register(n, name, f)
            \/ \E n \in Nodes, name \in Names : Resolve(n, name)
NodeSpec == NodeInit /\ [][NodeNext]_nvars

NodeTypeOK == /\ DOMAIN registry = Nodes /\ DOMAIN used = Nodes
              /\ \A n \in Nodes : used[n] \subseteq DOMAIN registry[n]
              /\ CacheBy = "none" => cache = <<>>
(* THE demand: in every state, on every node, every registered name resolves to the format registered  *)
(* under it on that node - independent of `used`, of the other names and of the other nodes.           *)
ResolvesRegistered == \A n \in Nodes : \A name \in DOMAIN registry[n] : Eff(n, name) = registry[n][name]
=============================================================================
