---------------------------- MODULE VerifyRounds ----------------------------
(* ipv8/attestation/wallet/community.py : verify_attestation_values, on_received_attestation, on_challenge, *)
(* on_challenge_response;  caches.py : ProvingAttestationCache (120 s), PendingChallengeCache (10 s).       *)
(* The PROTOCOL DRIVER around the exact-match proof of Attest.tla: one attestation (hash bits `bits`, hidden *)
(* shuffle `revealed`) is verified again and again by the same verifier node - a verification ROUND is one    *)
(* ProvingAttestationCache object. Rounds are abandoned (time-out of the proving cache) while some of their   *)
(* PendingChallengeCaches are still alive, the application retries the same attestation hash, and the answers *)
(* of the earlier round - delayed, duplicated, re-ordered by the network - arrive while the next round runs.  *)
(* One action per public call / handler / cache time-out:                                                     *)
(*   Verify          verify_attestation_values (request_cache.add(ProvingAttestationCache))                   *)
(*   Received        on_received_attestation: aggregate, challenges, first window of PendingChallengeCaches   *)
(*   OnChallenge     the honest prover's on_challenge -> create_challenge_response                            *)
(*   OnResponse      on_challenge_response: pending cache popped, round guard, aggregate, completion / next   *)
(*   ProvTimeout / PendTimeout   RequestCache time-outs (time itself is abstracted: any order is allowed)      *)
(*   loss of a datagram = it is never delivered (nothing forces delivery); delivery may leave a copy in       *)
(*   flight (duplication, `keep`)                                                                             *)
(* Abstract layer: every round is a run of Attest.tla (instance AT(k): its aggregate / processed slots) and   *)
(* the demands of Attest.tla are made of EVERY round, whatever the rounds before did and whatever is still in *)
(* flight: the aggregate counts exactly the answers to the round's own challenges, each once (AggIsAnswers,   *)
(* SubProfile), a completed round reports exactly the profile (ResultIsProfile), so the true value scores     *)
(* 1 - 2^-n and every other profile 0 (Scores).                                                               *)
(* Implementation layer: reg (what request_cache.get("proving-attestation", hash) returns), pend, the window. *)
(* Deviation CreditBy = "hash" (negative control): on_challenge_response credits an answer to whichever       *)
(* verification is registered under the attestation hash instead of the one its pending cache belongs to.     *)
(* verify_attestation_values while a round is registered is refused (the cache constructor raises "number     *)
(* already in use"), so a round's challenges are created once: `g` (generation) is always 1 and only kept in    *)
(* the records' shape.                                                                                          *)
EXTENDS Naturals, Sequences, FiniteSets, TLC

CONSTANTS BitSpace,   \* hash bits in the exhaustive model (the trace spec takes the bits from the trace)
          Honest,     \* Attest.tla's switch; TRUE here
          Window,     \* challenges sent at once by on_received_attestation (10 in the code)
          MaxRounds, MaxHon, MaxDup,   \* bounds of the exhaustive model
          CreditBy    \* "object": the round the pending cache points to, if it still is the registered one
                      \* "hash"  : deviation

VARIABLES bits,       \* hash bits of the attested value
          revealed,   \* attestation slot -> pair sum, fixed when first decrypted (ONE attestation, all rounds)
          reg,        \* the round registered under the attestation hash (0: none)
          rnd,        \* rounds: [st, open, agg, gen, res]; st: "wait" (transfer) / "run" / "done" / "gone"
                      \*   open = slots not answered yet (hashed_challenges), gen = generation of its challenges,
          pend,       \* PendingChallengeCaches: [k, g, i, hc]  (round, generation, slot or honesty serial, honesty value or 3)
          chal,       \* challenges in flight to the prover
          resp,       \* responses in flight to the verifier [k, g, i, hc, r]
          nh, dup     \* honesty serial, duplications so far
vars == <<bits, revealed, reg, rnd, pend, chal, resp, nh, dup>>

NOHC == 3             \* "not an honesty check" (the code's -1)
NP    == Len(bits) \div 2
Slots == 1..NP
Zero  == [x \in 0..3 |-> 0]
Min(S) == CHOOSE x \in S : \A y \in S : x <= y
P(k, g, i, hc) == [k |-> k, g |-> g, i |-> i, hc |-> hc]
Rounds == 1..Len(rnd)

(* round k as a run of Attest.tla *)
AT(k) == INSTANCE Attest WITH pending <- {}, answers <- <<>>, agg <- rnd[k].agg,
                              done <- IF rnd[k].gen = 0 THEN {} ELSE Slots \ rnd[k].open
PS == INSTANCE Attest WITH pending <- {}, answers <- <<>>, agg <- Zero, done <- {}     \* pure operators

Init == /\ bits \in [1..BitSpace -> {0, 1}]
        /\ revealed = <<>> /\ reg = 0 /\ rnd = <<>> /\ pend = {} /\ chal = {} /\ resp = {} /\ nh = 0 /\ dup = 0

NewRound == [st |-> "wait", open |-> {}, agg |-> Zero, gen |-> 0, res |-> <<>>]

(* verify_attestation_values while nothing is registered under the hash: a new round *)
Verify == /\ reg = 0 /\ Len(rnd) < MaxRounds
          /\ rnd' = Append(rnd, NewRound) /\ reg' = Len(rnd) + 1
          /\ UNCHANGED <<bits, revealed, pend, chal, resp, nh, dup>>

(* on_received_attestation: the registered round gets its aggregate, its challenges and the first window *)
Received == /\ reg # 0 /\ rnd[reg].st = "wait"
            /\ LET g == rnd[reg].gen + 1
                   w == {P(reg, g, i, NOHC) : i \in 1..(IF Window < NP THEN Window ELSE NP)} IN
               /\ rnd' = [rnd EXCEPT ![reg] = [@ EXCEPT !.st = "run", !.open = Slots, !.agg = Zero, !.gen = g]]
               /\ pend' = pend \cup w /\ chal' = chal \cup w
            /\ UNCHANGED <<bits, revealed, reg, resp, nh, dup>>

(* the honest prover answers a challenge (3 = not one of 0, 1, 2 never happens for an honest run) *)
OnChallenge(x, r, keep) ==
    /\ x \in chal
    /\ IF x.hc # NOHC THEN r = x.hc /\ UNCHANGED revealed
       ELSE /\ r \in 0..2
            /\ IF x.i \in DOMAIN revealed THEN r = revealed[x.i]
               ELSE PS!Count(revealed, r) < PS!Profile(bits)[r]
            /\ revealed' = IF x.i \in DOMAIN revealed THEN revealed ELSE (x.i :> r) @@ revealed
    /\ resp' = resp \cup {[k |-> x.k, g |-> x.g, i |-> x.i, hc |-> x.hc, r |-> r]}
    /\ IF keep THEN dup < MaxDup /\ dup' = dup + 1 /\ chal' = chal ELSE dup' = dup /\ chal' = chal \ {x}
    /\ UNCHANGED <<bits, reg, rnd, pend, nh>>

(* the challenge on_challenge_response sends next: an honesty check, or the first open slot without pending cache *)
SendNext(k, R1, pend1) ==
    \/ \E hv \in 0..2 : /\ nh < MaxHon /\ nh' = nh + 1
                        /\ pend' = pend1 \cup {P(k, R1.gen, nh + 1, hv)}
                        /\ chal' = chal \cup {P(k, R1.gen, nh + 1, hv)}
    \/ LET free == {j \in R1.open : P(k, R1.gen, j, NOHC) \notin pend1} IN
         /\ nh' = nh
         /\ IF free = {} THEN pend' = pend1 /\ chal' = chal
            ELSE LET j == Min(free) IN /\ pend' = pend1 \cup {P(k, R1.gen, j, NOHC)}
                                       /\ chal' = chal \cup {P(k, R1.gen, j, NOHC)}

(* on_challenge_response *)
OnResponse(x, keep) ==
    /\ x \in resp
    /\ IF keep THEN dup < MaxDup /\ dup' = dup + 1 /\ resp' = resp ELSE dup' = dup /\ resp' = resp \ {x}
    /\ UNCHANGED <<bits, revealed>>
    /\ LET me == P(x.k, x.g, x.i, x.hc) IN
       IF me \notin pend THEN UNCHANGED <<reg, rnd, pend, chal, nh>>          \* no PendingChallengeCache: ignored
       ELSE LET pend1 == pend \ {me}
                t == IF CreditBy = "hash" THEN reg ELSE IF reg = x.k THEN x.k ELSE 0 IN
            IF t = 0 \/ (t # 0 /\ rnd[t].st # "run")
            THEN /\ pend' = pend1 /\ UNCHANGED <<reg, rnd, chal, nh>>          \* its round is over: only the cache goes
            ELSE LET R == rnd[t]
                     own == x.hc = NOHC /\ x.k = t /\ x.g = R.gen /\ x.i \in R.open
                 IN IF x.hc = NOHC /\ ~own /\ CreditBy = "object"
                    THEN /\ pend' = pend1 /\ UNCHANGED <<reg, rnd, chal, nh>>  \* the round no longer waits for it
                    ELSE LET open1 == IF own THEN R.open \ {x.i} ELSE R.open
                             agg1 == IF x.hc = NOHC THEN [R.agg EXCEPT ![x.r] = @ + 1] ELSE R.agg
                             R1 == [R EXCEPT !.open = open1, !.agg = agg1] IN
                         IF open1 = {}
                         THEN /\ rnd' = [rnd EXCEPT ![t] = [R1 EXCEPT !.st = "done", !.res = <<agg1>>]]
                              /\ reg' = 0 /\ pend' = pend1 /\ UNCHANGED <<chal, nh>>
                         ELSE /\ rnd' = [rnd EXCEPT ![t] = R1] /\ reg' = reg
                              /\ SendNext(t, R1, pend1)

ProvTimeout == /\ reg # 0
               /\ rnd' = [rnd EXCEPT ![reg].st = "gone"] /\ reg' = 0
               /\ UNCHANGED <<bits, revealed, pend, chal, resp, nh, dup>>
PendTimeout(p) == /\ p \in pend /\ pend' = pend \ {p}
                  /\ UNCHANGED <<bits, revealed, reg, rnd, chal, resp, nh, dup>>

DoVerify      == Verify
DoReceived    == Received
DoOnChallenge == \E x \in chal : \E r \in 0..2 : \E keep \in BOOLEAN : OnChallenge(x, r, keep)
DoOnResponse  == \E x \in resp : \E keep \in BOOLEAN : OnResponse(x, keep)
DoProvTimeout == ProvTimeout
DoPendTimeout == \E p \in pend : PendTimeout(p)
Next == DoVerify \/ DoReceived \/ DoOnChallenge \/ DoOnResponse \/ DoProvTimeout \/ DoPendTimeout
Spec == Init /\ [][Next]_vars

-----------------------------------------------------------------------------
TypeOK == /\ reg \in 0..Len(rnd)
          /\ \A k \in Rounds : /\ rnd[k].st \in {"wait", "run", "done", "gone"}
                               /\ rnd[k].open \subseteq Slots /\ DOMAIN rnd[k].agg = 0..3
                               /\ Len(rnd[k].res) <= 1
          /\ reg # 0 => rnd[reg].st \in {"wait", "run"}
          /\ \A p \in pend : p.k \in Rounds
          /\ DOMAIN revealed \subseteq Slots
Running(k) == rnd[k].st \in {"run", "done", "gone"}
(* the demands of Attest.tla, of every round *)
SubProfile   == \A k \in Rounds : Running(k) => AT(k)!SubProfile
AggIsAnswers == \A k \in Rounds : Running(k) => AT(k)!AggIsAnswers
Reconstructs == \A k \in Rounds : Running(k) => AT(k)!Reconstructs
(* what a completed round hands to the application's callback is exactly the profile of the attested value ... *)
ResultIsProfile == \A k \in Rounds : rnd[k].res # <<>> => rnd[k].open = {} /\ rnd[k].res[1] = PS!Profile(bits)
(* ... so the true value scores 1 - 2^-n and every value with another profile scores zero *)
Scores == \A k \in Rounds : rnd[k].res # <<>> => AT(k)!TrueValueScores /\ AT(k)!OtherProfilesZero
(* witnesses (expected to be violated: the model reaches these situations) *)
NoLateAnswer == ~ \E x \in resp : P(x.k, x.g, x.i, x.hc) \in pend /\ reg # 0 /\ reg # x.k /\ rnd[reg].st = "run"
NoSecondResult == ~ \E k \in Rounds : k > 1 /\ rnd[k].res # <<>>
=============================================================================
