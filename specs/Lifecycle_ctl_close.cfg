SPECIFICATION Spec
CONSTANTS
 Ov = {1, 2}
 ConfOv <- Seq12
 St = {1, 2, 3}
 ConfSt <- Seq12
 OvOf <- OvOfA
 Target <- TargetA
 WI = 2
 MaxPeers = 1
 WithAnon = FALSE
 StaleTick = FALSE LeTarget = FALSE CloseEarly = TRUE InPlace = FALSE
INVARIANT TypeOK
INVARIANT StepOnlyLoaded
INVARIANT StepBelowTarget
INVARIANT StepOnlyRunning
INVARIANT PassComplete
INVARIANT Registered
INVARIANT UnloadOnce
INVARIANT StopComplete
INVARIANT TickerAlive
INVARIANT EndpointLast
INVARIANT AnonIndependent
