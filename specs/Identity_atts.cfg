\* piggy-backed attestations (third party, wrong authority, the node own, self-attestation), replays
SPECIFICATION MCSpec
CONSTANTS AlreadyChecked = TRUE PkPerAuthority = TRUE CheckSubject = TRUE CheckPermission = TRUE CommitBeforeSend = TRUE Window = 300 RespCap = 10 FitAll = 8
  Regs = {1, 2} Senders = {1, 2} TokIdx = {2} MdIdx = {1, 2} AttIdx = {1, 2, 3, 4, 5, 6, 7} MissIdx = {1}
  Ticks = {} OwnerPeers = {} KnownVals = {} AttSend = {} RegFirst = FALSE FaultTabs = {}
  MaxReg = 1 MaxMsg = 3 MaxTick = 0 MaxOwn = 0 MaxFault = 0
INVARIANT TypeOK
INVARIANT SignsOnlyConsented
INVARIANT StoresOnlyValidlySigned
INVARIANT TokensOnlyUpToPermitted
INVARIANT TreesVerified
INVARIANT SentOnlyRecorded
