SPECIFICATION Spec
CONSTANTS Names = {"a", "b"} MaxT = 5 MaxOps = 6 IdentityPop = TRUE
INVARIANT TypeOK
INVARIANT NoDuplicateActiveName
INVARIANT RegistryComplete
INVARIANT ReplaceAfterOldFinished
INVARIANT NothingAfterShutdown
PROPERTY NoNewAfterShutdown
