SPECIFICATION Spec
CONSTANTS
  Overlays = {"A", "B", "B2"}
  PrefixOf <- MCPrefixOf
  Authenticated <- MCAuthenticated
  Keys = {"h1", "att"}
  Honest = {"h1"}
  Attacker = {"att"}
  MsgIds = {1, 2}
  Prefixes = {"pA", "pB"}
  Bodies = {"b0", "b1"}
  MaxSend = 1
  MaxMut = 2
  MaxDeliver = 1
  WithInject = TRUE
  CheckSig = FALSE
  CoverAll = TRUE
  Addrs = {"a1"}
  MaxAcq = 0
  EarlyBook = FALSE
  TrustSource = FALSE
  EarlyNote = FALSE
  StaleKeys = FALSE
  WithNotes = FALSE
INVARIANT TypeOK
INVARIANT Unforgeable
INVARIANT HonestSignOnlyBySend
INVARIANT AuthOnly
INVARIANT NoForgedVerified
INVARIANT OverlaySeparation
INVARIANT HonestAttribution
INVARIANT BookLegit
INVARIANT BookNoKeyEmpty
INVARIANT NotesLegit
INVARIANT KeyResolution
PROPERTY RejectInert
