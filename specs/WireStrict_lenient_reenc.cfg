SPECIFICATION Spec
CONSTANTS ArrBE = FALSE Lenient = TRUE Alphabet = {0, 1, 2, 3} MaxLen = 5
CONSTANT Formats <- MCFormats
INVARIANT ReEncode
