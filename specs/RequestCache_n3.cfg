SPECIFICATION Spec
CONSTANTS NC = 3 NI = 2 Delays = {1, 2} PassTimeouts = {0, 1} Filters = {"all", "A"}
          Nesting = TRUE ReAdds = 1 ExtFut = 2 ReapOwnOnly = TRUE LateCancel = TRUE
          HScripts = {"raise", "add"} CoHandlers = FALSE ClaimFirst = TRUE
          TMShutdown = FALSE ShutGuard = FALSE NFut = 1 FutLoop = "all"
INVARIANT TypeOK
INVARIANT ExactlyOnce
INVARIANT ClaimedOnce
INVARIANT NoTimeoutAfterClaim
INVARIANT OutstandingWillEnd
INVARIANT TableAgrees
INVARIANT LateResponseFindsNothing
INVARIANT UniqueIdentity
INVARIANT FuturesCompletedOnTimeout
INVARIANT AfterShutdown
INVARIANT AfterFlag
INVARIANT NoLateTimeout
INVARIANT EndedIsQuiet
