SPECIFICATION Spec
CONSTANTS N = 3 UCap = 2 WakeAll = TRUE WithContent = FALSE
          Views = {"pub"} ReduceKey = TRUE WireStops = FALSE WireLen = 3
INVARIANT TypeOK
INVARIANT KeyIsPublic
INVARIANT OnlyValidConnected
INVARIANT Complete
INVARIANT NeverBad
INVARIANT WaitingAreDisjoint
INVARIANT ContentBound
INVARIANT PublicRoundTrip
INVARIANT PublicReloadsClean
INVARIANT PathRoundTrip
INVARIANT RetMeansContained
INVARIANT WireRetSound
INVARIANT WireIsFold
