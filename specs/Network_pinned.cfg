\* negative control: the four deviations of the pinned tree switched on -> LookupsAgree / QueriesPure / ReAddWorks violated
\* (the driver switches them on one at a time and expects the invariant each one is about)
SPECIFICATION Spec
CONSTANTS NP = 2 NA = 2 NS = 2 V6 = {} BlackAddr = {} BlackMid = {} IpCap = 1 IntroCap = 1 SvcCap = 1
          NB = 0 IterBufs = {} Defects = {"rba", "ipstale", "walk", "svcjoin"} MaxDepth = 6
VIEW NoRetOp
INVARIANT TypeOK
INVARIANT LookupsAgree
PROPERTY QueriesPure
PROPERTY RemovedIsGone
PROPERTY ReAddWorks
