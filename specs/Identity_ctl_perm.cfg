\* negative control: on_request_missing ignoring the permission index
SPECIFICATION MCSpec
CONSTANTS AlreadyChecked = TRUE PkPerAuthority = TRUE CheckSubject = TRUE CheckPermission = FALSE CommitBeforeSend = TRUE Window = 300 RespCap = 10 FitAll = 8
  Regs = {} Senders = {} TokIdx = {} MdIdx = {} AttIdx = {} MissIdx = {}
  Ticks = {} OwnerPeers = {1, 2} KnownVals = {0, 1} AttSend = {} RegFirst = FALSE FaultTabs = {}
  MaxReg = 0 MaxMsg = 2 MaxTick = 0 MaxOwn = 2 MaxFault = 0
INVARIANT TokensOnlyUpToPermitted
