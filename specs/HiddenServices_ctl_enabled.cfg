SPECIFICATION Spec
CONSTANTS
  Nodes = {"S", "D", "X"}
  Swarms = {1}
  Cids = {1, 2, 3, 4}
  Ids = {1, 2, 3, 4, 5}
  Cks = {1}
  Keys = {1}
  Ephs = {1, 2}
  Tags = {1}
  Service = {"X"}
  Canonical = TRUE
  Seeders = {"S"} Downloaders = {"D"} Infra = {"X"}
  CheckIdent = TRUE CheckCookie = TRUE CheckEnabled = FALSE CheckSeeding = TRUE CheckSecret = TRUE
  CleanOnClose = TRUE CleanOnPop = TRUE
  ForgeTypes = {"EI", "IE", "ER", "RE", "CE", "CEf", "CD", "LK", "LD", "PQ", "PQs", "PR"}
  ForgeBudget = 0 FaultBudget = 1 ApiBudget = 2
VIEW view
INVARIANT TypeOK
INVARIANT NoDangling
INVARIANT LinkJustified
INVARIANT KeyAgreement
INVARIANT ConnsLive
INVARIANT CallbackOnce
PROPERTY UnmatchedInert
