SPECIFICATION FairSpec
CONSTANTS N = 3 MaxInit = 2 MaxReq = 3 MaxTasks = 2 TopK = 2 MaxStore = 1
          Modes = {"values", "nodes"}
          CtlNoTriedCheck = FALSE CtlNoSort = FALSE CtlCacheRecent = FALSE CtlBudgetByResponses = FALSE
CONSTANT Worlds <- WorldsNodes2
INVARIANT TypeOK
INVARIANT InvBudget
INVARIANT InvNoRepeat
INVARIANT InvClosestFirst
INVARIANT InvDone
INVARIANT InvValues
INVARIANT InvNodes
INVARIANT InvCache
INVARIANT InvNoStoreOtherwise
INVARIANT InvResponses
PROPERTY Terminates
