------------------------------- MODULE WireReg -------------------------------
(* C02 - which packer a format NAME means, per serializer, over the life of a process.                  *)
(*                                                                                                      *)
(* The property quantifies over "every packer registered by any overlay's serializer": the bytes of a   *)
(* message are decided by the table name -> packer of the Serializer that packs it.  That table is      *)
(* state: Serializer.__init__ fills it with the documented formats, Overlay.get_serializer() (called    *)
(* once per overlay instance, overridden by TunnelCommunity, DHTCommunity and by application overlays)  *)
(* adds or REPLACES entries with add_packer, and anybody may call add_packer later.  The documented     *)
(* wire format of an overlay therefore holds only if the table of every overlay is its own:             *)
(*     table(s) = run-time additions made on s  @@  additions of s's class  @@  Serializer.__init__     *)
(* whatever else was loaded into the process before or afterwards, in whatever order.                   *)
(*                                                                                                      *)
(* A table is modelled as name -> key of Reg (Wire.tla): the definition the name is bound to.  An       *)
(* application overlay binds names of its own, and names that are already in use, to other definitions  *)
(* (AppA: "flags" is one byte, "H" is four bytes wide; AppB: a "node-list" of byte strings).            *)
(* One action per call: Load = Overlay.__init__ -> get_serializer(), AddPacker = Serializer.add_packer,  *)
(* Use / UseMsg = pack, unpack at an offset, repack through one serializer.                             *)
EXTENDS Wire

CONSTANTS Insts,       \* overlay instances that may be loaded into the process
          MaxAdds,     \* number of run-time add_packer calls explored
          UseJ,        \* indices of the boundary values that are packed / unpacked / repacked per (serializer, name)
          UsePads,     \* start offsets of those
          SharedModes  \* {FALSE}; with TRUE also the deviation (negative control, explored for Load only) in which
                       \* get_serializer() hands out the process-wide singleton

NoPk == <<>>                                            \* no additions (the empty function)
OverlayOnly  == {"flags", "node-list"}                  \* documented formats that only an overlay registers
DefaultTable == [n \in RegisteredNames \ OverlayOnly |-> n]       \* Serializer.__init__: every name means itself

(* what get_serializer() of each overlay class registers on top of Serializer.__init__                  *)
ClassPackers ==
  ("Overlay" :> NoPk) @@ ("EZPackOverlay" :> NoPk) @@ ("Community" :> NoPk) @@
  ("DiscoveryCommunity" :> NoPk) @@ ("PexCommunity" :> NoPk) @@
  ("IdentityCommunity" :> NoPk) @@ ("AttestationCommunity" :> NoPk) @@
  ("DHTCommunity" :> ("node-list" :> "node-list")) @@ ("DHTDiscoveryCommunity" :> ("node-list" :> "node-list")) @@
  ("TunnelCommunity" :> ("flags" :> "flags")) @@ ("HiddenTunnelCommunity" :> ("flags" :> "flags")) @@
  \* application overlays (defined by the harness, the way the documentation tells applications to)
  ("AppA" :> (("flags" :> "B") @@ ("H" :> "I"))) @@
  ("AppB" :> (("node-list" :> "varlenH-list") @@ ("app-blob" :> "varlenI")))
ShippedClasses == DOMAIN ClassPackers \ {"AppA", "AppB"}

InstClass ==
  ("tunnel1" :> "TunnelCommunity") @@ ("tunnel2" :> "TunnelCommunity") @@ ("hidden1" :> "HiddenTunnelCommunity") @@
  ("dht1" :> "DHTCommunity") @@ ("dhtdisc1" :> "DHTDiscoveryCommunity") @@ ("disc1" :> "DiscoveryCommunity") @@
  ("pex1" :> "PexCommunity") @@ ("identity1" :> "IdentityCommunity") @@ ("attest1" :> "AttestationCommunity") @@
  ("appA1" :> "AppA") @@ ("appB1" :> "AppB")

(* add_packer calls somebody makes later on the serializer of a loaded overlay                          *)
RuntimeAdds == { <<"flags", "varlenBx2">>, <<"app-tag", "20s">> }

Sers == {"default"} \cup Insts                           \* handles: ipv8.messaging.serialization.default_serializer
                                                         \* and <instance>.serializer
(* names that are packed through every serializer that knows them, and messages made of them            *)
UseNames == {"flags", "H", "node-list", "app-blob", "app-tag"}
UseMsgs  == {AN \o "ExtraIntroductionPayload", AN \o "PingPayload", "dht.payload.FindResponsePayload"}

VARIABLES shared,   \* the deviation is on in this behaviour
          ref,      \* instance -> the registry object its .serializer is ("" = not loaded)
          ovr,      \* registry object -> what was registered into it after Serializer.__init__ (name -> key)
          added,    \* handle -> run-time additions that were requested on this handle (history)
          nadds,
          last      \* result of the last Use / UseMsg
rvars == <<shared, ref, ovr, added, nadds, last>>

NoUse == [ser |-> "", kind |-> "", name |-> "", key |-> "", val |-> <<>>, pad |-> 0, bytes |-> <<>>, data |-> <<>>,
          dec |-> Err, re |-> <<>>]

Loaded     == {i \in Insts : ref[i] # ""}
Handles    == {"default"} \cup Loaded
ObjOf(s)   == IF s = "default" THEN "default" ELSE ref[s]
TableOf(s) == ovr[ObjOf(s)] @@ DefaultTable               \* what the names mean for handle s right now
OwnOf(s)   == IF s = "default" THEN NoPk ELSE ClassPackers[InstClass[s]]
Expected(s) == added[s] @@ OwnOf(s) @@ DefaultTable       \* what they have to mean

RInit == /\ shared \in SharedModes
         /\ ref = [i \in Insts |-> ""] /\ ovr = [s \in Sers |-> NoPk] /\ added = [s \in Sers |-> NoPk]
         /\ nadds = 0 /\ last = NoUse

(* Overlay.__init__: self.serializer = self.get_serializer()                                            *)
Load(i) ==
  /\ last = NoUse /\ ref[i] = ""
  /\ LET r == IF shared THEN "default" ELSE i IN
       /\ ref' = [ref EXCEPT ![i] = r]
       /\ ovr' = [ovr EXCEPT ![r] = ClassPackers[InstClass[i]] @@ @]
  /\ UNCHANGED <<shared, added, nadds, last>> /\ UNCHANGED vars

(* <instance>.serializer.add_packer(n, packer of definition k)                                          *)
AddPacker(i, n, k) ==
  /\ ~shared /\ last = NoUse /\ i \in Loaded /\ nadds < MaxAdds /\ <<n, k>> \in RuntimeAdds
  /\ ~(n \in DOMAIN added[i] /\ added[i][n] = k)
  /\ ovr' = [ovr EXCEPT ![ref[i]] = (n :> k) @@ @]
  /\ added' = [added EXCEPT ![i] = (n :> k) @@ @]
  /\ nadds' = nadds + 1
  /\ UNCHANGED <<shared, ref, last>> /\ UNCHANGED vars

UseDom(key) == TypeDom(key, "")
Item1(key)  == [fmt |-> key, cls |-> ""]

(* pack the j-th boundary value of format name n through handle s, unpack it at offset p inside a       *)
(* datagram, repack what was decoded                                                                    *)
Use(s, n, j, p) ==
  /\ ~shared /\ last = NoUse /\ s \in Handles /\ n \in DOMAIN TableOf(s)
  /\ LET key == TableOf(s)[n] IN
       /\ j <= Len(UseDom(key))
       /\ LET v == UseDom(key)[j]
              b == EncF(Item1(key), v)
              d == PadBytes(p) \o b \o <<170, 85>>
              r == DecF(Item1(key), d, p)
          IN last' = [ser |-> s, kind |-> "fmt", name |-> n, key |-> key, val |-> v, pad |-> p, bytes |-> b, data |-> d,
                      dec |-> r, re |-> IF r.ok THEN EncF(Item1(key), r.val) ELSE <<>>]
  /\ UNCHANGED <<shared, ref, ovr, added, nadds>> /\ UNCHANGED vars

(* a shipped message through handle s - possible when s knows every format name of the message and     *)
(* none of them was re-bound by s itself (an application that re-binds "H" speaks another protocol)     *)
Plain(s, cls) == \A j \in 1..Len(Msg(cls).wire) :
                    LET f == Msg(cls).wire[j].fmt IN f \in DOMAIN TableOf(s) /\ TableOf(s)[f] = f
UseMsg(s, cls, j, p) ==
  /\ ~shared /\ last = NoUse /\ s \in Handles /\ Plain(s, cls) /\ j <= K
  /\ LET v == MsgDomSeq(cls)[j]
         b == EncMsg(cls, v)
         d == Surround("msg", cls, p, b)
         r == DecMsg(cls, d, p)
     IN last' = [ser |-> s, kind |-> "msg", name |-> cls, key |-> "", val |-> v, pad |-> p, bytes |-> b, data |-> d,
                 dec |-> r, re |-> IF r.ok THEN EncMsg(cls, r.val) ELSE <<>>]
  /\ UNCHANGED <<shared, ref, ovr, added, nadds>> /\ UNCHANGED vars

Forget == last # NoUse /\ last' = NoUse /\ UNCHANGED <<shared, ref, ovr, added, nadds>> /\ UNCHANGED vars

RNext == \/ \E i \in Insts : Load(i)
         \/ \E i \in Insts, a \in RuntimeAdds : AddPacker(i, a[1], a[2])
         \/ \E s \in Sers, n \in UseNames, j \in UseJ, p \in UsePads : Use(s, n, j, p)
         \/ \E s \in Sers, cls \in UseMsgs, j \in UseJ, p \in UsePads : UseMsg(s, cls, j, p)
         \/ Forget
WireIdle == /\ kind = "none" /\ fmt = "" /\ val = <<>> /\ pad = 0 /\ bytes = <<>> /\ data = <<>> /\ dec = Err
            /\ re = <<>> /\ phase = "none"
RSpec == (RInit /\ WireIdle) /\ [][RNext]_<<rvars, vars>>

(* ------------------------------------- properties ------------------------------------------------ *)
(* every overlay instance has a registry of its own; the process-wide singleton belongs to nobody       *)
OwnRegistryAlways == \A i \in Loaded : ref[i] # "default" /\ \A j \in Loaded : i # j => ref[i] # ref[j]
(* a name means what the handle's own class and its own run-time additions say - nothing else           *)
IsolationAlways == \A s \in Handles : TableOf(s) = Expected(s)
OwnRegistry  == ~shared => OwnRegistryAlways
Isolation    == ~shared => IsolationAlways
CtlIsolation == shared => IsolationAlways        \* negative control: has to be violated when TRUE \in SharedModes
(* consequence for the bytes: a shipped overlay (and the singleton) that nobody added to speaks the     *)
(* documented format, whatever else was loaded; and every use round-trips                                *)
Untouched(s) == added[s] = NoPk /\ (s = "default" \/ InstClass[s] \in ShippedClasses)
DocumentedUse ==
  last # NoUse =>
    /\ last.dec.ok /\ last.dec.val = last.val /\ last.dec.end = last.pad + Len(last.bytes) /\ last.re = last.bytes
    /\ (Untouched(last.ser) /\ last.kind = "fmt") => (last.key = last.name /\ last.bytes = EncK("fmt", last.name, last.val))
    /\ (Untouched(last.ser) /\ last.kind = "msg") => last.bytes = EncK("msg", last.name, last.val)

(* ---- exported once per run for the binding: how the definition behind every key decodes two probe    *)
(* datagrams at offset 1 (the harness fingerprints the packer the real table holds under each name)      *)
ProbeTail == [i \in 1..96 |-> ((i * 7 + 3) % 251) + 1]
Probes == << <<222, 0, 0, 0, 2, 1, 1, 0, 0>> \o ProbeTail,
             <<222, 1, 127, 0, 0, 1, 31, 154, 0, 3, 65, 66, 67>> \o ProbeTail >>
FPKeys == RegisteredNames \ {"payload", "payload-list"}
ProbeTable == [k \in FPKeys |-> [j \in 1..Len(Probes) |-> DecF(Item1(k), Probes[j], 1)]]
ASSUME "REG_PROBE_OUT" \in DOMAIN IOEnv =>
         JsonSerialize(IOEnv.REG_PROBE_OUT,
                       [probes |-> Probes, table |-> ProbeTable, default |-> DefaultTable, classes |-> ClassPackers,
                        instclass |-> InstClass, shipped |-> [c \in ShippedClasses |-> c]])
=============================================================================
