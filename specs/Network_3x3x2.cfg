\* the universe named in the property: 3 peers x 3 addresses (one IPv6) x 2 services, caches 2/2/1, 4 calls (thorough tier)
SPECIFICATION Spec
CONSTANTS NP = 3 NA = 3 NS = 2 V6 = {3} BlackAddr = {} BlackMid = {} IpCap = 2 IntroCap = 2 SvcCap = 1
          NB = 0 IterBufs = {} Defects = {} MaxDepth = 4
VIEW NoRetOp
INVARIANT TypeOK
INVARIANT LookupsAgree
INVARIANT HistoryAgrees
INVARIANT BlacklistedNeverVerified
INVARIANT SnapshotRoundTrip
PROPERTY QueriesPure
PROPERTY RemovedIsGone
PROPERTY RemovedIsClean
PROPERTY ReAddWorks
