----------------------------- MODULE WireTrace -----------------------------
(* Recorded executions of the real Serializer (harness/drivers/c02.py, c20.py) checked against        *)
(* Wire.tla.  One trace = one instance: pack, unpack at an offset inside surrounding bytes, repack.   *)
(* Every step is the Pack / Unpack / Repack action of the specification; what the implementation      *)
(* returned is compared with the specification's next state and every disagreement is named in diff. *)
EXTENDS Wire

Traces == JsonDeserialize(IOEnv.TRACE_FILE)

VARIABLES tid, l, diff
tvars == <<vars, tid, l, diff>>

Tr == Traces[tid]
Ev == Tr.events

TraceInit == /\ tid \in 1..Len(Traces) /\ l = 1 /\ diff = {}
             /\ kind = Tr.kind /\ fmt = Tr.fmt /\ val = Tr.val /\ pad = Tr.pad
             /\ phase = "chosen" /\ bytes = <<>> /\ data = <<>> /\ dec = Err /\ re = <<>>

Obs(name, logged, expected) == IF logged = expected THEN {} ELSE {name}

TraceNext ==
  /\ l <= Len(Ev) /\ diff = {}
  /\ LET e == Ev[l] IN
       \/ /\ e.op = "pack" /\ Pack
          /\ diff' = IF e.raised THEN {"pack_raised"} ELSE Obs("bytes", e.bytes, bytes')
       \/ /\ e.op = "unpack" /\ Unpack
          /\ diff' = IF e.raised THEN {"unpack_raised"}
                     ELSE Obs("data", e.data, data') \cup Obs("end", e.end, dec'.end)
                          \cup (IF e.same THEN {} ELSE {"decoded"})      \* same: decoded fields = packed fields
       \/ /\ e.op = "repack" /\ Repack
          /\ diff' = IF e.raised THEN {"repack_raised"} ELSE Obs("reenc", e.bytes, re')
  /\ l' = l + 1 /\ UNCHANGED tid

TraceSpec == TraceInit /\ [][TraceNext]_tvars

Conforms == diff = {}
(* the whole recorded instance was consumed unless a disagreement stopped it *)
Complete == (l <= Len(Ev) /\ diff = {}) => ENABLED TraceNext
=============================================================================
