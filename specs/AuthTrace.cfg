SPECIFICATION TraceSpec
CONSTANTS
  Overlays <- ShippedOverlays
  PrefixOf <- ShippedPrefixOf
  Authenticated <- ShippedAuthenticated
  Keys = {"h1", "h2", "h3", "rcv", "att", "att2", "kx", "ky", "c0", "c1", "c2", "c3"}
  Honest = {"h1", "h2", "h3", "rcv"}
  Attacker = {"att", "att2", "c0", "c1", "c2", "c3"}
  MsgIds <- ShippedMsgIds
  Prefixes <- ShippedPrefixes
  Bodies = {"b0", "b1", "b2"}
  MaxSend = 1000
  MaxMut = 3
  MaxDeliver = 100000000
  WithInject = TRUE
  CheckSig = TRUE
  CoverAll = TRUE
  Addrs = {"a_orig", "a_att", "a_x"}
  MaxAcq = 16
  EarlyBook = FALSE
  TrustSource = FALSE
  EarlyNote = FALSE
  StaleKeys = FALSE
  WithNotes = TRUE
INVARIANT TraceAccepted
INVARIANT TypeOK
INVARIANT AuthOnly
INVARIANT NoForgedVerified
INVARIANT OverlaySeparation
INVARIANT HonestAttribution
INVARIANT Unforgeable
INVARIANT BookLegit
INVARIANT BookNoKeyEmpty
INVARIANT NotesLegit
INVARIANT KeyResolution
