SPECIFICATION TraceSpec
CONSTANTS
  Overlays <- ShippedOverlays
  PrefixOf <- ShippedPrefixOf
  Authenticated <- ShippedAuthenticated
  Keys = {"h1", "h2", "h3", "rcv", "att", "att2", "kx", "ky"}
  Honest = {"h1", "h2", "h3", "rcv"}
  Attacker = {"att", "att2"}
  MsgIds <- ShippedMsgIds
  Prefixes <- ShippedPrefixes
  Bodies = {"b0", "b1", "b2"}
  MaxSend = 1000
  MaxMut = 3
  MaxDeliver = 100000000
  WithInject = TRUE
  CheckSig = TRUE
  CoverAll = TRUE
  Addrs = {"a_orig", "a_att", "a_x"}
  MaxAcq = 16
  EarlyBook = FALSE
  TrustSource = FALSE
INVARIANT TraceAccepted
INVARIANT TypeOK
INVARIANT AuthOnly
INVARIANT NoForgedVerified
INVARIANT OverlaySeparation
INVARIANT HonestAttribution
INVARIANT Unforgeable
INVARIANT BookLegit
INVARIANT BookNoKeyEmpty
