SPECIFICATION NodeSpec
CONSTANTS Nodes = {1, 2} Names = {"a", "b"} Formats <- MCFormats CacheBy = "algorithm" Shared = FALSE
INVARIANT ResolvesRegistered
