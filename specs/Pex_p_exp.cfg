\* part P: three overlays of one swarm, one seeder key: expiry order (longer behaviours)
SPECIFICATION SpecP
CONSTANTS
  T0 = 10  MaxTime = 12
  Peers = {1}  Seeders = {1}  Circuits = {1}
  MaxIpAge = 2  MinDht = 3  MaxDht = 1  Interval = 1  ConnLimit = 1  MaxBytes = 0  MaxResult = 1
  SeedingChoices = {FALSE}
  DupAdd = FALSE  ExpireUsed = FALSE  NoGate = FALSE  ForgetHistory = FALSE
  Nodes = {1, 2, 3}  NSwarmA = 3  PSeeders = {1}  PexAge = 1  PexCap = 2  SendCap = 10
  Unload = FALSE  ExpireNewest = FALSE  CrossSwarm = FALSE  MaxMsgs = 1  MaxAnn = 2
CONSTRAINT PConstraint
INVARIANT TypeOK
INVARIANT PexFresh
INVARIANT PexNoDup
INVARIANT PexOwnSwarm
INVARIANT OwnAnswer
INVARIANT PexBounded
INVARIANT PexSorted
