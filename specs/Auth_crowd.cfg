SPECIFICATION Spec
CONSTANTS
  Overlays = {"B"}
  PrefixOf <- MCPrefixOf
  Authenticated <- MCAuthenticated
  Keys = {"h1", "c1", "c2"}
  Honest = {"h1"}
  Attacker = {"c1", "c2"}
  MsgIds = {1}
  Prefixes = {"pB"}
  Bodies = {"b0"}
  MaxSend = 2
  MaxMut = 0
  MaxDeliver = 2
  WithInject = TRUE
  CheckSig = TRUE
  CoverAll = TRUE
  Addrs = {"a1"}
  MaxAcq = 1
  EarlyBook = FALSE
  TrustSource = FALSE
  EarlyNote = FALSE
  StaleKeys = FALSE
  WithNotes = FALSE
INVARIANT TypeOK
INVARIANT Unforgeable
INVARIANT HonestSignOnlyBySend
INVARIANT AuthOnly
INVARIANT NoForgedVerified
INVARIANT OverlaySeparation
INVARIANT HonestAttribution
INVARIANT BookLegit
INVARIANT BookNoKeyEmpty
INVARIANT NotesLegit
INVARIANT KeyResolution
PROPERTY RejectInert
