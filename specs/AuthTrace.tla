----------------------------- MODULE AuthTrace -----------------------------
(* Deliveries of real (captured, then mutated) datagrams to the real overlays, recorded by          *)
(* harness/drivers/c01.py, checked against Auth.tla instantiated with the hand-written protocol     *)
(* table of the shipped overlays.  The driver abstracts every concrete datagram on its own (prefix  *)
(* -> overlay family, key at byte 23 -> key name, signature -> who verifiably signed which content) *)
(* and logs what the real receive path did: handler entered?, with which peer?, new verified keys.  *)
(*   send    : the captured datagram must be exactly what an honest Send of the spec produces       *)
(*   inject  : a datagram that owes nothing to an honest signature                                  *)
(*   mut     : the mutated datagram must be a result of the NAMED mutation action of Auth.tla       *)
(*   deliver : Run (handler entered) or Drop (not entered) of Auth.tla must allow what was observed *)
(*             - including the source address and the verified-peer table (key -> addresses) that   *)
(*             the real Network holds afterwards                                                    *)
(*   acq     : the receiving node was made acquainted with a key at an address (history)            *)
(*   restart : the driver built a new receiving node (acquaintances made again)                     *)
(*   deliver.touched : the keys whose records anywhere in the overlay (routing nodes, stored peers, *)
(*             request caches, metrics of Peer objects) differ before / after the delivery          *)
(*   probe   : what the serialized keys resolve to in the receiving process (variable kres)         *)
EXTENDS Auth, Sequences, Json, IOUtils, TLCExt

Traces == JsonDeserialize(IOEnv.TRACE_FILE)

ShippedMsgIds == 0..255
Rng(s) == {s[i] : i \in 1..Len(s)}

VARIABLES tid, l, base
tvars == <<vars, tid, l, base>>

Ev == Traces[tid].events

(* the verified-peer table of the receiving overlay as the driver read it from the real Network after the    *)
(* delivery: a sequence of <<key name, address name>> pairs                                                  *)
BookIn(e) == [k \in AllKeys |-> {q[2] : q \in {r \in Rng(e.book) : r[1] = k}}]

TraceInit == /\ tid \in 1..Len(Traces) /\ l = 1 /\ base = Blank /\ Init

TraceNext ==
  /\ l <= Len(Ev)
  /\ LET e == Ev[l] IN
       \/ /\ e.k = "send"
          /\ Send(e.o, e.d.key, e.d.msgid, e.d.body)
          /\ cur' = e.d /\ base' = e.d
       \/ /\ e.k = "inject"
          /\ Inject(e.d) /\ base' = e.d
       \/ /\ e.k = "mut"
          /\ Mutate(e.name, IF e.from = "base" THEN base ELSE cur, e.d)
          /\ UNCHANGED base
       \/ /\ e.k = "deliver"
          /\ IF e.entered THEN Run(e.o, e.peer, Rng(e.newv), e.src, BookIn(e), Rng(e.touched))
                          ELSE Drop(e.o, e.src) /\ e.newv = <<>> /\ BookIn(e) = book[e.o] /\ e.touched = <<>>
          /\ UNCHANGED base
       \/ /\ e.k = "probe"          \* the driver asked the real ECCrypto.key_from_public_bin what these keys resolve to
          /\ \A q \in Rng(e.kres) : q[1] \in Keys /\ kres[q[1]] = q[2]
          /\ UNCHANGED <<vars, base>>
       \/ /\ e.k = "acq"
          /\ Acquaint(e.o, e.key, e.src)
          /\ UNCHANGED base
       \/ /\ e.k = "restart"
          /\ Restart
          /\ UNCHANGED base
  /\ l' = l + 1 /\ UNCHANGED tid

TraceSpec == TraceInit /\ [][TraceNext]_tvars

(* total verdict: a trace is rejected exactly when some logged event is not an enabled spec step *)
TraceAccepted == l <= Len(Ev) => ENABLED TraceNext
=============================================================================
