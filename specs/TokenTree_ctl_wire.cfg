SPECIFICATION Spec
CONSTANTS N = 2 UCap = 2 WakeAll = TRUE WithContent = FALSE
          Views = {"pub"} ReduceKey = TRUE WireStops = TRUE WireLen = 2
INVARIANT TypeOK
INVARIANT KeyIsPublic
INVARIANT OnlyValidConnected
INVARIANT NeverBad
INVARIANT WaitingAreDisjoint
INVARIANT PublicRoundTrip
INVARIANT PublicReloadsClean
INVARIANT RetMeansContained
INVARIANT WireRetSound
INVARIANT WireIsFold
