SPECIFICATION Spec
