SPECIFICATION Spec
CONSTANTS
  Ifaces = {"v4"}
  Listeners = {"A"}
  Prefixes = {"p1"}
  AddrKinds = {"c4","dom"}
  Sizes = {22,23}
  MsgIds = {1,245}
  WithStats = TRUE
  Closing = FALSE
  ClosedSendRaises = TRUE
  Explicit = FALSE
  MaxBytes = 23
  MaxMsgs = 2
  DupGeneral = FALSE
  StatsForwards = TRUE
  SendWhileClosing = FALSE
CONSTRAINT Bound
INVARIANT TypeOK
INVARIANT SendRouting
INVARIANT NotifyOnce
INVARIANT FanOut
INVARIANT CountersExact
INVARIANT StatsExact
INVARIANT NoLeak
PROPERTY Monotone
