---- MODULE VerifyRounds_TTrace_1790422153 ----
EXTENDS Sequences, TLCExt, VerifyRounds, Toolbox, Naturals, TLC

_expression ==
    LET VerifyRounds_TEExpression == INSTANCE VerifyRounds_TEExpression
    IN VerifyRounds_TEExpression!expression
----

_trace ==
    LET VerifyRounds_TETrace == INSTANCE VerifyRounds_TETrace
    IN VerifyRounds_TETrace!trace
----

_inv ==
    ~(
        TLCGet("level") = Len(_TETrace)
        /\
        reg = (0)
        /\
        resp = ({})
        /\
        revealed = (<<>>)
        /\
        bits = (<<0, 0, 0, 0>>)
        /\
        rnd = (<<[agg |-> (0 :> 0 @@ 1 :> 0 @@ 2 :> 0 @@ 3 :> 0), st |-> "gone", open |-> {}, gen |-> 0, rx |-> FALSE, res |-> <<>>]>>)
        /\
        nh = (0)
        /\
        dup = (0)
        /\
        chal = ({})
        /\
        pend = ({})
    )
----

_init ==
    /\ reg = _TETrace[1].reg
    /\ revealed = _TETrace[1].revealed
    /\ dup = _TETrace[1].dup
    /\ resp = _TETrace[1].resp
    /\ pend = _TETrace[1].pend
    /\ rnd = _TETrace[1].rnd
    /\ nh = _TETrace[1].nh
    /\ chal = _TETrace[1].chal
    /\ bits = _TETrace[1].bits
----

_next ==
    /\ \E i,j \in DOMAIN _TETrace:
        /\ \/ /\ j = i + 1
              /\ i = TLCGet("level")
        /\ reg  = _TETrace[i].reg
        /\ reg' = _TETrace[j].reg
        /\ revealed  = _TETrace[i].revealed
        /\ revealed' = _TETrace[j].revealed
        /\ dup  = _TETrace[i].dup
        /\ dup' = _TETrace[j].dup
        /\ resp  = _TETrace[i].resp
        /\ resp' = _TETrace[j].resp
        /\ pend  = _TETrace[i].pend
        /\ pend' = _TETrace[j].pend
        /\ rnd  = _TETrace[i].rnd
        /\ rnd' = _TETrace[j].rnd
        /\ nh  = _TETrace[i].nh
        /\ nh' = _TETrace[j].nh
        /\ chal  = _TETrace[i].chal
        /\ chal' = _TETrace[j].chal
        /\ bits  = _TETrace[i].bits
        /\ bits' = _TETrace[j].bits

\* Uncomment the ASSUME below to write the states of the error trace
\* to the given file in Json format. Note that you can pass any tuple
\* to `JsonSerialize`. For example, a sub-sequence of _TETrace.
    \* ASSUME
    \*     LET J == INSTANCE Json
    \*         IN J!JsonSerialize("VerifyRounds_TTrace_1790422153.json", _TETrace)

=============================================================================

 Note that you can extract this module `VerifyRounds_TEExpression`
  to a dedicated file to reuse `expression` (the module in the 
  dedicated `VerifyRounds_TEExpression.tla` file takes precedence 
  over the module `VerifyRounds_TEExpression` below).

---- MODULE VerifyRounds_TEExpression ----
EXTENDS Sequences, TLCExt, VerifyRounds, Toolbox, Naturals, TLC

expression == 
    [
        \* To hide variables of the `VerifyRounds` spec from the error trace,
        \* remove the variables below.  The trace will be written in the order
        \* of the fields of this record.
        reg |-> reg
        ,revealed |-> revealed
        ,dup |-> dup
        ,resp |-> resp
        ,pend |-> pend
        ,rnd |-> rnd
        ,nh |-> nh
        ,chal |-> chal
        ,bits |-> bits
        
        \* Put additional constant-, state-, and action-level expressions here:
        \* ,_stateNumber |-> _TEPosition
        \* ,_regUnchanged |-> reg = reg'
        
        \* Format the `reg` variable as Json value.
        \* ,_regJson |->
        \*     LET J == INSTANCE Json
        \*     IN J!ToJson(reg)
        
        \* Lastly, you may build expressions over arbitrary sets of states by
        \* leveraging the _TETrace operator.  For example, this is how to
        \* count the number of times a spec variable changed up to the current
        \* state in the trace.
        \* ,_regModCount |->
        \*     LET F[s \in DOMAIN _TETrace] ==
        \*         IF s = 1 THEN 0
        \*         ELSE IF _TETrace[s].reg # _TETrace[s-1].reg
        \*             THEN 1 + F[s-1] ELSE F[s-1]
        \*     IN F[_TEPosition - 1]
    ]

=============================================================================



Parsing and semantic processing can take forever if the trace below is long.
 In this case, it is advised to uncomment the module below to deserialize the
 trace from a generated binary file.

\*
\*---- MODULE VerifyRounds_TETrace ----
\*EXTENDS IOUtils, VerifyRounds, TLC
\*
\*trace == IODeserialize("VerifyRounds_TTrace_1790422153.bin", TRUE)
\*
\*=============================================================================
\*

---- MODULE VerifyRounds_TETrace ----
EXTENDS VerifyRounds, TLC

trace == 
    <<
    ([reg |-> 0,resp |-> {},revealed |-> <<>>,bits |-> <<0, 0, 0, 0>>,rnd |-> <<>>,nh |-> 0,dup |-> 0,chal |-> {},pend |-> {}]),
    ([reg |-> 1,resp |-> {},revealed |-> <<>>,bits |-> <<0, 0, 0, 0>>,rnd |-> <<[agg |-> (0 :> 0 @@ 1 :> 0 @@ 2 :> 0 @@ 3 :> 0), st |-> "wait", open |-> {}, gen |-> 0, rx |-> FALSE, res |-> <<>>]>>,nh |-> 0,dup |-> 0,chal |-> {},pend |-> {}]),
    ([reg |-> 0,resp |-> {},revealed |-> <<>>,bits |-> <<0, 0, 0, 0>>,rnd |-> <<[agg |-> (0 :> 0 @@ 1 :> 0 @@ 2 :> 0 @@ 3 :> 0), st |-> "gone", open |-> {}, gen |-> 0, rx |-> FALSE, res |-> <<>>]>>,nh |-> 0,dup |-> 0,chal |-> {},pend |-> {}])
    >>
----


=============================================================================

---- CONFIG VerifyRounds_TTrace_1790422153 ----
CONSTANTS
    BitSpace = 4
    Honest = TRUE
    Window = 1
    MaxRounds = 2
    MaxHon = 1
    MaxDup = 1
    CreditBy = "object"
    Reset = FALSE

INVARIANT
    _inv

CHECK_DEADLOCK
    \* CHECK_DEADLOCK off because of PROPERTY or INVARIANT above.
    FALSE

INIT
    _init

NEXT
    _next

CONSTANT
    _TETrace <- _trace

ALIAS
    _expression
=============================================================================
\* Generated on Sat Sep 26 11:29:14 UTC 2026