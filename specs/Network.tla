------------------------------ MODULE Network ------------------------------
(* ipv8/peerdiscovery/network.py : Network  (the peer graph), with ipv8/peer.py : Peer.addresses.      *)
(*                                                                                                      *)
(* Abstract layer (what the property talks about): verified, addrOf, services, all.                     *)
(* Implementation layer (how network.py answers): byKey (verified_by_public_key_bin) and the three LRU  *)
(* caches ipCache / introCache / svcCache (OrderedDicts, oldest first, one eviction per insertion).     *)
(* One action per public call, with the branch structure of the code.  Every call that takes a Peer is  *)
(* made with a FRESH Peer object (key p, one address) - as Community does for every received packet -   *)
(* except RemovePeer(p, 0), which is given the stored object (as the churn strategies do).              *)
(* RemovePeer(p, a) with a # 0 is remove_peer called with ANOTHER Peer object of key p that carries the *)
(* single address a (what a caller holds that kept the Peer of a received packet), whether or not p is  *)
(* verified: services are recorded for peers that are not verified too, and removal ends the            *)
(* advertisement of the peer it names.  adv is a history variable: what was handed to discover_services *)
(* for a peer since it was last removed; HistoryAgrees ties services_per_peer and the per-service       *)
(* lookups to it.                                                                                       *)
(*                                                                                                      *)
(* The spec describes the REPAIRED code.  Defects switches the deviations of the pinned tree on:        *)
(*   "rba"     remove_by_address leaves verified_by_public_key_bin untouched                            *)
(*   "ipstale" get_verified_by_address trusts reverse_ip_lookup blindly (nothing invalidates it)        *)
(*   "walk"    get_walkable_addresses(service) adds the introduction service to services_per_peer       *)
(*   "svcjoin" a peer whose services are known BEFORE it becomes verified is not entered in / refreshed *)
(*             in reverse_service_lookup when it becomes verified                                       *)
(*   "rmunver" remove_peer cleans the by-key index and services_per_peer only when the peer it is given *)
(*             is verified: what a peer advertised before it was removed survives its removal           *)
(*                                                                                                      *)
(* The CALLER's side: discover_services takes `services: Iterable`.  bufs are NB collections of service *)
(* ids OWNED BY THE CALLER (payload lists, sets, dict keys; IterBufs: one-shot iterators).              *)
(* DiscoverServicesBuf hands the collection object itself to the graph, possibly the same object for    *)
(* several peers; CallerMutates is the caller changing its own object afterwards.  The graph has value  *)
(* semantics: what a peer advertises is decided by the calls made, never by what becomes of the objects *)
(* the caller passed in (ArgumentsNotRetained, OnlyTheNamedPeer), and the graph leaves the caller's     *)
(* collections alone (CallerKeepsItsCollection); a one-shot iterator is read to its end by the call.    *)
(*   "alias"    services_per_peer keeps the caller's collection object for a peer without an entry, and *)
(*              later `|=` updates write through it                                                     *)
(*   "iteronce" discover_services reads `services` twice: with a one-shot iterator the second pass      *)
(*              (the refresh of reverse_service_lookup) sees nothing                                    *)
EXTENDS Naturals, Sequences, FiniteSets, TLC, SequencesExt

CONSTANTS NP, NA, NS,          \* peers 1..NP (public keys), addresses 1..NA, services 1..NS ; 0 = none
          V6,                  \* addresses of class UDPv6Address, the others are UDPv4Address
          BlackAddr, BlackMid, \* Network.blacklist / Network.blacklist_mids
          IpCap, IntroCap, SvcCap,
          NB, IterBufs,        \* the caller's collections 1..NB (NB = 0: none); IterBufs: the one-shot iterators among them
          Defects,
          MaxDepth

Peers == 1..NP
Addrs == 1..NA
Svcs  == 1..NS
Bufs  == 1..NB
Home(p) == ((p - 1) % NA) + 1                 \* the address a peer usually speaks from
Cls(a)  == IF a \in V6 THEN "v6" ELSE "v4"

VARIABLES verified,   \* keys of Network.verified_peers
          addrOf,     \* [Peers -> [v4, v6 -> 0..NA]] : Peer.addresses of the stored object (zeros if not verified)
          services,   \* [Peers -> SUBSET Svcs]        : services_per_peer (missing = {})
          all,        \* [Addrs -> entry]              : _all_addresses
          byKey,      \* keys of verified_by_public_key_bin
          ipCache,    \* << <<a, p>> ... >>            : reverse_ip_lookup
          introCache, \* << <<p, {a...}>> ... >>       : reverse_intro_lookup
          svcCache,   \* << <<s, {<<p, m>>...}>> ... >>: reverse_service_lookup; m = 0: the stored object of p,
                      \*                                 m = a: a foreign object of key p with the single address a
          bufs,       \* [Bufs -> SUBSET Svcs]         : what the caller's collections hold (iterator: what is left)
          svcRef,     \* [Peers -> 0..NB]              : only with "alias": the caller's collection that IS the
                      \*                                 value of services_per_peer[p] (0: a set of the graph's own)
          adv,        \* [Peers -> SUBSET Svcs]        : HISTORY (no counterpart in the code): the services handed to
                      \*                                 discover_services for p since p was last removed / since the start
          ret,        \* return value of the last call as a set (peers / addresses), {} for None / no result
          depth,      \* number of calls made (every call is enabled only while depth < MaxDepth; hidden by the VIEWs)
          op          \* the last call <<name, peer, address>> (read by the action properties only; hidden by the VIEWs)
absvars == <<verified, addrOf, services, all>>
caller  == <<bufs, svcRef>>
graph   == <<verified, addrOf, services, all, byKey, ipCache, introCache, svcCache>>
vars    == <<verified, addrOf, services, all, byKey, ipCache, introCache, svcCache, bufs, svcRef, adv, ret, depth, op>>
Did(n, x, y) == depth < MaxDepth /\ op' = <<n, x, y>> /\ depth' = depth + 1

NoAddr     == [v4 |-> 0, v6 |-> 0]
One(a)     == [NoAddr EXCEPT ![Cls(a)] = a]
Absent     == [known |-> FALSE, intro |-> 0, svc |-> 0, ns |-> FALSE]
EmptyEntry == [known |-> TRUE, intro |-> 0, svc |-> 0, ns |-> FALSE]
Dom(al)    == {a \in Addrs : al[a].known}
AddrSetIn(ad, p) == {ad[p].v4, ad[p].v6} \ {0}
AddrSet(p) == AddrSetIn(addrOf, p)
Pref(p)    == IF addrOf[p].v6 # 0 THEN addrOf[p].v6 ELSE addrOf[p].v4     \* Peer.INTERFACE_ORDER

(* ------------------------------ LRU caches (OrderedDict) ------------------------------------------ *)
Has(c, k)        == \E i \in 1..Len(c) : c[i][1] = k
Get(c, k)        == c[CHOOSE i \in 1..Len(c) : c[i][1] = k][2]
Del(c, k)        == SelectSeq(c, LAMBDA e : e[1] # k)
Trim(c, cap)     == IF Len(c) > cap THEN Tail(c) ELSE c                    \* popitem(last=False), once
PutEnd(c, k, v, cap) == Trim(Append(Del(c, k), <<k, v>>), cap)             \* pop(k) ... c[k] = v
SetInPlace(c, k, v)  == [i \in 1..Len(c) |-> IF c[i][1] = k THEN <<k, v>> ELSE c[i]]   \* c[k] = v, k present

(* ------------------------------ abstract answers --------------------------------------------------- *)
SvcOf(al, sv, a) == (IF al[a].intro = 0 THEN {} ELSE sv[al[a].intro]) \cup (IF al[a].svc = 0 THEN {} ELSE {al[a].svc})
AbsByKey(p)      == IF p \in verified THEN {p} ELSE {}
AbsCand(a)       == {p \in verified : a \in AddrSet(p)}
AbsPeersFor(s)   == {p \in verified : s \in services[p]}
AbsWalkable(s, o) ==
  IF s = 0 THEN Dom(all) \ UNION {AddrSet(p) : p \in verified}
  ELSE {a \in Dom(all) \ UNION {AddrSet(p) : p \in AbsPeersFor(s)} :
            ~(o /\ all[a].ns) /\ s \in SvcOf(all, services, a)}
AbsIntros(p)     == {a \in Dom(all) : all[a].intro = p}
SnapAddrs        == {Pref(p) : p \in {q \in verified : AddrSet(q) # {}}}

(* ------------------------------ add_verified_peer -------------------------------------------------- *)
(* refresh of reverse_service_lookup when p becomes verified (repair of "svcjoin")                     *)
JoinSvc(sc, p) == IF "svcjoin" \in Defects THEN sc
                  ELSE [i \in 1..Len(sc) |->
                          IF sc[i][1] \in services[p]
                          THEN <<sc[i][1], {e \in sc[i][2] : e[1] # p} \cup {<<p, 0>>}>> ELSE sc[i]]

AddBody(p, a, al) ==
  LET same == [v |-> verified, k |-> byKey, ad |-> addrOf, al |-> al, sc |-> svcCache] IN
  IF p \in BlackMid THEN same
  ELSE IF p \in byKey THEN
         IF p \in verified THEN [same EXCEPT !.ad = [addrOf EXCEPT ![p][Cls(a)] = a]]     \* known.addresses.update
         ELSE same                                      \* only with "rba": the stale object swallows the update
  ELSE IF al[a].known THEN
         [v |-> verified \cup {p}, k |-> byKey \cup {p}, ad |-> [addrOf EXCEPT ![p] = One(a)], al |-> al,
          sc |-> JoinSvc(svcCache, p)]
  ELSE IF a \notin BlackAddr THEN
         [v |-> verified \cup {p}, k |-> byKey \cup {p}, ad |-> [addrOf EXCEPT ![p] = One(a)],
          al |-> [al EXCEPT ![a] = EmptyEntry], sc |-> JoinSvc(svcCache, p)]
  ELSE same

AddVerified(p, a) ==
  /\ Did("AddVerified", p, a)
  /\ LET r == AddBody(p, a, all) IN
       verified' = r.v /\ byKey' = r.k /\ addrOf' = r.ad /\ all' = r.al /\ svcCache' = r.sc
  /\ ret' = {}
  /\ UNCHANGED <<services, ipCache, introCache, bufs, svcRef, adv>>

(* ------------------------------ discover_address --------------------------------------------------- *)
DiscoverAddress(p, pa, a, sv, ns) ==
  /\ Did("DiscoverAddress", p, a)
  /\ (sv = 0 => ~ns)
  /\ LET new == a \notin BlackAddr /\ (~all[a].known \/ all[a].intro \notin byKey)
         al1 == IF new THEN [all EXCEPT ![a] = [known |-> TRUE, intro |-> p, svc |-> sv, ns |-> ns]] ELSE all
         ic1 == IF ~new THEN introCache
                ELSE IF Has(introCache, p)
                     THEN SetInPlace(introCache, p, IF Get(introCache, p) # {} THEN Get(introCache, p) \cup {a} ELSE {a})
                     ELSE Trim(Append(introCache, <<p, {a}>>), IntroCap)
         r   == AddBody(p, pa, al1)
     IN /\ verified' = r.v /\ byKey' = r.k /\ addrOf' = r.ad /\ all' = r.al /\ svcCache' = r.sc
        /\ introCache' = ic1
  /\ ret' = {}
  /\ UNCHANGED <<services, ipCache, bufs, svcRef, adv>>

(* ------------------------------ discover_services -------------------------------------------------- *)
(* services_per_peer[p] |= S2, where S2 was read from the caller's collection b (0: from a value nobody else holds). *)
(* Repaired code: a set of the graph's own is updated, the caller's collection is only read (an iterator to its end).  *)
StoreServices(p, S2, b) ==
  LET used == [x \in Bufs |-> IF x = b /\ b \in IterBufs THEN {} ELSE bufs[x]] IN    \* an iterator is read to its end
  IF "alias" \notin Defects THEN
       /\ services' = [services EXCEPT ![p] = @ \cup S2]
       /\ bufs' = used
       /\ UNCHANGED svcRef
  ELSE LET take == b # 0 /\ b \notin IterBufs /\ services[p] = {} /\ svcRef[p] = 0   \* no entry yet: the caller's object is stored
           tgt  == IF take THEN b ELSE svcRef[p]                         \* the shared object written to (0: p's own set)
           new  == IF take THEN bufs[b] ELSE services[p] \cup S2
       IN /\ svcRef'   = [svcRef EXCEPT ![p] = tgt]
          /\ services' = [q \in Peers |-> IF q = p \/ (tgt # 0 /\ svcRef[q] = tgt) THEN new ELSE services[q]]
          /\ bufs'     = [x \in Bufs |-> IF x = tgt THEN new ELSE used[x]]

RefreshSvcCache(p, pa, S2) ==
  LET m == IF p \in byKey THEN 0 ELSE pa IN
    [i \in 1..Len(svcCache) |->
       IF svcCache[i][1] \in S2
       THEN <<svcCache[i][1], {e \in svcCache[i][2] : e[1] # p} \cup {<<p, m>>}>> ELSE svcCache[i]]

Advertise(p, S2) == adv' = [adv EXCEPT ![p] = @ \cup S2]      \* the history: what was handed over for p, whatever p is

DiscoverServices(p, pa, S2) ==         \* the services arrive in a fresh list (as all callers in the library do)
  /\ Did("DiscoverServices", p, 0)
  /\ S2 # {}
  /\ StoreServices(p, S2, 0) /\ Advertise(p, S2)
  /\ svcCache' = RefreshSvcCache(p, pa, S2)
  /\ ret' = {}
  /\ UNCHANGED <<verified, addrOf, all, byKey, ipCache, introCache>>

DiscoverServicesBuf(p, pa, b) ==       \* the services arrive in the caller's collection b, handed over as it is
  /\ Did("DiscoverServicesBuf", p, b)
  /\ bufs[b] # {}
  /\ StoreServices(p, bufs[b], b) /\ Advertise(p, bufs[b])
  /\ svcCache' = RefreshSvcCache(p, pa, IF b \in IterBufs /\ "iteronce" \in Defects THEN {} ELSE bufs[b])
  /\ ret' = {}
  /\ UNCHANGED <<verified, addrOf, all, byKey, ipCache, introCache>>

(* the caller changes its own collection in place (an iterator slot: a new iterator over S takes the place) *)
CallerMutates(b, S) ==
  /\ Did("CallerMutates", 0, b)
  /\ S # bufs[b]
  /\ bufs' = [bufs EXCEPT ![b] = S]
  /\ services' = IF "alias" \in Defects THEN [q \in Peers |-> IF svcRef[q] = b THEN S ELSE services[q]] ELSE services
  /\ ret' = {}
  /\ UNCHANGED <<verified, addrOf, all, byKey, ipCache, introCache, svcCache, svcRef, adv>>

(* ------------------------------ get_peers_for_service ---------------------------------------------- *)
PFSOut(sc, s)   == IF Has(sc, s)
                   THEN {e \in Get(sc, s) : e[1] \in verified /\ s \in services[e[1]]}
                   ELSE {<<p, 0>> : p \in {q \in verified : s \in services[q]}}
PFSCache(sc, s) == PutEnd(sc, s, PFSOut(sc, s), SvcCap)

GetPeersForService(s) ==
  /\ Did("GetPeersForService", 0, 0)
  /\ svcCache' = PFSCache(svcCache, s)
  /\ ret' = {e[1] : e \in PFSOut(svcCache, s)}
  /\ UNCHANGED <<verified, addrOf, services, all, byKey, ipCache, introCache, bufs, svcRef, adv>>

(* ------------------------------ get_walkable_addresses --------------------------------------------- *)
ObjAddrs(e) == IF e[2] = 0 THEN AddrSet(e[1]) ELSE {e[2]}

WalkServices(out0, o) ==      \* "walk": services.add(service) on the set stored in services_per_peer
  [q \in Peers |-> IF services[q] = {} THEN {}
                   ELSE services[q] \cup {all[a].svc : a \in {b \in out0 : all[b].intro = q /\ all[b].svc # 0
                                                                            /\ ~(o /\ all[b].ns)}}]

ImplWalkable(sc, s, o) ==
  IF s = 0 THEN Dom(all) \ UNION {AddrSet(p) : p \in verified}
  ELSE LET out0 == Dom(all) \ UNION {ObjAddrs(e) : e \in PFSOut(sc, s)}
           sv   == IF "walk" \in Defects THEN WalkServices(out0, o) ELSE services
       IN {a \in out0 : ~(o /\ all[a].ns) /\ s \in SvcOf(all, sv, a)}

GetWalkable(s, o) ==
  /\ Did("GetWalkable", 0, 0)
  /\ (s = 0 => ~o)
  /\ ret' = ImplWalkable(svcCache, s, o)
  /\ svcCache' = IF s = 0 THEN svcCache ELSE PFSCache(svcCache, s)
  /\ services' = IF s # 0 /\ "walk" \in Defects
                 THEN WalkServices(Dom(all) \ UNION {ObjAddrs(e) : e \in PFSOut(svcCache, s)}, o) ELSE services
  /\ UNCHANGED <<verified, addrOf, all, byKey, ipCache, introCache, bufs, svcRef, adv>>

(* ------------------------------ get_verified_by_address -------------------------------------------- *)
IpHit(a) == LET c == IF Has(ipCache, a) THEN Get(ipCache, a) ELSE 0 IN
            IF c # 0 /\ ("ipstale" \in Defects \/ (c \in verified /\ a \in AddrSet(c))) THEN c ELSE 0

(* q is the peer returned (0 = None).  strict: a usable cache entry decides; otherwise (and always when *)
(* ~strict, used for recorded traces) any verified peer that has the address may be returned.           *)
GetByAddressG(a, q, strict) ==
  /\ Did("GetByAddress", q, a)
  /\ IF strict /\ IpHit(a) # 0 THEN q = IpHit(a)
     ELSE \/ q \in AbsCand(a)
          \/ q = 0 /\ AbsCand(a) = {}
          \/ q # 0 /\ q = IpHit(a)
  /\ ipCache' = IF q = 0 THEN Del(ipCache, a) ELSE PutEnd(ipCache, a, q, IpCap)
  /\ ret' = IF q = 0 THEN {} ELSE {q}
  /\ UNCHANGED <<verified, addrOf, services, all, byKey, introCache, svcCache, bufs, svcRef, adv>>
GetByAddress(a, q) == GetByAddressG(a, q, TRUE)

GetByKey(p) ==
  /\ Did("GetByKey", p, 0)
  /\ ret' = IF p \in byKey THEN {p} ELSE {}
  /\ UNCHANGED <<verified, addrOf, services, all, byKey, ipCache, introCache, svcCache, bufs, svcRef, adv>>

(* ------------------------------ get_introductions_from --------------------------------------------- *)
GetIntroductionsFrom(p) ==
  /\ Did("GetIntroductionsFrom", p, 0)
  /\ IF Has(introCache, p)
     THEN ret' = Get(introCache, p) /\ introCache' = introCache
     ELSE ret' = AbsIntros(p) /\ introCache' = Trim(Append(introCache, <<p, AbsIntros(p)>>), IntroCap)
  /\ UNCHANGED <<verified, addrOf, services, all, byKey, ipCache, svcCache, bufs, svcRef, adv>>

(* ------------------------------ removal ------------------------------------------------------------ *)
Forget(gone) ==
  /\ verified' = verified \ gone
  /\ addrOf'   = [p \in Peers |-> IF p \in gone THEN NoAddr ELSE addrOf[p]]
  /\ services' = [p \in Peers |-> IF p \in gone THEN {} ELSE services[p]]
  /\ svcRef'   = [p \in Peers |-> IF p \in gone THEN 0 ELSE svcRef[p]]      \* services_per_peer.pop(key)

Unadvertise(gone) == adv' = [p \in Peers |-> IF p \in gone THEN {} ELSE adv[p]]     \* removal ends the advertisement

RemoveByAddress(a) ==
  /\ Did("RemoveByAddress", 0, a)
  /\ all' = [all EXCEPT ![a] = Absent]
  /\ LET gone == {p \in verified : a \in AddrSet(p)} IN
       Forget(gone) /\ Unadvertise(gone) /\ byKey' = IF "rba" \in Defects THEN byKey ELSE byKey \ gone
  /\ ret' = {}
  /\ UNCHANGED <<ipCache, introCache, svcCache, bufs>>

(* remove_peer(peer).  pa = 0: peer is the stored object of the verified peer p; pa # 0: peer is another *)
(* Peer object of key p with the single address pa (Peer equality and hash go by the public key, so     *)
(* `peer in verified_peers` holds iff p is verified).  The addresses OF THE OBJECT HANDED IN leave      *)
(* _all_addresses; p leaves the membership and the by-key index and stops advertising, whether or not   *)
(* it was verified (services_per_peer has entries for peers that are not verified).                     *)
RemovePeer(p, pa) ==
  /\ Did("RemovePeer", p, pa)
  /\ (pa = 0 => p \in verified)
  /\ LET held == IF pa = 0 THEN AddrSet(p) ELSE {pa} IN
       all' = [a \in Addrs |-> IF a \in held THEN Absent ELSE all[a]]
  /\ IF p \in verified \/ "rmunver" \notin Defects
     THEN Forget({p}) /\ byKey' = byKey \ {p}
     ELSE UNCHANGED <<verified, addrOf, services, svcRef, byKey>>
  /\ Unadvertise({p})
  /\ ret' = {}
  /\ UNCHANGED <<ipCache, introCache, svcCache, bufs>>

(* ------------------------------ snapshot / load_snapshot ------------------------------------------- *)
FreshLoaded(S) == [a \in Addrs |-> IF a \in S THEN EmptyEntry ELSE Absent]

Snapshot ==            \* snapshot() of this graph loaded into a fresh graph; ret = what is walkable there
  /\ Did("Snapshot", 0, 0)
  /\ ret' = Dom(FreshLoaded(SnapAddrs))
  /\ UNCHANGED <<verified, addrOf, services, all, byKey, ipCache, introCache, svcCache, bufs, svcRef, adv>>

LoadSnapshot(S) ==     \* a snapshot listing the addresses S loaded into this graph
  /\ Did("LoadSnapshot", 0, 0)
  /\ S # {}
  /\ all' = [a \in Addrs |-> IF a \in S THEN EmptyEntry ELSE all[a]]
  /\ ret' = {}
  /\ UNCHANGED <<verified, addrOf, services, byKey, ipCache, introCache, svcCache, bufs, svcRef, adv>>

(* ------------------------------ behaviours --------------------------------------------------------- *)
Init == /\ verified = {} /\ byKey = {}
        /\ addrOf = [p \in Peers |-> NoAddr]
        /\ services = [p \in Peers |-> {}]
        /\ all = [a \in Addrs |-> Absent]
        /\ ipCache = <<>> /\ introCache = <<>> /\ svcCache = <<>>
        /\ bufs = [b \in Bufs |-> {((b - 1) % NS) + 1}] /\ svcRef = [p \in Peers |-> 0]
        /\ adv = [p \in Peers |-> {}]
        /\ ret = {} /\ depth = 0 /\ op = <<"Init", 0, 0>>

DiscoverAddressH(p, a, sv, ns) == DiscoverAddress(p, Home(p), a, sv, ns)
DiscoverServicesH(p, S2)       == DiscoverServices(p, Home(p), S2)
DiscoverServicesBufH(p, b)     == DiscoverServicesBuf(p, Home(p), b)
SnapSets == {{a} : a \in Addrs} \cup {Addrs}

Mutation == \/ \E p \in Peers, a \in Addrs : AddVerified(p, a)
            \/ \E p \in Peers, a \in Addrs, sv \in 0..NS, ns \in BOOLEAN : DiscoverAddressH(p, a, sv, ns)
            \/ \E p \in Peers, S2 \in SUBSET Svcs : DiscoverServicesH(p, S2)
            \/ \E p \in Peers, b \in Bufs : DiscoverServicesBufH(p, b)
            \/ \E b \in Bufs, S \in SUBSET Svcs : CallerMutates(b, S)
            \/ \E a \in Addrs : RemoveByAddress(a)
            \/ \E p \in Peers, pa \in 0..NA : RemovePeer(p, pa)
            \/ \E S \in SnapSets : LoadSnapshot(S)
Query    == \/ \E a \in Addrs, q \in 0..NP : GetByAddress(a, q)
            \/ \E p \in Peers : GetByKey(p)
            \/ \E s \in Svcs : GetPeersForService(s)
            \/ \E s \in 0..NS, o \in BOOLEAN : GetWalkable(s, o)
            \/ \E p \in Peers : GetIntroductionsFrom(p)
            \/ Snapshot
Next == Mutation \/ Query
Spec == Init /\ [][Next]_vars

NoDepth    == <<verified, addrOf, services, all, byKey, ipCache, introCache, svcCache, bufs, svcRef, adv, ret>>   \* VIEW of dumped graphs
NoOp       == <<verified, addrOf, services, all, byKey, ipCache, introCache, svcCache, bufs, svcRef, adv, ret, depth>>   \* exact depth, any number of workers
NoRetOp    == <<verified, addrOf, services, all, byKey, ipCache, introCache, svcCache, bufs, svcRef, adv, depth>>
NoRet      == <<verified, addrOf, services, all, byKey, ipCache, introCache, svcCache, bufs, svcRef, adv>>        \* VIEW of large runs

(* ------------------------------ properties --------------------------------------------------------- *)
TypeOK == /\ verified \subseteq Peers /\ byKey \subseteq Peers
          /\ Len(ipCache) <= IpCap /\ Len(introCache) <= IntroCap /\ Len(svcCache) <= SvcCap
          /\ \A p \in Peers : p \notin verified => addrOf[p] = NoAddr
          /\ bufs \in [Bufs -> SUBSET Svcs] /\ svcRef \in [Peers -> 0..NB] /\ IterBufs \subseteq Bufs
          /\ \A p \in Peers : svcRef[p] # 0 => ("alias" \in Defects /\ services[p] = bufs[svcRef[p]])
          /\ adv \in [Peers -> SUBSET Svcs]

(* the answer every lookup WOULD give in this state (computed through the implementation layer without *)
(* performing the call) equals what the abstract layer implies                                         *)
ByKeyAgrees      == \A p \in Peers : (IF p \in byKey THEN {p} ELSE {}) = AbsByKey(p)
ByAddressAgrees  == \A a \in Addrs : IpHit(a) # 0 => IpHit(a) \in AbsCand(a)
PeersForAgrees   == \A s \in Svcs : {e[1] : e \in PFSOut(svcCache, s)} = AbsPeersFor(s)
WalkableAgrees   == \A s \in 0..NS, o \in BOOLEAN : (s = 0 => ~o) => ImplWalkable(svcCache, s, o) = AbsWalkable(s, o)
LookupsAgree     == ByKeyAgrees /\ ByAddressAgrees /\ PeersForAgrees /\ WalkableAgrees
IntroAgrees      == \A p \in Peers : Has(introCache, p) => Get(introCache, p) = AbsIntros(p)   \* NOT demanded (see driver)

(* ------------------------------ advertised = handed over since the last removal -------------------- *)
(* "advertised services" read off the history of calls alone: what the graph records for a peer (verified *)
(* or not) is what was handed to discover_services for it since it was last removed, and the per-service *)
(* lookups give what THAT implies: a peer that was removed and added again advertises nothing until it  *)
(* says so again                                                                                        *)
AbsWalkableWith(sv, s, o) ==
  LET pf == {p \in verified : s \in sv[p]} IN
    {a \in Dom(all) \ UNION {AddrSet(p) : p \in pf} : ~(o /\ all[a].ns) /\ s \in SvcOf(all, sv, a)}
AdvertisedSinceRemoval == services = adv
PeersForHistory        == \A s \in Svcs : {e[1] : e \in PFSOut(svcCache, s)} = {p \in verified : s \in adv[p]}
WalkableHistory        == \A s \in Svcs, o \in BOOLEAN : ImplWalkable(svcCache, s, o) = AbsWalkableWith(adv, s, o)
HistoryAgrees          == AdvertisedSinceRemoval /\ PeersForHistory /\ WalkableHistory

BlacklistedNeverVerified == verified \cap BlackMid = {} /\ byKey \cap BlackMid = {}
(* fresh graph: nothing verified, so walkable = Dom(all) = the snapshot's addresses *)
SnapshotRoundTrip == Dom(FreshLoaded(SnapAddrs)) = SnapAddrs

QueryNames == {"GetByAddress", "GetByKey", "GetPeersForService", "GetWalkable", "GetIntroductionsFrom", "Snapshot"}
(* asking never changes the abstract state (hence, with LookupsAgree, never changes any answer) *)
QueriesPure   == [][op'[1] \in QueryNames => UNCHANGED absvars]_vars
(* a removed peer is gone from the membership and from the by-key index *)
RemovedIsGone == [][/\ op'[1] = "RemovePeer" => (op'[2] \notin verified' /\ op'[2] \notin byKey')
                    /\ op'[1] = "RemoveByAddress" =>
                          \A p \in Peers : (p \in verified /\ op'[3] \in AddrSet(p)) => (p \notin verified' /\ p \notin byKey')]_vars
(* ... whatever object names it and whether or not it was verified, and it advertises nothing any more *)
RemovedIsClean == [][/\ op'[1] = "RemovePeer" => (op'[2] \notin byKey' /\ services'[op'[2]] = {})
                     /\ op'[1] = "RemoveByAddress" =>
                           \A p \in Peers : (p \in verified /\ op'[3] \in AddrSet(p)) => services'[p] = {}]_vars
(* ... and can be added again: add_verified_peer of a non-blacklisted identity at a non-blacklisted address verifies it *)
ReAddWorks    == [][(op'[1] = "AddVerified" /\ op'[2] \notin BlackMid /\ op'[3] \notin BlackAddr) => op'[2] \in verified']_vars

(* ------------------------------ the caller's collections ------------------------------------------- *)
(* what the caller does with its own collection after the call does not move the graph *)
ArgumentsNotRetained     == [][op'[1] = "CallerMutates" => UNCHANGED graph]_vars
(* advertising for one peer changes what that peer advertises, and nobody else's services *)
OnlyTheNamedPeer         == [][op'[1] \in {"DiscoverServices", "DiscoverServicesBuf"} =>
                                  \A q \in Peers \ {op'[2]} : services'[q] = services[q]]_vars
(* no call of the graph writes to a collection of the caller (a one-shot iterator is read to its end) *)
CallerKeepsItsCollection == [][op'[1] # "CallerMutates" =>
                                  \A b \in Bufs : bufs'[b] = IF op'[1] = "DiscoverServicesBuf" /\ op'[3] = b /\ b \in IterBufs
                                                               THEN {} ELSE bufs[b]]_vars
=============================================================================
