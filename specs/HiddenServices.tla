--------------------------- MODULE HiddenServices ---------------------------
(***************************************************************************************************************)
(* G06 (specification growth) - the hidden-services layer of the tunnel community:                               *)
(* ipv8/messaging/anonymization/hidden_services.py (HiddenTunnelCommunity), with Swarm / RendezvousPoint /       *)
(* IntroductionPoint of tunnel.py and the five request caches of caches.py.                                      *)
(*                                                                                                               *)
(* Level of abstraction.  The circuit layer is specified in Onion.tla; here a circuit is a channel `c` between    *)
(* the node that created it (record in circ[o]) and the node that holds its exit socket (record in exits[x]);     *)
(* relays in between, cell encryption, retries are not visible.  Messages are never removed from `msgs`: every   *)
(* handler may run for any message ever sent, any number of times, in any order - loss, duplication, re-ordering *)
(* and late arrival are all behaviours of this specification.  Cryptography is symbolic: a session key is        *)
(* [e1, e2, st] (downloader ephemeral, seeder ephemeral, seeder's swarm key), the opaque part of created-e2e     *)
(* (auth tag + encrypted rendezvous info) is a `tag` whose meaning is kept in the ghost table `blob`.            *)
(*                                                                                                               *)
(* One action per public call / message handler / timer / task step of the real code:                            *)
(*   API      JoinSwarm LeaveSwarm CreateIntroPoint Lookup (= one swarm of do_peer_discovery)                    *)
(*   handlers OnEstablishIntro OnIntroEstablished OnEstablishRendezvous OnRendezvousEstablished                  *)
(*            OnCreateE2ESock (introduction point) OnCreateE2ECirc (seeder) OnCreatedE2E OnLinkE2E OnLinkedE2E   *)
(*            OnPeersRequestCell OnPeersRequestSock OnPeersResponse                                              *)
(*            WrongEnd (a request handler runs at the node that owns the circuit instead of the one at its end)  *)
(*   timers   IPTimeout RPTimeout PeersTimeout QuietTimeout (e2e-request / link-request caches)                  *)
(*   tasks    CircuitReady (the coroutine waiting in `await circuit.ready` continues: establish-intro,           *)
(*            establish-rendezvous or link-e2e goes out)                                                         *)
(*   circuit layer (environment): DataCircuit ExitNew ExitConvert ExitEnable CircClose CircPop ExitClose ExitPop *)
(*            RelayGone; ExitClose/ExitPop/ExitConvert carry the hidden-services part of remove_exit_socket      *)
(*   adversary Forge (a participant on the path fabricates a hidden-services message)                            *)
(*                                                                                                               *)
(* SAFETY PROPERTIES (written from the docstrings and the obvious intent of the handshake):                      *)
(*  NoDangling      ("Remove the given exit circuit, remove associated rendezvous points and update any PEX      *)
(*                  communities it may be part of"): every introduction-point entry and every rendezvous        *)
(*                  entry of a node refers to an exit socket the node still has; PEX announces exactly the       *)
(*                  seeder keys of the introduction entries; a PEX community exists iff it announces something.  *)
(*  LinkJustified   a rendezvous point links exactly circuits that showed the same cookie: for every rendezvous  *)
(*                  route a -> b of node r there is a cookie that one of them established (establish-rendezvous) *)
(*                  and the other presented (link-e2e) at r; neither was an enabled exit at that moment.         *)
(*  KeyAgreement    an e2e link is only established between a downloader and the seeder that holds the swarm     *)
(*                  key: a downloader circuit that is marked e2e carries a key [e1, e2, st] whose st is the      *)
(*                  seeder key of the introduction point it asked, and some node that was seeding that swarm     *)
(*                  with exactly that key computed the same key for one of its rendezvous circuits.              *)
(*  ConnsLive       Swarm.connections of a downloader only holds rendezvous circuits the node still has and      *)
(*                  that are not closing, and only for swarms it is part of.                                     *)
(*  CallbackOnce    the e2e callback is made at most once per circuit, only for a circuit of that swarm.         *)
(*  UnmatchedInert  (action property) a message that does not match the outstanding request (unknown identifier, *)
(*                  unknown cookie, seeder key already served / not served, swarm not seeded, link of an enabled *)
(*                  exit) changes nothing and is not answered.                                                   *)
(*                                                                                                               *)
(* Deviation switches (TRUE = the behaviour the properties need; FALSE = a plausible deviation; used as          *)
(* spec-level negative controls):  CheckIdent CheckCookie CheckEnabled CheckSeeding CheckSecret CleanOnClose     *)
(* CleanOnPop.  CleanOnPop = FALSE is the PINNED behaviour of hidden_services.py: remove_exit_socket forgets the  *)
(* introduction/rendezvous entries when the removal STARTS; the exit socket lingers for remove_tunnel_delay, an  *)
(* establish-intro / establish-rendezvous that arrives meanwhile (duplicate, late, or sent on purpose) registers *)
(* the dying socket again and nothing ever removes that entry (finding G06-1).                                   *)
(*                                                                                                               *)
(* Behaviours of the pinned code that are ALLOWED here because the intent is not clear (observations, no finding):*)
(*  - a created-e2e with the right identifier consumes the e2e request even if it does not verify (OnCreatedE2E); *)
(*  - linked-e2e for a circuit that has been removed meanwhile still calls the application (OnLinkedE2E);         *)
(*  - a node that stopped seeding but still waits for rendezvous-established answers with its node key (the       *)
(*    downloader rejects it: st = 0 never equals a swarm key);                                                    *)
(*  - while two linked exit sockets linger, a repeated establish-rendezvous + link-e2e links again (LinkJustified *)
(*    only demands that the cookie was shown by both circuits);                                                   *)
(*  - do_peer_discovery looks up a swarm that was left while it was waiting (snapshot of self.swarms; Lookup with *)
(*    orphan = TRUE, the result goes nowhere);                                                                    *)
(*  - a peers-request for an introduction point that is the exit of the data circuit goes through the exit socket *)
(*    instead of being sent as a cell (public keys are compared as objects; see ReqMsg).                          *)
(***************************************************************************************************************)
EXTENDS Naturals, FiniteSets, Sequences, TLC

CONSTANTS Nodes, Swarms, Cids, Ids, Cks, Keys, Ephs, Tags, Service, Canonical,
          Seeders, Downloaders, Infra,   \* (Next only) who calls the API as what, who joins circuits
          ForgeTypes,                    \* (Next only) the kinds of messages the adversary fabricates variants of

          CheckIdent, CheckCookie, CheckEnabled, CheckSeeding, CheckSecret, CleanOnClose, CleanOnPop,
          ForgeBudget, FaultBudget, ApiBudget

VARIABLES swarm,    \* [n -> set of [ih, seeding, key]]                       HiddenTunnelCommunity.swarms
          conns,    \* [n -> set of [c, ih, pk, node]]                         Swarm.connections (+ intro point used)
          ips,      \* [n -> set of [ih, node, pk]]                            Swarm.intro_points
          circ,     \* [n -> set of [id, ct, ih, st, x, req, e2e, hs]]         circuits the node created
          cont,     \* [n -> set of continuation records]                      coroutines waiting in hidden_services.py
          exits,    \* [n -> set of [id, en, cl]]                              exit sockets (cl: removal started)
          intro,    \* [n -> set of [pk, c, ih]]                               intro_point_for
          rdv,      \* [n -> set of [ck, c]]                                   rendezvous_point_for
          links,    \* [n -> set of <<a, b>>]                                  rendezvous routes in relay_from_to
          pex,      \* [n -> set of [ih, pk]]                                  PexCommunity.intro_points_for
          pexOn,    \* [n -> set of ih]                                        HiddenTunnelCommunity.pex
          dht,      \* set of [ih, node, pk]                                   announced introduction points
          caches,   \* [n -> set of cache records]
          groups,   \* [n -> set of [ih, wait, res, dhtmode, orphan]]          do_peer_discovery waiting in swarm.lookup
          cbs,      \* [n -> sequence of [ih, c]]                              e2e callbacks made
          msgs, used, blob, ghost, budget, ev

nodeState == <<swarm, conns, ips, circ, cont, exits, intro, rdv, links, pex, pexOn, dht, caches, groups, cbs>>
vars == <<swarm, conns, ips, circ, cont, exits, intro, rdv, links, pex, pexOn, dht, caches, groups, cbs,
          msgs, used, blob, ghost, budget, ev>>

\* model checking looks at states without the label of the last step (it only serves the action property)
view == <<swarm, conns, ips, circ, cont, exits, intro, rdv, links, pex, pexOn, dht, caches, groups, cbs, msgs, used, blob, ghost, budget>>

NONE == "none"
NoKey == [e1 |-> 0, e2 |-> 0, st |-> 0]
HsTypes == {"IP", "RPS", "RPD"}

Min(S) == CHOOSE x \in S : \A y \in S : x <= y
Fresh(v, S, u) == v \in S /\ v \notin u /\ (Canonical => v = Min(S \ u))
\* k distinct fresh names (the real code draws them one after the other; the harness numbers them in the order it meets them)
FreshSet(V, S, u) == /\ \A v \in V : v \in S /\ v \notin u
                     /\ Canonical => \A v \in V : \A w \in (S \ u) \ V : v < w
Upd(f, n, v) == [f EXCEPT ![n] = v]

CircOf(n, c) == {r \in circ[n] : r.id = c}
HasCirc(n, c) == CircOf(n, c) # {}
TheCirc(n, c) == CHOOSE r \in circ[n] : r.id = c
ExitOf(n, c) == {r \in exits[n] : r.id = c}
HasExit(n, c) == ExitOf(n, c) # {}
TheExit(n, c) == CHOOSE r \in exits[n] : r.id = c
SwarmOf(n, ih) == {s \in swarm[n] : s.ih = ih}
Joined(n, ih) == SwarmOf(n, ih) # {}
TheSwarm(n, ih) == CHOOSE s \in swarm[n] : s.ih = ih
Seeding(n, ih) == \E s \in swarm[n] : s.ih = ih /\ s.seeding
CacheOf(n, k, id) == {q \in caches[n] : q.k = k /\ q.id = id}
Cache(k, id, c, ih, node, pk, e1, ck, key) ==
  [k |-> k, id |-> id, c |-> c, ih |-> ih, node |-> node, pk |-> pk, e1 |-> e1, ck |-> ck, key |-> key]
NewCirc(c, ct, ih, req) == [id |-> c, ct |-> ct, ih |-> ih, st |-> "new", x |-> NONE, req |-> req, e2e |-> FALSE, hs |-> NoKey]
ReadyData(n) == {r \in circ[n] : r.ct = "DATA" /\ r.st = "ready"}

\* ---- pieces shared by several actions
ClosedCirc(n, ids) == {IF r.id \in ids THEN [r EXCEPT !.st = "closing"] ELSE r : r \in circ[n]}
ConnsAfterClose(n, ids) == {k \in conns[n] : ~(k.c \in ids /\ HasCirc(n, k.c))}
ContAfterClose(n, ids) == {k \in cont[n] : ~(k.c \in ids /\ k.kind # "rpw")}
HsCircIds(n, ih) == {r.id : r \in {r \in circ[n] : r.ih = ih /\ r.ct \in HsTypes}}

\* what HiddenTunnelCommunity.remove_exit_socket does before the exit socket itself is dealt with
IntroLeft(n, cs) == {i \in intro[n] : i.c \notin cs}
PexLeft(n, cs) == {p \in pex[n] : ~\E i \in intro[n] : i.c \in cs /\ i.pk = p.pk /\ i.ih = p.ih}
PexOnLeft(n, cs) == {h \in pexOn[n] : (\E i \in intro[n] : i.c \in cs /\ i.ih = h) => \E p \in PexLeft(n, cs) : p.ih = h}
Forget(n, cs) == /\ intro' = Upd(intro, n, IntroLeft(n, cs))
                 /\ rdv' = Upd(rdv, n, {r \in rdv[n] : r.c \notin cs})
                 /\ pex' = Upd(pex, n, PexLeft(n, cs))
                 /\ pexOn' = Upd(pexOn, n, PexOnLeft(n, cs))
NoForget == UNCHANGED <<intro, rdv, pex, pexOn>>

Send(S) == msgs' = msgs \cup S
Mark(a, n, hit) == ev' = [a |-> a, n |-> n, hit |-> hit]
SpendApi == budget' = [budget EXCEPT !.api = @ - 1]
SpendFault == budget' = [budget EXCEPT !.fault = @ - 1]

Init ==
  /\ swarm = [n \in Nodes |-> {}] /\ conns = [n \in Nodes |-> {}] /\ ips = [n \in Nodes |-> {}]
  /\ circ = [n \in Nodes |-> {}] /\ cont = [n \in Nodes |-> {}] /\ exits = [n \in Nodes |-> {}]
  /\ intro = [n \in Nodes |-> {}] /\ rdv = [n \in Nodes |-> {}] /\ links = [n \in Nodes |-> {}]
  /\ pex = [n \in Nodes |-> {}] /\ pexOn = [n \in Nodes |-> {}] /\ dht = {}
  /\ caches = [n \in Nodes |-> {}] /\ groups = [n \in Nodes |-> {}] /\ cbs = [n \in Nodes |-> <<>>]
  /\ msgs = {} /\ blob = {}
  /\ used = [cid |-> {}, id |-> {}, ck |-> {}, key |-> {}, eph |-> {}, tag |-> {}]
  /\ ghost = [est |-> {}, pres |-> {}, linked |-> {}, answered |-> {}, forged |-> {}]
  /\ budget = [api |-> ApiBudget, fault |-> FaultBudget, forge |-> ForgeBudget]
  /\ ev = [a |-> "Init", n |-> NONE, hit |-> TRUE]

(* ------------------------------------------------ public calls ------------------------------------------------ *)
\* join_swarm: "Calling this method while already part of the swarm will cause the community to drop all pre-existing connections"
JoinSwarm(n, ih, seeding, k) ==
  /\ IF seeding THEN Fresh(k, Keys, used.key) ELSE k = 0
  /\ Joined(n, ih) => ~\E g \in groups[n] : g.ih = ih      \* (a re-join while a lookup of the old Swarm object is pending is not modelled)
  /\ LET ids == IF Joined(n, ih) THEN HsCircIds(n, ih) ELSE {} IN
       /\ circ' = Upd(circ, n, ClosedCirc(n, ids))
       /\ cont' = Upd(cont, n, ContAfterClose(n, ids))
       /\ conns' = Upd(conns, n, {c \in conns[n] : c.ih # ih})
       /\ ips' = Upd(ips, n, {i \in ips[n] : i.ih # ih})
       /\ swarm' = Upd(swarm, n, (swarm[n] \ SwarmOf(n, ih)) \cup {[ih |-> ih, seeding |-> seeding, key |-> k]})
  /\ used' = IF seeding THEN [used EXCEPT !.key = @ \cup {k}] ELSE used
  /\ Mark("JoinSwarm", n, TRUE)
  /\ UNCHANGED <<exits, intro, rdv, links, pex, pexOn, dht, caches, groups, cbs, msgs, blob, ghost>>

LeaveSwarm(n, ih) ==
  /\ LET ids == HsCircIds(n, ih) IN
       /\ circ' = Upd(circ, n, ClosedCirc(n, ids))
       /\ cont' = Upd(cont, n, ContAfterClose(n, ids))
       /\ conns' = Upd(conns, n, {c \in conns[n] : c.ih # ih})
       /\ ips' = Upd(ips, n, {i \in ips[n] : i.ih # ih})
       /\ swarm' = Upd(swarm, n, swarm[n] \ SwarmOf(n, ih))
       /\ groups' = Upd(groups, n, {IF g.ih = ih THEN [g EXCEPT !.orphan = TRUE] ELSE g : g \in groups[n]})
  /\ Mark("LeaveSwarm", n, TRUE)
  /\ UNCHANGED <<exits, intro, rdv, links, pex, pexOn, dht, caches, cbs, msgs, used, blob, ghost>>

\* create_introduction_point up to its first await (the circuit exists, nothing sent yet)
CreateIntroPoint(n, ih, c, req) ==
  /\ Seeding(n, ih)
  /\ Fresh(c, Cids, used.cid) /\ req \in Nodes \ {n}
  /\ circ' = Upd(circ, n, circ[n] \cup {NewCirc(c, "IP", ih, req)})
  /\ cont' = Upd(cont, n, cont[n] \cup {[c |-> c, kind |-> "ip"]})
  /\ used' = [used EXCEPT !.cid = @ \cup {c}]
  /\ Mark("CreateIntroPoint", n, TRUE)
  /\ UNCHANGED <<swarm, conns, ips, exits, intro, rdv, links, pex, pexOn, dht, caches, groups, cbs, msgs, blob, ghost>>

(* --------------------------------------- peers-request / peers-response --------------------------------------- *)
\* one request of a lookup: [node, pk, id, c, cell]; node = NONE: the exit of circuit c is asked to look in the DHT.
\* An introduction point that happens to be the exit of the circuit may be asked with a cell; the pinned code compares key
\* OBJECTS (`target.peer.public_key != circuit.hops[-1].public_key`, no __eq__ on keys), so for introduction points learnt
\* from the network it always goes through the exit socket. Both are allowed here (no safety property depends on it).
ReqMsg(n, ih, q) ==
  LET x == TheCirc(n, q.c).x IN
  IF q.cell THEN [t |-> "PQ", c |-> q.c, id |-> q.id, ih |-> ih]
  ELSE [t |-> "PQs", to |-> q.node, src |-> <<x, q.c>>, id |-> q.id, ih |-> ih]
ReqFormOK(n, q) == IF q.node = NONE THEN q.cell ELSE (q.cell => q.node = TheCirc(n, q.c).x)

\* one swarm of do_peer_discovery up to `await swarm.lookup()`; aged = introduction points dropped as too old
Lookup(n, ih, aged, reqs, dhtmode) ==
  /\ ~Seeding(n, ih) /\ groups[n] = {}
  /\ aged \subseteq {i \in ips[n] : i.ih = ih /\ ~\E k \in conns[n] : k.ih = ih /\ k.pk = i.pk /\ k.node = i.node}
  /\ LET left == {i \in ips[n] : i.ih = ih} \ aged IN
       /\ FreshSet({q.id : q \in reqs}, Ids, used.id)
       /\ \A q1, q2 \in reqs : q1.id = q2.id => q1 = q2
       /\ \A q \in reqs : (\E r \in ReadyData(n) : r.id = q.c) /\ ReqFormOK(n, q)
       /\ IF ~Joined(n, ih)
            THEN \* do_peer_discovery walks a snapshot of self.swarms: a swarm that was left while an earlier lookup was waiting is
                 \* still looked up, with the introduction points of the discarded Swarm object; the result goes nowhere
                 TRUE
            ELSE IF dhtmode THEN ((reqs = {} /\ ReadyData(n) = {})
                                  \/ (\E q \in reqs : reqs = {q} /\ q.node = NONE /\ q.pk = 0))
            ELSE \* PEX: every known introduction point is asked (nothing is sent without a data circuit; nothing to ask: skipped)
               \/ (reqs = {} /\ (ReadyData(n) = {} \/ left = {}))
               \/ /\ {[ih |-> ih, node |-> q.node, pk |-> q.pk] : q \in reqs} = left
                  /\ Cardinality(reqs) = Cardinality(left)
       /\ ips' = Upd(ips, n, ips[n] \ aged)
       /\ caches' = Upd(caches, n, caches[n] \cup {Cache("peers", q.id, q.c, ih, q.node, q.pk, 0, 0, NoKey) : q \in reqs})
       /\ Send({ReqMsg(n, ih, q) : q \in reqs})
       /\ groups' = Upd(groups, n, IF reqs = {} THEN {}
                                   ELSE {[ih |-> ih, wait |-> {q.id : q \in reqs}, res |-> {}, dhtmode |-> dhtmode, orphan |-> ~Joined(n, ih)]})
       /\ used' = [used EXCEPT !.id = @ \cup {q.id : q \in reqs}]
  /\ Mark("Lookup", n, TRUE)
  /\ UNCHANGED <<swarm, conns, circ, cont, exits, intro, rdv, links, pex, pexOn, dht, cbs, blob, ghost>>

\* an exit node (or the introduction point at the end of the circuit) answers a request that came as a cell
PeersOf(x, ih) == IF ih \in pexOn[x] THEN {[node |-> x, pk |-> p.pk] : p \in {p \in pex[x] : p.ih = ih}}
                  ELSE {[node |-> d.node, pk |-> d.pk] : d \in {d \in dht : d.ih = ih}}
\* send_peers_response: "random.sample(intro_points, min(len(intro_points), 7))"
Sample(ps, all) == ps \subseteq all /\ Cardinality(ps) = (IF Cardinality(all) > 7 THEN 7 ELSE Cardinality(all))
OnPeersRequestCell(x, m, ps) ==
  /\ m \in msgs /\ m.t = "PQ" /\ HasExit(x, m.c)
  /\ Sample(ps, PeersOf(x, m.ih))
  /\ Send({[t |-> "PR", c |-> m.c, id |-> m.id, ih |-> m.ih, peers |-> ps]})
  /\ Mark("OnPeersRequestCell", x, TRUE)
  /\ UNCHANGED <<nodeState, used, blob, ghost>>

\* an introduction point is asked over the socket (through somebody's exit): only the PEX community can answer
OnPeersRequestSock(i, m, ps) ==
  /\ m \in msgs /\ m.t = "PQs" /\ m.to = i
  /\ IF m.ih \in pexOn[i]
       THEN Sample(ps, PeersOf(i, m.ih)) /\ Send({[t |-> "PR", c |-> m.src[2], id |-> m.id, ih |-> m.ih, peers |-> ps]})
       ELSE ps = {} /\ Send({})
  /\ Mark("OnPeersRequestSock", i, m.ih \in pexOn[i])
  /\ UNCHANGED <<nodeState, used, blob, ghost>>

\* create_e2e for every introduction point of the swarm that has no connection yet: new = set of [node, pk, id, e1, c]
E2EFor(n, ih, known, new) ==
  LET todo == {i \in known : ~\E k \in conns[n] : k.ih = ih /\ k.pk = i.pk} IN
  /\ FreshSet({q.id : q \in new}, Ids, used.id) /\ FreshSet({q.e1 : q \in new}, Ephs, used.eph)
  /\ \A q1, q2 \in new : (q1.id = q2.id \/ q1.e1 = q2.e1) => q1 = q2
  /\ \A q \in new : \E r \in ReadyData(n) : r.id = q.c
  /\ IF ReadyData(n) = {} THEN new = {}
     ELSE {[ih |-> ih, node |-> q.node, pk |-> q.pk] : q \in new} = todo /\ Cardinality(new) = Cardinality(todo)
E2EMsg(n, ih, q) == [t |-> "CE", to |-> q.node, src |-> <<TheCirc(n, q.c).x, q.c>>, id |-> q.id, ih |-> ih, pk |-> q.pk, e1 |-> q.e1]

\* the lookup of group g is complete with result res: do_peer_discovery continues
Finish(n, g, res, new, cachesNow) ==
  IF g.orphan \/ ~Joined(n, g.ih)
    THEN /\ new = {} /\ caches' = Upd(caches, n, cachesNow) /\ UNCHANGED <<ips, msgs, used>>
    ELSE LET known == {i \in ips[n] : i.ih = g.ih} \cup {[ih |-> g.ih, node |-> p.node, pk |-> p.pk] : p \in res} IN
         /\ E2EFor(n, g.ih, known, new)
         /\ ips' = Upd(ips, n, ips[n] \cup known)
         /\ caches' = Upd(caches, n, cachesNow \cup {Cache("e2e", q.id, 0, g.ih, q.node, q.pk, q.e1, 0, NoKey) : q \in new})
         /\ Send({E2EMsg(n, g.ih, q) : q \in new})
         /\ used' = [used EXCEPT !.id = @ \cup {q.id : q \in new}, !.eph = @ \cup {q.e1 : q \in new}]

OnPeersResponse(d, m, new) ==
  /\ m \in msgs /\ m.t = "PR"
  /\ LET hit == CacheOf(d, "peers", m.id) # {} IN
     /\ Mark("OnPeersResponse", d, hit)
     /\ IF ~hit THEN new = {} /\ UNCHANGED <<caches, groups, ips, msgs, used>>
        ELSE LET q == CHOOSE q \in caches[d] : q.k = "peers" /\ q.id = m.id
                 left == caches[d] \ {q}
                 gs == {g \in groups[d] : m.id \in g.wait} IN
             IF gs = {} THEN new = {} /\ caches' = Upd(caches, d, left) /\ UNCHANGED <<groups, ips, msgs, used>>
             ELSE LET g == CHOOSE g \in gs : TRUE
                      res == g.res \cup m.peers IN
                  IF g.wait = {m.id}
                    THEN groups' = Upd(groups, d, groups[d] \ {g}) /\ Finish(d, g, res, new, left)
                    ELSE /\ new = {} /\ caches' = Upd(caches, d, left)
                         /\ groups' = Upd(groups, d, (groups[d] \ {g}) \cup {[g EXCEPT !.wait = @ \ {m.id}, !.res = res]})
                         /\ UNCHANGED <<ips, msgs, used>>
  /\ UNCHANGED <<swarm, conns, circ, cont, exits, intro, rdv, links, pex, pexOn, dht, cbs, blob, ghost>>

\* PeersRequestCache.on_timeout: "We remove the introduction point if we don't get a response"
PeersTimeout(n, id, new) ==
  /\ CacheOf(n, "peers", id) # {}
  /\ LET q == CHOOSE q \in caches[n] : q.k = "peers" /\ q.id = id
         left == caches[n] \ {q}
         gone == IF q.node # NONE /\ Joined(n, q.ih) THEN {[ih |-> q.ih, node |-> q.node, pk |-> q.pk]} ELSE {}
         gs == {g \in groups[n] : id \in g.wait} IN
     IF gs = {} THEN new = {} /\ caches' = Upd(caches, n, left) /\ ips' = Upd(ips, n, ips[n] \ gone) /\ UNCHANGED <<groups, msgs, used>>
     ELSE LET g == CHOOSE g \in gs : TRUE IN
          IF g.dhtmode \/ g.wait # {id}
            THEN /\ new = {} /\ caches' = Upd(caches, n, left) /\ ips' = Upd(ips, n, ips[n] \ gone)
                 /\ groups' = Upd(groups, n, (groups[n] \ {g}) \cup (IF g.dhtmode THEN {} ELSE {[g EXCEPT !.wait = @ \ {id}]}))
                 /\ UNCHANGED <<msgs, used>>
            ELSE \* the last answer of a PEX lookup is the time-out: the lookup completes with what arrived
                 /\ groups' = Upd(groups, n, groups[n] \ {g})
                 /\ IF g.orphan \/ ~Joined(n, g.ih)
                      THEN new = {} /\ caches' = Upd(caches, n, left) /\ ips' = Upd(ips, n, ips[n] \ gone) /\ UNCHANGED <<msgs, used>>
                      ELSE LET known == ({i \in ips[n] : i.ih = g.ih} \ gone) \cup {[ih |-> g.ih, node |-> p.node, pk |-> p.pk] : p \in g.res} IN
                           /\ E2EFor(n, g.ih, known, new)
                           /\ ips' = Upd(ips, n, (ips[n] \ gone) \cup known)
                           /\ caches' = Upd(caches, n, left \cup {Cache("e2e", z.id, 0, g.ih, z.node, z.pk, z.e1, 0, NoKey) : z \in new})
                           /\ Send({E2EMsg(n, g.ih, z) : z \in new})
                           /\ used' = [used EXCEPT !.id = @ \cup {z.id : z \in new}, !.eph = @ \cup {z.e1 : z \in new}]
  /\ Mark("PeersTimeout", n, TRUE)
  /\ UNCHANGED <<swarm, conns, circ, cont, exits, intro, rdv, links, pex, pexOn, dht, cbs, blob, ghost>>

(* ------------------------------------------- introduction points -------------------------------------------- *)
OnEstablishIntro(x, m) ==
  /\ m \in msgs /\ m.t = "EI" /\ HasExit(x, m.c)
  /\ LET hit == ~\E i \in intro[x] : i.pk = m.pk IN
     /\ Mark("OnEstablishIntro", x, hit)
     /\ IF hit
          THEN /\ intro' = Upd(intro, x, intro[x] \cup {[pk |-> m.pk, c |-> m.c, ih |-> m.ih]})
               /\ IF x \in Service
                    THEN /\ pexOn' = Upd(pexOn, x, pexOn[x] \cup {m.ih})
                         /\ pex' = Upd(pex, x, pex[x] \cup {[ih |-> m.ih, pk |-> m.pk]})
                    ELSE UNCHANGED <<pex, pexOn>>
               /\ dht' = dht \cup {[ih |-> m.ih, node |-> x, pk |-> m.pk]}
               /\ Send({[t |-> "IE", c |-> m.c, id |-> m.id]})
          ELSE UNCHANGED <<intro, pex, pexOn, dht, msgs>>
  /\ UNCHANGED <<swarm, conns, ips, circ, cont, exits, rdv, links, caches, groups, cbs, used, blob, ghost>>

\* pops the cache with that identifier (CheckIdent = FALSE: whatever establish-intro cache there is)
PopCache(n, k, id) ==
  IF CheckIdent THEN caches[n] \ CacheOf(n, k, id)
  ELSE IF \E q \in caches[n] : q.k = k THEN caches[n] \ {CHOOSE q \in caches[n] : q.k = k} ELSE caches[n]

OnIntroEstablished(o, m) ==
  /\ m \in msgs /\ m.t = "IE"
  /\ Mark("OnIntroEstablished", o, CacheOf(o, "ip", m.id) # {})
  /\ caches' = Upd(caches, o, PopCache(o, "ip", m.id))
  /\ UNCHANGED <<swarm, conns, ips, circ, cont, exits, intro, rdv, links, pex, pexOn, dht, groups, cbs, msgs, used, blob, ghost>>

\* IPRequestCache.on_timeout: "We remove the circuit if we can't establish an introduction point"
IPTimeout(n, id) ==
  /\ CacheOf(n, "ip", id) # {}
  /\ LET q == CHOOSE q \in caches[n] : q.k = "ip" /\ q.id = id IN
       /\ caches' = Upd(caches, n, caches[n] \ {q})
       /\ circ' = Upd(circ, n, ClosedCirc(n, {q.c}))
       /\ conns' = Upd(conns, n, ConnsAfterClose(n, {q.c}))
       /\ cont' = Upd(cont, n, ContAfterClose(n, {q.c}))
  /\ Mark("IPTimeout", n, TRUE)
  /\ UNCHANGED <<swarm, ips, exits, intro, rdv, links, pex, pexOn, dht, groups, cbs, msgs, used, blob, ghost>>

(* --------------------------------------------- rendezvous points --------------------------------------------- *)
OnEstablishRendezvous(x, m) ==
  /\ m \in msgs /\ m.t = "ER" /\ HasExit(x, m.c)
  /\ rdv' = Upd(rdv, x, {r \in rdv[x] : r.ck # m.ck} \cup {[ck |-> m.ck, c |-> m.c]})
  /\ ghost' = [ghost EXCEPT !.est = @ \cup {[n |-> x, ck |-> m.ck, c |-> m.c]}]
  /\ Send({[t |-> "RE", c |-> m.c, id |-> m.id, addr |-> x]})
  /\ Mark("OnEstablishRendezvous", x, TRUE)
  /\ UNCHANGED <<swarm, conns, ips, circ, cont, exits, intro, links, pex, pexOn, dht, caches, groups, cbs, used, blob>>

\* on_rendezvous_established + the continuation of on_create_e2e (create_created_e2e): e2 / tag are the seeder's fresh
\* ephemeral and the name of the opaque part of the answer (0 when no answer goes out)
OnRendezvousEstablished(o, m, e2, tag) ==
  /\ m \in msgs /\ m.t = "RE"
  /\ LET hit == CacheOf(o, "rp", m.id) # {} IN
     /\ Mark("OnRendezvousEstablished", o, hit)
     /\ caches' = Upd(caches, o, PopCache(o, "rp", m.id))
     /\ LET popped == caches[o] \ caches'[o] IN
        IF popped = {} THEN e2 = 0 /\ tag = 0 /\ UNCHANGED <<cont, circ, msgs, used, blob, ghost>>
        ELSE LET q == CHOOSE q \in popped : TRUE
                 ks == {k \in cont[o] : k.kind = "rpw" /\ k.c = q.c} IN
             /\ cont' = Upd(cont, o, cont[o] \ ks)
             /\ IF ks = {} \/ ~Joined(o, (CHOOSE k \in ks : TRUE).req.ih)
                  THEN e2 = 0 /\ tag = 0 /\ UNCHANGED <<circ, msgs, used, blob, ghost>>      \* (KeyError: the swarm was left)
                  ELSE LET k == CHOOSE k \in ks : TRUE
                           sw == TheSwarm(o, k.req.ih)
                           key == [e1 |-> k.req.e1, e2 |-> e2, st |-> sw.key] IN
                       /\ Fresh(e2, Ephs, used.eph) /\ Fresh(tag, Tags, used.tag)
                       /\ circ' = Upd(circ, o, {IF r.id = q.c THEN [r EXCEPT !.hs = key] ELSE r : r \in circ[o]})
                       /\ ghost' = [ghost EXCEPT !.answered = @ \cup {[n |-> o, ih |-> k.req.ih, key |-> key, rc |-> q.c, ok |-> sw.seeding]}]
                       /\ IF HasCirc(o, k.req.c)
                            THEN /\ Send({[t |-> "CD", c |-> k.req.src[2], id |-> k.req.id, e2 |-> e2, tag |-> tag]})
                                 /\ blob' = blob \cup {[tag |-> tag, ok |-> TRUE, e1 |-> k.req.e1, e2 |-> e2, st |-> sw.key, ck |-> q.ck, rp |-> m.addr]}
                                 /\ used' = [used EXCEPT !.eph = @ \cup {e2}, !.tag = @ \cup {tag}]
                            ELSE \* (KeyError: the introduction circuit is gone; the key is set, nothing is sent)
                                 /\ used' = [used EXCEPT !.eph = @ \cup {e2}, !.tag = @ \cup {tag}]
                                 /\ UNCHANGED <<msgs, blob>>
  /\ UNCHANGED <<swarm, conns, ips, exits, intro, rdv, links, pex, pexOn, dht, groups, cbs>>

\* RPRequestCache.on_timeout: rp.ready <- None (on_create_e2e gives up), the circuit is removed
RPTimeout(n, id) ==
  /\ CacheOf(n, "rp", id) # {}
  /\ LET q == CHOOSE q \in caches[n] : q.k = "rp" /\ q.id = id IN
       /\ caches' = Upd(caches, n, caches[n] \ {q})
       /\ circ' = Upd(circ, n, ClosedCirc(n, {q.c}))
       /\ conns' = Upd(conns, n, ConnsAfterClose(n, {q.c}))
       /\ cont' = Upd(cont, n, {k \in cont[n] : k.c # q.c})
  /\ Mark("RPTimeout", n, TRUE)
  /\ UNCHANGED <<swarm, ips, exits, intro, rdv, links, pex, pexOn, dht, groups, cbs, msgs, used, blob, ghost>>

(* ------------------------------------------------ the e2e handshake ------------------------------------------- *)
\* create-e2e arrives over the socket at an introduction point: forwarded into the seeder's introduction circuit
OnCreateE2ESock(i, m) ==
  /\ m \in msgs /\ m.t = "CE" /\ m.to = i
  /\ LET hit == \E e \in intro[i] : e.pk = m.pk IN
     /\ Mark("OnCreateE2ESock", i, hit)
     /\ IF hit THEN LET e == CHOOSE e \in intro[i] : e.pk = m.pk IN
                    Send({[t |-> "CEf", c |-> e.c, src |-> m.src, id |-> m.id, ih |-> m.ih, pk |-> m.pk, e1 |-> m.e1]})
        ELSE Send({})
  /\ UNCHANGED <<nodeState, used, blob, ghost>>

\* create-e2e arrives through a circuit of the seeder: create_rendezvous_point up to its first await (c = 0: no circuit)
OnCreateE2ECirc(o, m, c, req) ==
  /\ m \in msgs /\ m.t = "CEf" /\ HasCirc(o, m.c)
  /\ LET hit == Seeding(o, m.ih) IN
     /\ Mark("OnCreateE2ECirc", o, hit)
     /\ IF (hit \/ (~CheckSeeding /\ Joined(o, m.ih))) /\ c # 0
          THEN /\ Fresh(c, Cids, used.cid) /\ req \in (Nodes \ {o}) \cup {NONE}
               /\ circ' = Upd(circ, o, circ[o] \cup {NewCirc(c, "RPS", m.ih, req)})
               /\ cont' = Upd(cont, o, cont[o] \cup {[c |-> c, kind |-> "rps", req |-> m]})
               /\ used' = [used EXCEPT !.cid = @ \cup {c}]
          ELSE c = 0 /\ req = NONE /\ UNCHANGED <<circ, cont, used>>
  /\ UNCHANGED <<swarm, conns, ips, exits, intro, rdv, links, pex, pexOn, dht, caches, groups, cbs, msgs, blob, ghost>>

\* created-e2e at the downloader: the request is consumed, the answer is verified, the rendezvous circuit is created
OnCreatedE2E(d, m, c) ==
  /\ m \in msgs /\ m.t = "CD"
  /\ LET hit == CacheOf(d, "e2e", m.id) # {} IN
     /\ Mark("OnCreatedE2E", d, hit)
     /\ caches' = Upd(caches, d, PopCache(d, "e2e", m.id))
     /\ LET popped == caches[d] \ caches'[d] IN
        IF popped = {} THEN c = 0 /\ UNCHANGED <<circ, cont, conns, used>>
        ELSE LET q == CHOOSE q \in popped : TRUE
                 bs == {b \in blob : b.tag = m.tag} IN
             IF bs = {} THEN c = 0 /\ UNCHANGED <<circ, cont, conns, used>>
             ELSE LET b == CHOOSE b \in bs : TRUE
                      valid == b.ok /\ b.e1 = q.e1 /\ b.e2 = m.e2 /\ (CheckSecret => b.st = q.pk) IN
                  IF valid /\ Joined(d, q.ih) /\ c # 0
                    THEN /\ Fresh(c, Cids, used.cid)
                         /\ circ' = Upd(circ, d, circ[d] \cup {NewCirc(c, "RPD", q.ih, b.rp)})
                         /\ conns' = Upd(conns, d, conns[d] \cup {[c |-> c, ih |-> q.ih, pk |-> q.pk, node |-> q.node]})
                         /\ cont' = Upd(cont, d, cont[d] \cup {[c |-> c, kind |-> "rpd", ih |-> q.ih,
                                                                key |-> [e1 |-> q.e1, e2 |-> m.e2, st |-> b.st], ck |-> b.ck]})
                         /\ used' = [used EXCEPT !.cid = @ \cup {c}]
                    ELSE c = 0 /\ UNCHANGED <<circ, cont, conns, used>>
  /\ UNCHANGED <<swarm, ips, exits, intro, rdv, links, pex, pexOn, dht, groups, cbs, msgs, blob, ghost>>

\* the coroutine waiting for its circuit continues (create_introduction_point / create_rendezvous_point / on_created_e2e)
CircuitReady(o, c, x, id, ck) ==
  /\ HasCirc(o, c) /\ x \in Nodes \ {o} /\ HasExit(x, c)
  /\ LET r == TheCirc(o, c)
         ks == {k \in cont[o] : k.c = c /\ k.kind \in {"ip", "rps", "rpd"}} IN
     /\ r.st = "new" /\ r.req \in {NONE, x}
     /\ circ' = Upd(circ, o, (circ[o] \ {r}) \cup {[r EXCEPT !.st = "ready", !.x = x]})
     /\ IF ks = {} THEN id = 0 /\ ck = 0 /\ UNCHANGED <<cont, caches, msgs, used>>
        ELSE LET k == CHOOSE k \in ks : TRUE IN
             /\ Fresh(id, Ids, used.id)
             /\ CASE k.kind = "ip" ->
                       /\ ck = 0
                       /\ cont' = Upd(cont, o, cont[o] \ {k})
                       /\ caches' = Upd(caches, o, caches[o] \cup {Cache("ip", id, c, 0, NONE, 0, 0, 0, NoKey)})
                       /\ Send({[t |-> "EI", c |-> c, id |-> id, ih |-> r.ih, pk |-> TheSwarm(o, r.ih).key]})
                       /\ used' = [used EXCEPT !.id = @ \cup {id}]
                  [] k.kind = "rps" ->
                       /\ Fresh(ck, Cks, used.ck)
                       /\ cont' = Upd(cont, o, (cont[o] \ {k}) \cup {[c |-> c, kind |-> "rpw", req |-> k.req, ck |-> ck]})
                       /\ caches' = Upd(caches, o, caches[o] \cup {Cache("rp", id, c, 0, NONE, 0, 0, ck, NoKey)})
                       /\ Send({[t |-> "ER", c |-> c, id |-> id, ck |-> ck]})
                       /\ used' = [used EXCEPT !.id = @ \cup {id}, !.ck = @ \cup {ck}]
                  [] k.kind = "rpd" ->
                       /\ ck = k.ck
                       /\ cont' = Upd(cont, o, cont[o] \ {k})
                       /\ caches' = Upd(caches, o, caches[o] \cup {Cache("link", id, c, k.ih, NONE, 0, 0, 0, k.key)})
                       /\ Send({[t |-> "LK", c |-> c, id |-> id, ck |-> k.ck]})
                       /\ used' = [used EXCEPT !.id = @ \cup {id}]
  /\ Mark("CircuitReady", o, TRUE)
  /\ UNCHANGED <<swarm, conns, ips, exits, intro, rdv, links, pex, pexOn, dht, groups, cbs, blob, ghost>>

\* link-e2e at a rendezvous point
OnLinkE2E(r, m) ==
  /\ m \in msgs /\ m.t = "LK" /\ HasExit(r, m.c)
  /\ LET a == TheExit(r, m.c)
         real == {e \in rdv[r] : e.ck = m.ck}
         cand == IF CheckCookie THEN real ELSE rdv[r]
         hit == real # {} /\ ~a.en /\ \E e \in real : HasExit(r, e.c) /\ ~TheExit(r, e.c).en
         go == cand # {} /\ (CheckEnabled => ~a.en) /\ \E e \in cand : HasExit(r, e.c) /\ (CheckEnabled => ~TheExit(r, e.c).en) IN
     /\ Mark("OnLinkE2E", r, hit)
     /\ IF go
          THEN LET e == CHOOSE e \in cand : HasExit(r, e.c) /\ (CheckEnabled => ~TheExit(r, e.c).en)
                   b == e.c IN
               /\ exits' = Upd(exits, r, {IF z.id \in {m.c, b} THEN [z EXCEPT !.cl = TRUE] ELSE z : z \in exits[r]})
               /\ IF CleanOnClose THEN Forget(r, {m.c, b}) ELSE NoForget
               /\ links' = Upd(links, r, {l \in links[r] : l[1] \notin {m.c, b}} \cup {<<m.c, b>>, <<b, m.c>>})
               /\ ghost' = [ghost EXCEPT !.pres = @ \cup {[n |-> r, ck |-> m.ck, c |-> m.c]},
                                         !.linked = @ \cup {[n |-> r, a |-> m.c, b |-> b, ck |-> m.ck, en |-> a.en \/ TheExit(r, b).en]}]
               /\ Send({[t |-> "LD", c |-> m.c, id |-> m.id]})
          ELSE UNCHANGED <<exits, intro, rdv, pex, pexOn, links, ghost, msgs>>
  /\ UNCHANGED <<swarm, conns, ips, circ, cont, dht, caches, groups, cbs, used, blob>>

\* linked-e2e at the downloader: the circuit becomes an e2e circuit, the application is called
OnLinkedE2E(d, m) ==
  /\ m \in msgs /\ m.t = "LD"
  /\ LET hit == CacheOf(d, "link", m.id) # {} IN
     /\ Mark("OnLinkedE2E", d, hit)
     /\ caches' = Upd(caches, d, PopCache(d, "link", m.id))
     /\ LET popped == caches[d] \ caches'[d] IN
        IF popped = {} THEN UNCHANGED <<circ, cbs>>
        ELSE LET q == CHOOSE q \in popped : TRUE IN
             /\ circ' = Upd(circ, d, {IF z.id = q.c THEN [z EXCEPT !.e2e = TRUE, !.hs = q.key] ELSE z : z \in circ[d]})
             /\ cbs' = IF Joined(d, q.ih) THEN Upd(cbs, d, Append(cbs[d], [ih |-> q.ih, c |-> q.c])) ELSE cbs
  /\ UNCHANGED <<swarm, conns, ips, cont, exits, intro, rdv, links, pex, pexOn, dht, groups, msgs, used, blob, ghost>>

\* A request that belongs at the far end of a circuit arrives at the node that owns the circuit (e.g. a link-e2e sent into an
\* e2e circuit comes out at the other party): the handlers find no exit socket / no cookie; nothing happens.
\* (m need not be in msgs: across a rendezvous point the circuit number differs at the two ends.)
WrongEnd(n, m) ==
  /\ m.t \in {"EI", "ER", "LK", "PQ"} /\ HasCirc(n, m.c) /\ ~HasExit(n, m.c)
  /\ m.t = "PQ" => m.ih \notin pexOn[n]
  /\ Mark("WrongEnd", n, FALSE)
  /\ UNCHANGED <<nodeState, msgs, used, blob, ghost>>

\* E2ERequestCache / LinkRequestCache.on_timeout: "We don't need to do anything on timeout"
QuietTimeout(n, k, id) ==
  /\ k \in {"e2e", "link"} /\ CacheOf(n, k, id) # {}
  /\ caches' = Upd(caches, n, caches[n] \ CacheOf(n, k, id))
  /\ Mark("QuietTimeout", n, TRUE)
  /\ UNCHANGED <<swarm, conns, ips, circ, cont, exits, intro, rdv, links, pex, pexOn, dht, groups, cbs, msgs, used, blob, ghost>>

(* ------------------------------------ the circuit layer, as far as it is visible ------------------------------ *)
DataCircuit(n, c, req) ==
  /\ Fresh(c, Cids, used.cid) /\ req \in (Nodes \ {n}) \cup {NONE}
  /\ circ' = Upd(circ, n, circ[n] \cup {NewCirc(c, "DATA", 0, req)})
  /\ used' = [used EXCEPT !.cid = @ \cup {c}]
  /\ Mark("DataCircuit", n, TRUE)
  /\ UNCHANGED <<swarm, conns, ips, cont, exits, intro, rdv, links, pex, pexOn, dht, caches, groups, cbs, msgs, blob, ghost>>

\* a node joins circuit c (a create reached it): it holds an exit socket for it
ExitNew(x, c) ==
  /\ c \in used.cid /\ ~HasExit(x, c) /\ ~HasCirc(x, c)
  /\ exits' = Upd(exits, x, exits[x] \cup {[id |-> c, en |-> FALSE, cl |-> FALSE]})
  /\ Mark("ExitNew", x, TRUE)
  /\ UNCHANGED <<swarm, conns, ips, circ, cont, intro, rdv, links, pex, pexOn, dht, caches, groups, cbs, msgs, used, blob, ghost>>

\* the circuit is extended through x: the exit socket becomes a relay (remove_exit_socket is called, cells are relayed from now on)
ExitConvert(x, c) ==
  /\ HasExit(x, c)
  /\ exits' = Upd(exits, x, exits[x] \ ExitOf(x, c))
  /\ IF CleanOnClose THEN Forget(x, {c}) ELSE NoForget
  /\ Mark("ExitConvert", x, TRUE)
  /\ UNCHANGED <<swarm, conns, ips, circ, cont, links, dht, caches, groups, cbs, msgs, used, blob, ghost>>

\* first data leaves through the exit socket (exit_data enables it)
ExitEnable(x, c) ==
  /\ HasExit(x, c) /\ ~TheExit(x, c).en
  /\ exits' = Upd(exits, x, (exits[x] \ ExitOf(x, c)) \cup {[TheExit(x, c) EXCEPT !.en = TRUE]})
  /\ Mark("ExitEnable", x, TRUE)
  /\ UNCHANGED <<swarm, conns, ips, circ, cont, intro, rdv, links, pex, pexOn, dht, caches, groups, cbs, msgs, used, blob, ghost>>

\* remove_circuit (destroy received, inactivity, age, retries exhausted, API): HiddenTunnelCommunity updates the swarm
CircClose(o, c) ==
  /\ HasCirc(o, c)
  /\ circ' = Upd(circ, o, ClosedCirc(o, {c}))
  /\ conns' = Upd(conns, o, ConnsAfterClose(o, {c}))
  /\ cont' = Upd(cont, o, ContAfterClose(o, {c}))
  /\ Mark("CircClose", o, TRUE)
  /\ UNCHANGED <<swarm, ips, exits, intro, rdv, links, pex, pexOn, dht, caches, groups, cbs, msgs, used, blob, ghost>>

CircPop(o, c) ==
  /\ HasCirc(o, c) /\ TheCirc(o, c).st = "closing"
  /\ circ' = Upd(circ, o, circ[o] \ CircOf(o, c))
  /\ Mark("CircPop", o, TRUE)
  /\ UNCHANGED <<swarm, conns, ips, cont, exits, intro, rdv, links, pex, pexOn, dht, caches, groups, cbs, msgs, used, blob, ghost>>

\* remove_exit_socket starts (destroy received, inactivity, age): the hidden-services tables forget the circuit NOW,
\* the exit socket itself lingers for remove_tunnel_delay
ExitClose(x, c) ==
  /\ HasExit(x, c)
  /\ exits' = Upd(exits, x, (exits[x] \ ExitOf(x, c)) \cup {[TheExit(x, c) EXCEPT !.cl = TRUE]})
  /\ IF CleanOnClose THEN Forget(x, {c}) ELSE NoForget
  /\ Mark("ExitClose", x, TRUE)
  /\ UNCHANGED <<swarm, conns, ips, circ, cont, links, dht, caches, groups, cbs, msgs, used, blob, ghost>>

\* ... and is gone (CleanOnPop: whatever was registered on the dying socket in the meantime goes with it)
ExitPop(x, c) ==
  /\ HasExit(x, c) /\ TheExit(x, c).cl
  /\ exits' = Upd(exits, x, exits[x] \ ExitOf(x, c))
  /\ IF CleanOnPop THEN Forget(x, {c}) ELSE NoForget
  /\ Mark("ExitPop", x, TRUE)
  /\ UNCHANGED <<swarm, conns, ips, circ, cont, links, dht, caches, groups, cbs, msgs, used, blob, ghost>>

RelayGone(r, a) ==
  /\ \E l \in links[r] : l[1] = a
  /\ links' = Upd(links, r, {l \in links[r] : l[1] # a})
  /\ Mark("RelayGone", r, TRUE)
  /\ UNCHANGED <<swarm, conns, ips, circ, cont, exits, intro, rdv, pex, pexOn, dht, caches, groups, cbs, msgs, used, blob, ghost>>

(* --------------------------------------------------- adversary ------------------------------------------------ *)
\* somebody on the path fabricates a message. It cannot make the opaque part of a created-e2e verify under a swarm
\* key it does not hold: a forged tag is either a copy of an existing one or junk (declared in `b`, b.tag = 0: none).
Forge(m, b) ==
  /\ m \notin msgs
  /\ msgs' = msgs \cup {m}
  /\ IF m.t = "CD" /\ ~\E z \in blob : z.tag = m.tag
       THEN /\ b.tag = m.tag /\ b.tag \in Tags /\ b.tag \notin used.tag /\ ~b.ok
            /\ blob' = blob \cup {b} /\ used' = [used EXCEPT !.tag = @ \cup {b.tag}]
       ELSE b.tag = 0 /\ UNCHANGED <<blob, used>>
  /\ ghost' = [ghost EXCEPT !.forged = @ \cup {m}]
  /\ Mark("Forge", NONE, TRUE)
  /\ UNCHANGED nodeState

\* variants of messages seen on the path: another identifier / cookie / circuit, a junk or transplanted tag
Variants(m) ==
  (IF "id" \in DOMAIN m THEN {[m EXCEPT !.id = i] : i \in Ids} ELSE {})
  \cup (IF "ck" \in DOMAIN m THEN {[m EXCEPT !.ck = k] : k \in Cks} ELSE {})
  \cup (IF "c" \in DOMAIN m THEN {[m EXCEPT !.c = c] : c \in used.cid} ELSE {})
  \cup (IF m.t = "CD" THEN {[m EXCEPT !.tag = t] : t \in Tags} ELSE {})
Junk(t) == [tag |-> t, ok |-> FALSE, e1 |-> 0, e2 |-> 0, st |-> 0, ck |-> 0, rp |-> NONE]

(* ----------------------------------------------------- Next ---------------------------------------------------- *)
MinSet(S) == IF S = {} THEN {} ELSE {Min(S)}
\* (model checking: at most one request / one new e2e request per step; the trace specification takes what was observed)
ReqSets(n, ih, dhtmode) ==
  {{}} \cup {{[node |-> IF dhtmode THEN NONE ELSE i.node, pk |-> IF dhtmode THEN 0 ELSE i.pk, id |-> id, c |-> r.id,
                cell |-> dhtmode \/ i.node = r.x]} :
             i \in (IF dhtmode THEN {[node |-> NONE, pk |-> 0]} ELSE {i \in ips[n] : i.ih = ih}),
             id \in MinSet(Ids \ used.id), r \in ReadyData(n)}
NewCands(n) ==
  {{}} \cup {{[node |-> x, pk |-> k, id |-> i, e1 |-> e, c |-> r.id]} :
             x \in Nodes, k \in used.key, i \in MinSet(Ids \ used.id), e \in MinSet(Ephs \ used.eph), r \in ReadyData(n)}

\* The exploration: clients (Seeders, Downloaders) call the API and own circuits, Infra nodes join them; one exit socket
\* per circuit (the hops before it are not visible at this level), one data circuit per downloader, one introduction
\* circuit per seeder and swarm at a time; API calls, disturbances (time-outs, removals, exit traffic) and forgeries
\* are budgeted.
SpendForge == budget' = [budget EXCEPT !.forge = @ - 1]
Regular ==
  \/ \E n \in Seeders, ih \in Swarms, c \in Cids, x \in Infra :
        /\ ~\E r \in circ[n] : r.ct = "IP" /\ r.ih = ih /\ r.st # "closing"
        /\ CreateIntroPoint(n, ih, c, x)
  \/ \E n \in Downloaders, ih \in Swarms : \E dm \in BOOLEAN : \E reqs \in ReqSets(n, ih, dm) : Joined(n, ih) /\ Lookup(n, ih, {}, reqs, dm)
  \/ \E n \in Nodes, m \in msgs :
        \/ (m.t = "PQ" /\ OnPeersRequestCell(n, m, PeersOf(n, m.ih)))
        \/ (m.t = "PQs" /\ OnPeersRequestSock(n, m, IF m.ih \in pexOn[n] THEN PeersOf(n, m.ih) ELSE {}))
        \/ \E new \in NewCands(n) : OnPeersResponse(n, m, new)
        \/ OnEstablishIntro(n, m) \/ OnIntroEstablished(n, m) \/ OnEstablishRendezvous(n, m)
        \/ \E e \in Ephs \cup {0}, t \in Tags \cup {0} : OnRendezvousEstablished(n, m, e, t)
        \/ OnCreateE2ESock(n, m)
        \/ \E c \in Cids, x \in Infra : OnCreateE2ECirc(n, m, c, x)
        \/ OnCreateE2ECirc(n, m, 0, NONE)
        \/ \E c \in Cids \cup {0} : OnCreatedE2E(n, m, c)
        \/ OnLinkE2E(n, m) \/ OnLinkedE2E(n, m)
  \/ \E n \in Nodes, c \in Cids :
        \/ \E x \in Infra, id \in Ids \cup {0}, ck \in Cks \cup {0} : CircuitReady(n, c, x, id, ck)
        \/ \E x \in Infra : n \in Downloaders /\ swarm[n] # {} /\ ~(\E r \in circ[n] : r.ct = "DATA") /\ DataCircuit(n, c, x)
        \/ n \in Infra /\ (\E o \in Nodes : \E r \in circ[o] : r.id = c /\ r.st = "new" /\ r.req \in {NONE, n})
                      /\ (~\E y \in Nodes : HasExit(y, c)) /\ ExitNew(n, c)
        \/ ExitPop(n, c) \/ CircPop(n, c)
Disturb ==
  \/ \E n \in Nodes, id \in Ids :
        \/ IPTimeout(n, id) \/ RPTimeout(n, id) \/ QuietTimeout(n, "e2e", id) \/ QuietTimeout(n, "link", id)
        \/ \E new \in NewCands(n) : PeersTimeout(n, id, new)
  \/ \E n \in Nodes, c \in Cids : ExitEnable(n, c) \/ ExitClose(n, c) \/ CircClose(n, c) \/ ExitConvert(n, c) \/ RelayGone(n, c)
Api ==
  \E n \in Seeders \cup Downloaders, ih \in Swarms :
        \/ \E s \in {z \in BOOLEAN : (z /\ n \in Seeders) \/ (~z /\ n \in Downloaders)}, k \in Keys \cup {0} : JoinSwarm(n, ih, s, k)
        \/ Joined(n, ih) /\ LeaveSwarm(n, ih)
Next ==
  \/ Regular /\ UNCHANGED budget
  \/ budget.api > 0 /\ Api /\ SpendApi
  \/ budget.fault > 0 /\ Disturb /\ SpendFault
  \/ budget.forge > 0 /\ SpendForge
       /\ \E m \in {z \in msgs : z.t \in ForgeTypes} : \E v \in Variants(m) : Forge(v, IF v.t = "CD" /\ ~\E z \in blob : z.tag = v.tag THEN Junk(v.tag) ELSE Junk(0))

Spec == Init /\ [][Next]_vars

(* -------------------------------------------------- properties ------------------------------------------------ *)
TypeOK ==
  /\ \A n \in Nodes :
       /\ \A s \in swarm[n] : s.ih \in Swarms /\ s.seeding \in BOOLEAN /\ s.key \in Keys \cup {0}
       /\ \A s1, s2 \in swarm[n] : s1.ih = s2.ih => s1 = s2
       /\ \A r \in circ[n] : r.id \in Cids /\ r.ct \in {"DATA"} \cup HsTypes /\ r.st \in {"new", "ready", "closing"}
       /\ \A r1, r2 \in circ[n] : r1.id = r2.id => r1 = r2
       /\ \A e1, e2 \in exits[n] : e1.id = e2.id => e1 = e2
       /\ \A i1, i2 \in intro[n] : i1.pk = i2.pk => i1 = i2
       /\ \A r1, r2 \in rdv[n] : r1.ck = r2.ck => r1 = r2
       /\ \A q1, q2 \in caches[n] : (q1.id = q2.id /\ q1.k = q2.k) => q1 = q2
       /\ Cardinality(groups[n]) <= 1
  /\ budget.api \in 0..ApiBudget /\ budget.fault \in 0..FaultBudget /\ budget.forge \in 0..ForgeBudget

NoDangling ==
  \A n \in Nodes :
    /\ \A i \in intro[n] : HasExit(n, i.c)
    /\ \A r \in rdv[n] : HasExit(n, r.c)
    /\ pex[n] = IF n \in Service THEN {[ih |-> i.ih, pk |-> i.pk] : i \in intro[n]} ELSE {}
    /\ pexOn[n] = {p.ih : p \in pex[n]}

LinkJustified ==
  /\ \A n \in Nodes : \A l \in links[n] :
       \E ck \in used.ck : \/ [n |-> n, ck |-> ck, c |-> l[1]] \in ghost.pres /\ [n |-> n, ck |-> ck, c |-> l[2]] \in ghost.est
                           \/ [n |-> n, ck |-> ck, c |-> l[2]] \in ghost.pres /\ [n |-> n, ck |-> ck, c |-> l[1]] \in ghost.est
  /\ \A h \in ghost.linked : ~h.en

KeyAgreement ==
  \A d \in Nodes : \A r \in circ[d] :
     (r.ct = "RPD" /\ r.e2e) =>
        /\ \A k \in conns[d] : k.c = r.id => r.hs.st = k.pk
        /\ \E a \in ghost.answered : a.key = r.hs /\ a.ih = r.ih /\ a.ok

ConnsLive ==
  \A n \in Nodes : \A k \in conns[n] :
     /\ Joined(n, k.ih)
     /\ \E r \in circ[n] : r.id = k.c /\ r.ct = "RPD" /\ r.st # "closing" /\ r.ih = k.ih

CallbackOnce ==
  \A n \in Nodes :
    /\ \A i, j \in 1..Len(cbs[n]) : cbs[n][i].c = cbs[n][j].c => i = j
    /\ \A i \in 1..Len(cbs[n]) : cbs[n][i].c \in used.cid

\* action property: a message that matches nothing is inert
UnmatchedInert == [][(~ev'.hit) => (nodeState' = nodeState /\ msgs' = msgs)]_vars

(* ---- "sometimes" formulas: expected to be VIOLATED by a configuration that is not vacuous ---- *)
NeverLinked == \A n \in Nodes : \A r \in circ[n] : ~r.e2e
NeverCallback == \A n \in Nodes : cbs[n] = <<>>
NeverPex == \A n \in Nodes : pex[n] = {}
=============================================================================
