----------------------------- MODULE WireTable -----------------------------
(* Exports the tables of Wire.tla (registered formats, message classes with their logical fields) as *)
(* JSON, so that the driver takes names, field order and component layout from the specification     *)
(* instead of keeping a copy: a class or packer that the specification does not know cannot be       *)
(* driven, and the check stops as a machinery failure.                                                *)
EXTENDS Wire
ASSUME JsonSerialize(IOEnv.WIRE_TABLE_OUT,
                     [reg |-> Reg, docsize |-> DocSize, msg |-> [c \in Classes |-> Msg(c)],
                      formats |-> [f \in ModelFmts |-> f], cellprefix |-> CellPrefix])
=============================================================================
