----------------------------- MODULE LifecycleMC -----------------------------
(* constant definitions for the model-checking configurations of Lifecycle.tla *)
EXTENDS Lifecycle
\* a: two configured overlays with one walker each, a third strategy (second walker of overlay 2) can be added
OvOfA   == (1 :> 1 @@ 2 :> 2 @@ 3 :> 2)
TargetA == (1 :> -1 @@ 2 :> 1 @@ 3 :> -1)
\* b: three configured strategies over two overlays, a fresh overlay 3 enters through add_strategy(4)
OvOfB   == (1 :> 1 @@ 2 :> 2 @@ 3 :> 2 @@ 4 :> 3)
TargetB == (1 :> 1 @@ 2 :> -1 @@ 3 :> 2 @@ 4 :> 1)
\* t: the topology of the recorded runs (LifecycleTrace): strategies 1, 3, 6 are real RandomWalk instances
OvOfT   == (1 :> 1 @@ 2 :> 1 @@ 3 :> 2 @@ 4 :> 2 @@ 5 :> 3 @@ 6 :> 2)
TargetT == (1 :> 2 @@ 2 :> -1 @@ 3 :> 1 @@ 4 :> 3 @@ 5 :> -1 @@ 6 :> -1)
Seq1234 == <<1, 2, 3, 4>>
Seq12  == <<1, 2>>
Seq123 == <<1, 2, 3>>
=============================================================================
