SPECIFICATION Spec
CONSTANTS
  Pinned = {"introduce_to"}
  Pads = {0}
  FmtSel = {}
  ClsSel = {"peerdiscovery.payload.DiscoveryIntroductionRequestPayload"}
  K = 2
INVARIANT ReEncode
