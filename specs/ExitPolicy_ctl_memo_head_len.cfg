\* negative control: the filter re-uses what it concluded about an earlier packet with the same key
SPECIFICATION Spec
CONSTANTS QCap = 2 MaxPend = 1 MaxOps = 5
          NoInboundFilter = FALSE NoNullCheck = FALSE AnyoneOpens = FALSE
          RepIds = {3, 9}
          TrackHistory = TRUE FlowCache = "none" HostIps = {"x"} HostPorts = {1}
          StaleVerdict = "none" HopFollowsPeer = FALSE VerdictMemo = "head_len"
          FlagChoices = {} SignedSrcs = {}
          SrcSet = {"prev"} DkSet = {"v4", "dom4"}
INVARIANT EmitOnlyAllowed
