SPECIFICATION Spec
CONSTANTS
  Nodes = {"S", "X"}
  Swarms = {1}
  Cids = {1, 2}
  Ids = {1, 2}
  Cks = {1}
  Keys = {1, 2}
  Ephs = {1}
  Tags = {1}
  Service = {"X"}
  Canonical = TRUE
  Seeders = {"S"} Downloaders = {} Infra = {"X"}
  CheckIdent = TRUE CheckCookie = TRUE CheckEnabled = TRUE CheckSeeding = TRUE CheckSecret = TRUE
  CleanOnClose = FALSE CleanOnPop = TRUE
  ForgeTypes = {"EI", "IE", "ER", "RE", "CE", "CEf", "CD", "LK", "LD", "PQ", "PQs", "PR"}
  ForgeBudget = 0 FaultBudget = 2 ApiBudget = 2
VIEW view
INVARIANT TypeOK
INVARIANT NoDangling
INVARIANT LinkJustified
INVARIANT KeyAgreement
INVARIANT ConnsLive
INVARIANT CallbackOnce
PROPERTY UnmatchedInert
