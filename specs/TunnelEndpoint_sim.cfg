SPECIFICATION Spec
CONSTANTS Pfx = {"A", "B"} MaxHops = 2 MaxCid = 3 QCap = 100 MaxDepth = 100000 LeakDetached = FALSE AnyState = FALSE MaxInst = 6 Lifecycle = TRUE UnloadClears = FALSE CandInit = {TRUE, FALSE} CloseWays = {"close", "closeR", "remove", "removeR", "removeNow", "removeD"} ReasonDecides = FALSE ReadyInit = FALSE Expiry = TRUE
INVARIANT TypeOK
INVARIANT NoRawForAnon
INVARIANT TunnelledOnlyOverReadyRightCircuit
INVARIANT QueueBounded
INVARIANT PlainUnaffected
INVARIANT SwitchFollowsRequests
INVARIANT StateFollowsClose
