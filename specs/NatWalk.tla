------------------------------ MODULE NatWalk ------------------------------
(* ipv8/community.py : walk_to / send_introduction_request, on_introduction_request,               *)
(* create_introduction_response (+ puncture request), on_introduction_response, on_puncture_request,*)
(* on_puncture; lazy_wrapper's address update; peerdiscovery/network.py : add_verified_peer,        *)
(* discover_address, get_walkable_addresses - on a network of cone NATs.                            *)
(*                                                                                                  *)
(* Network layer (the oracle for harness/simnet.py NatBox as well): endpoint-independent mapping,   *)
(* filtering by NAT type, LAN-direct delivery inside one NAT, no hair-pinning, private addresses    *)
(* are not routable from outside.                                                                   *)
(* Abstract layer: Reach - every peer introduced by the (public) introducer "I" to a requester      *)
(* becomes a mutually verified peer of the requester once the requester has walked to the addresses *)
(* it learned (after the puncture exchange has drained) ; same-NAT pairs meet on LAN addresses.     *)
(* Histories: a NAT mapping may be lost (Rebind: router reboot / mapping expiry) while the system   *)
(* is at rest; the host then shows up under a fresh external port.  A peer that has re-registered   *)
(* at the introducer since (its request was processed there) must be handed out - and asked to      *)
(* puncture - at the address it has NOW (HandsOutCurrent, HoldsWorking, Reach with intros.ok).      *)
(* Long uptimes: every host starts with Lamport clock Clock0; identifiers on the wire are 16 bit.   *)
(* Several overlays per host (Svcs): one key, one endpoint, one Network (verified peers, known      *)
(* addresses, services_per_peer are shared), my_estimated_wan / script / walk per overlay; "a peer  *)
(* of this overlay" = verified peer that advertised the service (Network.get_peers_for_service).    *)
(* History in ANOTHER overlay: requester and introduced peer may already hold each other there.     *)
(* Neighbours over another interface (nbrs): verified peers of a host whose preferred address is    *)
(* IPv6; the simulated IPv4 network does not carry datagrams to them.  An old-style (IPv4-only)     *)
(* response cannot name them, so they are not eligible as introduction for an old-style requester.  *)
EXTENDS Naturals, Sequences, FiniteSets, TLC

CONSTANTS K,             \* candidates B1..BK contact the introducer (exhaustive Init only)
          SendPuncture,  \* TRUE: the introducer asks the introduced peer to puncture (the code). FALSE: control
          PunctureFirst, \* TRUE: premise - a follow-up walk starts only after puncture traffic has drained
          FollowAll,     \* FALSE: only "A" follows up on introductions; TRUE: every non-introducer host does
          APlaces,       \* subset of {"pub", "nat"}
          CandPlaces,    \* subset of {"pub", "nat", "withA", "withI"}
          MaxContactsA, MaxContactsB,
          MinContacts,   \* every host contacts the introducer at least this often (exhaustive Init only)
          MaxId,         \* bound on datagram ids (exhaustive Next only; exceeding it shows up as a deadlock)
          QuietCalls,    \* TRUE: walk_to / send_introduction_request are only called while no datagram is in flight
          MaxRebinds,    \* how many NAT mappings may be lost in one behaviour (0: the static network)
          Clock0,        \* Lamport clock every host starts with (exhaustive Init only): uptime before the scenario
          Refresh,       \* TRUE: a signed message from a verified peer updates its address (the code). FALSE: control
          Ident16,       \* TRUE: introduction-request identifiers are the clock modulo 2^16 (the code). FALSE: control
          Svcs,          \* the overlays every host runs on its one Network ("M" is the one the IPv6 neighbours are in)
          Phased,        \* TRUE: overlay "M" starts only when the other overlays are done (they are its history)
          V6N,           \* IPv6 neighbours every candidate starts with (exhaustive Init only)
          StyleAware,    \* TRUE: a peer is introduced only in a response that can carry its address (the code). FALSE: control
          SvcWalkable    \* TRUE: walkable = not an address of a peer OF THIS OVERLAY (the code). FALSE: control (any verified peer)

Zero     == <<"0.0.0.0", 0>>
PortBase == 20000
Kinds    == {"fullCone", "addrRestricted", "portRestricted"}
Names    == <<"B1", "B2", "B3", "B4", "B5">>
NbrNames == <<"N1", "N2", "N3">>
NbrAddr  == [N1 |-> <<"fd00::11", 8090>>, N2 |-> <<"fd00::12", 8090>>, N3 |-> <<"fd00::13", 8090>>]
V6Ips    == {"fd00::11", "fd00::12", "fd00::13"}
IsV6(a)  == a[1] \in V6Ips
Whys     == {"hairpin", "private-unroutable", "no-mapping", "filtered-addr", "filtered-port", "no-host"}

VARIABLES
  \* ---- topology (fixed by Init)
  natOf,      \* host -> NAT id ("-" = public).  NAT ids are named after their owner: "A", "B1", ...
  kind,       \* NAT id -> Kinds
  sock,       \* host -> socket (interface) address <<ip, port>>
  extip,      \* NAT id -> external ip
  priv,       \* set of ips inside the private (LAN) ranges
  walkers,    \* hosts that follow up on introductions (walk to every address they learn)
  contacts,   \* host -> overlay -> how often it contacts the introducer (first walk_to, then send_introduction_request)
  nbrs,       \* host -> IPv6 neighbours (keys) it holds as verified peers of overlay "M" when the scenario starts
  \* ---- overlay state per host
  wan,        \* host -> overlay -> my_estimated_wan          (my_estimated_lan = sock[h], constant)
  peers,      \* host -> set of [k, addr, a6, lan, ns] : verified peers (UDPv4Address, UDPv6Address, UDPv4LANAddress
              \*                                         slots, new_style_intro); the preferred address is Pref(r)
  known,      \* host -> set of [a, by, ns, svc]   : Network._all_addresses
  svcs,       \* host -> set of [k, s]             : Network.services_per_peer
  gt,         \* host -> global time (claim_global_time)
  \* ---- NAT boxes and wire
  mapping,    \* NAT id -> set of [int, port]
  allowed,    \* NAT id -> set of [port, remote]
  net,        \* datagrams in flight
  nsent,      \* datagrams ever transmitted (datagram ids)
  nports,     \* NAT id -> external ports handed out so far (a lost mapping's port is not used again)
  \* ---- script / history
  contacted,  \* host -> overlay -> contacts made
  walked,     \* host -> overlay -> introduced addresses already walked to
  intros,     \* introductions made by "I":  [ov, req, cand, reqaddr, candaddr, ok, cur]  (ok: cand had registered
              \*   from its present mapping when it was handed out; cur: where cand was reachable at that moment)
  puncAsked,  \* puncture requests emitted:  [to, wanw]
  stale,      \* hosts whose NAT mapping was lost and whose next request has not been processed by "I" yet
  nrebind     \* mappings lost so far

topo  == <<natOf, kind, sock, extip, priv, walkers, contacts, nbrs>>
vars  == <<natOf, kind, sock, extip, priv, walkers, contacts, nbrs, wan, peers, known, svcs, gt, mapping, allowed,
           net, nsent, nports, contacted, walked, intros, puncAsked, stale, nrebind>>

Hosts      == DOMAIN natOf
Cands      == Hosts \ {"I", "A"}
Nats       == DOMAIN kind
ActiveNats == {natOf[h] : h \in Hosts} \ {"-"}
Walkers    == walkers

(* --------------------------------- exhaustive initial states ---------------------------------- *)
IpPub  == [I |-> "80.0.0.1", A |-> "80.0.0.2", B1 |-> "80.0.0.11", B2 |-> "80.0.0.12", B3 |-> "80.0.0.13",
           B4 |-> "80.0.0.14", B5 |-> "80.0.0.15"]
IpExt  == [A |-> "90.0.0.1", B1 |-> "90.0.0.11", B2 |-> "90.0.0.12", B3 |-> "90.0.0.13", B4 |-> "90.0.0.14",
           B5 |-> "90.0.0.15"]
LanOwn == [A |-> "192.168.1.2", B1 |-> "192.168.11.2", B2 |-> "192.168.12.2", B3 |-> "192.168.13.2",
           B4 |-> "192.168.14.2", B5 |-> "192.168.15.2"]
LanInA == [B1 |-> "192.168.1.11", B2 |-> "192.168.1.12", B3 |-> "192.168.1.13", B4 |-> "192.168.1.14",
           B5 |-> "192.168.1.15"]
Port   == [I |-> 8090, A |-> 8091, B1 |-> 8101, B2 |-> 8102, B3 |-> 8103, B4 |-> 8104, B5 |-> 8105]

InitOverlay ==
  /\ wan = [h \in Hosts |-> [s \in Svcs |-> sock[h]]]   \* EndpointListener.__init__: my_estimated_wan = my_estimated_lan
  \* what a host holds about a neighbour it walked to over IPv6 (add_verified_peer + discover_services)
  /\ peers = [h \in Hosts |-> {[k |-> n, addr |-> Zero, a6 |-> NbrAddr[n], lan |-> Zero, ns |-> TRUE] : n \in nbrs[h]}]
  /\ known = [h \in Hosts |-> {[a |-> NbrAddr[n], by |-> "", ns |-> FALSE, svc |-> ""] : n \in nbrs[h]}]
  /\ svcs = [h \in Hosts |-> {[k |-> n, s |-> "M"] : n \in nbrs[h]}]
  /\ mapping = [n \in Nats |-> {}]
  /\ allowed = [n \in Nats |-> {}]
  /\ nports = [n \in Nats |-> 0]
  /\ net = {} /\ nsent = 0
  /\ stale = {} /\ nrebind = 0
  /\ contacted = [h \in Hosts |-> [s \in Svcs |-> 0]]
  /\ walked = [h \in Hosts |-> [s \in Svcs |-> {}]]
  /\ intros = {} /\ puncAsked = {}

Init ==
  LET C  == {Names[i] : i \in 1..K}
      H  == {"I", "A"} \cup C
  IN \E pa \in APlaces, ka \in Kinds, pl \in [C -> CandPlaces], kc \in [C -> Kinds],
        nA \in MinContacts..MaxContactsA, nB \in [C -> MinContacts..MaxContactsB] :
       /\ pa = "pub" => ka = "fullCone"                                  \* canonical value for unused boxes
       /\ \A c \in C : pl[c] # "nat" => kc[c] = "fullCone"
       /\ \A c \in C : pl[c] = "withA" => pa = "nat"
       /\ natOf = [h \in H |-> IF h = "I" THEN "-"
                               ELSE IF h = "A" THEN (IF pa = "nat" THEN "A" ELSE "-")
                               ELSE IF pl[h] = "nat" THEN h ELSE IF pl[h] = "withA" THEN "A" ELSE "-"]
       /\ kind = [n \in {"A"} \cup C |-> IF n = "A" THEN ka ELSE kc[n]]
       /\ sock = [h \in H |-> IF h = "I" THEN <<IpPub["I"], Port["I"]>>
                              ELSE IF h = "A" THEN <<IF pa = "nat" THEN LanOwn["A"] ELSE IpPub["A"], Port["A"]>>
                              ELSE <<CASE pl[h] = "nat"   -> LanOwn[h]
                                       [] pl[h] = "withA" -> LanInA[h]
                                       [] pl[h] = "withI" -> IpPub["I"]
                                       [] OTHER           -> IpPub[h], Port[h]>>]
       /\ extip = [n \in {"A"} \cup C |-> IpExt[n]]
       /\ priv = {LanOwn[h] : h \in H \ {"I"}} \cup {LanInA[c] : c \in C}
       /\ walkers = IF FollowAll THEN H \ {"I"} ELSE {"A"}
       /\ contacts = [h \in H |-> [s \in Svcs |-> IF h = "I" THEN 0 ELSE IF h = "A" THEN nA ELSE nB[h]]]
       /\ nbrs = [h \in H |-> IF h \in C THEN {NbrNames[i] : i \in 1..V6N} ELSE {}]
  /\ InitOverlay
  /\ gt = [h \in Hosts |-> Clock0]

(* ------------------------------------- NAT / wire layer --------------------------------------- *)
\* sending host h, destination dst, current tables -> source address on the wire, path class, new tables
Out1(h, dst, mp, al, np) ==
  LET n == natOf[h] IN
  IF n = "-" THEN [src |-> sock[h], via |-> "wan", mp |-> mp, al |-> al, np |-> np]
  ELSE IF \E g \in Hosts : natOf[g] = n /\ sock[g] = dst
       THEN [src |-> sock[h], via |-> "lan", mp |-> mp, al |-> al, np |-> np]
  ELSE IF dst[1] = extip[n]
       THEN [src |-> sock[h], via |-> "hairpin", mp |-> mp, al |-> al, np |-> np]
  ELSE LET ex   == {m \in mp[n] : m.int = sock[h]}
           port == IF ex # {} THEN (CHOOSE m \in ex : TRUE).port ELSE PortBase + np[n]
       IN [src |-> <<extip[n], port>>, via |-> "wan",
           mp  |-> [mp EXCEPT ![n] = @ \cup {[int |-> sock[h], port |-> port]}],
           al  |-> [al EXCEPT ![n] = @ \cup {[port |-> port, remote |-> dst]}],
           np  |-> IF ex # {} THEN np ELSE [np EXCEPT ![n] = @ + 1]]

Msg(ov, dst, knd, ns, dest, slan, swan, ilan, iwan, ins, ident) ==
  [ov |-> ov, dst |-> dst, kind |-> knd, ns |-> ns, dest |-> dest, slan |-> slan, swan |-> swan, ilan |-> ilan,
   iwan |-> iwan, ins |-> ins, ident |-> ident]

RECURSIVE Xmit(_, _, _, _, _, _, _)
\* -> [mp, al, np, pkts]
Xmit(h, msgs, i, mp, al, np, acc) ==
  IF i > Len(msgs) THEN [mp |-> mp, al |-> al, np |-> np, pkts |-> acc]
  ELSE LET m == msgs[i]
           o == Out1(h, m.dst, mp, al, np)
           p == [id |-> nsent + i, from |-> h, ov |-> m.ov, src |-> o.src, via |-> o.via, dst |-> m.dst, kind |-> m.kind,
                 ns |-> m.ns, dest |-> m.dest, slan |-> m.slan, swan |-> m.swan, ilan |-> m.ilan,
                 iwan |-> m.iwan, ins |-> m.ins, ident |-> m.ident]
       IN Xmit(h, msgs, i + 1, o.mp, o.al, o.np, acc \cup {p})

\* the effect of host h transmitting msgs while datagram `consumed` (or none) leaves the wire
Transmit(h, msgs, consumed) ==
  LET x == Xmit(h, msgs, 1, mapping, allowed, nports, {}) IN
  /\ mapping' = x.mp /\ allowed' = x.al /\ nports' = x.np
  /\ net' = (net \ consumed) \cup x.pkts
  /\ nsent' = nsent + Len(msgs)

Route(p) ==   \* -> [to, why]
  IF p.via = "hairpin" THEN [to |-> "-", why |-> "hairpin"]
  ELSE IF \E h \in Hosts : sock[h] = p.dst THEN
         LET h == CHOOSE g \in Hosts : sock[g] = p.dst IN
         IF natOf[h] = "-" THEN [to |-> h, why |-> "ok"]
         ELSE IF natOf[p.from] = natOf[h] THEN [to |-> h, why |-> "lan"]
         ELSE [to |-> "-", why |-> "private-unroutable"]
  ELSE IF \E n \in ActiveNats : extip[n] = p.dst[1] THEN
         LET n  == CHOOSE b \in ActiveNats : extip[b] = p.dst[1]
             ms == {x \in mapping[n] : x.port = p.dst[2]}
         IN IF ms = {} THEN [to |-> "-", why |-> "no-mapping"]
            ELSE LET int    == (CHOOSE x \in ms : TRUE).int
                     h      == CHOOSE g \in Hosts : sock[g] = int /\ natOf[g] = n
                     okAddr == \E x \in allowed[n] : x.port = p.dst[2] /\ x.remote[1] = p.src[1]
                     okPort == \E x \in allowed[n] : x.port = p.dst[2] /\ x.remote = p.src
                 IN CASE kind[n] = "fullCone" -> [to |-> h, why |-> "nat-in"]
                      [] kind[n] = "addrRestricted" ->
                           IF okAddr THEN [to |-> h, why |-> "nat-in"] ELSE [to |-> "-", why |-> "filtered-addr"]
                      [] OTHER ->
                           IF okPort THEN [to |-> h, why |-> "nat-in"] ELSE [to |-> "-", why |-> "filtered-port"]
  ELSE [to |-> "-", why |-> "no-host"]

(* -------------------------------------- overlay layer ----------------------------------------- *)
(* the address under which h is reachable from outside its NAT right now *)
Pub(h) == IF natOf[h] = "-" THEN sock[h]
          ELSE LET ms == {m \in mapping[natOf[h]] : m.int = sock[h]}
               IN IF ms = {} THEN Zero ELSE <<extip[natOf[h]], (CHOOSE m \in ms : TRUE).port>>

IsPeer(h, k)  == \E r \in peers[h] : r.k = k
PeerOf(h, k)  == CHOOSE r \in peers[h] : r.k = k
PeerAddrs(r)  == {r.addr, r.a6, r.lan} \ {Zero}
Pref(r)       == IF r.a6 # Zero THEN r.a6 ELSE r.addr           \* Peer.address: IPv6 before IPv4
\* Network.get_peers_for_service: the verified peers that advertised the service
InSvc(ps, sv, s) == {r \in ps : [k |-> r.k, s |-> s] \in sv}
PeersIn(h, s) == InSvc(peers[h], svcs[h], s)
Member(h, k, s) == \E r \in PeersIn(h, s) : r.k = k
IsOwnIp(h, ip) == ip = sock[h][1]             \* EndpointListener.address_is_lan: one of this machine's interfaces

\* lazy_wrapper: a known peer gets add_address(source), otherwise a fresh Peer(key, source)
Touch(h, k, src) == IF IsPeer(h, k) THEN (IF Refresh THEN [PeerOf(h, k) EXCEPT !.addr = src] ELSE PeerOf(h, k))
                    ELSE [k |-> k, addr |-> src, a6 |-> Zero, lan |-> Zero, ns |-> FALSE]

\* Network.add_verified_peer for a peer that was not verified before
AddVerified(kn, r, wasKnown) ==
  IF wasKnown THEN kn
  ELSE IF PeerAddrs(r) \cap {x.a : x \in kn} # {} THEN kn
  ELSE kn \cup {[a |-> x, by |-> "", ns |-> FALSE, svc |-> ""] : x \in PeerAddrs(r)}

\* Network.discover_address (service: the overlay in which the introduction arrived)
Discover(kn, vk, by, a, ns, s) ==
  LET cur == {x \in kn : x.a = a} IN
  IF cur = {} \/ (\A x \in cur : x.by \notin vk)
  THEN (kn \ cur) \cup {[a |-> a, by |-> by, ns |-> ns, svc |-> s]} ELSE kn

RECURSIVE DiscoverAll(_, _, _, _, _, _)
DiscoverAll(kn, vk, by, as, ns, s) ==
  IF as = <<>> THEN kn ELSE DiscoverAll(Discover(kn, vk, by, Head(as), ns, s), vk, by, Tail(as), ns, s)

\* Network.get_walkable_addresses(service): known addresses that are not an address of a verified peer OF THAT
\* SERVICE and that were learned in the service or from a peer that is in it
WalkableOf(kn, ps, sv, s) ==
  {x.a : x \in {y \in kn : y.svc = s \/ [k |-> y.by, s |-> s] \in sv}}
    \ UNION {PeerAddrs(r) : r \in IF SvcWalkable THEN InSvc(ps, sv, s) ELSE ps}
Walkable(h, s) == WalkableOf(known[h], peers[h], svcs[h], s)

(* walk_to(address) *)
(* create_introduction_request: the identifier is the claimed global time reduced to the 16 bit of the wire field *)
Ident(t) == IF Ident16 THEN t % 65536 ELSE t
\* (a request to an IPv6 address is always new-style)
IReqMsg(h, s, dst, ns) == Msg(s, dst, "ireq", ns \/ IsV6(dst), dst, sock[h], wan[h][s], Zero, Zero, FALSE, Ident(gt[h] + 1))

IsNewStyle(h, a) == \E x \in known[h] : x.a = a /\ x.ns

(* the node contacts the introducer: first walk_to(address of I), later send_introduction_request(peer I) *)
\* the other overlays are the history of "M": their script has run and everything they learned is followed up
OthersDone == /\ net = {}
              /\ \A g \in Hosts \ {"I"}, t \in Svcs \ {"M"} : contacted[g][t] = contacts[g][t]
              /\ \A g \in walkers, t \in Svcs \ {"M"} : Walkable(g, t) \subseteq walked[g][t]

Contact(h, s) ==
  /\ h \in Hosts \ {"I"} /\ s \in Svcs /\ contacted[h][s] < contacts[h][s]
  /\ QuietCalls => net = {}
  /\ (Phased /\ s = "M") => OthersDone
  /\ IF contacted[h][s] = 0
     THEN Transmit(h, <<IReqMsg(h, s, sock["I"], IsNewStyle(h, sock["I"]))>>, {})
     ELSE /\ IsPeer(h, "I")
          /\ Transmit(h, <<IReqMsg(h, s, Pref(PeerOf(h, "I")), PeerOf(h, "I").ns)>>, {})
  /\ gt' = [gt EXCEPT ![h] = @ + 1]
  /\ contacted' = [contacted EXCEPT ![h][s] = @ + 1]
  /\ UNCHANGED <<topo, wan, peers, known, svcs, walked, intros, puncAsked, stale, nrebind>>

PunctureSettled == \A p \in net : p.kind \notin {"preq", "punc"}

(* the requester's next contact attempt: walk_to(a) for an address learned from an introduction *)
IntroWalk(h, s, a) ==
  /\ h \in Walkers /\ s \in Svcs /\ a \in Walkable(h, s) \ walked[h][s]
  /\ PunctureFirst => PunctureSettled
  /\ QuietCalls => net = {}
  /\ (Phased /\ s = "M") => OthersDone
  /\ Transmit(h, <<IReqMsg(h, s, a, IsNewStyle(h, a))>>, {})
  /\ gt' = [gt EXCEPT ![h] = @ + 1]
  /\ walked' = [walked EXCEPT ![h][s] = @ \cup {a}]
  /\ UNCHANGED <<topo, wan, peers, known, svcs, contacted, intros, puncAsked, stale, nrebind>>

Pkt(id) == CHOOSE p \in net : p.id = id

(* on_introduction_request + create_introduction_response *)
DeliverIReq(id) ==
  /\ \E p \in net : p.id = id /\ p.kind = "ireq"
  /\ LET p  == Pkt(id)
         h  == Route(p).to
     IN /\ h \in Hosts
        /\ LET wasKnown == IsPeer(h, p.from)
               s   == p.ov
               r   == [Touch(h, p.from, p.src) EXCEPT !.lan = p.slan, !.ns = (@ \/ p.ns)]
               ps  == {x \in peers[h] : x.k # p.from} \cup {r}
               sv  == svcs[h] \cup {[k |-> p.from, s |-> s]}       \* discover_services(peer, [community_id])
               kn  == AddVerified(known[h], r, wasKnown)
               ra  == Pref(r)
               oth == {x \in ps : ra \in PeerAddrs(x)}          \* get_verified_by_address(socket_address)
               resp(ilan, iwan, ins) == Msg(s, ra, "iresp", r.ns, ra, sock[h], wan[h][s], ilan, iwan, ins, p.ident)
           IN \E o \in oth :
                \* get_peer_for_introduction: a peer of this overlay, not the requester, whose address the response
                \* can carry (an old-style response is IPv4 only)
                LET avail == {x \in InSvc(ps, sv, s) : x.k # o.k /\ (StyleAware => (r.ns \/ ~IsV6(Pref(x))))} IN
                /\ peers' = [peers EXCEPT ![h] = ps]
                /\ known' = [known EXCEPT ![h] = kn]
                /\ svcs' = [svcs EXCEPT ![h] = sv]
                /\ IF avail = {}
                   THEN /\ Transmit(h, <<resp(Zero, Zero, FALSE)>>, {p})
                        /\ gt' = [gt EXCEPT ![h] = @ + 1]
                        /\ UNCHANGED <<intros, puncAsked>>
                   ELSE \E c \in avail :
                          LET ca   == Pref(c)
                              same == ~IsV6(ca) /\ IsOwnIp(h, ca[1])
                              ilan == IF same THEN ca ELSE c.lan
                              iwan == IF same THEN <<wan[h][s][1], ca[2]>> ELSE ca
                              preq == Msg(s, ca, "preq", r.ns, Zero, p.dest, ra, Zero, Zero, FALSE, p.ident)
                              \* (control only) the response cannot be encoded: the handler ends after the puncture request
                              fits == r.ns \/ ~IsV6(ca)
                          IN /\ IF SendPuncture
                                THEN /\ Transmit(h, IF fits THEN <<preq, resp(ilan, iwan, c.ns)>> ELSE <<preq>>, {p})
                                     /\ gt' = [gt EXCEPT ![h] = @ + 2]
                                     /\ puncAsked' = puncAsked \cup {[to |-> ca, wanw |-> ra]}
                                ELSE /\ Transmit(h, <<resp(ilan, iwan, c.ns)>>, {p})
                                     /\ gt' = [gt EXCEPT ![h] = @ + 1]
                                     /\ UNCHANGED puncAsked
                             /\ intros' = IF h = "I"
                                          THEN intros \cup {[ov |-> s, req |-> p.from, cand |-> c.k, reqaddr |-> ra,
                                                             candaddr |-> ca, ok |-> c.k \notin stale,
                                                             cur |-> Pub(c.k)]}
                                          ELSE intros
        /\ stale' = IF h = "I" THEN stale \ {p.from} ELSE stale    \* "I" has seen where p.from is now
  /\ UNCHANGED <<topo, wan, contacted, walked, nrebind>>

(* on_introduction_response *)
DeliverIResp(id) ==
  /\ \E p \in net : p.id = id /\ p.kind = "iresp"
  /\ LET p  == Pkt(id)
         h  == Route(p).to
     IN /\ h \in Hosts
        /\ LET wasKnown == IsPeer(h, p.from)
               s    == p.ov
               r    == [Touch(h, p.from, p.src) EXCEPT !.ns = TRUE]
               ps   == {x \in peers[h] : x.k # p.from} \cup {r}
               w    == IF p.dest[1] \notin priv THEN p.dest ELSE wan[h][s]
               kn   == AddVerified(known[h], r, wasKnown)
               vk   == {x.k : x \in ps}
               intr == IF p.iwan # Zero /\ p.iwan[1] # w[1]
                       THEN (IF p.ilan # Zero THEN <<p.ilan>> ELSE <<>>) \o <<p.iwan>>
                       ELSE IF p.ilan # Zero /\ p.iwan[1] = w[1] THEN <<p.ilan>>
                       ELSE IF p.iwan # Zero THEN <<p.iwan, <<sock[h][1], p.iwan[2]>> >>
                       ELSE <<>>
           IN /\ wan' = [wan EXCEPT ![h][s] = w]
              /\ peers' = [peers EXCEPT ![h] = ps]
              /\ svcs' = [svcs EXCEPT ![h] = @ \cup {[k |-> p.from, s |-> s]}]
              /\ known' = [known EXCEPT ![h] = DiscoverAll(kn, vk, p.from, intr, p.ins, s)]
        /\ Transmit(h, <<>>, {p})
  /\ UNCHANGED <<topo, gt, contacted, walked, intros, puncAsked, stale, nrebind>>

(* on_puncture_request (unsigned: no peer is touched) *)
DeliverPReq(id) ==
  /\ \E p \in net : p.id = id /\ p.kind = "preq"
  /\ LET p  == Pkt(id)
         h  == Route(p).to
     IN /\ h \in Hosts
        /\ LET target == IF p.swan[1] = wan[h][p.ov][1] THEN p.slan ELSE p.swan
           IN Transmit(h, <<Msg(p.ov, target, "punc", p.ns, Zero, sock[h], p.swan, Zero, Zero, FALSE, p.ident)>>, {p})
        /\ gt' = [gt EXCEPT ![h] = @ + 1]
  /\ UNCHANGED <<topo, wan, peers, known, svcs, contacted, walked, intros, puncAsked, stale, nrebind>>

(* on_puncture: the handler does nothing, lazy_wrapper updates the address of a known sender *)
DeliverPunc(id) ==
  /\ \E p \in net : p.id = id /\ p.kind = "punc"
  /\ LET p  == Pkt(id)
         h  == Route(p).to
     IN /\ h \in Hosts
        /\ peers' = [peers EXCEPT ![h] = IF IsPeer(h, p.from)
                                         THEN {x \in @ : x.k # p.from} \cup {Touch(h, p.from, p.src)} ELSE @]
        /\ Transmit(h, <<>>, {p})
  /\ UNCHANGED <<topo, wan, known, svcs, gt, contacted, walked, intros, puncAsked, stale, nrebind>>

(* the network cannot deliver the datagram (NAT filter, private address, hair-pin) *)
Lose(id, why) ==
  /\ \E p \in net : p.id = id
  /\ LET p == Pkt(id) IN
       /\ Route(p).to = "-" /\ Route(p).why = why
       /\ net' = net \ {p}
  /\ UNCHANGED <<topo, wan, peers, known, svcs, gt, mapping, allowed, nsent, nports, contacted, walked, intros,
                 puncAsked, stale, nrebind>>

ScriptDone == \A h \in Hosts \ {"I"}, s \in Svcs : contacted[h][s] = contacts[h][s]
AllWalked  == \A h \in Walkers, s \in Svcs : Walkable(h, s) \subseteq walked[h][s]
(* History: the NAT in front of h loses h's mapping and its filter entries (router reboot, mapping expiry) while  *)
(* the system is at rest (nothing in flight, every introduction followed up).  The next datagram of h leaves from *)
(* a fresh external port; what others hold about h is out of date until h has contacted them again.              *)
Rebind(h) ==
  /\ nrebind < MaxRebinds
  /\ h \in Hosts /\ natOf[h] # "-"
  /\ net = {} /\ AllWalked
  /\ LET n  == natOf[h]
         ms == {m \in mapping[n] : m.int = sock[h]}
     IN /\ ms # {}
        /\ mapping' = [mapping EXCEPT ![n] = @ \ ms]
        /\ allowed' = [allowed EXCEPT ![n] = {x \in @ : x.port \notin {m.port : m \in ms}}]
  /\ stale' = stale \cup {h}
  /\ nrebind' = nrebind + 1
  /\ UNCHANGED <<topo, wan, peers, known, svcs, gt, net, nsent, nports, contacted, walked, intros, puncAsked>>

(* every behaviour ends here: TLC's deadlock check reports any other terminal state *)
Idle == net = {} /\ ScriptDone /\ AllWalked /\ UNCHANGED vars

\* constant-level pools, so that TLC names every step  Action(parameters)  in its state graph
AllHosts == {"I", "A"} \cup {Names[i] : i \in 1..K}
AllIps   == {IpPub[h] : h \in AllHosts} \cup {IpExt[h] : h \in AllHosts \ {"I"}}
            \cup {LanOwn[h] : h \in AllHosts \ {"I"}} \cup {LanInA[h] : h \in AllHosts \ {"I", "A"}}
AllPorts == {Port[h] : h \in AllHosts} \cup (PortBase .. PortBase + K + 1 + MaxRebinds)
AllAddrs == (AllIps \X AllPorts) \cup {NbrAddr[NbrNames[i]] : i \in 1..V6N}

Next == \/ \E h \in AllHosts, s \in Svcs : Contact(h, s)
        \/ \E h \in AllHosts, s \in Svcs, a \in AllAddrs : IntroWalk(h, s, a)
        \/ \E id \in 1..MaxId : DeliverIReq(id)
        \/ \E id \in 1..MaxId : DeliverIResp(id)
        \/ \E id \in 1..MaxId : DeliverPReq(id)
        \/ \E id \in 1..MaxId : DeliverPunc(id)
        \/ \E id \in 1..MaxId, why \in Whys : Lose(id, why)
        \/ \E h \in AllHosts : Rebind(h)
        \/ Idle

Spec == Init /\ [][Next]_vars

(* ------------------------------------------ properties ---------------------------------------- *)
TypeOK ==
  /\ \A h \in Hosts : /\ Cardinality({r.k : r \in peers[h]}) = Cardinality(peers[h])
                      /\ Cardinality({x.a : x \in known[h]}) = Cardinality(known[h])
                      /\ \A r \in peers[h] : r.k \in (Hosts \ {h}) \cup nbrs[h]
  /\ \A n \in Nats : /\ Cardinality({m.int : m \in mapping[n]}) = Cardinality(mapping[n])
                     /\ Cardinality({m.port : m \in mapping[n]}) = Cardinality(mapping[n])
                     /\ \A x \in allowed[n] : \E m \in mapping[n] : m.port = x.port
  /\ \A n \in Nats : \A m \in mapping[n] : m.port < PortBase + nports[n]
  /\ \A p \in net : p.id \in 1..nsent

Quiet     == net = {}
Done      == Quiet /\ AllWalked
SameNat(a, b) == natOf[a] # "-" /\ natOf[a] = natOf[b]
Mutual(a, b)  == IsPeer(a, b) /\ IsPeer(b, a)
\* get_peers() of the overlay on both sides
MutualIn(a, b, s) == Member(a, b, s) /\ Member(b, a, s)

(* C13: the introduced peer and the requester end up as verified peers of each other.  i.ok: when it was handed  *)
(* out, the introduced peer had registered at the introducer from the mapping it had at that time.               *)
Reach == Done => \A i \in intros : (i.req \in Walkers /\ i.ok) => MutualIn(i.req, i.cand, i.ov)
(* C13: "the addresses it hands out are the ones that work" - an introduced peer that registered from its present *)
(* mapping is handed out at that mapping, and that is where the requester holds it after its contact attempt      *)
(* (i.cur: where the introduced peer was reachable when it was handed out)                                        *)
HandsOutCurrent == \A i \in intros : i.ok => i.candaddr = i.cur
HoldsWorking == Done => \A i \in intros :
                  (i.req \in Walkers /\ i.ok /\ i.cur = Pub(i.cand) /\ ~SameNat(i.req, i.cand)
                   /\ IsPeer(i.req, i.cand)) => PeerOf(i.req, i.cand).addr = Pub(i.cand)
(* the identifier field of every message is 16 bit wide on the wire (new-style payloads do not reduce it) *)
IdentFits == \A p \in net : p.ident \in 0..65535
(* C13: peers behind the same NAT connect over their LAN addresses *)
LanMeet == Done => \A i \in intros :
             (i.req \in Walkers /\ SameNat(i.req, i.cand) /\ Mutual(i.req, i.cand)) =>
                 /\ PeerOf(i.req, i.cand).addr = sock[i.cand]
                 /\ PeerOf(i.cand, i.req).addr = sock[i.req]
(* C13: whoever introduces a third peer also asks that peer to puncture towards the requester *)
AsksPuncture == \A i \in intros : [to |-> i.candaddr, wanw |-> i.reqaddr] \in puncAsked
=============================================================================
