\* history: two outside addresses, an always-allowed and a never-allowed packet, tunnel data only from the
\* previous hop; what an address did / was sent before never changes the verdict on its next packet
SPECIFICATION Spec
CONSTANTS QCap = 2 MaxPend = 1 MaxOps = 6
          NoInboundFilter = FALSE NoNullCheck = FALSE AnyoneOpens = FALSE
          RepIds = {5, 7}
          TrackHistory = TRUE FlowCache = "in_after_ask" HostIps = {"x", "y"} HostPorts = {1}
          StaleVerdict = "none" HopFollowsPeer = FALSE VerdictMemo = "none" FlagChoices = {} SignedSrcs = {}
          SrcSet = {"prev"} DkSet = {"v4", "dom4"}
INVARIANT EmitOnlyAllowed
