------------------------------- MODULE Auth -------------------------------
(* C01 - signed handlers run only for authentic, untampered datagrams.                              *)
(* ipv8/lazy_community.py : EZPackOverlay._ez_pack (signing), _verify_signature, lazy_wrapper,      *)
(* lazy_wrapper_wd, _ez_unpack_auth ; ipv8/community.py : Community.on_packet (dispatch on the      *)
(* 22 byte prefix and the message id).                                                              *)
(*                                                                                                  *)
(* Abstract layer : a datagram is [prefix, msgid, key, body, sig]; a signature is made by the       *)
(* private half of ONE key over ONE exact content (prefix, msgid, key, body). The adversary sees    *)
(* honest datagrams, holds the private halves of the keys in Attacker only, and may replay, cut,    *)
(* extend, splice and re-sign.  Implementation layer : Run(o) = what the receive path of overlay o  *)
(* does with the datagram that arrives (one action per handler dispatch).                           *)
(*                                                                                                  *)
(* Histories : book = the verified-peer table as "key lives at these addresses"; every delivery has  *)
(* a source address; Acquaint = a key proved itself before the window; a rejected datagram changes   *)
(* nothing (RejectInert), a valid one only the entry of the key that signed it (BookLegit).          *)
(* Deviation constants EarlyBook / TrustSource switch two history-dependent defects on (controls).   *)
(*                                                                                                  *)
(* Records : `noted` = what an overlay keeps about a key OUTSIDE the verified-peer table (routing    *)
(* nodes, stored peers, request caches, liveness metrics of Peer objects ...).  Every change of the  *)
(* records of a key happens in a delivery that ran a handler - for an authenticated message id one   *)
(* with a valid signature (NotesLegit); a rejected datagram changes none (RejectInert).              *)
(* Key memory : `kres` = the key object that the serialized form of a key resolves to in the         *)
(* receiving process (ECCrypto.key_from_public_bin).  It is the identity whatever keys were parsed   *)
(* before (KeyResolution); long histories of deliveries under many keys (crowds) must not change it. *)
(* Deviation constants EarlyNote / StaleKeys switch the two corresponding defects on (controls).     *)
(*                                                                                                  *)
(* The table ShippedAuthenticated below is written BY HAND from the protocol (which messages the    *)
(* senders sign), not derived from the decorators found on the handlers.                            *)
EXTENDS Naturals, FiniteSets, TLC

CONSTANTS Overlays,       \* overlay classes that can be loaded on the receiving endpoint
          PrefixOf,       \* [Overlays -> Prefixes \ {NoPrefix}]
          Authenticated,  \* [Overlays -> SUBSET MsgIds] : message ids the PROTOCOL declares authenticated
          Keys,           \* well formed public keys
          Honest,         \* keys whose private half only honest nodes hold
          Attacker,       \* keys whose private half the adversary holds (disjoint from Honest)
          MsgIds,         \* message ids (0..255 in the shipped instance)
          Prefixes,       \* prefixes of known overlays
          Bodies,         \* abstract payload contents
          MaxSend,        \* bound on honest/injected base datagrams
          MaxMut,         \* bound on mutations applied on top of one base datagram
          MaxDeliver,     \* bound on deliveries (Run or Drop) in one behaviour
          WithInject,     \* FALSE switches the Inject action off (keeps the two-datagram splice instance small)
          CheckSig,       \* TRUE = the code as it should be. FALSE = deviation: validity check deleted
          CoverAll,       \* TRUE = signature verified over everything. FALSE = deviation: prefix + msg id not covered
          Addrs,          \* source addresses a datagram can arrive from / a verified-peer entry can point to
          MaxAcq,         \* bound on acquaintances made before the window of observation (history)
          EarlyBook,      \* FALSE = as it should be. TRUE = deviation: the verified-peer entry of the carried key is
                          \*   updated with the source address BEFORE the signature verdict is asserted
          TrustSource,    \* FALSE = as it should be. TRUE = deviation: a signature that verifies under the key of the
                          \*   peer already known at the source address is accepted (identity still = carried key)
          EarlyNote,      \* FALSE = as it should be. TRUE = deviation: the records kept about the carried key (liveness
                          \*   metrics of a stored node ...) are updated BEFORE the signature verdict is asserted
          StaleKeys,      \* FALSE = as it should be. TRUE = deviation: a bounded memory of parsed keys with a stale
                          \*   index - the bytes of a key parsed earlier may come to resolve to a key parsed later
          WithNotes       \* FALSE keeps the exhaustive instances small: RunAny does not enumerate record changes

NoKey    == "nokey"      \* no parsable key at byte 23
NoPrefix == "p?"         \* not the prefix of any known overlay / too short
NoBody   == "b?"
NoMsg    == 256          \* datagram shorter than 23 bytes
AllKeys  == Keys \cup {NoKey}
AllPfx   == Prefixes \cup {NoPrefix}
AllMsg   == MsgIds \cup {NoMsg}
AllBody  == Bodies \cup {NoBody}

Content   == [prefix : AllPfx, msgid : AllMsg, key : AllKeys, body : AllBody]
NoContent == [prefix |-> NoPrefix, msgid |-> NoMsg, key |-> NoKey, body |-> NoBody]
NoSig     == [kind |-> "none",    signer |-> NoKey, covers |-> NoContent]
Garbage   == [kind |-> "garbage", signer |-> NoKey, covers |-> NoContent]
SigOf(k, c) == [kind |-> "sig", signer |-> k, covers |-> c]
Sigs      == {NoSig, Garbage} \cup [kind : {"sig"}, signer : Keys, covers : Content]
Datagram  == [prefix : AllPfx, msgid : AllMsg, key : AllKeys, body : AllBody, sig : Sigs]
ContentOf(d) == [prefix |-> d.prefix, msgid |-> d.msgid, key |-> d.key, body |-> d.body]
Blank     == [prefix |-> NoPrefix, msgid |-> NoMsg, key |-> NoKey, body |-> NoBody, sig |-> NoSig]

(* --------------------------------------------------------------------------------------------- *)
(* The protocol table for the overlays shipped with the library (used by AuthTrace / the driver). *)
(* Sources: Community.create_introduction_request/_response/create_puncture pack                  *)
(* [auth, dist, payload] signed; create_puncture_request packs [dist, payload] with sig = False;  *)
(* DiscoveryCommunity similarity messages are signed, ping/pong (3, 4) are packed with sig=False; *)
(* every DHT / DHTDiscovery / Identity message goes through ez_send (signed); the five wallet     *)
(* messages are packed [auth, dist, payload] signed; TunnelCommunity signs only destroy (8):      *)
(* cells (0) and the cell-borne messages of HiddenTunnelCommunity (13, 17, 18 arrive with         *)
(* sig = False) are protected by circuit keys, not by signatures.                                 *)
ShippedOverlays == {"DiscoveryCommunity", "DHTCommunity", "DHTDiscoveryCommunity", "TunnelCommunity",
                    "HiddenTunnelCommunity", "PexCommunity", "IdentityCommunity", "AttestationCommunity"}
BaseAuthenticated == {231, 233, 234, 245, 246, 249}   \* new-puncture, new-intro-response, new-intro-request,
                                                      \* intro-response, intro-request, puncture
OwnAuthenticated(o) ==
  CASE o = "DiscoveryCommunity"    -> {1, 2}                 \* similarity-request, similarity-response
    [] o = "DHTCommunity"          -> 1..6                   \* ping, pong, store, store-resp, find, find-resp
    [] o = "DHTDiscoveryCommunity" -> 1..10                  \* + store-peer, connect-peer and responses
    [] o = "TunnelCommunity"       -> {8}                    \* destroy
    [] o = "HiddenTunnelCommunity" -> {8}
    [] o = "PexCommunity"          -> {}
    [] o = "IdentityCommunity"     -> 1..4                   \* disclose, attest, request-missing, missing-response
    [] o = "AttestationCommunity"  -> 1..5                   \* verify-request, chunk, challenge, challenge-resp, request
ShippedAuthenticated == [o \in ShippedOverlays |-> BaseAuthenticated \cup OwnAuthenticated(o)]
(* overlays that share a community id share a prefix *)
ShippedPrefixOf == [o \in ShippedOverlays |->
  CASE o = "DHTDiscoveryCommunity" -> "p_DHTCommunity"
    [] o = "HiddenTunnelCommunity" -> "p_TunnelCommunity"
    [] o = "DiscoveryCommunity"    -> "p_DiscoveryCommunity"
    [] o = "DHTCommunity"          -> "p_DHTCommunity"
    [] o = "TunnelCommunity"       -> "p_TunnelCommunity"
    [] o = "PexCommunity"          -> "p_PexCommunity"
    [] o = "IdentityCommunity"     -> "p_IdentityCommunity"
    [] o = "AttestationCommunity"  -> "p_AttestationCommunity"]
ShippedPrefixes == {ShippedPrefixOf[o] : o \in ShippedOverlays}

(* small instance for exhaustive model checking: overlays B and B2 share a prefix (as DHT / DHTDiscovery do), *)
(* message 1 is authenticated everywhere, message 2 only in A and B2                                         *)
MCPrefixOf      == [o \in {"A", "B", "B2"} |-> IF o = "A" THEN "pA" ELSE "pB"]
MCAuthenticated == [o \in {"A", "B", "B2"} |-> IF o = "B" THEN {1} ELSE {1, 2}]

ASSUME PrintT(<<"AuthTable", ShippedAuthenticated, ShippedPrefixOf>>)
ASSUME Honest \cap Attacker = {} /\ Honest \cup Attacker \subseteq Keys

(* --------------------------------------------------------------------------------------------- *)
VARIABLES cur,        \* the datagram that is about to arrive
          inflight,   \* BOOLEAN : cur is meaningful
          muts,       \* mutations applied to cur since it was taken from `seen`
          seen,       \* datagrams the adversary has observed (honest ones) or made from scratch
          signed,     \* history : <<key, content>> pairs signed with the private half of key
          invoked,    \* history : handler invocations [o, msgid, peer, d]
          verified,   \* [Overlays -> SUBSET AllKeys] : keys that became verified peers of overlay o
          ndel,       \* number of deliveries so far
          book,       \* [Overlays -> [AllKeys -> SUBSET Addrs]] : Network.verified_peers as "key lives at these
                      \*   addresses" (Peer.addresses of the verified-peer entry; {} = no entry / no address)
          acq,        \* history : <<o, key, addr>> acquaintances made before the window of observation
          noted,      \* history : [o, n, k] the records overlay o keeps about key k (outside the verified-peer table)
                      \*   changed in delivery number n
          kres,       \* [Keys -> Keys] : the key object the serialized form of a key resolves to (key_from_public_bin)
          parsed      \* history : keys whose serialized form the receiving process has parsed
vars == <<cur, inflight, muts, seen, signed, invoked, verified, ndel, book, acq, noted, kres, parsed>>

NoBook == [k \in AllKeys |-> {}]
Init == /\ cur = Blank /\ inflight = FALSE /\ muts = 0 /\ seen = {} /\ signed = {}
        /\ invoked = {} /\ verified = [o \in Overlays |-> {}] /\ ndel = 0
        /\ book = [o \in Overlays |-> NoBook] /\ acq = {}
        /\ noted = {} /\ kres = [k \in Keys |-> k] /\ parsed = {}

(* state of the verified-peer table that the acquaintances alone account for *)
AcqBook(o)     == [k \in AllKeys |-> {a \in Addrs : <<o, k, a>> \in acq}]
AcqVerified(o) == {k \in AllKeys : \E a \in Addrs : <<o, k, a>> \in acq}

(* what the property demands *)
SigValid(d) == /\ d.sig.kind = "sig" /\ d.key \in Keys
               /\ d.sig.signer = d.key
               /\ d.sig.covers = ContentOf(d)

(* what the receive path of overlay o checks for a datagram that arrives from address a (equal to SigValid *)
(* unless a deviation constant is switched on; in particular independent of o, a and of the history)        *)
ImplValid(d, o, a) ==
  IF ~CheckSig THEN d.key \in Keys
  ELSE \/ /\ d.sig.kind = "sig" /\ d.key \in Keys /\ d.sig.signer = kres[d.key]   \* (kres[k] = k: KeyResolution)
          /\ IF CoverAll THEN d.sig.covers = ContentOf(d)
             ELSE d.sig.covers.key = d.key /\ d.sig.covers.body = d.body
       \/ /\ TrustSource                      \* deviation: the key of whoever is known at the source address
          /\ d.sig.kind = "sig" /\ d.key \in Keys /\ d.sig.covers = ContentOf(d)
          /\ \E k \in Keys : a \in book[o][k] /\ d.sig.signer = k

(* History before the window of observation: key k proved possession of its private half to overlay o from   *)
(* address a (an earlier, honest introduction).  Environment action; only at the very beginning.             *)
Acquaint(o, k, a) ==
  /\ ~inflight /\ seen = {} /\ ndel = 0 /\ Cardinality(acq) < MaxAcq
  /\ k \in Honest \cup Attacker /\ a \in Addrs /\ <<o, k, a>> \notin acq
  /\ acq' = acq \cup {<<o, k, a>>}
  /\ book' = [book EXCEPT ![o][k] = @ \cup {a}]
  /\ verified' = [verified EXCEPT ![o] = @ \cup {k}]
  /\ parsed' = parsed \cup {k}            \* (its datagrams were parsed then)
  /\ UNCHANGED <<cur, inflight, muts, seen, signed, invoked, ndel, noted, kres>>

(* The receiving node restarts: everything learned inside the window is forgotten, the acquaintances are     *)
(* made again (the driver builds a new receiving node after a delivery that touched its state).             *)
Restart ==
  /\ ~inflight /\ ndel < MaxDeliver
  /\ book' = [o \in Overlays |-> AcqBook(o)]
  /\ verified' = [o \in Overlays |-> AcqVerified(o)]
  /\ UNCHANGED <<cur, inflight, muts, seen, signed, invoked, ndel, acq, noted, kres, parsed>>

(* EZPackOverlay.ezr_pack / _ez_pack on an honest (or attacker owned) node : sign everything *)
Send(o, k, m, b) ==
  /\ Cardinality(seen) < MaxSend /\ ndel < MaxDeliver
  /\ muts = 0                            \* an untouched datagram still in flight is simply lost
  /\ k \in Honest \cup Attacker /\ m \in Authenticated[o] /\ b \in Bodies
  /\ LET c == [prefix |-> PrefixOf[o], msgid |-> m, key |-> k, body |-> b]
         d == [prefix |-> c.prefix, msgid |-> m, key |-> k, body |-> b, sig |-> SigOf(k, c)]
     IN /\ cur' = d /\ seen' = seen \cup {d} /\ signed' = signed \cup {<<k, c>>}
  /\ inflight' = TRUE /\ muts' = 0
  /\ UNCHANGED <<invoked, verified, ndel, book, acq, noted, kres, parsed>>

(* the adversary fabricates a datagram from scratch: no signature, noise, or a signature made with one of *)
(* its own keys over the content itself or over a content it has seen                                      *)
InjectSigs(c) == {NoSig, Garbage} \cup {SigOf(a, c2) : a \in Attacker, c2 \in {c} \cup {ContentOf(x) : x \in seen}}
Inject(d) ==
  /\ WithInject /\ ~inflight /\ Cardinality(seen) < MaxSend /\ ndel < MaxDeliver
  /\ d.sig \in InjectSigs(ContentOf(d))
  /\ signed' = IF d.sig.kind = "sig" THEN signed \cup {<<d.sig.signer, d.sig.covers>>} ELSE signed
  /\ cur' = d /\ seen' = seen \cup {d} /\ inflight' = TRUE /\ muts' = 0
  /\ UNCHANGED <<invoked, verified, ndel, book, acq, noted, kres, parsed>>

(* the possible results of one mutation of datagram s (S = what the adversary has seen) *)
MutSet(name, s, S) ==
  CASE name = "Noop"            -> {s}
    [] name = "FlipPrefix"      -> {[s EXCEPT !.prefix = p] : p \in AllPfx \ {s.prefix}}
    [] name = "FlipMsgId"       -> {[s EXCEPT !.msgid = m] : m \in MsgIds \ {s.msgid}}
    [] name = "FlipKey"         -> {[s EXCEPT !.key = k, !.body = b] : k \in AllKeys \ (Honest \cup Attacker \cup {s.key}), b \in AllBody}
    [] name = "SubstKeyKeepSig" -> {[s EXCEPT !.key = k] : k \in Keys \ {s.key}}
    [] name = "FlipBody"        -> {[s EXCEPT !.body = b] : b \in Bodies \ {s.body}}
    [] name = "FlipSig"         -> {[s EXCEPT !.sig = Garbage]}
    [] name = "Truncate"        -> {[prefix |-> p, msgid |-> m, key |-> k, body |-> b, sig |-> g] :
                                      p \in {s.prefix, NoPrefix}, m \in {s.msgid, NoMsg}, k \in {s.key, NoKey},
                                      b \in AllBody, g \in {NoSig, Garbage}}
    [] name = "StripAuth"       -> {[s EXCEPT !.key = k, !.body = b, !.sig = g] :
                                      k \in AllKeys \ (Honest \cup Attacker), b \in AllBody, g \in {NoSig, Garbage}}
    [] name = "Extend"          -> {[s EXCEPT !.body = b, !.sig = Garbage] : b \in Bodies \ {s.body}}
    [] name = "Resign"          -> {[s EXCEPT !.sig = SigOf(a, ContentOf(s))] : a \in Attacker}
    [] name = "SpliceBody"      -> {[s EXCEPT !.body = d.body] : d \in {x \in S : x.body # s.body}}
    [] name = "SpliceSig"       -> {[s EXCEPT !.sig = d.sig] : d \in {x \in S : x.sig # s.sig}}
MutNames == {"Noop", "FlipPrefix", "FlipMsgId", "FlipKey", "SubstKeyKeepSig", "FlipBody", "FlipSig", "Truncate",
             "StripAuth", "Extend", "Resign", "SpliceBody", "SpliceSig"}

(* one mutation of the datagram in flight, or (nothing in flight) of a datagram taken again from `seen` *)
Mutate(name, s, t) ==
  /\ \/ inflight /\ s = cur /\ muts' = muts + 1
     \/ ~inflight /\ s \in seen /\ muts' = 1
  /\ muts' <= MaxMut /\ ndel < MaxDeliver
  /\ t \in MutSet(name, s, seen)
  /\ cur' = t /\ inflight' = TRUE
  /\ signed' = IF name = "Resign" THEN signed \cup {<<t.sig.signer, t.sig.covers>>} ELSE signed
  /\ UNCHANGED <<seen, invoked, verified, ndel, book, acq, noted, kres, parsed>>

Sources == IF inflight THEN {cur} ELSE seen
Noop            == \E s \in Sources : \E t \in MutSet("Noop", s, seen) : Mutate("Noop", s, t)   \* plain replay
FlipPrefix      == \E s \in Sources : \E t \in MutSet("FlipPrefix", s, seen) : Mutate("FlipPrefix", s, t)
FlipMsgId       == \E s \in Sources : \E t \in MutSet("FlipMsgId", s, seen) : Mutate("FlipMsgId", s, t)   \* includes the swap to another authenticated id
FlipKey         == \E s \in Sources : \E t \in MutSet("FlipKey", s, seen) : Mutate("FlipKey", s, t)
SubstKeyKeepSig == \E s \in Sources : \E t \in MutSet("SubstKeyKeepSig", s, seen) : Mutate("SubstKeyKeepSig", s, t)
FlipBody        == \E s \in Sources : \E t \in MutSet("FlipBody", s, seen) : Mutate("FlipBody", s, t)
FlipSig         == \E s \in Sources : \E t \in MutSet("FlipSig", s, seen) : Mutate("FlipSig", s, t)
Truncate        == \E s \in Sources : \E t \in MutSet("Truncate", s, seen) : Mutate("Truncate", s, t)
StripAuth       == \E s \in Sources : \E t \in MutSet("StripAuth", s, seen) : Mutate("StripAuth", s, t)   \* the unsigned twin of a signed message
Extend          == \E s \in Sources : \E t \in MutSet("Extend", s, seen) : Mutate("Extend", s, t)
Resign          == \E s \in Sources : \E t \in MutSet("Resign", s, seen) : Mutate("Resign", s, t)   \* signature from another key
SpliceBody      == \E s \in Sources : \E t \in MutSet("SpliceBody", s, seen) : Mutate("SpliceBody", s, t)
SpliceSig       == \E s \in Sources : \E t \in MutSet("SpliceSig", s, seen) : Mutate("SpliceSig", s, t)

(* Community.on_packet of overlay o (any overlay on the endpoint: replay into another overlay) hands the   *)
(* datagram, which arrived from source address a (any address: the adversary may spoof it), to             *)
(* decode_map[msgid]; the handler proper runs with `peer`; it may add that peer as verified.  nb = the      *)
(* verified-peer table of o afterwards: a valid datagram may change the entry of the key that signed it     *)
(* (source address added / entry re-pointed / addresses claimed in the signed payload), nothing else.       *)
(* the receiving process parses the serialized key k of a datagram (key_from_public_bin) *)
KeyMemory(k) ==
  /\ parsed' = IF k \in Keys THEN parsed \cup {k} ELSE parsed
  /\ IF StaleKeys /\ k \in Keys \ parsed      \* deviation: k takes the slot of a key v parsed earlier, v's index entry stays
     THEN \E v \in parsed \cup {k} : kres' = IF v = k THEN kres ELSE [kres EXCEPT ![v] = k]
     ELSE kres' = kres
HasRecord(o, k) == (\E a \in Addrs : <<o, k, a>> \in acq) \/ (\E t \in noted : t.o = o /\ t.k = k)

(* tk = the keys whose records (outside the verified-peer table) the delivery changed *)
Run(o, peer, newv, a, nb, tk) ==
  /\ inflight /\ a \in Addrs /\ tk \subseteq Keys
  /\ cur.prefix = PrefixOf[o] /\ cur.msgid # NoMsg
  /\ nb \in [AllKeys -> SUBSET Addrs]
  /\ IF cur.msgid \in Authenticated[o]
     THEN /\ ImplValid(cur, o, a) /\ peer = cur.key /\ newv \subseteq {cur.key}
          /\ \A k \in AllKeys \ {cur.key} : nb[k] = book[o][k]
     ELSE /\ newv = {}      \* handlers of unauthenticated messages get an address, never a verified peer
          /\ nb = book[o]
  /\ invoked' = invoked \cup {[o |-> o, msgid |-> cur.msgid, peer |-> peer, d |-> cur, n |-> ndel, src |-> a,
                               entry |-> nb[cur.key]]}
  /\ verified' = [verified EXCEPT ![o] = @ \cup newv]
  /\ book' = [book EXCEPT ![o] = nb]
  /\ noted' = noted \cup {[o |-> o, n |-> ndel, k |-> k] : k \in tk}
  /\ KeyMemory(cur.key)
  /\ inflight' = FALSE /\ ndel' = ndel + 1 /\ UNCHANGED <<cur, muts, seen, signed, acq>>

(* the datagram, arriving from address a, is dropped (other prefix, unknown id, failed check, or the        *)
(* handler declines): a rejected datagram leaves the verified-peer table alone                              *)
Drop(o, a) ==
  /\ inflight /\ inflight' = FALSE /\ ndel' = ndel + 1 /\ a \in Addrs
  /\ book' = IF /\ EarlyBook      \* deviation: "known peer -> add_address(source)" placed above the verdict
                /\ cur.prefix = PrefixOf[o] /\ cur.msgid \in Authenticated[o] /\ cur.key \in Keys
                /\ book[o][cur.key] # {}
             THEN [book EXCEPT ![o][cur.key] = @ \cup {a}]
             ELSE book
  /\ noted' = IF /\ EarlyNote      \* deviation: "the sender pinged us: refresh its metrics" placed above the verdict
                 /\ cur.prefix = PrefixOf[o] /\ cur.msgid \in Authenticated[o] /\ cur.key \in Keys
                 /\ HasRecord(o, cur.key)
              THEN noted \cup {[o |-> o, n |-> ndel, k |-> cur.key]}
              ELSE noted
  /\ KeyMemory(cur.key)
  /\ UNCHANGED <<cur, muts, seen, signed, invoked, verified, acq>>

SendAny   == \E o \in Overlays, k \in Keys, m \in MsgIds, b \in Bodies : Send(o, k, m, b)
InjectAny == \E c \in [prefix : Prefixes, msgid : MsgIds, key : AllKeys, body : Bodies] : \E g \in InjectSigs(c) :
               Inject([prefix |-> c.prefix, msgid |-> c.msgid, key |-> c.key, body |-> c.body, sig |-> g])
RunAny    == \E o \in Overlays, p \in AllKeys, nv \in SUBSET AllKeys, a \in Addrs, entry \in SUBSET Addrs :
               \E tk \in (IF WithNotes THEN SUBSET Keys ELSE {{}}) :
                 Run(o, p, nv, a, [book[o] EXCEPT ![cur.key] = entry], tk)
DropAny   == \E o \in Overlays, a \in Addrs : Drop(o, a)
AcqAny    == \E o \in Overlays, k \in Keys, a \in Addrs : Acquaint(o, k, a)

Next == \/ SendAny
        \/ InjectAny
        \/ Noop \/ FlipPrefix \/ FlipMsgId \/ FlipKey \/ SubstKeyKeepSig \/ FlipBody \/ FlipSig
        \/ Truncate \/ StripAuth \/ Extend \/ Resign \/ SpliceBody \/ SpliceSig
        \/ RunAny \/ DropAny
        \/ AcqAny \/ Restart

Spec == Init /\ [][Next]_vars

(* ------------------------------------- properties --------------------------------------------- *)
TypeOK == /\ cur \in Datagram /\ inflight \in BOOLEAN /\ muts \in 0..MaxMut
          /\ seen \subseteq Datagram /\ ndel \in Nat /\ \A o \in Overlays : verified[o] \subseteq AllKeys
          /\ book \in [Overlays -> [AllKeys -> SUBSET Addrs]] /\ acq \subseteq Overlays \X Keys \X Addrs
          /\ noted \subseteq [o : Overlays, n : Nat, k : Keys] /\ kres \in [Keys -> Keys] /\ parsed \subseteq Keys

(* the adversary model is sound: a signature by an honest key exists only over what that key signed *)
Unforgeable == \A d \in (IF inflight THEN {cur} ELSE {}) \cup seen :
                 d.sig.kind = "sig" => <<d.sig.signer, d.sig.covers>> \in signed
HonestSignOnlyBySend == \A p \in signed : p[1] \in Honest =>
                          \E d \in seen : d.sig = SigOf(p[1], p[2]) /\ ContentOf(d) = p[2]

AuthOnly == \A i \in invoked : i.msgid \in Authenticated[i.o] => SigValid(i.d) /\ i.peer = i.d.key

NoForgedVerified == \A o \in Overlays : \A k \in verified[o] :
                      \/ k \in AcqVerified(o)
                      \/ \E i \in invoked : /\ i.o = o /\ i.d.key = k /\ i.peer = k
                                            /\ <<k, ContentOf(i.d)>> \in signed

(* "nobody can make a node attribute ... a verified-peer entry to a key whose private half they do not hold": *)
(* every address in the entry of key k was put there by an acquaintance of k or by the handler of an          *)
(* authenticated message with a valid signature of k over everything (a content that k really signed)         *)
BookLegit == \A o \in Overlays : \A k \in Keys : \A a \in book[o][k] :
               \/ <<o, k, a>> \in acq
               \/ \E i \in invoked : /\ i.o = o /\ i.d.key = k /\ i.msgid \in Authenticated[o] /\ a \in i.entry
                                     /\ SigValid(i.d) /\ <<k, ContentOf(i.d)>> \in signed
BookNoKeyEmpty == \A o \in Overlays : book[o][NoKey] = {}

(* a delivery that runs no handler (a rejected datagram) changes nothing the node believes about its peers *)
RejectInert == [][(inflight /\ ~inflight' /\ invoked' = invoked) =>
                    (book' = book /\ verified' = verified /\ noted' = noted)]_vars

(* whatever a node records about a key (outside the table too) it records in a delivery that ran a handler; for an   *)
(* authenticated message id that datagram carried a valid signature of a content its key really signed              *)
NotesLegit == \A t \in noted : \E i \in invoked :
                /\ i.o = t.o /\ i.n = t.n
                /\ i.msgid \in Authenticated[i.o] => SigValid(i.d) /\ <<i.d.key, ContentOf(i.d)>> \in signed

(* the serialized form of a key resolves to that key, whatever was parsed before *)
KeyResolution == \A k \in Keys : kres[k] = k

OverlaySeparation == \A i \in invoked : i.msgid \in Authenticated[i.o] =>
                       i.d.sig.kind = "sig" /\ i.d.sig.covers.prefix = PrefixOf[i.o]

(* nobody is attributed a message he did not sign: for honest keys the content was sent by that key *)
HonestAttribution == \A i \in invoked : (i.msgid \in Authenticated[i.o] /\ i.peer \in Honest) =>
                       <<i.peer, ContentOf(i.d)>> \in signed
=============================================================================
