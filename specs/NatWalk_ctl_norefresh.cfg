SPECIFICATION Spec
CONSTANTS K = 1 SendPuncture = TRUE PunctureFirst = TRUE FollowAll = FALSE MaxId = 40 QuietCalls = TRUE
          APlaces = {"nat"} CandPlaces = {"nat"}
          MaxContactsA = 2 MaxContactsB = 2
          MinContacts = 2 MaxRebinds = 1 Clock0 = 65534 Refresh = FALSE Ident16 = TRUE
          Svcs = {"M"} Phased = FALSE V6N = 0 StyleAware = TRUE SvcWalkable = TRUE
INVARIANT Reach
INVARIANT HandsOutCurrent
INVARIANT HoldsWorking
CHECK_DEADLOCK FALSE
