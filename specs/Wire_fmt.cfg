SPECIFICATION Spec
CONSTANTS
  Pinned = {}
  Pads = {0, 3}
  FmtSel <- ModelFmts
  ClsSel <- Classes
  K = 6
INVARIANT RoundTrip
INVARIANT ExactConsumption
INVARIANT ReEncode
INVARIANT DocWidth
INVARIANT PrefixFree
INVARIANT TruncationRejected
