SPECIFICATION TraceSpec
CONSTANTS PL = 22 CidLen = 4 CellId = 0 NoCrypto = {2, 3} ExtendId = 4 MaxRelayEarly = 8 Pinned = FALSE
          MaxOps = 100000000 MaxRecv = 100000000
          Pkts = {} Lids = {} Pfxs = {} Tuns = {} XPkts = {} Vias = {} Dev = {} Ipv8Versions = {1, 2} TunOps = {}
INVARIANT TraceAccepted
INVARIANT Total
INVARIANT PrefixIsolation
INVARIANT OnlyRegisteredIds
INVARIANT AllListenersServed
