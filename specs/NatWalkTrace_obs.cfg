SPECIFICATION TraceSpec
CONSTANTS Strict = FALSE K = 1 SendPuncture = TRUE PunctureFirst = TRUE FollowAll = FALSE QuietCalls = FALSE MaxId = 1
          APlaces = {} CandPlaces = {} MaxContactsA = 1 MaxContactsB = 1
INVARIANT TraceAccepted
INVARIANT ReachAtEnd
INVARIANT LanMeetAtEnd
INVARIANT AsksPuncture
