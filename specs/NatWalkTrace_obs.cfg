SPECIFICATION TraceSpec
CONSTANTS Strict = FALSE K = 1 SendPuncture = TRUE PunctureFirst = TRUE FollowAll = FALSE QuietCalls = FALSE MaxId = 1
          APlaces = {} CandPlaces = {} MaxContactsA = 1 MaxContactsB = 1
          MinContacts = 1 MaxRebinds = 1000 Clock0 = 0 Refresh = TRUE Ident16 = TRUE
          Svcs = {"M", "X"} Phased = FALSE V6N = 0 StyleAware = TRUE SvcWalkable = TRUE
INVARIANT TraceAccepted
INVARIANT ReachAtEnd
INVARIANT LanMeetAtEnd
INVARIANT AsksPuncture
INVARIANT HandsOutCurrent
INVARIANT HoldsWorkingAtEnd
INVARIANT IdentFits
