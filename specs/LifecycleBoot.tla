---------------------------- MODULE LifecycleBoot ----------------------------
(* G04 - bootstrapping:  ipv8/community.py : Community.bootstrap, _bootstrap, ensure_blacklisted,   *)
(*   get_new_introduction (keep-alive branch), unload;                                              *)
(*   ipv8/bootstrapping/dispersy/bootstrapper.py : DispersyBootstrapper                             *)
(*   ipv8/bootstrapping/udpbroadcast/bootstrapper.py : UDPBroadcastBootstrapper,                    *)
(*   BroadcastBootstrapEndpoint.                                                                    *)
(*                                                                                                  *)
(* One overlay with its sequence of bootstrappers (kind "d" = Dispersy, "u" = UDP broadcast).       *)
(* One action per call / task step (what runs until every task waits again):                        *)
(*   Bootstrap       Community.bootstrap(): one _bootstrap task per attached bootstrapper.  Each    *)
(*                   task first SCHEDULES initialize(), then runs get_addresses() (rate limited:    *)
(*                   nothing unless bootstrap_timeout has passed since the last round; Dispersy:    *)
(*                   ensure_blacklisted + walk_to every known address; UDP: one beacon sweep if the *)
(*                   socket is open), then waits for initialize().  initialize() runs after ALL     *)
(*                   get_addresses (Dispersy, first time: blacklist.extend(ip_addresses), DNS       *)
(*                   look-ups started; UDP, first time: the broadcast socket starts opening).       *)
(*   DnsResolve(b, n, r)  one DNS look-up of Dispersy bootstrapper b completes (address r or fail)  *)
(*   OpenDone(b, ok)      the broadcast socket of b is open (first beacon sweep) / could not open   *)
(*   KeepAlive(k)    get_new_introduction() taking its keep-alive branch: every attached            *)
(*                   bootstrapper keep_alive(): Dispersy ensure_blacklisted + walk_to one address   *)
(*                   (choice = index k), UDP one beacon sweep                                       *)
(*   BcastIn(b, kind, x)  datagram on the broadcast socket: announce for our prefix -> walk_to(x),  *)
(*                   announce for another prefix / garbage -> nothing, overlay packet (an           *)
(*                   introduction request of x) -> handed to Community.on_packet                    *)
(*   WalkOther(x), Answer(a)   an ordinary walk; the introduction response of an address we wrote   *)
(*                   to arrives: it becomes a verified peer unless its address is blacklisted       *)
(*   Tick, Unload    the clock; Community.unload(): bootstrappers popped and unloaded, tasks        *)
(*                   cancelled (a pending initialize is cancelled with its _bootstrap task)         *)
(*                                                                                                  *)
(* SAFETY PROPERTIES ("Overlays should not consider bootstrap nodes to be normal peers",            *)
(* "Add an address to the blacklist, if it is not already there", bootstrap_timeout,                *)
(* "Stop and unload all the resources used by this Bootstrapper"):                                  *)
(*  B1 ContactedBlacklisted  a bootstrapper only writes to an address that is on the blacklist at   *)
(*                           that moment (so the answer cannot turn the bootstrap node into a peer) *)
(*  B2 NoPeerAfterContact    an address never becomes a verified peer after a bootstrapper wrote to *)
(*                           it; the blacklist never shrinks (BlacklistMonotone)                    *)
(*  B3 RateLimit             two bootstrap rounds of one bootstrapper (get_addresses that went      *)
(*                           through) are at least bootstrap_timeout apart                          *)
(*  B4 InitOnce / BootIPsBlacklisted  initialize takes effect once per bootstrapper; once a         *)
(*                           Dispersy bootstrapper is initialized its configured addresses are      *)
(*                           blacklisted                                                            *)
(*  B5 QuietAfterUnload / SocketsClosed  after unload no bootstrapper writes or beacons any more,   *)
(*                           no broadcast socket is left open, nothing starts opening               *)
(*  B6 ForeignIgnored        an announce for another prefix or garbage changes nothing              *)
(*                                                                                                  *)
(* ALLOWED, NOTED (not judged): the beacon sent by initialize() is not counted as a round; an       *)
(* address learned by DNS is only blacklisted when it is first written to (next round or            *)
(* keep-alive), so until then it could be introduced by others and become a peer; the blacklist     *)
(* list may hold duplicates (it is read as a set).                                                  *)
(* DEVIATION CONSTANTS (negative controls): NoEnsure (no ensure_blacklisted before walk_to),        *)
(* NoRate (rate check dropped), LeakSocket (unload leaves the broadcast socket open).               *)
EXTENDS Integers, Sequences, FiniteSets, TLC

CONSTANTS Boots,     \* sequence of bootstrapper ids attached to the overlay by the configuration
          Kind,      \* [id -> "d" | "u"]
          ConfIPs,   \* [id -> Seq(Addr)] configured ip_addresses
          Names,     \* [id -> SUBSET Name] configured dns_addresses
          DnsAddr,   \* addresses a look-up may give
          Others,    \* ordinary nodes
          TO, MaxT,
          NoEnsure, NoRate, LeakSocket

Ids == {Boots[i] : i \in 1..Len(Boots)}
Range(s) == {s[i] : i \in 1..Len(s)}

VARIABLES now, loaded, attached, ips, inited, dnsPend, last, blacklist, sock, awaiting, peers,
          out,       \* what the last action sent: [walks : Seq(Addr), beacons : Nat, handoffs : Nat]
          written,   \* history: addresses a bootstrapper wrote to
          unlisted,  \* history: addresses a bootstrapper wrote to while they were not blacklisted
          lateAdds,  \* history: addresses that became a peer after a bootstrapper wrote to them
          tooSoon, initRuns
vars == <<now, loaded, attached, ips, inited, dnsPend, last, blacklist, sock, awaiting, peers, out,
          written, unlisted, lateAdds, tooSoon, initRuns>>

Quiet == [walks |-> <<>>, beacons |-> 0, handoffs |-> 0]

Init == /\ now = 0 /\ loaded = TRUE /\ attached = Boots
        /\ ips = [b \in Ids |-> ConfIPs[b]] /\ inited = [b \in Ids |-> FALSE]
        /\ dnsPend = [b \in Ids |-> {}] /\ last = [b \in Ids |-> -1]
        /\ blacklist = {} /\ sock = [b \in Ids |-> "none"] /\ awaiting = {} /\ peers = {}
        /\ out = Quiet /\ written = {} /\ unlisted = {} /\ lateAdds = {}
        /\ tooSoon = FALSE /\ initRuns = [b \in Ids |-> 0]

(* get_addresses of the bootstrappers bs (in order) on the accumulated record a *)
RECURSIVE Rounds(_, _)
Rounds(bs, a) ==
  IF bs = <<>> THEN a
  ELSE LET b == Head(bs) IN
       IF ~NoRate /\ a.last[b] # -1 /\ now - a.last[b] < TO THEN Rounds(Tail(bs), a)
       ELSE LET soon == a.last[b] # -1 /\ now - a.last[b] < TO
                a1 == [a EXCEPT !.last[b] = now, !.soon = @ \/ soon]
            IN IF Kind[b] = "d"
               THEN Rounds(Tail(bs),
                           [a1 EXCEPT !.bl = IF NoEnsure THEN @ ELSE @ \cup Range(ips[b]),
                                      !.walks = @ \o ips[b],
                                      !.unl = @ \cup (Range(ips[b]) \ (IF NoEnsure THEN a.bl ELSE Range(ips[b])))])
               ELSE Rounds(Tail(bs), [a1 EXCEPT !.beacons = @ + (IF sock[b] = "open" THEN 1 ELSE 0)])

Bootstrap ==
  /\ LET r == Rounds(attached, [last |-> last, bl |-> blacklist, walks |-> <<>>, beacons |-> 0, unl |-> {},
                                soon |-> FALSE])
         fresh == {b \in Range(attached) : ~inited[b]}
     IN /\ last' = r.last
        /\ blacklist' = r.bl \cup UNION {Range(ips[b]) : b \in {x \in fresh : Kind[x] = "d"}}
        /\ out' = [walks |-> r.walks, beacons |-> r.beacons, handoffs |-> 0]
        /\ awaiting' = awaiting \cup Range(r.walks)
        /\ written' = written \cup Range(r.walks)
        /\ unlisted' = unlisted \cup r.unl
        /\ tooSoon' = (tooSoon \/ r.soon)
        /\ inited' = [b \in Ids |-> inited[b] \/ b \in fresh]
        /\ initRuns' = [b \in Ids |-> initRuns[b] + (IF b \in fresh THEN 1 ELSE 0)]
        /\ dnsPend' = [b \in Ids |-> IF b \in fresh /\ Kind[b] = "d" THEN Names[b] ELSE dnsPend[b]]
        /\ sock' = [b \in Ids |-> IF b \in fresh /\ Kind[b] = "u" THEN "opening" ELSE sock[b]]
  /\ UNCHANGED <<now, loaded, attached, ips, peers, lateAdds>>

DnsResolve(b, n, r) ==
  /\ n \in dnsPend[b]
  /\ dnsPend' = [dnsPend EXCEPT ![b] = @ \ {n}]
  /\ ips' = IF r # "fail" /\ r \notin Range(ips[b]) THEN [ips EXCEPT ![b] = Append(@, r)] ELSE ips
  /\ out' = Quiet
  /\ UNCHANGED <<now, loaded, attached, inited, last, blacklist, sock, awaiting, peers, written, unlisted, lateAdds,
                 tooSoon, initRuns>>

OpenDone(b, ok) ==
  /\ sock[b] = "opening"
  /\ sock' = [sock EXCEPT ![b] = IF ok THEN "open" ELSE "failed"]
  /\ out' = [Quiet EXCEPT !.beacons = IF ok THEN 1 ELSE 0]      \* "Start sending"
  /\ UNCHANGED <<now, loaded, attached, ips, inited, dnsPend, last, blacklist, awaiting, peers, written, unlisted,
                 lateAdds, tooSoon, initRuns>>

RECURSIVE Alive(_, _, _)
Alive(bs, k, a) ==
  IF bs = <<>> THEN a
  ELSE LET b == Head(bs) IN
       IF Kind[b] = "d"
       THEN IF ips[b] = <<>> THEN Alive(Tail(bs), k, a)
            ELSE LET x == ips[b][(k % Len(ips[b])) + 1] IN
                 Alive(Tail(bs), k, [a EXCEPT !.bl = IF NoEnsure THEN @ ELSE @ \cup {x}, !.walks = Append(@, x),
                                              !.unl = @ \cup (IF NoEnsure /\ x \notin a.bl THEN {x} ELSE {})])
       ELSE Alive(Tail(bs), k, [a EXCEPT !.beacons = @ + (IF sock[b] = "open" THEN 1 ELSE 0)])

KeepAlive(k) ==
  /\ loaded /\ peers # {} /\ \E b \in Range(attached) : inited[b]
  /\ LET r == Alive(attached, k, [bl |-> blacklist, walks |-> <<>>, beacons |-> 0, unl |-> {}])
     IN /\ blacklist' = r.bl
        /\ out' = [walks |-> r.walks, beacons |-> r.beacons, handoffs |-> 0]
        /\ awaiting' = awaiting \cup Range(r.walks)
        /\ written' = written \cup Range(r.walks)
        /\ unlisted' = unlisted \cup r.unl
  /\ UNCHANGED <<now, loaded, attached, ips, inited, dnsPend, last, sock, peers, lateAdds, tooSoon,
                 initRuns>>

BcastIn(b, kind, x) ==
  /\ sock[b] = "open"
  /\ CASE kind = "announce-own" -> /\ out' = [Quiet EXCEPT !.walks = <<x>>]
                                   /\ awaiting' = awaiting \cup {x} /\ peers' = peers /\ lateAdds' = lateAdds
       [] kind = "packet"       -> /\ out' = [Quiet EXCEPT !.handoffs = 1]
                                   /\ peers' = IF x \in blacklist THEN peers ELSE peers \cup {x}
                                   /\ lateAdds' = IF x \notin blacklist /\ x \notin peers /\ x \in written
                                                  THEN lateAdds \cup {x} ELSE lateAdds
                                   /\ awaiting' = awaiting
       [] OTHER                 -> /\ out' = Quiet /\ UNCHANGED <<awaiting, peers, lateAdds>>
  /\ UNCHANGED <<now, loaded, attached, ips, inited, dnsPend, last, blacklist, sock, written, unlisted, tooSoon,
                 initRuns>>

WalkOther(x) ==
  /\ loaded /\ x \notin awaiting /\ x \notin peers
  /\ awaiting' = awaiting \cup {x}
  /\ out' = [Quiet EXCEPT !.walks = <<x>>]
  /\ UNCHANGED <<now, loaded, attached, ips, inited, dnsPend, last, blacklist, sock, peers, written, unlisted, lateAdds,
                 tooSoon, initRuns>>

Answer(a) ==
  /\ a \in awaiting
  /\ awaiting' = awaiting \ {a}
  /\ peers' = IF loaded /\ a \notin blacklist THEN peers \cup {a} ELSE peers
  /\ lateAdds' = IF loaded /\ a \notin blacklist /\ a \notin peers /\ a \in written THEN lateAdds \cup {a} ELSE lateAdds
  /\ out' = Quiet
  /\ UNCHANGED <<now, loaded, attached, ips, inited, dnsPend, last, blacklist, sock, written, unlisted, tooSoon,
                 initRuns>>

Tick == /\ now < MaxT /\ now' = now + 1 /\ out' = Quiet
        /\ UNCHANGED <<loaded, attached, ips, inited, dnsPend, last, blacklist, sock, awaiting, peers, written, unlisted,
                       lateAdds, tooSoon, initRuns>>

Unload ==
  /\ loaded /\ loaded' = FALSE /\ attached' = <<>>
  /\ sock' = [b \in Ids |-> IF sock[b] = "open" THEN (IF LeakSocket THEN "open" ELSE "closed")
                            ELSE IF sock[b] = "opening" THEN "failed" ELSE sock[b]]   \* cancelled: never opens
  /\ dnsPend' = [b \in Ids |-> {}]
  /\ out' = Quiet
  /\ UNCHANGED <<now, ips, inited, last, blacklist, awaiting, peers, written, unlisted, lateAdds, tooSoon,
                 initRuns>>

Kinds == {"announce-own", "announce-other", "packet", "garbage"}

Next == \/ Bootstrap \/ Tick \/ Unload
        \/ \E b \in Ids, n \in UNION {Names[x] : x \in Ids}, r \in DnsAddr \cup {"fail"} : DnsResolve(b, n, r)
        \/ \E b \in Ids, ok \in BOOLEAN : OpenDone(b, ok)
        \/ \E k \in 0..1 : KeepAlive(k)
        \/ \E b \in Ids, kind \in Kinds, x \in Others : BcastIn(b, kind, x)
        \/ \E x \in Others : WalkOther(x)
        \/ \E a \in Others \cup DnsAddr \cup UNION {Range(ConfIPs[b]) : b \in Ids} : Answer(a)

Spec == Init /\ [][Next]_vars

(* ------------------------------------------ properties ------------------------------------------ *)
TypeOK == /\ now \in 0..MaxT /\ loaded \in BOOLEAN /\ Range(attached) \subseteq Ids
          /\ \A b \in Ids : sock[b] \in {"none", "opening", "open", "failed", "closed"} /\ last[b] \in -1..MaxT
          /\ \A b \in Ids : Len(ips[b]) = Cardinality(Range(ips[b]))

ContactedBlacklisted == unlisted = {}
NoPeerAfterContact   == lateAdds = {}
RateLimit            == ~tooSoon
InitOnce             == \A b \in Ids : initRuns[b] <= 1
BootIPsBlacklisted   == \A b \in Ids : inited[b] /\ Kind[b] = "d" => Range(ConfIPs[b]) \subseteq blacklist
QuietAfterUnload     == ~loaded => out.walks = <<>> /\ out.beacons = 0 /\ out.handoffs = 0
SocketsClosed        == ~loaded => \A b \in Ids : sock[b] \notin {"open", "opening"} /\ dnsPend[b] = {}
BlacklistMonotone    == [][blacklist \subseteq blacklist']_vars
ForeignIgnored       == [][\A b \in Ids, x \in Others : BcastIn(b, "announce-other", x) \/ BcastIn(b, "garbage", x)
                             => UNCHANGED <<blacklist, peers, awaiting, written, sock, ips>>]_vars
=============================================================================
