\* control: pongs never match their ping cache (pinned send_ping beyond global time 65535)
SPECIFICATION Spec
CONSTANTS
  Peers = {"p1", "p2"}
  Ghosts = {}
  Trackers = {}
  Own = "own"
  UseWalk = FALSE
  UseEdge = FALSE
  UseChurn = TRUE
  Window = 2
  WalkTimeout = 1
  TargetInterval = 0
  TargetPeers <- MinusOne
  MaxPeers <- MinusOne
  EdgeLen = 3
  NbSize = 1
  EdgeTimeout = 1
  SampleSize = 2
  PingInterval = 1
  InactiveTime = 1
  DropTime = 3
  MaxPings = 2
  PingCacheTimeout = 1
  BootTimeout = 2
  MaxTime = 3
  TickLens = {1}
  IntroOwn = FALSE
  Dev = {"pongUnmatched"}
CONSTRAINT Bounded
PROPERTY PongCounted
