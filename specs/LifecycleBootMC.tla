--------------------------- MODULE LifecycleBootMC ---------------------------
(* constant definitions for the model-checking configurations of LifecycleBoot.tla *)
EXTENDS LifecycleBoot
B1  == <<1>>
B12 == <<1, 2>>
\* d : one Dispersy bootstrapper, two configured addresses, one DNS name (may resolve to a known or a new address)
KindD  == (1 :> "d")
IPsD   == (1 :> <<"A", "B">>)
NamesD == (1 :> {"n1"})
\* du : Dispersy (one address, one DNS name) + UDP broadcast
KindDU  == (1 :> "d" @@ 2 :> "u")
IPsDU   == (1 :> <<"A">> @@ 2 :> <<>>)
NamesDU == (1 :> {"n1"} @@ 2 :> {})
\* dd : two Dispersy bootstrappers that share an address, no DNS
KindDD  == (1 :> "d" @@ 2 :> "d")
IPsDD   == (1 :> <<"A">> @@ 2 :> <<"A", "B">>)
NamesDD == (1 :> {} @@ 2 :> {})
\* u : UDP broadcast alone
KindU  == (1 :> "u")
IPsU   == (1 :> <<>>)
NamesU == (1 :> {})
=============================================================================
