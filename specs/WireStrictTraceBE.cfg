SPECIFICATION TraceSpec
CONSTANTS ArrBE = TRUE Lenient = FALSE Alphabet = {} MaxLen = 0
CONSTANT Formats <- TrFormats
INVARIANT TraceAccepted
