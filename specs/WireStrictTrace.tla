-------------------------- MODULE WireStrictTrace --------------------------
(* Decodes performed by the real Serializer (harness/drivers/c03.py) checked against WireStrict.tla.    *)
(* An event is accepted iff the code rejected the bytes (any exception) or the strict decoder accepts    *)
(* them too, with the same length-prefixed parts and an end offset inside the buffer.  Network.          *)
(* load_snapshot must return normally and load no more addresses than there are well-formed records.    *)
EXTENDS WireStrict, Json, IOUtils, TLCExt

Batches == JsonDeserialize(IOEnv.TRACE_FILE)
TrFormats == << <<>> >>

VARIABLES tid, l, bad, drift
tvars == <<wvars, tid, l, bad, drift>>

Ev   == Batches[tid].events
Defs == Batches[tid].defs

TraceInit == tid \in 1..Len(Batches) /\ l = 1 /\ bad = "" /\ drift = 0 /\ fi = 1 /\ buf = <<>>

Classes(e) == [i \in DOMAIN e.f |-> Defs[e.f[i]]]
Expected(e) == DecMsgList(Classes(e), e.buf, e.off, e.ca)

Reason(e) ==
  IF e.m = "snap" THEN (IF e.raised THEN "snapshot-raised"
                        ELSE IF e.n > SnapCount(e.buf, 0) THEN "snapshot-overread" ELSE "")
  ELSE IF ~e.ok THEN ""
  ELSE LET r == Expected(e) IN
       IF ~r.ok THEN "accepted-truncated"
       ELSE IF e.end > Len(e.buf) THEN "end-outside"
       ELSE IF e.m # "real" /\ e.v # [i \in DOMAIN r.v |-> StripAll(r.v[i])] THEN "fields"
       ELSE IF e.m = "list" /\ ~e.ca /\ e.rem # Slice(e.buf, r.end, Len(e.buf) - r.end) THEN "remainder"
       ELSE ""
Exact(e) == IF e.m = "snap" THEN TRUE      \* host names must also be UTF-8, which the structural count does not model
            ELSE LET r == Expected(e) IN e.ok = r.ok /\ (e.ok => e.end = r.end)

TraceNext ==
  /\ l <= Len(Ev)
  /\ LET e == Ev[l]
         reason == Reason(e)
         exact == Exact(e)
     IN /\ bad' = IF bad # "" THEN bad ELSE reason
        /\ drift' = IF exact THEN drift ELSE drift + 1
        /\ (reason # "" => PrintT(<<"C03BAD", tid, l, reason>>))
        /\ ((~exact /\ drift < 3) => PrintT(<<"C03DRIFT", tid, l>>))
  /\ l' = l + 1 /\ UNCHANGED <<tid, fi, buf>>

TraceSpec == TraceInit /\ [][TraceNext]_tvars
TraceAccepted == bad = ""
=============================================================================
