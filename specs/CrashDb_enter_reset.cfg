SPECIFICATION Spec
CONSTANTS MaxRecs = 2 MaxCalls = 3 MaxRuns = 2 CommitBeforeReturn = TRUE TolerantVersionRead = TRUE
          AtomicUpgrade = TRUE Legacy = FALSE MaxBatches = 2 GateResetOnError = TRUE ReloadWait = 0 MaxDepth = 2 EnterKeepsPending = FALSE ParentFirst = TRUE
CONSTANTS MaxVers = 1 TokenConflict = "ignore" MaxFaults = 0 CommitErrorRaises = TRUE
INVARIANT TypeOK
INVARIANT AckedUnchanged
INVARIANT AckedDurable
INVARIANT NoPartialRecord
INVARIANT ReopenOk
INVARIANT PseudonymVerifies
INVARIANT RebuiltHasAcked
INVARIANT RebuiltVerifies
