------------------------------- MODULE Unload -------------------------------
(* Life cycle of one overlay: ipv8/overlay.py Overlay.__init__/unload, ipv8/community.py Community.__init__/      *)
(* unload, messaging/interfaces/endpoint.py Endpoint.add_listener/add_prefix_listener/remove_listener/            *)
(* notify_listeners, messaging/anonymization/endpoint.py TunnelEndpoint (the wrapper ipv8_service puts around     *)
(* the socket endpoint), anonymization/crypto.py PythonCryptoEndpoint.setup_tunnels, anonymization/community.py   *)
(* TunnelCommunity.unload + remove_* tasks, exit_socket.py TunnelExitSocket.enable/close, requestcache.py.        *)
(*                                                                                                                *)
(* Implementation layer: the listener tables of the socket endpoint (global list, list for the overlay's prefix), *)
(* the link crypto endpoint -> overlay, the task manager (live tasks, tasks that were cancelled and still have to *)
(* take their last step, shutdown flag), the request cache (entries, shutdown flag), the open outside sockets.    *)
(* Abstract layer (property C11): once unload() has returned nothing of the overlay can run any more and every    *)
(* socket is closed (SilentAfterUnload), and nothing did run (NoLateActivity).                                    *)
(*                                                                                                                *)
(* State with history: bootstrappers (ipv8/community.py Community.bootstrap/_bootstrap/unload,                    *)
(* bootstrapping/udpbroadcast/bootstrapper.py) - initialisations in flight, the task that awaits each of them,    *)
(* their broadcast sockets; and exit sockets whose delayed removal (remove_exit_socket after a DESTROY or from     *)
(* do_remove) is already scheduled when unload is requested.                                                      *)
(*                                                                                                                *)
(* Acquisition of the outside sockets (exit_socket.py TunnelExitSocket.enable / create_transports / close): an   *)
(* exit socket opens its transports in a task of its own task manager, one attempt per address family; an        *)
(* attempt takes loop iterations and the environment may refuse it (OSError: no IPv6 on the host, no descriptors  *)
(* left) or the task may be cancelled while it waits (then no socket comes to exist). Every transport that came  *)
(* to exist is recorded by its exit socket at once, so that close() - at a removal or at unload, after a failed  *)
(* or cancelled opening job as well - releases it.                                                               *)
(*                                                                                                                *)
(* The switches describe deviations (the first three were found in the pinned tree); TRUE = repaired behaviour,   *)
(* which is what the traces of the real code are validated against (UnloadTrace.tla).                             *)
EXTENDS Naturals, FiniteSets, TLC

CONSTANTS Wirings,               \* subset of {"plain", "tunnel"}: socket endpoint / TunnelEndpoint around it
          Kinds,                 \* subset of {"basic", "cache", "tunnel"}: Community / + request cache / TunnelCommunity
          MaxTasks, MaxCaches, MaxSocks,
          WrapperForwardsRemove, \* TunnelEndpoint.remove_listener reaches the socket endpoint's tables
          CryptoListenerRemoved, \* unload takes the PythonCryptoEndpoint prefix listener away
          RemovalAwaited,        \* unload closes circuits / exit sockets before it returns (no delayed, cancellable task)
          MaxBoot,               \* bootstrapper initialisations / bootstrap sockets
          InitAwaited,           \* the task that starts a bootstrapper's initialize() awaits it (Community._bootstrap):
                                 \* cancelling the task cancels the initialisation; FALSE = left running in the background
          UnloadRemovesPending,  \* unload closes an exit socket also when a (delayed) removal of it is already scheduled;
                                 \* FALSE = "removal already pending" makes unload's own removal a no-op
          MaxTry,                \* socket open attempts one task may have in flight
          MaxXTask,              \* task ids 1..MaxXTask may be given to tasks of exit sockets (model checking: the ids are
                                 \* interchangeable, so one is enough to have an exit socket's task next to another task)
          StoreAtOpen            \* an exit socket records each transport as soon as it exists; FALSE = it records what its
                                 \* opening job opened only when that job has ended without a failure or a cancellation

VARIABLES wiring, kind,
          glob,      \* _listeners of the socket endpoint (subset of {"ov", "crypto"})
          pfx,       \* is there an entry for the overlay's prefix in _prefix_map
          pl,        \* that entry
          link,      \* crypto endpoint forwards to the overlay (tunnel_community is set)
          phase,     \* "loaded" | "unloading" | "unloaded"
          tmShut, tasks, dying,
          rcShut, caches,
          socks,
          rmPending, \* pinned: sockets whose removal waits in a delayed task
          sub,       \* sub-steps of unload that were executed
          lateAct,   \* history: activity observed in phase "unloaded"
          initing,   \* bootstrapper initialisations in flight (coroutines started with ensure_future by a task)
          bdying,    \* ... that were cancelled together with the task awaiting them and have not ended yet
          held,      \* <<b, t>>: initialisation b is awaited by task t of the overlay
          bsocks,    \* open sockets of the overlay's bootstrappers (UDPBroadcastBootstrapper)
          xtasks,    \* the tasks (of tasks \cup dying) that belong to the task manager of an exit socket
          trying,    \* <<t, n>>: task t has n socket open attempts in flight (n > 0, at most one pair per task)
          unstored,  \* <<s, t>>: open socket s was opened by task t and is not recorded by its exit socket (t = 0: the
                     \* job that opened it is gone, it never will be); always empty with StoreAtOpen
          tfailed    \* ~StoreAtOpen: tasks one of whose open attempts was refused
BootVars == <<initing, bdying, held, bsocks>>
OpenVars == <<xtasks, trying, unstored, tfailed>>
vars == <<wiring, kind, glob, pfx, pl, link, phase, tmShut, tasks, dying, rcShut, caches, socks, rmPending, sub, lateAct,
          initing, bdying, held, bsocks, xtasks, trying, unstored, tfailed>>

TaskIds  == 1..MaxTasks
CacheIds == 1..MaxCaches
SockIds  == 1..MaxSocks
BootIds  == 1..MaxBoot

---------------------------------------------------------------------------
(* Endpoint listener tables as the code manipulates them; t = [glob, pfx, pl] *)
AddL(t, x)  == [glob |-> t.glob \cup {x}, pfx |-> t.pfx, pl |-> IF t.pfx THEN t.pl \cup {x} ELSE t.pl]
AddP(t, x)  == [glob |-> t.glob, pfx |-> TRUE, pl |-> (IF t.pfx THEN t.pl ELSE {}) \cup {x} \cup t.glob]
RemL(t, x)  == LET g == t.glob \ {x}
                   p == t.pl \ {x}
               IN [glob |-> g, pfx |-> t.pfx /\ p # g, pl |-> IF t.pfx /\ p # g THEN p ELSE {}]
(* remove_listener called on the endpoint object the overlay holds *)
RemVia(w, t, x) == IF w = "tunnel" /\ ~WrapperForwardsRemove THEN t ELSE RemL(t, x)

Empty == [glob |-> {}, pfx |-> FALSE, pl |-> {}]
(* Overlay.__init__: add_listener; Community.__init__: remove_listener, add_prefix_listener *)
AfterCommunityInit(w) == AddP(RemVia(w, AddL(Empty, "ov"), "ov"), "ov")
(* PythonCryptoEndpoint.setup_tunnels: remove overlay, remove self, add_prefix_listener(self) *)
AfterTunnelInit(w)    == AddP(RemVia(w, RemVia(w, AfterCommunityInit(w), "ov"), "crypto"), "crypto")

Tables  == [glob |-> glob, pfx |-> pfx, pl |-> pl]
Targets == IF pfx THEN pl ELSE glob            \* notify_listeners for a datagram with the overlay's prefix
Reach   == "ov" \in Targets \/ ("crypto" \in Targets /\ link)
Alive   == Reach \/ tasks # {} \/ dying # {} \/ caches # {} \/ socks # {} \/ initing # {} \/ bsocks # {}
MayAct  == phase # "unloaded" \/ Alive          \* while loaded the application may call into the overlay as well

(* open attempts task t has in flight *)
Tr(t)       == IF \E n \in 1..MaxTry : <<t, n>> \in trying THEN CHOOSE n \in 1..MaxTry : <<t, n>> \in trying ELSE 0
SetTr(t, n) == {p \in trying : p[1] # t} \cup (IF n > 0 THEN {<<t, n>>} ELSE {})
(* the open sockets an exit socket has on record: what its close() closes *)
Unrecorded == {p[1] : p \in unstored}
Recorded   == socks \ Unrecorded

InitFor(w, k) ==
        /\ wiring = w /\ kind = k
        /\ LET t == IF k = "tunnel" THEN AfterTunnelInit(w) ELSE AfterCommunityInit(w)
           IN glob = t.glob /\ pfx = t.pfx /\ pl = t.pl
        /\ link = (k = "tunnel")
        /\ phase = "loaded" /\ tmShut = FALSE /\ tasks = {} /\ dying = {} /\ rcShut = FALSE /\ caches = {}
        /\ socks = {} /\ rmPending = {} /\ sub = {} /\ lateAct = FALSE
        /\ initing = {} /\ bdying = {} /\ held = {} /\ bsocks = {}
        /\ xtasks = {} /\ trying = {} /\ unstored = {} /\ tfailed = {}
Init == \E w \in Wirings, k \in Kinds : InitFor(w, k)

Act   == lateAct' = (lateAct \/ phase = "unloaded")
Keep1 == UNCHANGED <<wiring, kind, glob, pfx, pl, link, phase, sub>>

---------------------------------------------------------------------------
(* activity *)
(* a message handler runs: the overlay is reachable from the socket endpoint (while unload() is in progress deliveries *)
(* that were already on their way may still be processed - the property only speaks about the time after it)       *)
Handler == /\ (Reach \/ phase = "unloading") /\ Act
           /\ UNCHANGED <<wiring, kind, glob, pfx, pl, link, phase, tmShut, tasks, dying, rcShut, caches, socks,
                          rmPending, sub>>
           /\ UNCHANGED BootVars /\ UNCHANGED OpenVars
Send == /\ MayAct /\ Act
        /\ UNCHANGED <<wiring, kind, glob, pfx, pl, link, phase, tmShut, tasks, dying, rcShut, caches, socks,
                       rmPending, sub>>
        /\ UNCHANGED BootVars /\ UNCHANGED OpenVars
(* register_task on the overlay ("ov"), its request cache ("cache") or one of its exit sockets ("sock"): a call may  *)
(* come at any time; it is accepted only while that manager is not shut down (and may be refused for a name in use). *)
(* The exit sockets' managers are shut down when unload closes the exit sockets (U_Tunnels).                          *)
Owners == {"ov", "cache", "sock"}
Register(t, own, ok) ==
                   /\ t \notin tasks \cup dying
                   /\ ok => CASE own = "ov"    -> ~tmShut
                               [] own = "cache" -> kind # "basic" /\ ~rcShut
                               [] own = "sock"  -> kind = "tunnel" /\ phase # "unloaded" /\ t <= MaxXTask
                                                   /\ (RemovalAwaited => "tunnels" \notin sub)
                   /\ tasks' = IF ok THEN tasks \cup {t} ELSE tasks
                   /\ xtasks' = IF ok /\ own = "sock" THEN xtasks \cup {t} ELSE xtasks
                   /\ Keep1 /\ UNCHANGED <<tmShut, dying, rcShut, caches, socks, rmPending, lateAct>>
                   /\ UNCHANGED BootVars /\ UNCHANGED <<trying, unstored, tfailed>>
TaskStep(t) == /\ t \in tasks \cup dying /\ Act
               /\ Keep1 /\ UNCHANGED <<tmShut, tasks, dying, rcShut, caches, socks, rmPending>>
               /\ UNCHANGED BootVars /\ UNCHANGED OpenVars
(* a task that awaits an initialisation it started cannot end before that initialisation has ended; a task that    *)
(* awaits the opening of a socket cannot end before that attempt has succeeded, was refused, or was abandoned      *)
(* because the task is cancelled.                                                                                    *)
(* ~StoreAtOpen: the sockets an opening job opened are recorded now, unless the job failed or was cancelled.        *)
TaskEnd(t) == /\ t \in tasks \cup dying
              /\ \A b \in initing : <<b, t>> \notin held
              /\ Tr(t) = 0
              /\ tasks' = tasks \ {t} /\ dying' = dying \ {t}
              /\ xtasks' = xtasks \ {t} /\ tfailed' = tfailed \ {t}
              /\ unstored' = IF t \in dying \/ t \in tfailed
                             THEN {p \in unstored : p[2] # t} \cup {<<p[1], 0>> : p \in {q \in unstored : q[2] = t}}
                             ELSE {p \in unstored : p[2] # t}
              /\ Keep1 /\ UNCHANGED <<tmShut, rcShut, caches, socks, rmPending, lateAct, trying>>
              /\ UNCHANGED BootVars
CacheAdd(c, ok) == /\ kind # "basic" /\ c \notin caches
                   /\ ok => ~rcShut
                   /\ caches' = IF ok THEN caches \cup {c} ELSE caches
                   /\ Keep1 /\ UNCHANGED <<tmShut, tasks, dying, rcShut, socks, rmPending, lateAct>>
                   /\ UNCHANGED BootVars /\ UNCHANGED OpenVars
CacheTimeout(c) == /\ c \in caches /\ Act
                   /\ caches' = caches \ {c}
                   /\ Keep1 /\ UNCHANGED <<tmShut, tasks, dying, rcShut, socks, rmPending>>
                   /\ UNCHANGED BootVars /\ UNCHANGED OpenVars
CachePop(c) == /\ c \in caches /\ MayAct
               /\ caches' = caches \ {c}
               /\ Keep1 /\ UNCHANGED <<tmShut, tasks, dying, rcShut, socks, rmPending, lateAct>>
               /\ UNCHANGED BootVars /\ UNCHANGED OpenVars

---------------------------------------------------------------------------
(* An exit socket opens its outside transports when a data cell for it arrives: enable() registers a task with the  *)
(* exit socket's task manager, and that task asks the loop for a datagram endpoint per address family.             *)
(* SockTry: the request to the loop (create_datagram_endpoint called in a step of task t, or of a coroutine t       *)
(* started and awaits). It is answered some loop iterations later: by SockOpen, by SockFail when the environment   *)
(* refuses (OSError), or by SockFail when t was cancelled in between - the loop hands no socket to a cancelled     *)
(* caller, it closes what it had half opened.                                                                      *)
SockTry(t) == /\ kind = "tunnel" /\ t \in xtasks /\ t \in tasks /\ Tr(t) < MaxTry
              /\ trying' = SetTr(t, Tr(t) + 1)
              /\ Keep1 /\ UNCHANGED <<tmShut, tasks, dying, rcShut, caches, socks, rmPending, lateAct>>
              /\ UNCHANGED BootVars /\ UNCHANGED <<xtasks, unstored, tfailed>>
SockOpen(s, t) == /\ kind = "tunnel" /\ s \notin socks /\ Tr(t) > 0 /\ t \in tasks /\ Act
                  /\ socks' = socks \cup {s}
                  /\ trying' = SetTr(t, Tr(t) - 1)
                  /\ unstored' = IF StoreAtOpen THEN unstored ELSE unstored \cup {<<s, t>>}
                  /\ Keep1 /\ UNCHANGED <<tmShut, tasks, dying, rcShut, caches, rmPending>>
                  /\ UNCHANGED BootVars /\ UNCHANGED <<xtasks, tfailed>>
SockFail(t) == /\ Tr(t) > 0
               /\ trying' = SetTr(t, Tr(t) - 1)
               /\ tfailed' = IF StoreAtOpen \/ t \in dying THEN tfailed ELSE tfailed \cup {t}
               /\ Keep1 /\ UNCHANGED <<tmShut, tasks, dying, rcShut, caches, socks, rmPending, lateAct>>
               /\ UNCHANGED BootVars /\ UNCHANGED <<xtasks, unstored>>
SockClose(s) == /\ s \in socks
                /\ socks' = socks \ {s} /\ rmPending' = rmPending \ {s}
                /\ unstored' = {p \in unstored : p[1] # s}
                /\ Keep1 /\ UNCHANGED <<tmShut, tasks, dying, rcShut, caches, lateAct>>
                /\ UNCHANGED BootVars /\ UNCHANGED <<xtasks, trying, tfailed>>
(* a datagram from the outside world arrives on an open exit socket and is tunnelled back *)
SockIn(s) == /\ s \in socks /\ Act
             /\ Keep1 /\ UNCHANGED <<tmShut, tasks, dying, rcShut, caches, socks, rmPending>>
             /\ UNCHANGED BootVars /\ UNCHANGED OpenVars
(* remove_exit_socket while the overlay is in use (DESTROY of the circuit's owner, do_remove: idle / old / traffic  *)
(* limit): a task that sleeps remove_tunnel_delay seconds and then closes the socket (= SockClose). Requested     *)
(* again for a socket whose removal is already pending it changes nothing.                                        *)
RemoveSched(s) == /\ kind = "tunnel" /\ phase # "unloaded" /\ s \in socks
                  /\ rmPending' = rmPending \cup {s}
                  /\ Keep1 /\ UNCHANGED <<tmShut, tasks, dying, rcShut, caches, socks, lateAct>>
                  /\ UNCHANGED BootVars /\ UNCHANGED OpenVars

---------------------------------------------------------------------------
(* bootstrappers: Community.bootstrap registers a task per bootstrapper (_bootstrap), which starts              *)
(* bootstrapper.initialize(overlay) with ensure_future, asks for addresses and then awaits the initialisation.  *)
(* UDPBroadcastBootstrapper.initialize opens a broadcast socket (takes some loop iterations), beacons on it, and *)
(* hands every datagram that arrives there to overlay.walk_to / overlay.on_packet.                               *)
(* t = the task of the overlay (registered with its own task manager, hence ~tmShut) in whose step initialize()  *)
(* is called                                                                                                     *)
BootInit(b, t) == /\ phase # "unloaded" /\ ~tmShut /\ t \in tasks /\ b \notin initing \cup bdying
                  /\ initing' = initing \cup {b}
                  /\ held' = IF InitAwaited THEN held \cup {<<b, t>>} ELSE held
                  /\ Keep1 /\ UNCHANGED <<tmShut, tasks, dying, rcShut, caches, socks, rmPending, lateAct, bdying, bsocks>>
                  /\ UNCHANGED OpenVars
(* the initialisation opens its socket (b = 0: a socket opened by the overlay's bootstrapper outside an          *)
(* initialisation, which it may do while the overlay is not unloaded)                                            *)
BootOpen(b, s) == /\ b \in initing \/ (b = 0 /\ phase # "unloaded")
                  /\ s \notin bsocks /\ Act
                  /\ bsocks' = bsocks \cup {s}
                  /\ Keep1 /\ UNCHANGED <<tmShut, tasks, dying, rcShut, caches, socks, rmPending, initing, bdying, held>>
                  /\ UNCHANGED OpenVars
(* the initialisation ends: returned, failed, or took the CancelledError *)
BootEnd(b) == /\ b \in initing \cup bdying
              /\ initing' = initing \ {b} /\ bdying' = bdying \ {b}
              /\ held' = {p \in held : p[1] # b}
              /\ Keep1 /\ UNCHANGED <<tmShut, tasks, dying, rcShut, caches, socks, rmPending, lateAct, bsocks>>
              /\ UNCHANGED OpenVars
BootClose(s) == /\ s \in bsocks
                /\ bsocks' = bsocks \ {s}
                /\ Keep1 /\ UNCHANGED <<tmShut, tasks, dying, rcShut, caches, socks, rmPending, lateAct, initing, bdying, held>>
                /\ UNCHANGED OpenVars
(* a datagram arrives on an open bootstrap socket: the overlay walks to its source / handles the packet *)
BootIn(s) == /\ s \in bsocks /\ Act
             /\ Keep1 /\ UNCHANGED <<tmShut, tasks, dying, rcShut, caches, socks, rmPending>>
             /\ UNCHANGED BootVars /\ UNCHANGED OpenVars

---------------------------------------------------------------------------
(* unload(); the sub-steps may come in any order, U_Done needs all of them *)
UnloadStart == /\ phase = "loaded" /\ phase' = "unloading"
               /\ UNCHANGED <<wiring, kind, glob, pfx, pl, link, tmShut, tasks, dying, rcShut, caches, socks,
                              rmPending, sub, lateAct>>
               /\ UNCHANGED BootVars /\ UNCHANGED OpenVars
(* TunnelCommunity.unload: remove_circuit / remove_relay / remove_exit_socket(remove_now=True).               *)
(* Repaired: the overlay stops listening first (no new exit socket can appear), then closes what exists and   *)
(* waits for that - whether or not a removal of the socket was scheduled before: every exit socket's close()  *)
(* shuts its task manager down (an opening job in flight is cancelled: the attempts it waits for give no      *)
(* socket any more) and closes the sockets it has on record. Pinned: done first, by delayed tasks which the   *)
(* task manager shutdown cancels. ~UnloadRemovesPending: sockets with a scheduled removal are left to that    *)
(* (sleeping, cancellable) task.                                                                               *)
U_Tunnels == /\ phase = "unloading" /\ kind = "tunnel" /\ "tunnels" \notin sub
             /\ RemovalAwaited => "listener" \in sub
             /\ sub' = sub \cup {"tunnels"}
             /\ IF ~RemovalAwaited
                THEN /\ socks' = socks /\ rmPending' = socks      \* sleeping remove_* tasks own the closing
                     /\ UNCHANGED <<tasks, dying, unstored>>
                ELSE /\ socks' = socks \ (IF UnloadRemovesPending THEN Recorded ELSE Recorded \ rmPending)
                     /\ rmPending' = IF UnloadRemovesPending THEN {} ELSE rmPending
                     /\ tasks' = tasks \ xtasks /\ dying' = dying \cup (tasks \cap xtasks)
                     /\ UNCHANGED unstored
             /\ UNCHANGED <<wiring, kind, glob, pfx, pl, link, phase, tmShut, rcShut, caches, lateAct>>
             /\ UNCHANGED BootVars /\ UNCHANGED <<xtasks, trying, tfailed>>
U_Cache == /\ phase = "unloading" /\ kind # "basic"
           /\ sub' = sub \cup {"cache"} /\ rcShut' = TRUE /\ caches' = {}
           /\ UNCHANGED <<wiring, kind, glob, pfx, pl, link, phase, tmShut, tasks, dying, socks, rmPending, lateAct>>
           /\ UNCHANGED BootVars /\ UNCHANGED OpenVars
U_Listener == /\ phase = "unloading"
              /\ sub' = sub \cup {"listener"}
              /\ LET t1 == RemVia(wiring, Tables, "ov")
                     t2 == IF kind = "tunnel" /\ CryptoListenerRemoved THEN RemVia(wiring, t1, "crypto") ELSE t1
                 IN glob' = t2.glob /\ pfx' = t2.pfx /\ pl' = t2.pl
              /\ link' = IF CryptoListenerRemoved THEN FALSE ELSE link
              /\ UNCHANGED <<wiring, kind, phase, tmShut, tasks, dying, rcShut, caches, socks, rmPending, lateAct>>
              /\ UNCHANGED BootVars /\ UNCHANGED OpenVars
(* shutdown_task_manager: flag, cancel everything; the cancelled tasks (incl. pending removals) die, and with *)
(* them the initialisations they await                                                                        *)
U_Tasks == /\ phase = "unloading"
           /\ sub' = sub \cup {"tasks"} /\ tmShut' = TRUE
           /\ dying' = dying \cup tasks /\ tasks' = {} /\ rmPending' = {}
           /\ LET killed == {b \in initing : \E t \in tasks \cup dying : <<b, t>> \in held}
              IN initing' = initing \ killed /\ bdying' = bdying \cup killed
           /\ UNCHANGED <<wiring, kind, glob, pfx, pl, link, phase, rcShut, caches, socks, lateAct, held, bsocks>>
           /\ UNCHANGED OpenVars
(* Community.unload: bootstrapper.unload() closes the sockets of the initialised bootstrappers. In the code this, *)
(* the listener removal and the cancellation of the tasks happen without an await in between (one atomic step);  *)
(* the specification serialises that step as cancel-then-close.                                                   *)
U_Boot == /\ phase = "unloading" /\ "tasks" \in sub
          /\ sub' = sub \cup {"boot"} /\ bsocks' = {}
          /\ UNCHANGED <<wiring, kind, glob, pfx, pl, link, phase, tmShut, tasks, dying, rcShut, caches, socks, rmPending,
                         lateAct, initing, bdying, held>>
          /\ UNCHANGED OpenVars
Needed == {"listener", "tasks", "boot"} \cup (IF kind # "basic" THEN {"cache"} ELSE {}) \cup
          (IF kind = "tunnel" THEN {"tunnels"} ELSE {})
U_Done == /\ phase = "unloading" /\ Needed \subseteq sub /\ dying = {} /\ tasks = {}
          /\ phase' = "unloaded"
          /\ UNCHANGED <<wiring, kind, glob, pfx, pl, link, tmShut, tasks, dying, rcShut, caches, socks, rmPending,
                         sub, lateAct>>
          /\ UNCHANGED BootVars /\ UNCHANGED OpenVars

Next == \/ Handler \/ Send
        \/ \E t \in TaskIds, own \in Owners, ok \in BOOLEAN : Register(t, own, ok)
        \/ \E t \in TaskIds : TaskStep(t)
        \/ \E t \in TaskIds : TaskEnd(t)
        \/ \E c \in CacheIds, ok \in BOOLEAN : CacheAdd(c, ok)
        \/ \E c \in CacheIds : CacheTimeout(c)
        \/ \E c \in CacheIds : CachePop(c)
        \/ \E t \in TaskIds : SockTry(t)
        \/ \E s \in SockIds, t \in TaskIds : SockOpen(s, t)
        \/ \E t \in TaskIds : SockFail(t)
        \/ \E s \in SockIds : SockClose(s)
        \/ \E s \in SockIds : SockIn(s)
        \/ \E s \in SockIds : RemoveSched(s)
        \/ \E b \in BootIds, t \in TaskIds : BootInit(b, t)
        \/ \E b \in BootIds, s \in BootIds : BootOpen(b, s)
        \/ \E b \in BootIds : BootEnd(b)
        \/ \E s \in BootIds : BootClose(s)
        \/ \E s \in BootIds : BootIn(s)
        \/ UnloadStart \/ U_Tunnels \/ U_Cache \/ U_Listener \/ U_Tasks \/ U_Boot \/ U_Done

Spec == Init /\ [][Next]_vars

---------------------------------------------------------------------------
TypeOK == /\ phase \in {"loaded", "unloading", "unloaded"} /\ glob \subseteq {"ov", "crypto"} /\ pl \subseteq {"ov", "crypto"}
          /\ tasks \subseteq TaskIds /\ dying \subseteq TaskIds /\ caches \subseteq CacheIds /\ socks \subseteq SockIds
          /\ tasks \cap dying = {} /\ rmPending \subseteq SockIds
          /\ initing \subseteq BootIds /\ bdying \subseteq BootIds /\ bsocks \subseteq BootIds /\ initing \cap bdying = {}
          /\ held \subseteq BootIds \X TaskIds
          /\ xtasks \subseteq tasks \cup dying /\ tfailed \subseteq tasks \cup dying
          /\ \A p \in trying : p[1] \in tasks \cup dying /\ p[2] \in 1..MaxTry
          /\ \A p, q \in trying : p[1] = q[1] => p = q
          /\ \A p \in unstored : p[1] \in socks /\ p[2] \in tasks \cup dying \cup {0}

(* a loaded overlay does receive its datagrams (otherwise the model would be trivially silent) *)
LoadedReachable == phase = "loaded" => Reach

SilentAfterUnload == phase = "unloaded" => (~Alive /\ socks = {} /\ tmShut /\ (kind # "basic" => rcShut) /\ trying = {})

NoLateActivity == ~lateAct

(* accepts no new task *)
NoNewTaskAfterUnload == [][phase = "unloaded" => (tasks' = tasks /\ caches' = caches /\ socks' = socks /\ bsocks' = bsocks
                                                  /\ initing' = initing /\ trying' = trying)]_vars

(* an initialisation in flight is awaited by a task of the overlay that is still there (repaired behaviour) *)
JobsHeld == InitAwaited => \A b \in initing : \E t \in tasks \cup dying : <<b, t>> \in held

(* socket ownership: every open outside socket is on record with its exit socket, or the job that opened it is    *)
(* still running (and will put it on record); no failure of the environment and no cancellation leaves a socket  *)
(* that nobody will close                                                                                         *)
NoOrphanSocket == \A p \in unstored : p[2] \in tasks
=============================================================================
