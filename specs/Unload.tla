------------------------------- MODULE Unload -------------------------------
(* Life cycle of one overlay: ipv8/overlay.py Overlay.__init__/unload, ipv8/community.py Community.__init__/      *)
(* unload, messaging/interfaces/endpoint.py Endpoint.add_listener/add_prefix_listener/remove_listener/            *)
(* notify_listeners, messaging/anonymization/endpoint.py TunnelEndpoint (the wrapper ipv8_service puts around     *)
(* the socket endpoint), anonymization/crypto.py PythonCryptoEndpoint.setup_tunnels, anonymization/community.py   *)
(* TunnelCommunity.unload + remove_* tasks, exit_socket.py TunnelExitSocket.enable/close, requestcache.py.        *)
(*                                                                                                                *)
(* Implementation layer: the listener tables of the socket endpoint (global list, list for the overlay's prefix), *)
(* the link crypto endpoint -> overlay, the task manager (live tasks, tasks that were cancelled and still have to *)
(* take their last step, shutdown flag), the request cache (entries, shutdown flag), the open outside sockets.    *)
(* Abstract layer (property C11): once unload() has returned nothing of the overlay can run any more and every    *)
(* socket is closed (SilentAfterUnload), and nothing did run (NoLateActivity).                                    *)
(*                                                                                                                *)
(* The three switches describe the pinned deviations; TRUE = repaired behaviour, which is what the traces of the  *)
(* real code are validated against (UnloadTrace.tla).                                                             *)
EXTENDS Naturals, FiniteSets, TLC

CONSTANTS Wirings,               \* subset of {"plain", "tunnel"}: socket endpoint / TunnelEndpoint around it
          Kinds,                 \* subset of {"basic", "cache", "tunnel"}: Community / + request cache / TunnelCommunity
          MaxTasks, MaxCaches, MaxSocks,
          WrapperForwardsRemove, \* TunnelEndpoint.remove_listener reaches the socket endpoint's tables
          CryptoListenerRemoved, \* unload takes the PythonCryptoEndpoint prefix listener away
          RemovalAwaited         \* unload closes circuits / exit sockets before it returns (no delayed, cancellable task)

VARIABLES wiring, kind,
          glob,      \* _listeners of the socket endpoint (subset of {"ov", "crypto"})
          pfx,       \* is there an entry for the overlay's prefix in _prefix_map
          pl,        \* that entry
          link,      \* crypto endpoint forwards to the overlay (tunnel_community is set)
          phase,     \* "loaded" | "unloading" | "unloaded"
          tmShut, tasks, dying,
          rcShut, caches,
          socks,
          rmPending, \* pinned: sockets whose removal waits in a delayed task
          sub,       \* sub-steps of unload that were executed
          lateAct    \* history: activity observed in phase "unloaded"
vars == <<wiring, kind, glob, pfx, pl, link, phase, tmShut, tasks, dying, rcShut, caches, socks, rmPending, sub, lateAct>>

TaskIds  == 1..MaxTasks
CacheIds == 1..MaxCaches
SockIds  == 1..MaxSocks

---------------------------------------------------------------------------
(* Endpoint listener tables as the code manipulates them; t = [glob, pfx, pl] *)
AddL(t, x)  == [glob |-> t.glob \cup {x}, pfx |-> t.pfx, pl |-> IF t.pfx THEN t.pl \cup {x} ELSE t.pl]
AddP(t, x)  == [glob |-> t.glob, pfx |-> TRUE, pl |-> (IF t.pfx THEN t.pl ELSE {}) \cup {x} \cup t.glob]
RemL(t, x)  == LET g == t.glob \ {x}
                   p == t.pl \ {x}
               IN [glob |-> g, pfx |-> t.pfx /\ p # g, pl |-> IF t.pfx /\ p # g THEN p ELSE {}]
(* remove_listener called on the endpoint object the overlay holds *)
RemVia(w, t, x) == IF w = "tunnel" /\ ~WrapperForwardsRemove THEN t ELSE RemL(t, x)

Empty == [glob |-> {}, pfx |-> FALSE, pl |-> {}]
(* Overlay.__init__: add_listener; Community.__init__: remove_listener, add_prefix_listener *)
AfterCommunityInit(w) == AddP(RemVia(w, AddL(Empty, "ov"), "ov"), "ov")
(* PythonCryptoEndpoint.setup_tunnels: remove overlay, remove self, add_prefix_listener(self) *)
AfterTunnelInit(w)    == AddP(RemVia(w, RemVia(w, AfterCommunityInit(w), "ov"), "crypto"), "crypto")

Tables  == [glob |-> glob, pfx |-> pfx, pl |-> pl]
Targets == IF pfx THEN pl ELSE glob            \* notify_listeners for a datagram with the overlay's prefix
Reach   == "ov" \in Targets \/ ("crypto" \in Targets /\ link)
Alive   == Reach \/ tasks # {} \/ dying # {} \/ caches # {} \/ socks # {}
MayAct  == phase # "unloaded" \/ Alive          \* while loaded the application may call into the overlay as well

InitFor(w, k) ==
        /\ wiring = w /\ kind = k
        /\ LET t == IF k = "tunnel" THEN AfterTunnelInit(w) ELSE AfterCommunityInit(w)
           IN glob = t.glob /\ pfx = t.pfx /\ pl = t.pl
        /\ link = (k = "tunnel")
        /\ phase = "loaded" /\ tmShut = FALSE /\ tasks = {} /\ dying = {} /\ rcShut = FALSE /\ caches = {}
        /\ socks = {} /\ rmPending = {} /\ sub = {} /\ lateAct = FALSE
Init == \E w \in Wirings, k \in Kinds : InitFor(w, k)

Act   == lateAct' = (lateAct \/ phase = "unloaded")
Keep1 == UNCHANGED <<wiring, kind, glob, pfx, pl, link, phase, sub>>

---------------------------------------------------------------------------
(* activity *)
(* a message handler runs: the overlay is reachable from the socket endpoint (while unload() is in progress deliveries *)
(* that were already on their way may still be processed - the property only speaks about the time after it)       *)
Handler == /\ (Reach \/ phase = "unloading") /\ Act
           /\ UNCHANGED <<wiring, kind, glob, pfx, pl, link, phase, tmShut, tasks, dying, rcShut, caches, socks,
                          rmPending, sub>>
Send == /\ MayAct /\ Act
        /\ UNCHANGED <<wiring, kind, glob, pfx, pl, link, phase, tmShut, tasks, dying, rcShut, caches, socks,
                       rmPending, sub>>
(* register_task on the overlay ("ov"), its request cache ("cache") or one of its exit sockets ("sock"): a call may  *)
(* come at any time; it is accepted only while that manager is not shut down (and may be refused for a name in use)  *)
Owners == {"ov", "cache", "sock"}
Register(t, own, ok) ==
                   /\ t \notin tasks \cup dying
                   /\ ok => CASE own = "ov"    -> ~tmShut
                               [] own = "cache" -> kind # "basic" /\ ~rcShut
                               [] own = "sock"  -> kind = "tunnel" /\ phase # "unloaded"
                   /\ tasks' = IF ok THEN tasks \cup {t} ELSE tasks
                   /\ Keep1 /\ UNCHANGED <<tmShut, dying, rcShut, caches, socks, rmPending, lateAct>>
TaskStep(t) == /\ t \in tasks \cup dying /\ Act
               /\ Keep1 /\ UNCHANGED <<tmShut, tasks, dying, rcShut, caches, socks, rmPending>>
TaskEnd(t) == /\ t \in tasks \cup dying
              /\ tasks' = tasks \ {t} /\ dying' = dying \ {t}
              /\ Keep1 /\ UNCHANGED <<tmShut, rcShut, caches, socks, rmPending, lateAct>>
CacheAdd(c, ok) == /\ kind # "basic" /\ c \notin caches
                   /\ ok => ~rcShut
                   /\ caches' = IF ok THEN caches \cup {c} ELSE caches
                   /\ Keep1 /\ UNCHANGED <<tmShut, tasks, dying, rcShut, socks, rmPending, lateAct>>
CacheTimeout(c) == /\ c \in caches /\ Act
                   /\ caches' = caches \ {c}
                   /\ Keep1 /\ UNCHANGED <<tmShut, tasks, dying, rcShut, socks, rmPending>>
CachePop(c) == /\ c \in caches /\ MayAct
               /\ caches' = caches \ {c}
               /\ Keep1 /\ UNCHANGED <<tmShut, tasks, dying, rcShut, socks, rmPending, lateAct>>
(* an exit socket opens its outside transports when a data cell for it arrives *)
SockOpen(s) == /\ Reach /\ kind = "tunnel" /\ s \notin socks /\ Act
               /\ socks' = socks \cup {s}
               /\ Keep1 /\ UNCHANGED <<tmShut, tasks, dying, rcShut, caches, rmPending>>
SockClose(s) == /\ s \in socks
                /\ socks' = socks \ {s} /\ rmPending' = rmPending \ {s}
                /\ Keep1 /\ UNCHANGED <<tmShut, tasks, dying, rcShut, caches, lateAct>>
(* a datagram from the outside world arrives on an open exit socket and is tunnelled back *)
SockIn(s) == /\ s \in socks /\ Act
             /\ Keep1 /\ UNCHANGED <<tmShut, tasks, dying, rcShut, caches, socks, rmPending>>

---------------------------------------------------------------------------
(* unload(); the sub-steps may come in any order, U_Done needs all of them *)
UnloadStart == /\ phase = "loaded" /\ phase' = "unloading"
               /\ UNCHANGED <<wiring, kind, glob, pfx, pl, link, tmShut, tasks, dying, rcShut, caches, socks,
                              rmPending, sub, lateAct>>
(* TunnelCommunity.unload: remove_circuit / remove_relay / remove_exit_socket(remove_now=True).               *)
(* Repaired: the overlay stops listening first (no new exit socket can appear), then closes what exists and   *)
(* waits for that. Pinned: done first, by delayed tasks which the task manager shutdown cancels.               *)
U_Tunnels == /\ phase = "unloading" /\ kind = "tunnel" /\ "tunnels" \notin sub
             /\ RemovalAwaited => "listener" \in sub
             /\ sub' = sub \cup {"tunnels"}
             /\ IF RemovalAwaited THEN socks' = {} /\ rmPending' = {}
                ELSE socks' = socks /\ rmPending' = socks      \* sleeping remove_* tasks own the closing
             /\ UNCHANGED <<wiring, kind, glob, pfx, pl, link, phase, tmShut, tasks, dying, rcShut, caches, lateAct>>
U_Cache == /\ phase = "unloading" /\ kind # "basic"
           /\ sub' = sub \cup {"cache"} /\ rcShut' = TRUE /\ caches' = {}
           /\ UNCHANGED <<wiring, kind, glob, pfx, pl, link, phase, tmShut, tasks, dying, socks, rmPending, lateAct>>
U_Listener == /\ phase = "unloading"
              /\ sub' = sub \cup {"listener"}
              /\ LET t1 == RemVia(wiring, Tables, "ov")
                     t2 == IF kind = "tunnel" /\ CryptoListenerRemoved THEN RemVia(wiring, t1, "crypto") ELSE t1
                 IN glob' = t2.glob /\ pfx' = t2.pfx /\ pl' = t2.pl
              /\ link' = IF CryptoListenerRemoved THEN FALSE ELSE link
              /\ UNCHANGED <<wiring, kind, phase, tmShut, tasks, dying, rcShut, caches, socks, rmPending, lateAct>>
(* shutdown_task_manager: flag, cancel everything; the cancelled tasks (incl. pending removals) die *)
U_Tasks == /\ phase = "unloading"
           /\ sub' = sub \cup {"tasks"} /\ tmShut' = TRUE
           /\ dying' = dying \cup tasks /\ tasks' = {} /\ rmPending' = {}
           /\ UNCHANGED <<wiring, kind, glob, pfx, pl, link, phase, rcShut, caches, socks, lateAct>>
Needed == {"listener", "tasks"} \cup (IF kind # "basic" THEN {"cache"} ELSE {}) \cup
          (IF kind = "tunnel" THEN {"tunnels"} ELSE {})
U_Done == /\ phase = "unloading" /\ Needed \subseteq sub /\ dying = {} /\ tasks = {}
          /\ phase' = "unloaded"
          /\ UNCHANGED <<wiring, kind, glob, pfx, pl, link, tmShut, tasks, dying, rcShut, caches, socks, rmPending,
                         sub, lateAct>>

Next == \/ Handler \/ Send
        \/ \E t \in TaskIds, own \in Owners, ok \in BOOLEAN : Register(t, own, ok)
        \/ \E t \in TaskIds : TaskStep(t)
        \/ \E t \in TaskIds : TaskEnd(t)
        \/ \E c \in CacheIds, ok \in BOOLEAN : CacheAdd(c, ok)
        \/ \E c \in CacheIds : CacheTimeout(c)
        \/ \E c \in CacheIds : CachePop(c)
        \/ \E s \in SockIds : SockOpen(s)
        \/ \E s \in SockIds : SockClose(s)
        \/ \E s \in SockIds : SockIn(s)
        \/ UnloadStart \/ U_Tunnels \/ U_Cache \/ U_Listener \/ U_Tasks \/ U_Done

Spec == Init /\ [][Next]_vars

---------------------------------------------------------------------------
TypeOK == /\ phase \in {"loaded", "unloading", "unloaded"} /\ glob \subseteq {"ov", "crypto"} /\ pl \subseteq {"ov", "crypto"}
          /\ tasks \subseteq TaskIds /\ dying \subseteq TaskIds /\ caches \subseteq CacheIds /\ socks \subseteq SockIds
          /\ tasks \cap dying = {}

(* a loaded overlay does receive its datagrams (otherwise the model would be trivially silent) *)
LoadedReachable == phase = "loaded" => Reach

SilentAfterUnload == phase = "unloaded" => (~Alive /\ socks = {} /\ tmShut /\ (kind # "basic" => rcShut))

NoLateActivity == ~lateAct

(* accepts no new task *)
NoNewTaskAfterUnload == [][phase = "unloaded" => (tasks' = tasks /\ caches' = caches /\ socks' = socks)]_vars
=============================================================================
