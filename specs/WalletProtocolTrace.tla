------------------------- MODULE WalletProtocolTrace -------------------------
(* Recorded executions of real AttestationCommunity overlays (harness/drivers/g03.py, binding T) checked against    *)
(* WalletProtocol.tla: every logged event must be the named action of the specification with the logged arguments   *)
(* and must reproduce the state projected from the real objects (caches with their deadlines, allowed_attestations, *)
(* database, cached blobs, suspended callbacks, proving caches with aggregate / remaining challenges / callback      *)
(* results, datagrams in flight, clocks).  All invariants of the specification are evaluated in every state.         *)
(* WalletTraceData (generated per run into the scratch directory) defines Traces, TracePre, TraceValues, TraceTicks. *)
EXTENDS WalletProtocol, WalletTraceData, TLCExt

VARIABLES tid, l
tvars == <<vars, tid, l>>

Ev == Traces[tid]

TraceInit == Init /\ tid \in 1..Len(Traces) /\ l = 1

Step(e) ==
  CASE e.name = "RequestAttestation" -> RequestAttestation(e.a[1], e.a[2])
    [] e.name = "OnRequest"          -> OnRequest(e.a[1], e.a[2])
    [] e.name = "AttestAnswer"       -> AttestAnswer(e.a[1], e.a[2], e.a[3])
    [] e.name = "OnChunk"            -> OnChunk(e.a[1], e.a[2])
    [] e.name = "Verify"             -> Verify(e.a[1], e.a[2], e.a[3])
    [] e.name = "OnVerifyRequest"    -> OnVerifyRequest(e.a[1], e.a[2])
    [] e.name = "Consent"            -> Consent(e.a[1], e.a[2], e.a[3])
    [] e.name = "OnChallenge"        -> OnChallenge(e.a[1], e.a[2])
    [] e.name = "OnResponse"         -> OnResponse(e.a[1], e.a[2], e.a[3])
    [] e.name = "ReqTimeout"         -> ReqTimeout(e.a[1], e.a[2], e.a[3])
    [] e.name = "VerTimeout"         -> VerTimeout(e.a[1], e.a[2])
    [] e.name = "ProvTimeout"        -> ProvTimeout(e.a[1], e.a[2])
    [] e.name = "PendTimeout"        -> PendTimeout(e.a[1], e.a[2])
    [] e.name = "Tick"               -> Tick(e.a[1])
    [] e.name = "Drop"               -> Drop(e.a[1])
    [] e.name = "AdvSend"            -> AdvSend(e.a[1])

(* the next state in the shape the harness projects from the real objects (history fields dropped) *)
Post(p) ==
  /\ clock' = p.clock /\ now' = p.now /\ net' = p.net
  /\ [n \in Nodes |-> {[peer |-> c.peer, gt |-> c.gt, key |-> c.key, map |-> Pairs(c.map), dl |-> c.dl] :
                        c \in reqC'[n]}] = p.reqC
  /\ [n \in Nodes |-> {[h |-> c.h, map |-> Pairs(c.map), dl |-> c.dl] : c \in verC'[n]}] = p.verC
  /\ provC' = p.provC /\ pendC' = p.pendC /\ allowed' = p.allowed /\ cached' = p.cached
  /\ [n \in Nodes |-> {<<x.h, x.key>> : x \in db'[n]}] = p.db
  /\ askA' = p.askA /\ askV' = p.askV
  /\ [v \in 1..Len(ver') |-> [h |-> ver'[v].h, relmap |-> ver'[v].relmap, hashed |-> ver'[v].hashed,
                               chals |-> ver'[v].chals, results |-> ver'[v].results]] = p.ver

TraceNext == /\ l <= Len(Ev)
             /\ Step(Ev[l]) /\ Post(Ev[l].post)
             /\ l' = l + 1 /\ UNCHANGED tid

TraceSpec == TraceInit /\ [][TraceNext]_tvars

(* total verdict (locating configuration): a trace is rejected exactly when some logged event is not an enabled step; *)
(* the fast path counts states: one per event plus one per trace *)
TraceAccepted == l <= Len(Ev) => ENABLED TraceNext
=============================================================================
