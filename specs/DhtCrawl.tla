------------------------------ MODULE DhtCrawl ------------------------------
(* ipv8/dht/community.py : class Crawl (add_response, done, cache_candidate, values, nodes) and            *)
(* DHTCommunity.find / find_values / find_nodes / _find / _contact_node / _send_find_request /             *)
(* on_find_response, the find-request time-out (Request.on_timeout) and the caching store at the end of a  *)
(* value lookup (store_on_nodes on the cache candidate).                                                   *)
(*                                                                                                         *)
(* ONE crawl of ONE routing table.  The environment is adversarial: what a contacted node answers (values  *)
(* and/or a node list) is any element of Ans[n]; every request may also stay unanswered (Expire).          *)
(* Nodes are named by their rank of closeness to the target: node 1 is the closest, Dist(n) = n            *)
(* (the harness ranks the real 160-bit XOR distances with its own arithmetic).                             *)
(*                                                                                                         *)
(* Granularity = the asyncio schedule of the real code:                                                    *)
(*   Find(r, m)     the API call find_values/find_nodes and everything that runs before the loop is idle:  *)
(*                  Crawl() picks the MaxInit closest nodes of the routing table r, _find launches tasks,  *)
(*                  every task sends its first request                                                     *)
(*   Respond(i, a)  the handler on_find_response for the i-th outstanding request (answer a): pops the     *)
(*                  request cache, resolves the request future.  The waiting task is only SCHEDULED.       *)
(*   Drain          the loop runs until idle: resumed _contact_node tasks (in the order their futures were *)
(*                  resolved) either send the direct request (after their puncture request) or call        *)
(*                  Crawl.add_response and finish; then _find wakes up once, launches new tasks, they send *)
(*   Expire         the oldest outstanding request times out (all find requests share one time-out, so     *)
(*                  deadlines are ordered like the sends), followed by the same drain.  Requests sent in   *)
(*                  the same loop iteration expire within microseconds of each other: that is Expire;      *)
(*                  Expire; the specification also allows an answer to slip in between                     *)
(*   StoreAck / StoreExpire   the caching store request at the end of a value lookup is answered / lost    *)
(*                                                                                                         *)
(* SAFETY PROPERTIES (from the docstrings / comments of the code):                                         *)
(*  P1 InvBudget        "Maximum number of find-requests a single crawl is allowed to make (excluding      *)
(*                      punctures)" : at most MaxReq nodes are contacted, at most MaxTasks tasks are       *)
(*                      outstanding, at most 2*MaxReq requests are sent in total (one puncture each)       *)
(*  P2 InvNoRepeat      "prevent sending multiple find-requests to the same node": no node is contacted    *)
(*                      twice by one crawl, every direct find request belongs to exactly one launch        *)
(*  P3 InvClosestFirst  the node contacted next is never farther from the target than a candidate the      *)
(*                      crawl still holds at that moment (candidates are kept "sorted by distance")        *)
(*  P4 InvDone + deadlock freedom + Terminates: a crawl that is over has nothing outstanding and stopped   *)
(*                      because the budget is used up or no candidate is left; before that some step is    *)
(*                      always possible; under fairness it ends                                            *)
(*  P5 InvValues / InvNodes  find_values reports exactly the values received in responses (each once);     *)
(*                      find_nodes reports the contacted nodes ordered by distance                         *)
(*  P6 InvCache         cache_candidate: "closest node to the target that did not respond with values":    *)
(*                      when values were found and some responder had none, exactly that responder is      *)
(*                      sent the values found (at most MaxStore) with the token it issued; otherwise no    *)
(*                      store request is sent                                                              *)
(*  The exact contents of nodes_todo (top-K rule, puncture bookkeeping), the order of requests and the     *)
(*  order of reported values form the implementation layer; they are bound by replay (driver g02.py).      *)
(*  Not demanded (intent not stated): that find_nodes leaves out nodes that never answered; that the       *)
(*  caching store is not also kept in the finder's own storage; what happens to the failure counters of    *)
(*  table entries when the answering node was contacted through an object taken from another answer.       *)
EXTENDS Integers, Sequences, FiniteSets, TLC

CONSTANTS N,                    \* nodes 1..N
          MaxInit,              \* MAX_CRAWL_NODES    (8)
          MaxReq,               \* MAX_CRAWL_REQUESTS (24)
          MaxTasks,             \* MAX_CRAWL_TASKS    (4)
          TopK,                 \* the literal 4 of "Only add nodes that are better than our current top-4"
          MaxStore,             \* MAX_VALUES_IN_STORE (8)
          Worlds,               \* Seq of [ans : [1..N -> set of answers [vals : Seq(value ids), nodes : Seq(1..N)]],
                                \*         rts : routing tables Find may start from (non-empty subsets of 1..N)]
          Modes,                \* subset of {"values", "nodes"}  (find_values / find_nodes)
          \* deviations (negative controls; all FALSE = the behaviour of the code as documented)
          CtlNoTriedCheck,      \* add_response does not skip nodes that were already contacted
          CtlNoSort,            \* add_response appends without re-sorting
          CtlCacheRecent,       \* cache at the most recent instead of the closest responder without values
          CtlBudgetByResponses  \* `done` counts responses instead of contacted nodes

Node  == 1..N
None  == 0
Dist(n) == n

VARIABLES phase,      \* "idle" | "run" | "cache" | "done"
          world,      \* index into Worlds, chosen by Find (0 before)
          mode,       \* "values" | "nodes"
          todo,       \* Crawl.nodes_todo : Seq of [n, p]   (p = node_to_puncture, None = 0)
          tried,      \* Crawl.nodes_tried
          launched,   \* history = order of the pops from nodes_todo : Seq of [n, p]
          tasks,      \* per launch: "punct" (waits for the puncture answer) | "find" (waits for the answer) | "fin"
          outst,      \* outstanding find requests in the order they were sent : Seq of [k, to, kind]
          resolved,   \* requests whose future is resolved, task not yet resumed : Seq of [k, kind, r]
          responses,  \* Crawl.responses : Seq of [n, t, vals, nodes]
          known,      \* routing table: initial nodes + every node whose answer was processed
          stored,     \* the caching store request: NoStore or [to, vals, tok]
          result,     \* what find_values / find_nodes returns
          nreq,       \* history: number of find requests sent (punctures included)
          sent,       \* history: direct find requests in the order sent : Seq of launch indexes
          orderOK     \* history: every pop took a candidate at least as close as all remaining candidates
vars == <<phase, world, mode, todo, tried, launched, tasks, outst, resolved, responses, known, stored, result, nreq, sent,
          orderOK>>

NoStore == [to |-> None, vals |-> <<>>, tok |-> None]
NoRes   == [t |-> "none", vals |-> <<>>, nodes |-> <<>>]
EmptyAns == [vals |-> <<>>, nodes |-> <<>>]

Range(s) == {s[i] : i \in DOMAIN s}
Min(S) == CHOOSE x \in S : \A y \in S : x <= y
Take(s, n) == SubSeq(s, 1, IF Len(s) < n THEN Len(s) ELSE n)
RemoveAt(s, i) == SubSeq(s, 1, i - 1) \o SubSeq(s, i + 1, Len(s))

RECURSIVE SetToSortedSeq(_)
SetToSortedSeq(S) == IF S = {} THEN <<>> ELSE LET m == Min(S) IN <<m>> \o SetToSortedSeq(S \ {m})

RECURSIVE Dedup(_, _)
Dedup(s, seen) == IF s = <<>> THEN <<>>
                  ELSE IF Head(s) \in seen THEN Dedup(Tail(s), seen)
                  ELSE <<Head(s)>> \o Dedup(Tail(s), seen \cup {Head(s)})

(* ---- Crawl.values : first value of every response, then the second of every response, ... once each *)
ValueLists(rs) == LET vr == SelectSeq(rs, LAMBDA r : r.t = "values") IN [i \in 1..Len(vr) |-> vr[i].vals]
RECURSIVE Column(_, _, _)
Column(ls, k, i) == IF i > Len(ls) THEN <<>>
                    ELSE (IF k <= Len(ls[i]) THEN <<ls[i][k]>> ELSE <<>>) \o Column(ls, k, i + 1)
RECURSIVE Columns(_, _, _)
Columns(ls, k, mx) == IF k > mx THEN <<>> ELSE Column(ls, k, 1) \o Columns(ls, k + 1, mx)
MaxLen(ls) == IF Len(ls) = 0 THEN 0 ELSE CHOOSE m \in {Len(ls[i]) : i \in 1..Len(ls)} : \A i \in 1..Len(ls) : Len(ls[i]) <= m
Merged(rs) == LET ls == ValueLists(rs) IN Dedup(Columns(ls, 1, MaxLen(ls)), {})

(* ---- Crawl.cache_candidate *)
NoValueResponders(rs) == {rs[i].n : i \in {j \in 1..Len(rs) : rs[j].t # "values"}}
CacheCand(rs) ==
  LET idx == {j \in 1..Len(rs) : rs[j].t # "values"} IN
  IF idx = {} THEN None
  ELSE IF CtlCacheRecent THEN rs[CHOOSE j \in idx : \A i \in idx : i <= j].n
  ELSE Min({rs[j].n : j \in idx})

(* ---- Crawl.add_response : the node list of one answer, position by position *)
InsertSorted(td, e) ==
  IF CtlNoSort THEN Append(td, e)
  ELSE LET before == SelectSeq(td, LAMBDA x : Dist(x.n) <= Dist(e.n))
           after  == SelectSeq(td, LAMBDA x : Dist(x.n) > Dist(e.n))
       IN before \o <<e>> \o after
RECURSIVE AddNodes(_, _, _, _, _)
AddNodes(td, tr, sender, ns, idx) ==
  IF idx > Len(ns) THEN td
  ELSE LET m  == ns[idx]
           p  == IF idx = 1 THEN None ELSE sender
           ex == {i \in 1..Len(td) : td[i].n = m}
           td2 == IF m \in tr /\ ~CtlNoTriedCheck THEN td
                  ELSE IF Len(td) >= TopK /\ Dist(m) > Dist(td[TopK].n) THEN td
                  ELSE IF ex # {} THEN [td EXCEPT ![Min(ex)].p = p]
                  ELSE InsertSorted(td, [n |-> m, p |-> p])
       IN AddNodes(td2, tr, sender, ns, idx + 1)

(* ---- on_find_response : what the request future is resolved with *)
HandlerResult(a) ==
  IF mode = "nodes" THEN [t |-> "nodes", vals |-> <<>>, nodes |-> a.nodes]
  ELSE IF a.vals # <<>> THEN [t |-> "values", vals |-> a.vals, nodes |-> <<>>]
  ELSE [t |-> "nodes", vals |-> <<>>, nodes |-> a.nodes]

(* ---- resumed _contact_node tasks, in the order their futures were resolved *)
RECURSIVE Proc(_, _)
Proc(acc, rs) ==
  IF rs = <<>> THEN acc
  ELSE LET e == Head(rs)
           L == launched[e.k]
       IN IF e.kind = "punct"
          THEN Proc([acc EXCEPT !.outst = Append(@, [k |-> e.k, to |-> L.n, kind |-> "find"]),
                                !.tasks = [@ EXCEPT ![e.k] = "find"],
                                !.sent = Append(@, e.k),
                                !.nreq = @ + 1], Tail(rs))
          ELSE LET acc2 == IF e.r.t = "none" THEN acc
                           ELSE [acc EXCEPT !.responses = Append(@, [n |-> L.n, t |-> e.r.t, vals |-> e.r.vals,
                                                                     nodes |-> e.r.nodes]),
                                            !.todo = AddNodes(@, tried, L.n, e.r.nodes, 1),
                                            !.known = @ \cup {L.n}]
               IN Proc([acc2 EXCEPT !.tasks = [@ EXCEPT ![e.k] = "fin"], !.fin = TRUE], Tail(rs))

(* ---- the inner while loop of _find *)
Exhausted(tr, rs) == IF CtlBudgetByResponses THEN Len(rs) >= MaxReq ELSE Cardinality(tr) >= MaxReq
RECURSIVE FillN(_, _, _, _)
FillN(td, tr, rs, nact) ==
  IF td = <<>> \/ Exhausted(tr, rs) \/ nact >= MaxTasks THEN <<>>
  ELSE <<Head(td)>> \o FillN(Tail(td), tr \cup {Head(td).n}, rs, nact + 1)

FirstReq(k, e) == IF e.p = None THEN [k |-> k, to |-> e.n, kind |-> "find"] ELSE [k |-> k, to |-> e.p, kind |-> "punct"]

(* ---- what happens once the resumed tasks have run: acc = [todo, responses, outst, tasks, known, sent, nreq, fin] *)
After(acc) ==
  IF ~acc.fin
  THEN /\ todo' = acc.todo /\ responses' = acc.responses /\ outst' = acc.outst /\ tasks' = acc.tasks
       /\ known' = acc.known /\ sent' = acc.sent /\ nreq' = acc.nreq
       /\ UNCHANGED <<tried, launched, orderOK, phase, stored, result>>
  ELSE LET nact == Cardinality({k \in 1..Len(acc.tasks) : acc.tasks[k] # "fin"})
           new  == FillN(acc.todo, tried, acc.responses, nact)
           nl   == Len(launched)
           rest == SubSeq(acc.todo, Len(new) + 1, Len(acc.todo))
           tr2  == tried \cup {new[i].n : i \in 1..Len(new)}
           direct == SelectSeq([i \in 1..Len(new) |-> IF new[i].p = None THEN nl + i ELSE 0], LAMBDA x : x # 0)
           vals == Merged(acc.responses)
           cand == CacheCand(acc.responses)
       IN /\ todo' = rest
          /\ tried' = tr2
          /\ launched' = launched \o new
          /\ tasks' = acc.tasks \o [i \in 1..Len(new) |-> IF new[i].p = None THEN "find" ELSE "punct"]
          /\ outst' = acc.outst \o [i \in 1..Len(new) |-> FirstReq(nl + i, new[i])]
          /\ nreq' = acc.nreq + Len(new)
          /\ sent' = acc.sent \o direct
          /\ responses' = acc.responses
          /\ known' = acc.known
          /\ orderOK' = (orderOK /\ \A i \in 1..Len(new) : \A j \in (i + 1)..Len(acc.todo) :
                                       Dist(acc.todo[i].n) <= Dist(acc.todo[j].n))
          /\ IF nact + Len(new) > 0
             THEN UNCHANGED <<phase, stored, result>>
             ELSE IF mode = "nodes"
                  THEN /\ phase' = "done" /\ result' = SetToSortedSeq(tr2) /\ UNCHANGED stored
                  ELSE IF cand # None /\ vals # <<>>
                       THEN /\ phase' = "cache" /\ UNCHANGED result
                            /\ stored' = [to |-> cand, vals |-> Take(vals, MaxStore), tok |-> cand]
                       ELSE /\ phase' = "done" /\ result' = vals /\ UNCHANGED stored

Acc(td, fin) == [todo |-> td, responses |-> responses, outst |-> outst, tasks |-> tasks, known |-> known,
                 sent |-> sent, nreq |-> nreq, fin |-> fin]

Init == /\ phase = "idle" /\ world = 0 /\ mode = "values" /\ todo = <<>> /\ tried = {} /\ launched = <<>> /\ tasks = <<>>
        /\ outst = <<>> /\ resolved = <<>> /\ responses = <<>> /\ known = {} /\ stored = NoStore /\ result = <<>>
        /\ nreq = 0 /\ sent = <<>> /\ orderOK = TRUE

FindBody(r, m) ==
  /\ phase = "idle"
  /\ phase' = "run" /\ mode' = m
  /\ LET init == Take(SetToSortedSeq(r), MaxInit)
         td   == [i \in 1..Len(init) |-> [n |-> init[i], p |-> None]]
         new  == FillN(td, {}, <<>>, 0)
     IN /\ todo' = SubSeq(td, Len(new) + 1, Len(td))
        /\ tried' = {new[i].n : i \in 1..Len(new)}
        /\ launched' = new
        /\ tasks' = [i \in 1..Len(new) |-> "find"]
        /\ outst' = [i \in 1..Len(new) |-> FirstReq(i, new[i])]
        /\ nreq' = Len(new)
        /\ sent' = [i \in 1..Len(new) |-> i]
  /\ known' = r
  /\ UNCHANGED <<resolved, responses, stored, result, orderOK>>

Find(w, r, m) == r \in Worlds[w].rts /\ world' = w /\ FindBody(r, m)

RespondBody(i, a) ==
  /\ phase = "run"
  /\ i \in 1..Len(outst)
  /\ resolved' = Append(resolved, [k |-> outst[i].k, kind |-> outst[i].kind, r |-> HandlerResult(a)])
  /\ outst' = RemoveAt(outst, i)
  /\ UNCHANGED <<phase, world, mode, todo, tried, launched, tasks, responses, known, stored, result, nreq, sent, orderOK>>

Respond(i, a) ==
  /\ i \in 1..Len(outst)
  /\ a \in (IF outst[i].kind = "find" THEN Worlds[world].ans[outst[i].to] ELSE {EmptyAns})
  /\ RespondBody(i, a)

Drain ==
  /\ phase = "run"
  /\ resolved # <<>>
  /\ resolved' = <<>>
  /\ After(Proc(Acc(todo, FALSE), resolved))
  /\ UNCHANGED <<mode, world>>

Expire ==
  /\ phase = "run"
  /\ resolved = <<>>
  /\ outst # <<>>
  /\ LET e == Head(outst)
         a0 == [Acc(todo, FALSE) EXCEPT !.outst = Tail(outst)]
     IN After(Proc(a0, <<[k |-> e.k, kind |-> e.kind, r |-> NoRes]>>))
  /\ UNCHANGED <<mode, world, resolved>>

StoreAck ==
  /\ phase = "cache"
  /\ phase' = "done" /\ result' = Merged(responses)
  /\ UNCHANGED <<world, mode, todo, tried, launched, tasks, outst, resolved, responses, known, stored, nreq, sent, orderOK>>

StoreExpire ==
  /\ phase = "cache"
  /\ phase' = "done" /\ result' = Merged(responses)
  /\ UNCHANGED <<world, mode, todo, tried, launched, tasks, outst, resolved, responses, known, stored, nreq, sent, orderOK>>

Terminated == phase = "done" /\ UNCHANGED vars

AllAnswers == UNION {Worlds[w].ans[n] : w \in 1..Len(Worlds), n \in Node} \cup {EmptyAns}
Step == \/ \E w \in 1..Len(Worlds) : \E r \in Worlds[w].rts, m \in Modes : Find(w, r, m)
        \/ \E i \in 1..MaxTasks : \E a \in AllAnswers : Respond(i, a)
        \/ Drain
        \/ Expire
        \/ StoreAck
        \/ StoreExpire
Next == Step \/ Terminated
Spec == Init /\ [][Next]_vars
FairSpec == Spec /\ WF_vars(Step)

(* ------------------------------------------------------------------------------------------------------ *)
Active == {k \in 1..Len(tasks) : tasks[k] # "fin"}

TypeOK == /\ phase \in {"idle", "run", "cache", "done"} /\ mode \in {"values", "nodes"}
          /\ tried \subseteq Node /\ known \subseteq Node
          /\ Len(tasks) = Len(launched)
          /\ \A i \in 1..Len(todo) : todo[i].n \in Node /\ todo[i].p \in Node \cup {None}
          /\ \A i \in 1..Len(outst) : outst[i].k \in 1..Len(launched) /\ outst[i].kind \in {"find", "punct"}
          /\ \A i \in 1..Len(resolved) : resolved[i].k \in 1..Len(launched)
          \* every unfinished task has exactly one request outstanding or resolved, of the kind it waits for
          /\ \A k \in Active : Cardinality({i \in 1..Len(outst) : outst[i].k = k /\ outst[i].kind = tasks[k]})
                               + Cardinality({i \in 1..Len(resolved) : resolved[i].k = k /\ resolved[i].kind = tasks[k]}) = 1
          /\ Len(outst) + Len(resolved) = Cardinality(Active)

InvBudget == /\ Len(launched) <= MaxReq
             /\ Cardinality(Active) <= MaxTasks
             /\ nreq <= 2 * MaxReq
             /\ Cardinality(tried) <= MaxReq

InvNoRepeat == /\ \A i, j \in 1..Len(launched) : i # j => launched[i].n # launched[j].n
               /\ \A i, j \in 1..Len(sent) : i # j => sent[i] # sent[j]
               /\ tried = {launched[i].n : i \in 1..Len(launched)}

InvClosestFirst == orderOK

InvDone == phase = "done" => /\ Active = {} /\ outst = <<>> /\ resolved = <<>>
                             /\ (todo = <<>> \/ Cardinality(tried) >= MaxReq)

ReceivedValues == UNION {Range(responses[i].vals) : i \in {j \in 1..Len(responses) : responses[j].t = "values"}}
NoDup(s) == \A i, j \in 1..Len(s) : i # j => s[i] # s[j]

InvValues == (phase = "done" /\ mode = "values") => /\ Range(result) = ReceivedValues /\ NoDup(result)
InvNodes  == (phase = "done" /\ mode = "nodes") => /\ Range(result) = tried /\ Len(result) = Cardinality(tried)
                                                    /\ \A i, j \in 1..Len(result) : i < j => Dist(result[i]) < Dist(result[j])

InvCache == (phase \in {"cache", "done"} /\ mode = "values") =>
              LET nv == NoValueResponders(responses) IN
              IF nv # {} /\ ReceivedValues # {}
              THEN /\ stored.to = Min(nv) /\ stored.tok = stored.to
                   /\ Range(stored.vals) \subseteq ReceivedValues /\ NoDup(stored.vals)
                   /\ Len(stored.vals) = (IF Cardinality(ReceivedValues) < MaxStore THEN Cardinality(ReceivedValues) ELSE MaxStore)
              ELSE stored = NoStore
InvNoStoreOtherwise == (phase \in {"idle", "run"} \/ mode = "nodes") => stored = NoStore

(* a response is only ever processed for a node that was contacted, and each node answers at most once *)
InvResponses == /\ \A i \in 1..Len(responses) : responses[i].n \in tried
                /\ \A i, j \in 1..Len(responses) : i # j => responses[i].n # responses[j].n

Terminates == (phase = "run") ~> (phase = "done")

=============================================================================
