----------------------------- MODULE IdentityMC -----------------------------
(* Exhaustive / simulation configurations of Identity.tla: message catalogues (IdentityWorld.tla)    *)
(* selected by index sets, bounded by counters.  Every action is a named operator with parameters so *)
(* that TLC labels the edges of its state graph with them (replayed by harness/drivers/c17.py).      *)
EXTENDS Identity

CONSTANTS Regs,        \* indices into RegCat
          Senders,     \* peers that send disclosures / missing responses
          TokIdx,      \* indices into TokCat[sender]
          MdIdx,       \* indices into MdCat
          AttIdx,      \* indices into AttCat
          MissIdx,     \* indices into TokCat[sender] used for MissingResponsePayload
          Ticks,       \* clock steps
          OwnerPeers,  \* peers acting against the owner role ({} switches the role off)
          KnownVals,   \* values of RequestMissingPayload.known
          AttSend,     \* attestations sent in AttestPayloads
          FaultTabs,   \* tables on which the environment may arm a storage fault ({} switches faults off)
          RegFirst,    \* TRUE: messages only after the first registration (keeps random behaviours interesting)
          MaxReg, MaxMsg, MaxTick, MaxOwn, MaxFault

VARIABLE cnt
mcvars == <<vars, cnt>>

Bump(f) == cnt' = [cnt EXCEPT ![f] = @ + 1]

Reg(i) == /\ cnt.reg < MaxReg /\ Bump("reg")
          /\ AddKnownHash(RegCat[i].h, RegCat[i].name, RegCat[i].subj, RegCat[i].meta)
Adv(d) == /\ cnt.tick < MaxTick /\ Bump("tick") /\ Tick(d)
Disc(p, i, j, k) == /\ cnt.msg < MaxMsg /\ (RegFirst => cnt.reg > 0) /\ Bump("msg")
                    /\ RecvDisclose(p, MdCat[j], TokCat[p][i], AttCat[k])
Miss(p, i) == /\ cnt.msg < MaxMsg /\ (RegFirst => cnt.reg > 0) /\ Bump("msg")
              /\ RecvMissingResponse(p, TokCat[p][i])
SelfAdv == /\ OwnerPeers # {} /\ cnt.own < MaxOwn /\ Bump("own") /\ SelfAdvertise
ReqAdv(p) == /\ cnt.own < MaxOwn /\ Bump("own") /\ RequestAdvert(p, 1..(chain + 1))
ReqMissing(p, k) == /\ cnt.msg < MaxMsg /\ Bump("msg") /\ RecvRequestMissing(p, k)
Attest(p, x) == /\ cnt.msg < MaxMsg /\ Bump("msg") /\ RecvAttest(p, x)
Flt(t) == /\ cnt.fault < MaxFault /\ fault = NoFault /\ (RegFirst => cnt.reg > 0) /\ Bump("fault") /\ Fault(t)

MCInit == Init /\ cnt = [reg |-> 0, msg |-> 0, tick |-> 0, own |-> 0, fault |-> 0]

MCNext == \/ \E i \in Regs : Reg(i)
          \/ \E d \in Ticks : Adv(d)
          \/ \E p \in Senders, i \in TokIdx, j \in MdIdx, k \in AttIdx : Disc(p, i, j, k)
          \/ \E p \in Senders, i \in MissIdx : Miss(p, i)
          \/ SelfAdv
          \/ \E p \in OwnerPeers : ReqAdv(p)
          \/ \E p \in OwnerPeers, k \in KnownVals : ReqMissing(p, k)
          \/ \E p \in OwnerPeers, x \in AttSend : Attest(p, x)
          \/ \E t \in FaultTabs : Flt(t)

MCSpec == MCInit /\ [][MCNext]_mcvars

=============================================================================
