SPECIFICATION Spec
CONSTANTS Interval = 5 Limit = 10 PingInterval = 25 PingTimeout = 5 FindTimeout = 2 GoodWindow = 900 MaxFail = 2
          Jumps = {1, 2, 20, 870} MaxOut = 3 WithQuery = TRUE WithPing = TRUE WithLookup = TRUE ChurnEveryTick = FALSE
          CtlCountRefused = FALSE CtlNotAdmitted = FALSE CtlNoReset = FALSE CtlNoRemove = FALSE
INVARIANT TypeOK
INVARIANT InvWindow
INVARIANT InvRefuse
INVARIANT InvStatus
INVARIANT InvChurn
