SPECIFICATION RSpec
CONSTANTS
  Pinned = {}
  Pads = {}
  FmtSel = {}
  ClsSel = {}
  K = 2
  Insts = {"tunnel1", "tunnel2", "dht1", "appA1"}
  MaxAdds = 1
  UseJ = {2}
  UsePads = {3}
  SharedModes = {FALSE, TRUE}
INVARIANT OwnRegistry
INVARIANT Isolation
INVARIANT DocumentedUse
INVARIANT CtlIsolation
