\* complete graph incl. address updates of known nodes; replayed on the real RoutingTable
SPECIFICATION Spec
CONSTANTS W = 3 Bits <- SeqBits Cap = 2 MyNum = 5 IdNums = {5, 4, 7, 0}
          RTTs = {1, 2} Addrs = {1, 2} AddBads = {FALSE, TRUE} KMax = 0 MaxDepth = 0
          WithGen = FALSE GenInBucket = TRUE OwnPathOnly = TRUE
INVARIANT TypeOK
INVARIANT PrefixFreeComplete
INVARIANT PartitionBrute
INVARIANT NodeInOwningBucket
INVARIANT Capacity
INVARIANT OwnPathShape
INVARIANT GeneratedIdInBucket
PROPERTY SplitOnlyOwnPath
