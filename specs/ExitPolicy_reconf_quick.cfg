\* reconfiguration at run time and replayed signed messages of the previous hop's key: the flags change between any
\* two steps (packets waiting for DNS / for the transports meet the new configuration when they leave); signed
\* messages arrive from the previous hop's address and from a foreign one before the first data
SPECIFICATION Spec
CONSTANTS QCap = 2 MaxPend = 1 MaxOps = 5
          NoInboundFilter = FALSE NoNullCheck = FALSE AnyoneOpens = FALSE
          RepIds = {1, 4, 7}
          TrackHistory = FALSE FlowCache = "none" HostIps = {"x"} HostPorts = {1}
          StaleVerdict = "none" HopFollowsPeer = FALSE VerdictMemo = "none"
          FlagChoices = {{}, {"BT"}, {"IPV8", "RELAY"}} SignedSrcs = {"prev", "other"}
          SrcSet = {"prev", "other"} DkSet = {"v4", "v6", "dom4"}
INVARIANT TypeOK
INVARIANT EmitOnlyAllowed
INVARIANT NeverToNull
INVARIANT OpenedOnlyByPrevHop
INVARIANT EmitOnlyWhenOpen
INVARIANT QueueClean
INVARIANT VerdictByOwnShape
