SPECIFICATION TraceSpec
CONSTANTS Addrs = {} Keys = {} Signers = {} OwnSigner = "OWN" MaxVer = 0 Datas = {} UData = {}
          Forged = FALSE Sizes = FALSE Multi = FALSE Base = 3600 Scale = 1000 MaxRot = 1000000 MaxClock = 0 InitCloser = 0 MaxCloser = 0
          MaxIssued = 1000000 PeerStore = TRUE Locals = TRUE EqReplaces = TRUE OtherTokens = {"foreign", "junk"} MaxStored = 1000000
          KeepSecrets = 2 CleanAll = TRUE Validity = 600000 RotatePeriod = 0 ExpiredYields = FALSE
INVARIANT TraceAccepted
INVARIANT StoreNeedsOwnFreshToken
INVARIANT Limits
INVARIANT SignedMeansVerified
INVARIANT OneEntryPerId
INVARIANT ExpiredGoneAfterClean
INVARIANT StorePeerOnlyOwnMid
INVARIANT WindowIsTwoNewest
