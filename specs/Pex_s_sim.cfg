\* part S: larger instance for -simulate (3 peers x 3 seeder keys x 3 circuits; 180/300/120/60 s at 60 s per tick)
SPECIFICATION SpecS
CONSTANTS
  T0 = 10  MaxTime = 60
  Peers = {1, 2, 3}  Seeders = {1, 2, 3}  Circuits = {1, 2, 3}
  MaxIpAge = 3  MinDht = 5  MaxDht = 2  Interval = 1  ConnLimit = 2  MaxBytes = 3  MaxResult = 2
  SeedingChoices = {FALSE}
  DupAdd = FALSE  ExpireUsed = FALSE  NoGate = FALSE  ForgetHistory = FALSE
  Nodes = {1}  NSwarmA = 1  PSeeders = {1}  PexAge = 3  PexCap = 2  SendCap = 10
  Unload = FALSE  ExpireNewest = FALSE  CrossSwarm = FALSE  MaxMsgs = 0  MaxAnn = 2
INVARIANT TypeOK
INVARIANT SwarmNoDup
INVARIANT HistoryExact
INVARIANT E2EOnlyNew
PROPERTY FreshAfterLookup
PROPERTY ExpiresOnlyOldUnused
PROPERTY TotalsMonotone
PROPERTY LookupGate
PROPERTY DhtInterval
PROPERTY PexWhenKnown
