\* closest_nodes walk = brute force, complete graph
SPECIFICATION Spec
CONSTANTS W = 3 Bits <- SeqBits Cap = 2 MyNum = 5 IdNums = {0, 1, 2, 3, 4, 5, 6, 7}
          RTTs = {0} Addrs = {1} AddBads = {FALSE, TRUE} KMax = 3 MaxDepth = 0
          WithGen = FALSE GenInBucket = TRUE OwnPathOnly = TRUE
INVARIANT TypeOK
INVARIANT PrefixFreeComplete
INVARIANT PartitionBrute
INVARIANT NodeInOwningBucket
INVARIANT Capacity
INVARIANT OwnPathShape
INVARIANT GeneratedIdInBucket
INVARIANT ClosestExact
INVARIANT FirstDiffAgree
PROPERTY SplitOnlyOwnPath
