\* recorded histories (env TRACE_FILE): 20 peers x 20 addresses x 3 services, caches 3/3/2, 4 collections of the caller (one a one-shot iterator)
SPECIFICATION TraceSpec
CONSTANTS NP = 20 NA = 20 NS = 3 V6 = {15, 16, 17, 18, 19, 20} BlackAddr = {13, 14} BlackMid = {19, 20}
          IpCap = 3 IntroCap = 3 SvcCap = 2 NB = 4 IterBufs = {4} Defects = {} MaxDepth = 1000000
INVARIANT TraceAccepted
INVARIANT TypeOK
INVARIANT LookupsAgree
INVARIANT HistoryAgrees
INVARIANT BlacklistedNeverVerified
INVARIANT SnapshotRoundTrip
