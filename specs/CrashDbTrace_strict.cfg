SPECIFICATION TraceSpec
CONSTANTS MaxRecs = 99 MaxCalls = 9999 MaxRuns = 9999 CommitBeforeReturn = TRUE TolerantVersionRead = TRUE
          AtomicUpgrade = TRUE Legacy = FALSE Strict = TRUE
INVARIANT TraceAccepted
