SPECIFICATION NodeSpec
CONSTANTS Nodes = {1, 2} Names = {"a", "b", "c"} Formats <- MCFormats CacheBy = "schema" Shared = FALSE
INVARIANT NodeTypeOK
INVARIANT ResolvesRegistered
