SPECIFICATION Spec
CONSTANTS BitSpace = 4 Honest = TRUE Window = 1 MaxRounds = 2 MaxHon = 1 MaxDup = 1 CreditBy = "object"
INVARIANT TypeOK
INVARIANT SubProfile
INVARIANT AggIsAnswers
INVARIANT Reconstructs
INVARIANT ResultIsProfile
INVARIANT Scores
