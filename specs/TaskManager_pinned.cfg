SPECIFICATION Spec
CONSTANTS Names = {"a", "b"} MaxT = 4 MaxOps = 6 IdentityPop = FALSE
INVARIANT TypeOK
INVARIANT NoDuplicateActiveName
INVARIANT RegistryComplete
INVARIANT ReplaceAfterOldFinished
INVARIANT NothingAfterShutdown
PROPERTY NoNewAfterShutdown
