SPECIFICATION Spec
CONSTANTS
 Boots <- B12
 Kind <- KindDD
 ConfIPs <- IPsDD
 Names <- NamesDD
 DnsAddr = {}
 Others = {"X"}
 TO = 2
 MaxT = 3
 NoEnsure = FALSE NoRate = FALSE LeakSocket = FALSE
INVARIANT TypeOK
INVARIANT ContactedBlacklisted
INVARIANT NoPeerAfterContact
INVARIANT RateLimit
INVARIANT InitOnce
INVARIANT BootIPsBlacklisted
INVARIANT QuietAfterUnload
INVARIANT SocketsClosed
PROPERTY BlacklistMonotone
PROPERTY ForeignIgnored
