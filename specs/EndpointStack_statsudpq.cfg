SPECIFICATION Spec
CONSTANTS
  Ifaces = {"v4"}
  Listeners = {"A"}
  Prefixes = {"p1"}
  AddrKinds = {"t4"}
  Sizes = {22,23}
  MsgIds = {245}
  WithStats = TRUE
  Closing = TRUE
  ClosedSendRaises = FALSE
  Explicit = FALSE
  MaxBytes = 23
  MaxMsgs = 1
  DupGeneral = FALSE
  StatsForwards = TRUE
  SendWhileClosing = FALSE
CONSTRAINT Bound
INVARIANT TypeOK
INVARIANT SendRouting
INVARIANT NotifyOnce
INVARIANT FanOut
INVARIANT CountersExact
INVARIANT StatsExact
INVARIANT NoLeak
PROPERTY Monotone
