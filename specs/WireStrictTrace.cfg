SPECIFICATION TraceSpec
CONSTANTS Lenient = FALSE Alphabet = {} MaxLen = 0
CONSTANT Formats <- TrFormats
INVARIANT TraceAccepted
