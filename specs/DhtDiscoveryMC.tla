--------------------------- MODULE DhtDiscoveryMC ---------------------------
(* constants of the model-checking configurations of DhtDiscovery.tla that a .cfg file cannot spell (tuples) *)
EXTENDS DhtDiscovery

TP_store == {<<1, 2>>, <<3, 2>>}       \* 1 stores itself at 2; the adversary 3 holds a token of 2 as well
TP_keep  == {<<1, 2>>}
TP_conn  == {<<2, 3>>}
TP_none  == {}
TP_all   == {<<1, 2>>, <<1, 3>>, <<2, 1>>, <<2, 3>>, <<3, 1>>, <<3, 2>>}
TP_punct == {<<1, 2>>}
FS_punct == {{2}}
FS_all   == SUBSET Nodes
FS_store == {{}, {2}, {2, 3}}
FS_keep  == {{2}}
FS_conn  == {{}, {3}, {2, 3}}
TP_local == {<<2, 1>>}                   \* 2 stores itself at the connector 1
FS_local == {{}, {1}, {2}}
=============================================================================
