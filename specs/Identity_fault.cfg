\* storage faults (a failed INSERT into Attestations / Metadata) before disclosures, replays, incoming attestations and
\* own advertisements: what is sent must be on record, a replay after a failed write is attested exactly once
SPECIFICATION MCSpec
CONSTANTS AlreadyChecked = TRUE PkPerAuthority = TRUE CheckSubject = TRUE CheckPermission = TRUE CommitBeforeSend = TRUE Window = 300 RespCap = 10 FitAll = 8
  Regs = {1, 6} Senders = {1} TokIdx = {2, 4} MdIdx = {2, 10} AttIdx = {1, 2, 3} MissIdx = {1}
  Ticks = {} OwnerPeers = {} KnownVals = {} AttSend = {} RegFirst = TRUE FaultTabs = {1, 2}
  MaxReg = 2 MaxMsg = 3 MaxTick = 0 MaxOwn = 0 MaxFault = 2
INVARIANT TypeOK
INVARIANT SignsOnlyConsented
INVARIANT StoresOnlyValidlySigned
INVARIANT TokensOnlyUpToPermitted
INVARIANT TreesVerified
INVARIANT SentOnlyRecorded
