\* two independent controls in one run (TLC -continue reports every violated invariant):
\*   FutLoop = "break" only changes how the tied futures are swept   -> FuturesCompletedOnTimeout
\*   ShutGuard = TRUE only changes what shutdown() does to the table -> NothingRegisteredAfterShutdown
SPECIFICATION Spec
CONSTANTS NC = 2 NI = 2 Delays = {1} PassTimeouts = {} Filters = {"all"}
          Nesting = FALSE ReAdds = 0 ExtFut = 1 ReapOwnOnly = TRUE LateCancel = TRUE
          HScripts = {} CoHandlers = FALSE ClaimFirst = TRUE
          TMShutdown = TRUE ShutGuard = TRUE NFut = 3 FutLoop = "break"
INVARIANT FuturesCompletedOnTimeout
INVARIANT NothingRegisteredAfterShutdown
