------------------------------- MODULE Onion -------------------------------
(* Tunnel circuits of ipv8/messaging/anonymization: community.py (TunnelCommunity), crypto.py                  *)
(* (PythonCryptoEndpoint, TunnelCrypto), caches.py, tunnel.py, exit_socket.py.                                  *)
(*                                                                                                              *)
(* One action per handler / timer / task step of the code (a handler and its synchronous consequences are one  *)
(* step - exactly what one driver step of the conformance harness executes).  Cryptography is symbolic:        *)
(*   - an ephemeral DH secret is a natural number; a session key is [e1, e2, st]: the initiator's and the      *)
(*     responder's ephemeral secret and the responder's static identity (shared secret = DH(e1,e2)+DH(e1,st)); *)
(*   - auth = MAC(DH(e1,e2), pub(e2)) is the record [e1, e2] (the MAC covers only the ephemeral half - as in   *)
(*     TunnelCrypto.generate_diffie_shared_secret);                                                            *)
(*   - an onion is a sequence of layers [k, d, ok] (outermost first) around a message record; AEAD: removing a *)
(*     layer needs the same key and direction and an untampered layer (ok).                                    *)
(* Decides C04, C05, C08, C09 (see the property sections at the end); Shared by MC configurations and by       *)
(* OnionTrace.tla, which validates recorded executions of the real nodes.                                      *)
EXTENDS Naturals, Integers, Sequences, FiniteSets, TLC, SequencesExt

CONSTANTS
  Node,          \* honest nodes; a node's address, public key and identity are the same atom
  Adv,           \* the attacker (address and key), Adv \notin Node
  Flags,         \* [Node -> SUBSET {"relay", "exit"}]  settings.peer_flags ("exit" = EXIT_BT and EXIT_IPV8)
  Cands,         \* [Node -> [relays : Seq(Node), exits : Seq(Node)]] candidates a node hands out in created/extended
  FirstHops,     \* [Node -> Seq(Node)] possible first hops an originator knows (goal > 1)
  MaxJoined,     \* settings.max_joined_circuits
  MaxEarly,      \* settings.max_relay_early
  Tries,         \* circuit_timeout // next_hop_timeout
  NextHop, Unstable, CacheTO, Inactive, RemoveDelay, SweepEvery, PingEvery, MaxTime,   \* timers (one time unit)
  CreateGuard,   \* TRUE: a create for a circuit id that is in use is refused (repaired code); FALSE: pinned code
  MaxCircuits, MaxData, MaxLoss, MaxDup, MaxAdv, MaxNow, \* bounds for model checking
  Goals,         \* hop counts an originator may ask for
  Origins,       \* nodes that originate circuits
  AdvKinds,      \* adversary actions enabled in this configuration
  NodeRank,      \* [Node -> Nat] order in which simultaneous periodic timers are explored (model checking only)
  AdvSrcs,       \* source addresses the attacker claims (its own, spoofed honest ones)
  UseIds,        \* TRUE: datagrams carry their send sequence number (trace validation); FALSE: anonymous (model checking)
  TrackWire,     \* keep the eavesdropper's history (needed by NoRepeatOnLinks / replayed destroys)
  NodeTeardown,  \* TRUE: relays / exits may tear a circuit down on their own initiative
  MayVanish,     \* TRUE: nodes may disappear (C09: abandoned circuits)
  SweepRelays,   \* TRUE: do_remove also reclaims inactive relay entries (the code); FALSE: negative control
  TestCells,     \* TRUE: originators may send speed-test request cells
  E2E,           \* TRUE: two circuits may be linked at a rendezvous point (hidden services)
  Aead,          \* TRUE: a layer only comes off if it authenticates (ChaCha20-Poly1305); FALSE: negative control
  SuspendJoin,   \* TRUE: should_join_circuit (an async extension point) really suspends - on_create is two steps, the
                 \* guards at delivery and the join when the decision resumes (JoinResume); FALSE: the shipped classes
  JoinCacheFirst,\* TRUE: join_circuit registers the CreatedRequestCache (which raises for a circuit id that has one) BEFORE it
                 \* installs the exit socket (the code); FALSE: the other order (negative control for KeyAgreement)
  DataGuard,     \* TRUE: the owner of a circuit that is still being extended takes no data from it (the code since the fix);
                 \* FALSE: the pinned earlier behaviour - a relay wraps whatever arrives on the way back, also an unencrypted
                 \* cell, and an owner who knows only that relay as a hop peels the layer and delivers the forged data
                 \* (negative control for ReturnIntegrity)
  CandsGuard,    \* TRUE: an answer whose candidate list does not decode ends the circuit (the code since the fix); FALSE:
                 \* the pinned earlier behaviour (negative control for HopByRightAnswer)
  RelayOnce,     \* TRUE: a created for a circuit that was already turned into a relay is dropped (the code since the fix);
                 \* FALSE: the pinned earlier behaviour - while the exit entry lingers (remove_tunnel_delay) the forward route
                 \* is re-pointed by whichever created arrives last (negative control for PathAgreement)
  CheckIdent,    \* TRUE: an answer must carry the identifier of the outstanding request (the code); FALSE: negative control
  AutoTimers     \* TRUE: sweeps/pings are driven by sweepAt/pingAt (model checking); FALSE: any time (trace validation)

None == "none"
F == "F"      \* FORWARD
B == "B"      \* BACKWARD
Null == "null" \* the address 0.0.0.0:0
NoHop == [peer |-> "none", eph |-> 0]
NoKey == [e1 |-> 0, e2 |-> 0, st |-> "none"]
Everyone == Node \cup {Adv}

VARIABLES
  circ,      \* [Node -> [cid -> [goal, hops : Seq([peer, key]), unv : None | [peer, eph], closing, early, act, born]]]
  relay,     \* [Node -> [cid -> [to, next, key, dir, early, act]]]
  exit,      \* [Node -> [cid -> [prev, pk, key, enabled, open, act, born]]]   open = outside transports exist
  retryC,    \* [Node -> [cid -> [ident, tries, alts, kind, due]]]            RetryRequestCache
  createdC,  \* [Node -> [cid -> [due]]]                                      CreatedRequestCache
  createC,   \* [Node -> [ident -> [ext, to, from, peer, toPeer, due]]]       CreateRequestCache
  pingC,     \* [Node -> [ident -> due]]                                      PingRequestCache
  pend,      \* set of [n, kind, cid, due]: remove_* tasks sleeping before they pop the entry
  net,       \* set of in-flight datagrams
  ctr,       \* [msg, cid, ident, eph, data] fresh-name counters
  now, sweepAt, pingAt,
  hist,      \* history: [sent : payload -> [o, cid, dest], exitLog, origLog : sets, fwdEarly : [<<n,cid>> -> Nat]]
  budget,    \* [loss, dup, adv]
  wire,      \* history: every datagram that was ever in flight (what an eavesdropper saw); {} unless TrackWire
  gone,      \* nodes whose endpoint is closed (crashed / abandoned their circuits): they send and receive nothing
  stepc      \* number of steps taken (stamps sleeping remove_* tasks so that two of them are two); 0 unless UseIds
vars == <<circ, relay, exit, retryC, createdC, createC, pingC, pend, net, ctr, now, sweepAt, pingAt, hist, budget, wire,
          gone, stepc>>

EmptyF == [x \in {} |-> 0]
Put(f, k, v) == (k :> v) @@ f
Del(f, k) == [x \in DOMAIN f \ {k} |-> f[x]]
Has(f, k) == k \in DOMAIN f

Init ==
  /\ circ = [n \in Node |-> EmptyF] /\ relay = [n \in Node |-> EmptyF] /\ exit = [n \in Node |-> EmptyF]
  /\ retryC = [n \in Node |-> EmptyF] /\ createdC = [n \in Node |-> EmptyF] /\ createC = [n \in Node |-> EmptyF]
  /\ pingC = [n \in Node |-> EmptyF]
  /\ pend = {} /\ net = {}
  /\ ctr = [msg |-> 0, cid |-> 0, ident |-> 0, eph |-> 0, data |-> 0, adv |-> 0]
  /\ now = 0 /\ sweepAt = [n \in Node |-> SweepEvery] /\ pingAt = [n \in Node |-> PingEvery]
  /\ hist = [sent |-> EmptyF, exitLog |-> {}, origLog |-> {}, fwdEarly |-> EmptyF, joined |-> {}, links |-> {}, tests |-> {}]
  /\ budget = [loss |-> 0, dup |-> 0, adv |-> 0]
  /\ wire = {} /\ stepc = 0 /\ gone = {}

(* ------------------------------------------------ onions ------------------------------------------------- *)
Layer(k, d) == [k |-> k, d |-> d, ok |-> TRUE]
\* encrypt_cell(cell, direction, *hops): innermost = last hop, outermost = first hop; no-op for plaintext cells
Wrap(L, d, keys) == [i \in 1..Len(keys) |-> Layer(keys[i], d)] \o L
CanPeel(L, k, d) == L # <<>> /\ Head(L).k = k /\ Head(L).d = d /\ (Head(L).ok \/ ~Aead)
\* decrypt_cell(cell, direction, *hops): peel in hop order; result <<ok, rest>>
RECURSIVE Peel(_, _, _)
Peel(L, d, keys) == IF keys = <<>> THEN <<TRUE, L>>
                    ELSE IF CanPeel(L, Head(keys), d) THEN Peel(Tail(L), d, Tail(keys)) ELSE <<FALSE, L>>
HopKeys(c) == [i \in 1..Len(c.hops) |-> c.hops[i].key]

Cell(src, dst, cid, plain, early, L, m) ==
  [t |-> "cell", src |-> src, dst |-> dst, cid |-> cid, plain |-> plain, early |-> early, L |-> L, m |-> m]
Destroy(src, dst, cid, signer) ==
  [t |-> "destroy", src |-> src, dst |-> dst, cid |-> cid, signer |-> signer]

\* put a sequence of datagrams on the wire (ids in sending order), removing the consumed ones
Bump(v, k) == IF UseIds THEN v + k ELSE 0
BumpN(n, v, k) == IF n \in gone THEN v ELSE Bump(v, k)
\* (a closed endpoint sends nothing: every Emit below is by one node, so either all or none of ms is sent)
Sends(ms) == IF ms # <<>> /\ ms[1].src \in gone THEN <<>> ELSE ms
Emit(consumed, ms) ==
  /\ net' = (net \ consumed) \cup {[Sends(ms)[i] EXCEPT !.id = IF UseIds THEN ctr.msg + i ELSE 0] : i \in 1..Len(Sends(ms))}
StampIds(ms) == [i \in 1..Len(ms) |-> [id |-> 0] @@ ms[i]]

(* circuit state as in tunnel.py Circuit.state *)
CState(c) == IF c.closing THEN "CLOSING" ELSE IF Len(c.hops) < c.goal THEN "EXTENDING" ELSE "READY"
FirstHopAddr(c) == IF c.hops # <<>> THEN c.hops[1].peer ELSE c.unv.peer

\* the extra end-to-end layer of a hidden-service circuit (innermost): seeders encrypt FORWARD, downloaders BACKWARD
HsLayer(c) == IF c.hs # NoKey THEN <<Layer(c.hs, IF c.ctype = "RPS" THEN F ELSE B)>> ELSE <<>>
(* send_cell from the owner of a circuit: relay_early bookkeeping + layered encryption (crypto.py send_cell) *)
OwnCell(n, cid, m) ==
  LET c == circ[n][cid]
      early == (m.t = "extend") \/ c.early < MaxEarly
      plain == m.t \in {"create", "created"}
  IN [cell |-> Cell(n, FirstHopAddr(c), cid, plain, early, IF plain THEN <<>> ELSE Wrap(HsLayer(c), F, HopKeys(c)), m),
      circ |-> [c EXCEPT !.early = IF early THEN @ + 1 ELSE @]]

(* remove_circuit / remove_relay / remove_exit_socket: mark + delayed pop *)
Pending(n, kind, cid) == [n |-> n, kind |-> kind, cid |-> cid, due |-> now + RemoveDelay, k |-> stepc]

(* ------------------------------------------- originator API --------------------------------------------- *)
\* create_circuit + send_initial_create: first hop and alternatives are the originator's choice (logged in traces)
CreateCircuit(o, goal, first, alts) ==
  /\ ctr.cid < MaxCircuits
  /\ goal \in 1..3
  /\ first \in Node \ {o}
  /\ LET cid == ctr.cid + 1
         e   == ctr.eph + 1
         id  == ctr.ident + 1
         c   == [goal |-> goal, hops |-> <<>>, unv |-> [peer |-> first, eph |-> e], closing |-> FALSE,
                 early |-> 0, act |-> now, born |-> now, ctype |-> "DATA", hs |-> NoKey]
         m   == [t |-> "create", cid |-> cid, ident |-> id, pk |-> o, eph |-> e]
     IN /\ circ' = [circ EXCEPT ![o] = Put(@, cid, [c EXCEPT !.early = IF 0 < MaxEarly THEN 1 ELSE 0])]
        /\ retryC' = [retryC EXCEPT ![o] = Put(@, cid, [ident |-> id, tries |-> Tries - 1, alts |-> alts,
                                                        kind |-> "create", due |-> now + NextHop])]
        /\ Emit({}, StampIds(<<Cell(o, first, cid, TRUE, 0 < MaxEarly, <<>>, m)>>))
        /\ ctr' = [ctr EXCEPT !.cid = cid, !.eph = e, !.ident = id, !.msg = BumpN(o, @, 1)]
  /\ UNCHANGED <<relay, exit, createdC, createC, pingC, pend, now, sweepAt, pingAt, hist, budget>>

\* send_data into a ready circuit (TunnelCommunity.send_data from the circuit owner)
SendData(o, cid, dest) ==
  /\ ctr.data < MaxData
  /\ Has(circ[o], cid) /\ CState(circ[o][cid]) = "READY"     \* the properties speak about ready circuits
  /\ circ[o][cid].hs = NoKey                                  \* (end-to-end circuits carry SendE2E traffic)
  /\ LET p == ctr.data + 1
         r == OwnCell(o, cid, [t |-> "data", cid |-> cid, dest |-> dest, origin |-> Null, p |-> p])
     IN /\ circ' = [circ EXCEPT ![o] = Put(@, cid, r.circ)]
        /\ Emit({}, StampIds(<<r.cell>>))
        /\ ctr' = [ctr EXCEPT !.data = p, !.msg = BumpN(o, @, 1)]
        /\ hist' = [hist EXCEPT !.sent = Put(@, p, [o |-> o, cid |-> cid, dest |-> dest])]
  /\ UNCHANGED <<relay, exit, retryC, createdC, createC, pingC, pend, now, sweepAt, pingAt, budget>>

\* hidden services: the rendezvous point links two circuits that end in it (on_link_e2e); both owners then share an
\* end-to-end key.  (The create-e2e / link-e2e handshake itself is not modelled: the harness performs the link.)
LinkE2E(rp, c1, c2, o1, k1, o2, k2) ==
  /\ Has(exit[rp], c1) /\ Has(exit[rp], c2) /\ c1 # c2 /\ ~exit[rp][c1].enabled /\ ~exit[rp][c2].enabled
  /\ Has(circ[o1], k1) /\ Has(circ[o2], k2) /\ <<o1, k1>> # <<o2, k2>>
  /\ LET hk == [e1 |-> ctr.eph + 1, e2 |-> ctr.eph + 1, st |-> "e2e"]
         r1 == [to |-> c2, next |-> exit[rp][c2].prev, key |-> exit[rp][c1].key, dir |-> F, early |-> 1, act |-> now, rdv |-> TRUE]
         r2 == [to |-> c1, next |-> exit[rp][c1].prev, key |-> exit[rp][c2].key, dir |-> F, early |-> 1, act |-> now, rdv |-> TRUE]
     IN /\ relay' = [relay EXCEPT ![rp] = Put(Put(@, c1, r1), c2, r2)]
        /\ pend' = pend \cup {Pending(rp, "exit", c1), Pending(rp, "exit", c2)}
        /\ circ' = [circ EXCEPT ![o1] = Put(@, k1, [@[k1] EXCEPT !.ctype = "RPD", !.hs = hk]),
                                ![o2] = Put(@, k2, [@[k2] EXCEPT !.ctype = "RPS", !.hs = hk])]
        /\ ctr' = [ctr EXCEPT !.eph = @ + 1]
        /\ hist' = [hist EXCEPT !.links = @ \cup {<<<<o1, k1>>, <<o2, k2>>>>, <<<<o2, k2>>, <<o1, k1>>>>}]
  /\ UNCHANGED <<exit, retryC, createdC, createC, pingC, net, now, sweepAt, pingAt, budget>>

\* data for the other end of an e2e circuit (HiddenTunnelCommunity.tunnel_data -> send_data)
SendE2E(o, cid) ==
  /\ ctr.data < MaxData
  /\ Has(circ[o], cid) /\ CState(circ[o][cid]) = "READY" /\ circ[o][cid].hs # NoKey
  /\ LET p == ctr.data + 1
         r == OwnCell(o, cid, [t |-> "data", cid |-> cid, dest |-> "peer", origin |-> Null, p |-> p])
     IN /\ circ' = [circ EXCEPT ![o] = Put(@, cid, r.circ)]
        /\ Emit({}, StampIds(<<r.cell>>))
        /\ ctr' = [ctr EXCEPT !.data = p, !.msg = BumpN(o, @, 1)]
        /\ hist' = [hist EXCEPT !.sent = Put(@, p, [o |-> o, cid |-> cid, dest |-> "peer"])]
  /\ UNCHANGED <<relay, exit, retryC, createdC, createC, pingC, pend, now, sweepAt, pingAt, budget>>

\* remove_circuit called by the owner (optionally with destroy)
RemoveCircuitStep(n, cid, destroy) ==
  \* returns [circ, retry, pend, msgs] for node n
  LET c == circ[n][cid] IN
  [circ  |-> Put(circ[n], cid, [c EXCEPT !.closing = TRUE]),
   retry |-> Del(retryC[n], cid),
   pend  |-> pend \cup {Pending(n, "circuit", cid)},
   msgs  |-> IF destroy THEN <<Destroy(n, FirstHopAddr(c), cid, n)>> ELSE <<>>]

\* (teardowns, disappearances and losses share one budget in model checking: MaxLoss disturbances per behaviour)
Disturb == budget.loss < MaxLoss /\ budget' = [budget EXCEPT !.loss = @ + 1]
RemoveCircuit(o, cid, destroy) ==
  /\ Has(circ[o], cid) /\ (UseIds \/ ~circ[o][cid].closing) /\ Disturb
  /\ LET r == RemoveCircuitStep(o, cid, destroy) IN
       /\ circ' = [circ EXCEPT ![o] = r.circ] /\ retryC' = [retryC EXCEPT ![o] = r.retry] /\ pend' = r.pend
       /\ Emit({}, StampIds(r.msgs)) /\ ctr' = [ctr EXCEPT !.msg = BumpN(o, @, Len(r.msgs))]
  /\ UNCHANGED <<relay, exit, createdC, createC, pingC, now, sweepAt, pingAt, hist>>

\* a relay tears its route down (remove_relay(cid, destroy=True)): the destroy goes to the far side of that entry
NodeRemoveRelay(n, cid) ==
  /\ Has(relay[n], cid) /\ Disturb
  /\ pend' = pend \cup {Pending(n, "relay", cid)}
  /\ Emit({}, StampIds(<<Destroy(n, relay[n][cid].next, relay[n][cid].to, n)>>))
  /\ ctr' = [ctr EXCEPT !.msg = BumpN(n, @, 1)]
  /\ UNCHANGED <<circ, relay, exit, retryC, createdC, createC, pingC, now, sweepAt, pingAt, hist>>
\* an exit tears its socket down (remove_exit_socket(cid, destroy=True)): the destroy goes to the previous hop
NodeRemoveExit(n, cid) ==
  /\ Has(exit[n], cid) /\ Disturb
  /\ pend' = pend \cup {Pending(n, "exit", cid)}
  /\ Emit({}, StampIds(<<Destroy(n, exit[n][cid].prev, cid, n)>>))
  /\ ctr' = [ctr EXCEPT !.msg = BumpN(n, @, 1)]
  /\ UNCHANGED <<circ, relay, exit, retryC, createdC, createC, pingC, now, sweepAt, pingAt, hist>>

(* ---------------------------------------------- handlers ------------------------------------------------ *)
\* what process_cell does before a handler sees the message: <<kind, L'>> with kind in relay / handle / drop
Stage(n, d) ==
  IF Has(relay[n], d.cid) THEN "relay"
  ELSE IF ~Has(circ[n], d.cid) /\ ~Has(exit[n], d.cid) /\ ~d.plain THEN "drop"
  ELSE "local"

LocalPeel(n, d) ==
  \* incoming_crypto: exit socket first, then own circuit; plaintext cells are not decrypted
  IF d.plain THEN <<TRUE, d.L>>
  ELSE IF Has(exit[n], d.cid) THEN Peel(d.L, F, <<exit[n][d.cid].key>>)
  ELSE LET c == circ[n][d.cid]
           r == Peel(d.L, B, HopKeys(c))
       IN IF ~r[1] \/ c.hs = NoKey THEN r
          ELSE Peel(r[2], IF c.ctype = "RPD" THEN F ELSE B, <<c.hs>>)   \* the e2e layer comes off last

\* a cell is handed to the community handler iff ...
Accepted(n, d) ==
  /\ Stage(n, d) = "local"
  /\ LocalPeel(n, d)[1] /\ LocalPeel(n, d)[2] = <<>>
  /\ ~(~d.early /\ d.m.t = "extend") /\ MaxEarly > 0
  /\ ~(d.plain /\ d.m.t \notin {"create", "created"})

\* common tail of process_cell: the owner's circuit heart beats after a handled cell
Beat(c, n, cid) == IF Has(c, cid) THEN Put(c, cid, [c[cid] EXCEPT !.act = now]) ELSE c

\* cells that are dropped without any effect (unknown circuit, undecryptable, bad flags, handler refuses)
DropCell(d) ==
  /\ d \in net /\ d.t = "cell" /\ d.dst \in Node
  /\ LET n == d.dst IN
       \/ Stage(n, d) = "drop"
       \/ Stage(n, d) = "local" /\ ~Accepted(n, d)
       \/ Stage(n, d) = "relay" /\
            LET r == relay[n][d.cid] IN
              \/ d.plain
              \/ d.early /\ r.early >= MaxEarly
              \/ (r.dir = F \/ r.rdv) /\ ~CanPeel(d.L, r.key, F)
              \/ r.rdv /\ ~Has(relay[n], r.to)
  /\ Emit({d}, <<>>)
  \* relay_cell is reached (and this_relay's heart beats) even when the cell is then dropped
  /\ relay' = IF Stage(d.dst, d) = "relay" /\ Has(relay[d.dst], relay[d.dst][d.cid].to)
              THEN [relay EXCEPT ![d.dst] = Put(@, relay[d.dst][d.cid].to, [@[relay[d.dst][d.cid].to] EXCEPT !.act = now])]
              ELSE relay
  \* a cell for an own circuit whose hop layers all verify counts as activity even if what is inside them is garbage (a
  \* relay in front of the attacker wraps blindly): process_cell reaches its tail, only the message is not understood
  /\ circ' = IF Stage(d.dst, d) = "local" /\ ~d.plain /\ Has(circ[d.dst], d.cid) /\ ~Has(exit[d.dst], d.cid)
                 /\ LocalPeel(d.dst, d)[1] /\ LocalPeel(d.dst, d)[2] # <<>> /\ MaxEarly > 0
              THEN [circ EXCEPT ![d.dst] = Beat(@, d.dst, d.cid)]
              ELSE circ
  /\ UNCHANGED <<exit, retryC, createdC, createC, pingC, pend, ctr, now, sweepAt, pingAt, hist, budget>>

\* relay_cell: one layer peeled (forward) or added (backward), circuit id rewritten
RelayCell(d) ==
  /\ d \in net /\ d.t = "cell" /\ d.dst \in Node
  /\ LET n == d.dst IN
     /\ Stage(n, d) = "relay"
     /\ LET r == relay[n][d.cid] IN
        /\ ~d.plain
        /\ ~(d.early /\ r.early >= MaxEarly)
        /\ (r.dir = F \/ r.rdv) => CanPeel(d.L, r.key, F)
        /\ r.rdv => Has(relay[n], r.to)
        /\ LET L2  == IF r.rdv THEN <<Layer(relay[n][r.to].key, B)>> \o Tail(d.L)     \* rendezvous: peel one side, wrap for the other
                      ELSE IF r.dir = F THEN Tail(d.L) ELSE <<Layer(r.key, B)>> \o d.L
               out == Cell(n, r.next, r.to, FALSE, IF r.rdv THEN FALSE ELSE d.early, L2, d.m)
               r1  == Put(relay[n], d.cid, [r EXCEPT !.early = @ + 1])
               r2  == IF Has(r1, r.to) THEN Put(r1, r.to, [r1[r.to] EXCEPT !.act = now]) ELSE r1
           IN /\ relay' = [relay EXCEPT ![n] = r2]
              /\ Emit({d}, StampIds(<<out>>))
              /\ hist' = [hist EXCEPT !.fwdEarly =
                            IF d.early THEN Put(@, <<n, d.cid>>, (IF Has(@, <<n, d.cid>>) THEN @[<<n, d.cid>>] ELSE 0) + 1)
                            ELSE @]
  /\ ctr' = [ctr EXCEPT !.msg = Bump(@, 1)]
  /\ UNCHANGED <<circ, exit, retryC, createdC, createC, pingC, pend, now, sweepAt, pingAt, budget>>

\* on_create -> should_join_circuit -> join_circuit
InUse(n, cid) == Has(circ[n], cid) \/ Has(relay[n], cid) \/ Has(exit[n], cid)
GuardsPass(n, cid) ==
  /\ Flags[n] # {}
  /\ ~Has(createdC[n], cid)
  /\ CreateGuard => ~InUse(n, cid)
BelowLimit(n) == MaxJoined > Cardinality(DOMAIN relay[n]) + Cardinality(DOMAIN exit[n])
WillJoin(n, cid) == GuardsPass(n, cid) /\ BelowLimit(n)

\* join_circuit: fresh ephemeral, session keys, CreatedRequestCache, exit socket, created answer
JoinEffects(n, cid, src, m) ==
  LET e2  == ctr.eph + 1
      key == [e1 |-> m.eph, e2 |-> e2, st |-> n]
      ans == [t |-> "created", cid |-> cid, ident |-> m.ident, eph |-> e2,
              auth |-> [e1 |-> m.eph, e2 |-> e2], cands |-> [k |-> key, v |-> Cands[n]]]
  IN [createdC |-> [createdC EXCEPT ![n] = Put(@, cid, [due |-> now + Unstable])],
      exit |-> [exit EXCEPT ![n] = Put(@, cid, [prev |-> src, pk |-> m.pk, key |-> key, enabled |-> FALSE,
                                              open |-> FALSE, q |-> <<>>, act |-> now, born |-> now])],
      out |-> <<Cell(n, src, cid, TRUE, FALSE, <<>>, ans)>>,
      ctr |-> [ctr EXCEPT !.eph = e2, !.msg = Bump(@, 1)],
      hist |-> [hist EXCEPT !.joined = @ \cup {[n |-> n, key |-> key]}]]

OnCreate(d) ==
  /\ d \in net /\ d.t = "cell" /\ d.dst \in Node /\ Accepted(d.dst, d) /\ d.m.t = "create"
  /\ LET n == d.dst  m == d.m  cid == d.cid IN
     IF SuspendJoin /\ GuardsPass(n, cid)
     THEN \* the guards passed; the task now waits for should_join_circuit (nothing is registered yet)
          /\ pend' = pend \cup {[n |-> n, kind |-> "join", cid |-> cid, due |-> 0, k |-> d.id, src |-> d.src, m |-> m]}
          /\ Emit({d}, <<>>)
          /\ circ' = [circ EXCEPT ![n] = Beat(@, n, cid)]
          /\ UNCHANGED <<exit, createdC, ctr, hist>>
     ELSE IF ~WillJoin(n, cid)
     THEN /\ Emit({d}, <<>>)
          /\ circ' = [circ EXCEPT ![n] = Beat(@, n, cid)]
          /\ UNCHANGED <<exit, createdC, ctr, hist, pend>>
     ELSE LET j == JoinEffects(n, cid, d.src, m)
          IN /\ createdC' = j.createdC /\ exit' = j.exit /\ ctr' = j.ctr /\ hist' = j.hist
             /\ Emit({d}, StampIds(j.out))
             /\ circ' = [circ EXCEPT ![n] = Beat(@, n, cid)]
             /\ UNCHANGED pend
  /\ UNCHANGED <<relay, retryC, createC, pingC, now, sweepAt, pingAt, budget>>

\* should_join_circuit has decided: the rest of on_create runs (the guards are NOT evaluated again)
JoinResume(p) ==
  /\ p \in pend /\ p.kind = "join"
  /\ pend' = pend \ {p}
  /\ LET n == p.n  cid == p.cid
         j == JoinEffects(n, cid, p.src, p.m)
     IN
     IF ~BelowLimit(n) THEN UNCHANGED <<exit, createdC, ctr, hist, net>>
     ELSE IF Has(createdC[n], cid) THEN
          \* NumberCache's constructor raises for an identifier that is registered: the task dies there
          IF JoinCacheFirst THEN UNCHANGED <<exit, createdC, ctr, hist, net>>
          ELSE /\ exit' = j.exit /\ ctr' = [j.ctr EXCEPT !.msg = ctr.msg] /\ hist' = j.hist
               /\ UNCHANGED <<createdC, net>>
     ELSE /\ createdC' = j.createdC /\ exit' = j.exit /\ ctr' = j.ctr /\ hist' = j.hist
          /\ Emit({}, StampIds(j.out))
  /\ UNCHANGED <<circ, relay, retryC, createC, pingC, now, sweepAt, pingAt, budget>>

\* send_extend: choose the next hop among the offered candidates (first not excluded), or give up
NextChoice(n, c, cands) ==
  LET excl == {c.hops[i].peer : i \in 1..Len(c.hops)} \cup {n}
      ok   == SelectSeq(cands, LAMBDA x : x \notin excl)
  IN ok

\* _ours_on_created_extended
Ours(n, cid, m, consumed) ==
  LET c   == circ[n][cid]
      hop == c.unv
  IN
  IF hop.peer = None THEN
       /\ Emit(consumed, <<>>) /\ circ' = [circ EXCEPT ![n] = Beat(@, n, cid)]
       /\ UNCHANGED <<retryC, pend, ctr>>
  ELSE IF m.auth # [e1 |-> hop.eph, e2 |-> m.eph] THEN
       \* verify_and_generate_shared_secret raises CryptoException (not the ValueError the caller handles): the
       \* catch-all of on_packet_from_circuit swallows it, nothing changes; the retry cache will time out
       /\ Emit(consumed, <<>>) /\ circ' = [circ EXCEPT ![n] = Beat(@, n, cid)]
       /\ UNCHANGED <<retryC, pend, ctr>>
  ELSE
    LET key == [e1 |-> hop.eph, e2 |-> m.eph, st |-> hop.peer]
        c1  == [c EXCEPT !.unv = NoHop, !.hops = Append(@, [peer |-> hop.peer, key |-> key])]
    IN
    IF Len(c1.hops) >= c1.goal \/ c1.closing THEN
         \* READY (or CLOSING): only the retry cache is popped
         /\ circ' = [circ EXCEPT ![n] = Beat(Put(@, cid, c1), n, cid)]
         /\ retryC' = [retryC EXCEPT ![n] = IF c1.closing THEN @ ELSE Del(@, cid)]
         /\ Emit(consumed, <<>>) /\ UNCHANGED <<pend, ctr>>
    ELSE IF m.cands.k # key /\ ~CandsGuard THEN
         \* (pinned earlier behaviour) candidates_enc does not decrypt: exception after the hop was added; nothing else
         \* happens - the retry cache of the previous step stays and later re-runs that step on top of the new hop
         /\ circ' = [circ EXCEPT ![n] = Put(@, cid, c1)]
         /\ Emit(consumed, <<>>) /\ UNCHANGED <<retryC, pend, ctr>>
    ELSE IF m.cands.k # key THEN
         \* candidates_enc does not decrypt: the hop has been added, the circuit is given up (no destroy)
         LET r == RemoveCircuitStep(n, cid, FALSE) IN
         /\ circ' = [circ EXCEPT ![n] = Beat(Put(r.circ, cid, [c1 EXCEPT !.closing = TRUE]), n, cid)]
         /\ retryC' = [retryC EXCEPT ![n] = r.retry] /\ pend' = r.pend
         /\ Emit(consumed, <<>>) /\ UNCHANGED ctr
    ELSE
      LET becomeExit == c1.goal - 1 = Len(c1.hops)
          offered == IF becomeExit THEN m.cands.v.exits
                     ELSE IF m.cands.v.relays # <<>> THEN m.cands.v.relays ELSE m.cands.v.exits
          ok      == NextChoice(n, c1, offered)
          tries   == IF Has(retryC[n], cid) THEN retryC[n][cid].tries ELSE 1
      IN
      IF ok # <<>> /\ Head(ok) = "notakey" THEN
           \* send_extend has popped the retry cache when key_from_public_bin raises on the chosen candidate: the hop is
           \* there, nothing is sent, no timer is left - the circuit idles (pinged) until max_time
           /\ circ' = [circ EXCEPT ![n] = Beat(Put(@, cid, c1), n, cid)]
           /\ retryC' = [retryC EXCEPT ![n] = Del(@, cid)]
           /\ Emit(consumed, <<>>) /\ UNCHANGED <<pend, ctr>>
      ELSE IF ok = <<>> THEN
           \* no candidate (the fall-back to own exit candidates is not modelled: FirstHops are relays only)
           LET r == RemoveCircuitStep(n, cid, FALSE) IN
           /\ circ' = [circ EXCEPT ![n] = Beat(Put(r.circ, cid, [c1 EXCEPT !.closing = TRUE]), n, cid)]
           /\ retryC' = [retryC EXCEPT ![n] = r.retry] /\ pend' = r.pend
           /\ Emit(consumed, <<>>) /\ UNCHANGED ctr
      ELSE
        LET nxt == Head(ok)
            e   == ctr.eph + 1
            id  == ctr.ident + 1
            c2  == [c1 EXCEPT !.unv = [peer |-> nxt, eph |-> e]]
            msg == [t |-> "extend", cid |-> cid, ident |-> id, pk |-> nxt, eph |-> e, addr |-> Null]
            r   == OwnCell(n, cid, msg)
            cell == [r.cell EXCEPT !.L = Wrap(<<>>, F, HopKeys(c2)), !.dst = c2.hops[1].peer]
        IN /\ circ' = [circ EXCEPT ![n] = Beat(Put(@, cid, [c2 EXCEPT !.early = @ + 1]), n, cid)]
           /\ retryC' = [retryC EXCEPT ![n] = Put(@, cid, [ident |-> id, tries |-> tries - 1, alts |-> Tail(ok),
                                                          kind |-> "extend", due |-> now + NextHop])]
           /\ Emit(consumed, StampIds(<<cell>>))
           /\ ctr' = [ctr EXCEPT !.eph = e, !.ident = id, !.msg = Bump(@, 1)]
           /\ UNCHANGED pend

OnCreated(d) ==
  /\ d \in net /\ d.t = "cell" /\ d.dst \in Node /\ Accepted(d.dst, d) /\ d.m.t = "created"
  /\ LET n == d.dst  m == d.m  cid == d.cid IN
     IF Has(createC[n], m.ident) THEN
        \* we are a relay that asked the next hop to join: turn the exit entry into a relay pair, answer extended
        LET req == createC[n][m.ident] IN
        /\ createC' = [createC EXCEPT ![n] = Del(@, m.ident)]
        /\ IF ~Has(exit[n], req.from) \/ (RelayOnce /\ Has(relay[n], req.from)) THEN
              /\ Emit({d}, <<>>) /\ UNCHANGED <<relay, pend, ctr>>
           ELSE
             LET key == exit[n][req.from].key
                 bw  == [to |-> req.from, next |-> req.peer, key |-> key, dir |-> B, early |-> 1, act |-> now, rdv |-> FALSE]
                 fw  == [to |-> req.to, next |-> req.toPeer, key |-> key, dir |-> F, early |-> 1, act |-> now, rdv |-> FALSE]
                 ans == [t |-> "extended", cid |-> req.from, ident |-> req.ext, eph |-> m.eph, auth |-> m.auth,
                         cands |-> m.cands]
             IN /\ relay' = [relay EXCEPT ![n] = Put(Put(@, req.to, bw), req.from, fw)]
                /\ pend' = pend \cup {Pending(n, "exit", req.from)}
                /\ Emit({d}, StampIds(<<Cell(n, req.peer, req.from, FALSE, FALSE, <<Layer(key, B)>>, ans)>>))
                /\ ctr' = [ctr EXCEPT !.msg = Bump(@, 1)]
        /\ circ' = [circ EXCEPT ![n] = Beat(@, n, cid)]
        /\ UNCHANGED <<retryC>>
     ELSE IF Has(retryC[n], cid) /\ (retryC[n][cid].ident = m.ident \/ ~CheckIdent) /\ Has(circ[n], cid) THEN
        /\ Ours(n, cid, m, {d}) /\ UNCHANGED <<relay, createC>>
     ELSE
        /\ Emit({d}, <<>>) /\ circ' = [circ EXCEPT ![n] = Beat(@, n, cid)]
        /\ UNCHANGED <<relay, createC, retryC, pend, ctr>>
  /\ UNCHANGED <<exit, createdC, pingC, now, sweepAt, pingAt, hist, budget>>

OnExtended(d) ==
  /\ d \in net /\ d.t = "cell" /\ d.dst \in Node /\ Accepted(d.dst, d) /\ d.m.t = "extended"
  /\ LET n == d.dst  m == d.m  cid == d.cid IN
     IF Has(retryC[n], cid) /\ (retryC[n][cid].ident = m.ident \/ ~CheckIdent) /\ Has(circ[n], cid) THEN Ours(n, cid, m, {d})
     ELSE /\ Emit({d}, <<>>) /\ circ' = [circ EXCEPT ![n] = Beat(@, n, cid)]
          /\ UNCHANGED <<retryC, pend, ctr>>
  /\ UNCHANGED <<relay, exit, createdC, createC, pingC, now, sweepAt, pingAt, hist, budget>>

OnExtend(d) ==
  /\ d \in net /\ d.t = "cell" /\ d.dst \in Node /\ Accepted(d.dst, d) /\ d.m.t = "extend"
  /\ LET n == d.dst  m == d.m  cid == d.cid
         known == {Cands[n].relays[i] : i \in DOMAIN Cands[n].relays} \cup {Cands[n].exits[i] : i \in DOMAIN Cands[n].exits}
     IN
     IF "relay" \notin Flags[n] \/ ~Has(createdC[n], cid) \/ (m.addr = Null /\ m.pk \notin known) THEN
        /\ Emit({d}, <<>>) /\ UNCHANGED <<createC, ctr>>
     ELSE
        LET to  == ctr.cid + 1
            id  == ctr.ident + 1
            prv == IF Has(circ[n], cid) THEN FirstHopAddr(circ[n][cid])
                   ELSE exit[n][cid].prev      \* Accepted + not a relay entry => circuit or exit entry
            req == [ext |-> m.ident, to |-> to, from |-> cid, peer |-> prv, toPeer |-> m.pk, due |-> now + CacheTO]
            out == [t |-> "create", cid |-> to, ident |-> id, pk |-> n, eph |-> m.eph]
        IN /\ createC' = [createC EXCEPT ![n] = Put(@, id, req)]
           /\ Emit({d}, StampIds(<<Cell(n, m.pk, to, TRUE, FALSE, <<>>, out)>>))
           /\ ctr' = [ctr EXCEPT !.cid = to, !.ident = id, !.msg = Bump(@, 1)]
  /\ circ' = [circ EXCEPT ![d.dst] = Beat(@, d.dst, d.cid)]
  /\ UNCHANGED <<relay, exit, retryC, createdC, pingC, pend, now, sweepAt, pingAt, hist, budget>>

\* what a receiver gets out of a data cell: the payload that was sent, or - had a tampered layer come off - garbage (0)
Seen(m) == IF "altered" \in DOMAIN m THEN 0 ELSE m.p
\* on_data: at the circuit owner (data coming back) or at the exit (data leaving the tunnel)
OnData(d) ==
  /\ d \in net /\ d.t = "cell" /\ d.dst \in Node /\ Accepted(d.dst, d) /\ d.m.t = "data"
  /\ LET n == d.dst  m == d.m  cid == d.cid IN
     \* ("circuit and origin and ..." in the code: the origin tuple is always truthy)
     IF Has(circ[n], cid) /\ d.src = FirstHopAddr(circ[n][cid]) /\ "nested" \in DOMAIN m /\ "altered" \notin DOMAIN m
        /\ (DataGuard => CState(circ[n][cid]) # "EXTENDING") THEN
        \* a packet of the tunnel community itself, handled as a message: the data message inside names a circuit whose
        \* first hop it did not come from - nothing is delivered (OutsideNested)
        /\ hist' = hist /\ exit' = exit
     ELSE IF Has(circ[n], cid) /\ d.src = FirstHopAddr(circ[n][cid]) /\ (DataGuard => CState(circ[n][cid]) # "EXTENDING") THEN
        \* (a circuit that is still being extended has no exit yet: its owner takes no data from it - the code since the fix)
        /\ hist' = [hist EXCEPT !.origLog = @ \cup {[n |-> n, cid |-> cid, p |-> Seen(m), origin |-> m.origin]}]
        /\ exit' = exit
     ELSE IF m.dest # Null /\ Has(exit[n], cid) /\ (exit[n][cid].enabled \/ d.src = exit[n][cid].prev) THEN
        \* enable() starts opening the outside sockets; until they exist data waits in the socket's own queue (deque of 10)
        IF exit[n][cid].open THEN
           /\ exit' = [exit EXCEPT ![n] = Put(@, cid, [@[cid] EXCEPT !.enabled = TRUE, !.act = now])]
           /\ hist' = [hist EXCEPT !.exitLog = @ \cup {[n |-> n, cid |-> cid, p |-> Seen(m), dest |-> m.dest]}]
        ELSE
           /\ exit' = [exit EXCEPT ![n] = Put(@, cid, [@[cid] EXCEPT !.enabled = TRUE,
                          !.q = IF Len(@) >= 10 THEN Append(Tail(@), [p |-> Seen(m), dest |-> m.dest])
                                ELSE Append(@, [p |-> Seen(m), dest |-> m.dest])])]
           /\ hist' = hist
     ELSE UNCHANGED <<exit, hist>>
  /\ circ' = [circ EXCEPT ![d.dst] = Beat(@, d.dst, d.cid)]
  /\ Emit({d}, <<>>)
  /\ UNCHANGED <<relay, retryC, createdC, createC, pingC, pend, ctr, now, sweepAt, pingAt, budget>>

\* create_transports is half way: the IPv4 socket exists (data for IPv4 destinations now leaves at once, overtaking
\* what waits in the queue), the IPv6 socket is still being opened; the queue is only flushed when both exist
Transport4Ready(n, cid) ==
  /\ Has(exit[n], cid) /\ exit[n][cid].enabled /\ ~exit[n][cid].open
  /\ exit' = [exit EXCEPT ![n] = Put(@, cid, [@[cid] EXCEPT !.open = TRUE])]
  /\ UNCHANGED <<circ, relay, retryC, createdC, createC, pingC, pend, net, ctr, now, sweepAt, pingAt, hist, budget>>

\* create_transports finished: both outside sockets exist, whatever waited in THIS socket's queue is sent
TransportsReady(n, cid) ==
  /\ Has(exit[n], cid) /\ exit[n][cid].enabled /\ (~exit[n][cid].open \/ exit[n][cid].q # <<>>)
  /\ LET ex == exit[n][cid] IN
       /\ exit' = [exit EXCEPT ![n] = Put(@, cid, [ex EXCEPT !.open = TRUE, !.q = <<>>,
                                                       !.act = IF ex.q # <<>> THEN now ELSE @])]
       /\ hist' = [hist EXCEPT !.exitLog = @ \cup {[n |-> n, cid |-> cid, p |-> ex.q[i].p, dest |-> ex.q[i].dest] : i \in DOMAIN ex.q}]
  /\ UNCHANGED <<circ, relay, retryC, createdC, createC, pingC, pend, net, ctr, now, sweepAt, pingAt, budget>>

\* data coming back from the outside world: TunnelExitSocket.tunnel_data
ExitReturn(x, cid, p) ==
  /\ Has(exit[x], cid) /\ exit[x][cid].open
  /\ \E e \in hist.exitLog : e.n = x /\ e.cid = cid /\ e.p = p
  /\ ~\E d \in net : d.t = "cell" /\ d.m.t = "data" /\ d.m.origin # Null /\ d.m.p = p
  /\ ~\E e \in hist.origLog : e.p = p
  /\ LET ex == exit[x][cid]
         m  == [t |-> "data", cid |-> cid, dest |-> Null, origin |-> "outside", p |-> p]
     IN Emit({}, StampIds(<<Cell(x, ex.prev, cid, FALSE, FALSE, <<Layer(ex.key, B)>>, m)>>))
  /\ ctr' = [ctr EXCEPT !.msg = BumpN(x, @, 1)]
  /\ UNCHANGED <<circ, relay, exit, retryC, createdC, createC, pingC, pend, now, sweepAt, pingAt, hist, budget>>

\* do_ping (periodic): one ping per READY/EXTENDING circuit with at least one hop
PingTargets(n) == {c \in DOMAIN circ[n] : ~circ[n][c].closing /\ circ[n][c].hops # <<>>}
RECURSIVE PingAll(_, _, _, _, _)
PingAll(n, cids, cs, pc, acc) ==
  \* cids: sequence of circuit ids in dictionary order; returns [circ, ping, msgs, k]
  IF cids = <<>> THEN [circ |-> cs, ping |-> pc, msgs |-> acc]
  ELSE LET cid == Head(cids)
           id  == ctr.ident + Len(acc) + 1
           c   == cs[cid]
           early == c.early < MaxEarly
           cell == Cell(n, c.hops[1].peer, cid, FALSE, early, Wrap(HsLayer(c), F, HopKeys(c)),
                        [t |-> "ping", cid |-> cid, ident |-> id])
       IN PingAll(n, Tail(cids), Put(cs, cid, [c EXCEPT !.early = IF early THEN @ + 1 ELSE @]),
                  Put(pc, id, now + CacheTO), Append(acc, cell))

DoPing(n) ==
  /\ AutoTimers => pingAt[n] <= now
  /\ LET r == PingAll(n, SetToSortSeq(PingTargets(n), LAMBDA a, b : a < b), circ[n], pingC[n], <<>>) IN
       /\ circ' = [circ EXCEPT ![n] = r.circ] /\ pingC' = [pingC EXCEPT ![n] = r.ping]
       /\ Emit({}, StampIds(r.msgs))
       /\ ctr' = [ctr EXCEPT !.msg = BumpN(n, @, Len(r.msgs)), !.ident = @ + Len(r.msgs)]
  /\ pingAt' = [pingAt EXCEPT ![n] = now + PingEvery]
  /\ UNCHANGED <<relay, exit, retryC, createdC, createC, pend, now, sweepAt, hist, budget>>

OnPing(d) ==
  /\ d \in net /\ d.t = "cell" /\ d.dst \in Node /\ Accepted(d.dst, d) /\ d.m.t = "ping"
  /\ LET n == d.dst  cid == d.cid IN
     \* Accepted and not a relay entry => cid is a circuit or an exit entry of n
     /\ exit' = IF Has(exit[n], cid) THEN [exit EXCEPT ![n] = Put(@, cid, [@[cid] EXCEPT !.act = now])] ELSE exit
     /\ LET pong == [t |-> "pong", cid |-> cid, ident |-> d.m.ident]
            cell == IF Has(circ[n], cid) THEN OwnCell(n, cid, pong).cell
                    ELSE Cell(n, d.src, cid, FALSE, FALSE, <<Layer(exit[n][cid].key, B)>>, pong)
        IN /\ Emit({d}, StampIds(<<[cell EXCEPT !.dst = d.src]>>))
           /\ circ' = [circ EXCEPT ![n] = IF Has(@, cid) THEN Beat(Put(@, cid, OwnCell(n, cid, pong).circ), n, cid) ELSE @]
  /\ ctr' = [ctr EXCEPT !.msg = Bump(@, 1)]
  /\ UNCHANGED <<relay, retryC, createdC, createC, pingC, pend, now, sweepAt, pingAt, hist, budget>>

OnPong(d) ==
  /\ d \in net /\ d.t = "cell" /\ d.dst \in Node /\ Accepted(d.dst, d) /\ d.m.t = "pong"
  /\ LET n == d.dst IN
     /\ pingC' = [pingC EXCEPT ![n] = IF Has(@, d.m.ident) /\ d.m.ident \notin hist.tests THEN Del(@, d.m.ident) ELSE @]
     /\ circ' = [circ EXCEPT ![n] = Beat(@, n, d.cid)]
  /\ Emit({d}, <<>>)
  /\ UNCHANGED <<relay, exit, retryC, createdC, createC, pend, ctr, now, sweepAt, pingAt, hist, budget>>

\* speed test cells (send_test_request / on_test_request / on_test_response); the TestRequestCache lives in pingC, the
\* history set hist.tests tells the two kinds of identifier apart
SendTest(o, cid) ==
  /\ Cardinality(hist.tests) < MaxData
  /\ Has(circ[o], cid) /\ CState(circ[o][cid]) = "READY"
  /\ LET id == ctr.ident + 1
         r  == OwnCell(o, cid, [t |-> "testreq", cid |-> cid, ident |-> id])
     IN /\ circ' = [circ EXCEPT ![o] = Put(@, cid, r.circ)]
        /\ pingC' = [pingC EXCEPT ![o] = Put(@, id, now + CacheTO)]
        /\ hist' = [hist EXCEPT !.tests = @ \cup {id}]
        /\ Emit({}, StampIds(<<r.cell>>))
        /\ ctr' = [ctr EXCEPT !.ident = id, !.msg = BumpN(o, @, 1)]
  /\ UNCHANGED <<relay, exit, retryC, createdC, createC, pend, now, sweepAt, pingAt, budget>>

OnTestReq(d) ==
  /\ d \in net /\ d.t = "cell" /\ d.dst \in Node /\ Accepted(d.dst, d) /\ d.m.t = "testreq"
  /\ LET n == d.dst  cid == d.cid
         e2eOwner == Has(circ[n], cid) /\ circ[n][cid].ctype \in {"RPD", "RPS"}
     IN
     IF ~Has(exit[n], cid) /\ ~e2eOwner THEN
        /\ Emit({d}, <<>>) /\ UNCHANGED <<exit, ctr>> /\ circ' = [circ EXCEPT ![n] = Beat(@, n, cid)]
     ELSE
        LET resp == [t |-> "testresp", cid |-> cid, ident |-> d.m.ident]
            cell == IF Has(exit[n], cid) THEN Cell(n, d.src, cid, FALSE, FALSE, <<Layer(exit[n][cid].key, B)>>, resp)
                    ELSE [OwnCell(n, cid, resp).cell EXCEPT !.dst = d.src]
        IN /\ exit' = IF Has(exit[n], cid) THEN [exit EXCEPT ![n] = Put(@, cid, [@[cid] EXCEPT !.act = now])] ELSE exit
           /\ circ' = [circ EXCEPT ![n] = IF Has(@, cid) /\ ~Has(exit[n], cid)
                                           THEN Beat(Put(@, cid, OwnCell(n, cid, resp).circ), n, cid) ELSE Beat(@, n, cid)]
           /\ Emit({d}, StampIds(<<cell>>))
           /\ ctr' = [ctr EXCEPT !.msg = Bump(@, 1)]
  /\ UNCHANGED <<relay, retryC, createdC, createC, pingC, pend, now, sweepAt, pingAt, hist, budget>>

OnTestResp(d) ==
  /\ d \in net /\ d.t = "cell" /\ d.dst \in Node /\ Accepted(d.dst, d) /\ d.m.t = "testresp"
  /\ LET n == d.dst IN
     /\ pingC' = [pingC EXCEPT ![n] = IF Has(circ[n], d.cid) /\ Has(@, d.m.ident) /\ d.m.ident \in hist.tests
                                      THEN Del(@, d.m.ident) ELSE @]
     /\ circ' = [circ EXCEPT ![n] = Beat(@, n, d.cid)]
  /\ Emit({d}, <<>>)
  /\ UNCHANGED <<relay, exit, retryC, createdC, createC, pend, ctr, now, sweepAt, pingAt, hist, budget>>

\* on_destroy: a signed message; lazy_wrapper guarantees that `signer` really signed it (property C01)
OnDestroy(d) ==
  /\ d \in net /\ d.t = "destroy" /\ d.dst \in Node
  /\ LET n == d.dst  cid == d.cid
         hasNr == Has(relay[n], cid)
         nr == relay[n][cid]
         hasPr == hasNr /\ Has(relay[n], relay[n][cid].to)
         pr == relay[n][relay[n][cid].to]
     IN
     IF hasPr /\ d.signer = pr.next THEN
        \* remove_relay(cid, destroy) forwards the destroy; remove_relay(other side)
        /\ pend' = pend \cup {Pending(n, "relay", cid), Pending(n, "relay", nr.to)}
        /\ Emit({d}, StampIds(<<Destroy(n, nr.next, nr.to, n)>>))
        /\ ctr' = [ctr EXCEPT !.msg = Bump(@, 1)]
        /\ UNCHANGED <<circ, retryC>>
     ELSE IF Has(exit[n], cid) /\ d.signer = exit[n][cid].pk THEN
        /\ pend' = pend \cup {Pending(n, "exit", cid)}
        /\ Emit({d}, <<>>) /\ UNCHANGED <<circ, retryC, ctr>>
     ELSE IF Has(circ[n], cid) /\ d.signer = FirstHopAddr(circ[n][cid]) THEN
        LET r == RemoveCircuitStep(n, cid, FALSE) IN
        /\ circ' = [circ EXCEPT ![n] = r.circ] /\ retryC' = [retryC EXCEPT ![n] = r.retry] /\ pend' = r.pend
        /\ Emit({d}, <<>>) /\ UNCHANGED ctr
     ELSE /\ Emit({d}, <<>>) /\ UNCHANGED <<circ, retryC, pend, ctr>>
  /\ UNCHANGED <<relay, exit, createdC, createC, pingC, now, sweepAt, pingAt, hist, budget>>

(* ------------------------------------------------ timers ------------------------------------------------ *)
\* the sleeping remove_* task wakes up and pops the entry (closing the exit's outside sockets)
PendPop(p) ==
  /\ p \in pend /\ p.kind # "join" /\ p.due <= now
  /\ pend' = pend \ {p}
  /\ circ' = IF p.kind = "circuit" /\ Has(circ[p.n], p.cid) THEN [circ EXCEPT ![p.n] = Del(@, p.cid)] ELSE circ
  /\ relay' = IF p.kind = "relay" /\ Has(relay[p.n], p.cid) THEN [relay EXCEPT ![p.n] = Del(@, p.cid)] ELSE relay
  /\ exit' = IF p.kind = "exit" /\ Has(exit[p.n], p.cid) THEN [exit EXCEPT ![p.n] = Del(@, p.cid)] ELSE exit
  /\ UNCHANGED <<retryC, createdC, createC, pingC, net, ctr, now, sweepAt, pingAt, hist, budget>>

\* RetryRequestCache.on_timeout: retry with the next alternative, or give up
RetryTimeout(n, cid) ==
  /\ Has(retryC[n], cid) /\ retryC[n][cid].due <= now
  /\ LET rc == retryC[n][cid]
         c  == circ[n][cid]
     IN
     IF ~Has(circ[n], cid) \/ c.closing THEN
        /\ retryC' = [retryC EXCEPT ![n] = Del(@, cid)] /\ UNCHANGED <<circ, pend, net, ctr>>
     ELSE IF rc.alts = <<>> \/ rc.tries < 1 THEN
        LET r == RemoveCircuitStep(n, cid, FALSE) IN
        /\ circ' = [circ EXCEPT ![n] = r.circ] /\ retryC' = [retryC EXCEPT ![n] = r.retry] /\ pend' = r.pend
        /\ UNCHANGED <<net, ctr>>
     ELSE
        \* retry_func = send_initial_create / send_extend with the remaining candidates
        LET nxt == Head(rc.alts)
            e   == ctr.eph + 1
            id  == ctr.ident + 1
            c2  == [c EXCEPT !.unv = [peer |-> nxt, eph |-> e]]
            msg == IF rc.kind = "create"
                   THEN [t |-> "create", cid |-> cid, ident |-> id, pk |-> n, eph |-> e]
                   ELSE [t |-> "extend", cid |-> cid, ident |-> id, pk |-> nxt, eph |-> e, addr |-> Null]
            early == (rc.kind = "extend") \/ c.early < MaxEarly
            cell == IF rc.kind = "create" THEN Cell(n, nxt, cid, TRUE, early, <<>>, msg)
                    ELSE Cell(n, c.hops[1].peer, cid, FALSE, TRUE, Wrap(<<>>, F, HopKeys(c)), msg)
        IN /\ circ' = [circ EXCEPT ![n] = Put(@, cid, [c2 EXCEPT !.early = IF early THEN @ + 1 ELSE @])]
           /\ retryC' = [retryC EXCEPT ![n] = Put(@, cid, [ident |-> id, tries |-> rc.tries - 1, alts |-> Tail(rc.alts),
                                                          kind |-> rc.kind, due |-> now + NextHop])]
           /\ Emit({}, StampIds(<<cell>>))
           /\ ctr' = [ctr EXCEPT !.eph = e, !.ident = id, !.msg = BumpN(n, @, 1)]
           /\ UNCHANGED pend
  /\ UNCHANGED <<relay, exit, createdC, createC, pingC, now, sweepAt, pingAt, hist, budget>>

\* caches whose time-out has no effect besides forgetting the request
CacheTimeout(n, kind, k) ==
  /\ \/ kind = "created" /\ Has(createdC[n], k) /\ createdC[n][k].due <= now
        /\ createdC' = [createdC EXCEPT ![n] = Del(@, k)] /\ UNCHANGED <<createC, pingC>>
     \/ kind = "create" /\ Has(createC[n], k) /\ createC[n][k].due <= now
        /\ createC' = [createC EXCEPT ![n] = Del(@, k)] /\ UNCHANGED <<createdC, pingC>>
     \/ kind = "ping" /\ Has(pingC[n], k) /\ pingC[n][k] <= now
        /\ pingC' = [pingC EXCEPT ![n] = Del(@, k)] /\ UNCHANGED <<createdC, createC>>
  /\ UNCHANGED <<circ, relay, exit, retryC, pend, net, ctr, now, sweepAt, pingAt, hist, budget>>

\* do_circuits -> do_remove (periodic sweep): inactive / too old entries are scheduled for removal
Sweep(n) ==
  /\ AutoTimers => sweepAt[n] <= now
  /\ LET deadC == {c \in DOMAIN circ[n] : (CState(circ[n][c]) = "READY" /\ circ[n][c].act + Inactive < now)
                                            \/ (circ[n][c].born + MaxTime < now)}
         deadR == IF SweepRelays THEN {c \in DOMAIN relay[n] : relay[n][c].act + Inactive < now} ELSE {}
         deadX == {c \in DOMAIN exit[n] : exit[n][c].act + Inactive < now \/ exit[n][c].born + MaxTime < now}
     IN /\ circ' = [circ EXCEPT ![n] = [c \in DOMAIN @ |-> IF c \in deadC THEN [@[c] EXCEPT !.closing = TRUE] ELSE @[c]]]
        /\ retryC' = [retryC EXCEPT ![n] = [c \in DOMAIN @ \ deadC |-> @[c]]]
        /\ pend' = pend \cup {Pending(n, "circuit", c) : c \in deadC} \cup {Pending(n, "relay", c) : c \in deadR}
                        \cup {Pending(n, "exit", c) : c \in deadX}
  /\ sweepAt' = [sweepAt EXCEPT ![n] = now + SweepEvery]
  /\ UNCHANGED <<relay, exit, createdC, createC, pingC, net, ctr, now, pingAt, hist, budget>>

\* periodic timers only matter (and are only model-checked) for nodes that have something to sweep / ping
HasEntries(n) == circ[n] # EmptyF \/ relay[n] # EmptyF \/ exit[n] # EmptyF
\* model checking only: simultaneous periodic timers of different nodes commute; they are taken in a fixed node order
EarlierDue(n) == \E m \in Node : NodeRank[m] < NodeRank[n] /\
                    ((HasEntries(m) /\ sweepAt[m] <= now) \/ (PingTargets(m) # {} /\ pingAt[m] <= now))
\* time passes, but never beyond a deadline that is due
Deadlines ==
  {p.due : p \in {q \in pend : q.kind # "join"}} \cup UNION {{retryC[n][c].due : c \in DOMAIN retryC[n]} : n \in Node}
  \cup UNION {{createdC[n][c].due : c \in DOMAIN createdC[n]} : n \in Node}
  \cup UNION {{createC[n][c].due : c \in DOMAIN createC[n]} : n \in Node}
  \cup UNION {{pingC[n][c] : c \in DOMAIN pingC[n]} : n \in Node}
  \cup (IF AutoTimers THEN {sweepAt[n] : n \in {m \in Node : HasEntries(m)}} \cup {pingAt[n] : n \in {m \in Node : PingTargets(m) # {}}}
        ELSE {})

\* the node's endpoint closes for good (process gone / cable pulled): nothing is sent or received any more
Vanish(n) ==
  /\ MayVanish /\ n \notin gone /\ gone' = gone \cup {n} /\ Disturb
  /\ UNCHANGED <<circ, relay, exit, retryC, createdC, createC, pingC, pend, net, ctr, now, sweepAt, pingAt, hist>>

(* -------------------------------------------- network faults -------------------------------------------- *)
Lose(d) == /\ d \in net /\ budget.loss < MaxLoss
           /\ net' = net \ {d} /\ budget' = [budget EXCEPT !.loss = @ + 1]
           /\ UNCHANGED <<circ, relay, exit, retryC, createdC, createC, pingC, pend, ctr, now, sweepAt, pingAt, hist>>
Dup(d) == /\ d \in net /\ budget.dup < MaxDup
          /\ net' = net \cup {[d EXCEPT !.id = IF UseIds THEN ctr.msg + 1 ELSE d.id + 1]} /\ ctr' = [ctr EXCEPT !.msg = Bump(@, 1)]
          /\ budget' = [budget EXCEPT !.dup = @ + 1]
          /\ UNCHANGED <<circ, relay, exit, retryC, createdC, createC, pingC, pend, now, sweepAt, pingAt, hist>>
\* a datagram addressed to the attacker's address (or to nobody) disappears
Sink(d) == /\ d \in net /\ (d.dst \notin Node \/ d.dst \in gone)
           /\ net' = net \ {d}
           /\ UNCHANGED <<circ, relay, exit, retryC, createdC, createC, pingC, pend, ctr, now, sweepAt, pingAt, hist, budget>>

(* ---------------------------------------------- adversary ----------------------------------------------- *)
AdvStep == budget.adv < MaxAdv /\ budget' = [budget EXCEPT !.adv = @ + 1]
AdvFrame == UNCHANGED <<circ, relay, exit, retryC, createdC, createC, pingC, pend, now, sweepAt, pingAt, hist>>
AdvPut(d) == net' = net \cup {[id |-> IF UseIds THEN ctr.msg + 1 ELSE 0] @@ d} /\ ctr' = [ctr EXCEPT !.msg = Bump(@, 1)]
AdvKey == [e1 |-> 0, e2 |-> 0, st |-> Adv]

\* the rendezvous point (which holds the hop keys of both halves but not the end-to-end key) fabricates a data cell
RPForge(rp, cid) ==
  /\ AdvStep /\ Has(relay[rp], cid) /\ relay[rp][cid].rdv /\ Has(relay[rp], relay[rp][cid].to)
  /\ LET other == relay[rp][cid].to IN
       AdvPut(Cell(rp, relay[rp][cid].next, other, FALSE, FALSE, <<Layer(relay[rp][other].key, B)>>,
                   [t |-> "data", cid |-> other, dest |-> "peer", origin |-> Null, p |-> 0]))
  /\ AdvFrame

\* somebody outside sends the exit's outside socket a datagram that IS a tunnel-community data message naming circuit
\* `target` (any id, any claimed origin). The exit tunnels it back like any outside data; at the circuit's owner it looks like
\* a packet of the tunnel community and is dispatched as a message - the nested data message did not come from the first
\* hop of the circuit it names, so it must change nothing and be delivered to nobody
OutsideNested(x, cid, target) ==
  /\ AdvStep /\ Has(exit[x], cid) /\ exit[x][cid].open /\ target \in 1..ctr.cid
  /\ LET ex == exit[x][cid]
         m  == [t |-> "data", cid |-> cid, dest |-> Null, origin |-> "outside", p |-> 0, nested |-> target]
     IN Emit({}, StampIds(<<Cell(x, ex.prev, cid, FALSE, FALSE, <<Layer(ex.key, B)>>, m)>>))
  /\ ctr' = [ctr EXCEPT !.msg = BumpN(x, @, 1)]
  /\ AdvFrame

\* ghost mark: this message was re-labelled by the attacker (the layering claims speak about untouched cells)
Taint(m) == [taint |-> TRUE] @@ m
\* the rendezvous point, instead of passing a cell of one half of the link on to the other half, turns it round: it takes off
\* the hop layer it holds and sends the rest back on the circuit it came in on (the end-to-end layer inside is the sender's own)
RPReflect(rp, d) ==
  /\ AdvStep /\ d \in net /\ d.t = "cell" /\ d.dst = rp /\ ~d.plain /\ d.L # <<>>
  /\ Has(relay[rp], d.cid) /\ relay[rp][d.cid].rdv /\ Has(relay[rp], relay[rp][d.cid].to)
  /\ Head(d.L) = Layer(relay[rp][d.cid].key, F)
  /\ LET back == relay[rp][relay[rp][d.cid].to].next IN
       net' = (net \ {d}) \cup {[d EXCEPT !.src = rp, !.dst = back, !.early = FALSE,
                                           !.L = <<Layer(relay[rp][d.cid].key, B)>> \o Tail(d.L), !.m = Taint(@)]}
  /\ UNCHANGED ctr /\ AdvFrame

\* any byte of an encrypted cell altered in flight (the outermost AEAD layer no longer verifies)
Tamper(d) == /\ AdvStep /\ d \in net /\ d.t = "cell" /\ d.L # <<>>
             /\ net' = (net \ {d}) \cup {[d EXCEPT !.L = <<[Head(d.L) EXCEPT !.ok = FALSE]>> \o Tail(d.L),
                                                        !.m = [altered |-> TRUE] @@ @]}
             /\ UNCHANGED ctr /\ AdvFrame
\* a header byte altered: the datagram no longer reaches a tunnel handler (prefix, message id, signature), names an
\* unknown circuit (cid), or carries flipped plaintext / relay_early flags
TamperHeader(d, what) ==
  /\ AdvStep /\ d \in net /\ what \in {"drop", "cid", "plain", "early", "same"}
  /\ d.t = "destroy" => what = "drop"
  /\ net' = CASE what = "drop" -> net \ {d}
              [] what = "cid" -> (net \ {d}) \cup {[d EXCEPT !.cid = ctr.cid + 1, !.m = Taint(@)]}   \* an id nobody used so far
              [] what = "plain" -> (net \ {d}) \cup {[d EXCEPT !.plain = ~@, !.m = Taint(@)]}
              [] what = "early" -> (net \ {d}) \cup {[d EXCEPT !.early = ~@, !.m = Taint(@)]}
              [] what = "same" -> net      \* a flag byte changed between two non-zero values: same meaning
  /\ ctr' = [ctr EXCEPT !.cid = IF what = "cid" THEN @ + 1 ELSE @] /\ AdvFrame
\* an in-flight cell of one circuit re-labelled with another circuit id
Splice(d, cid) == /\ AdvStep /\ d \in net /\ d.t = "cell" /\ d.L # <<>> /\ cid \in 1..ctr.cid /\ cid # d.cid
                  /\ net' = (net \ {d}) \cup {[d EXCEPT !.cid = cid, !.m = Taint(@)]} /\ UNCHANGED ctr /\ AdvFrame
\* a cell fabricated without any session key, from any claimed source
Inject(src, dst, cid, mt) ==
  /\ AdvStep /\ src \in Everyone /\ dst \in Node /\ cid \in 0..ctr.cid      \* 0 = an id no table knows
  /\ mt \in {"data", "ping", "extend", "extended"}
  /\ AdvPut(Cell(src, dst, cid, FALSE, TRUE, <<Layer(AdvKey, F)>>, [t |-> mt, cid |-> cid, ident |-> 0, p |-> 0,
                                                                     dest |-> Adv, origin |-> Null]))
  /\ AdvFrame
\* a plaintext create for a circuit id of the attacker's choice (possibly one that is in use)
AdvCreate(src, dst, cid) ==
  /\ AdvStep /\ src \in Everyone /\ dst \in Node /\ cid \in 0..ctr.cid     \* 0 = a fresh id of the attacker's choice
  /\ LET c == IF cid = 0 THEN ctr.cid + 1 ELSE cid IN
       /\ net' = net \cup {[id |-> IF UseIds THEN ctr.msg + 1 ELSE 0] @@
                            Cell(src, dst, c, TRUE, FALSE, <<>>, [t |-> "create", cid |-> c, ident |-> 0, pk |-> Adv, eph |-> 0])}
       /\ ctr' = [ctr EXCEPT !.msg = Bump(@, 1), !.cid = IF cid = 0 THEN @ + 1 ELSE @]
  /\ AdvFrame
\* a plaintext data/ping cell (refused: only create/created may be plaintext)
AdvPlain(src, dst, cid, mt) ==
  /\ AdvStep /\ src \in Everyone /\ dst \in Node /\ cid \in 1..ctr.cid /\ mt \in {"data", "ping"}
  /\ AdvPut(Cell(src, dst, cid, TRUE, FALSE, <<>>, [t |-> mt, cid |-> cid, ident |-> 0, p |-> 0, dest |-> Adv,
                                                    origin |-> Null]))
  /\ AdvFrame
\* a destroy signed by the attacker, or a genuine destroy replayed to another node / circuit id
ForgeDestroy(src, dst, cid, signer) ==
  /\ AdvStep /\ src \in Everyone /\ dst \in Node /\ cid \in 1..ctr.cid
  \* signed with the attacker's own key, a genuine destroy seen on the wire re-sent, or ("nobody") naming somebody's key
  \* under a signature that does not verify
  /\ signer = Adv \/ signer = "nobody" \/ \E d \in wire : d.t = "destroy" /\ d.signer = signer /\ d.cid = cid
  /\ AdvPut(Destroy(src, dst, cid, signer)) /\ AdvFrame
\* handshake manipulation of an in-flight created / extended answer
MangleAnswer(d, how, newcid) ==
  /\ AdvStep /\ d \in net /\ d.t = "cell" /\ d.m.t \in {"created", "extended"}
  /\ d.plain   \* the attacker can only rewrite what is not protected by a layer it cannot remove
  /\ how \in {"ident", "cid", "eph", "ephauth", "auth", "cands", "candkey"}
  /\ newcid \in 0..ctr.cid /\ (how = "cid" => newcid # d.cid)
  /\ LET m == d.m
         ae == 0 - (ctr.adv + 1)        \* a fresh ephemeral key of the attacker (ids <= 0 are the attacker's)
         m2 == CASE how = "ident" -> [m EXCEPT !.ident = @ + 1000]
                 [] how = "cid" -> m
                 [] how = "eph" -> [m EXCEPT !.eph = ae]
                 [] how = "ephauth" -> [m EXCEPT !.eph = ae, !.auth = [e1 |-> m.auth.e1, e2 |-> ae]]
                 [] how = "auth" -> [m EXCEPT !.auth = [e1 |-> m.auth.e1, e2 |-> 0 - 1000000]]   \* a tag that verifies for no key
                 [] how = "cands" -> [m EXCEPT !.cands = [k |-> AdvKey, v |-> m.cands.v]]
                 \* (the joined node itself: a correctly encrypted list that holds something which is not a public key)
                 [] how = "candkey" -> [m EXCEPT !.cands = [k |-> m.cands.k, v |-> [relays |-> <<"notakey">>, exits |-> <<"notakey">>]]]
     IN net' = (net \ {d}) \cup {[d EXCEPT !.m = m2, !.cid = IF how = "cid" THEN newcid ELSE @]}
  /\ ctr' = [ctr EXCEPT !.adv = IF how \in {"eph", "ephauth"} THEN @ + 1 ELSE @] /\ AdvFrame

(* ------------------------------------------------- Next ------------------------------------------------- *)
Deliver(d) == \/ d.dst \notin gone /\ (DropCell(d) \/ RelayCell(d) \/ OnCreate(d) \/ OnCreated(d) \/ OnExtend(d) \/ OnExtended(d)
                                        \/ OnData(d) \/ OnPing(d) \/ OnPong(d) \/ OnTestReq(d) \/ OnTestResp(d)
                                        \/ OnDestroy(d))
              \/ Sink(d)

NextDeadline == IF {x \in Deadlines : x > now} = {} THEN MaxNow
                ELSE CHOOSE x \in Deadlines : x > now /\ \A y \in Deadlines : y > now => x <= y
Tick(t) ==
  /\ t > now /\ t <= MaxNow
  /\ \A dl \in Deadlines : dl > now        \* everything that is due runs first
  /\ t <= NextDeadline                      \* and no deadline is skipped
  /\ now' = t
  /\ UNCHANGED <<circ, relay, exit, retryC, createdC, createC, pingC, pend, net, ctr, sweepAt, pingAt, hist, budget>>

Core ==
  \/ \E o \in Origins, g \in Goals : \E f \in Node \ {o} :
        /\ (IF g = 1 THEN "exit" \in Flags[f] ELSE \E i \in DOMAIN FirstHops[o] : FirstHops[o][i] = f)
        /\ CreateCircuit(o, g, f, IF g = 1 THEN <<>> ELSE SelectSeq(FirstHops[o], LAMBDA x : x # f))
  \/ \E o \in Origins, cid \in 1..ctr.cid : SendData(o, cid, "outside")
  \/ TestCells /\ \E o \in Origins, cid \in 1..ctr.cid : SendTest(o, cid)
  \/ E2E /\ \E o \in Origins, cid \in 1..ctr.cid : SendE2E(o, cid)
  \/ E2E /\ \E rp \in Node, c1, c2 \in 1..ctr.cid, o1, o2 \in Origins, k1, k2 \in 1..ctr.cid :
        hist.links = {} /\ o1 # o2 /\ hist.sent = EmptyF /\ CState(IF Has(circ[o1], k1) THEN circ[o1][k1] ELSE [closing |-> TRUE]) = "READY"
        /\ CState(IF Has(circ[o2], k2) THEN circ[o2][k2] ELSE [closing |-> TRUE]) = "READY"
        /\ LinkE2E(rp, c1, c2, o1, k1, o2, k2)
  \/ \E o \in Origins, cid \in 1..ctr.cid, ds \in BOOLEAN : RemoveCircuit(o, cid, ds)
  \/ \E d \in net : Deliver(d)
  \/ NodeTeardown /\ \E n \in Node, cid \in 1..ctr.cid : (~\E q \in pend : q.n = n /\ q.cid = cid) /\ (NodeRemoveRelay(n, cid) \/ NodeRemoveExit(n, cid))
  \/ \E x \in Node, cid \in 1..ctr.cid : TransportsReady(x, cid) \/ Transport4Ready(x, cid)
  \/ \E x \in Node, cid \in 1..ctr.cid, p \in 1..ctr.data : ExitReturn(x, cid, p)
  \/ \E n \in Node : AutoTimers /\ ~EarlierDue(n) /\
        ((HasEntries(n) /\ sweepAt[n] <= now /\ Sweep(n))
         \/ (~(HasEntries(n) /\ sweepAt[n] <= now) /\ PingTargets(n) # {} /\ pingAt[n] <= now /\ DoPing(n)))
  \/ \E p \in pend : PendPop(p)
  \/ \E p \in pend : JoinResume(p)
  \/ \E n \in Node, cid \in 1..ctr.cid : RetryTimeout(n, cid)
  \/ \E n \in Node, kind \in {"created", "create", "ping"}, k \in 1..(ctr.cid + ctr.ident) : CacheTimeout(n, kind, k)
  \/ Tick(NextDeadline)
  \/ \E d \in net : Lose(d) \/ Dup(d)

Adversary ==
  \/ "tamper" \in AdvKinds /\ \E d \in net : Tamper(d)
  \/ "header" \in AdvKinds /\ \E d \in net, what \in {"drop", "cid", "plain", "early"} : TamperHeader(d, what)
  \/ "splice" \in AdvKinds /\ \E d \in net, cid \in 1..ctr.cid : Splice(d, cid)
  \/ "inject" \in AdvKinds /\ \E src \in AdvSrcs, dst \in Node, cid \in 0..ctr.cid, mt \in {"data", "ping", "extend", "extended"} :
        Inject(src, dst, cid, mt)
  \/ "create" \in AdvKinds /\ \E src \in AdvSrcs, dst \in Node, cid \in 0..ctr.cid : AdvCreate(src, dst, cid)
  \/ "plain" \in AdvKinds /\ \E src \in AdvSrcs, dst \in Node, cid \in 1..ctr.cid, mt \in {"data", "ping"} : AdvPlain(src, dst, cid, mt)
  \/ "destroy" \in AdvKinds /\ \E src \in AdvSrcs, dst \in Node, cid \in 1..ctr.cid, s \in Everyone : ForgeDestroy(src, dst, cid, s)
  \/ "rpforge" \in AdvKinds /\ \E rp \in Node, cid \in 1..ctr.cid : RPForge(rp, cid)
  \/ "reflect" \in AdvKinds /\ \E rp \in Node, d \in net : RPReflect(rp, d)
  \/ "nested" \in AdvKinds /\ \E x \in Node, cid \in 1..ctr.cid, tg \in 1..ctr.cid : OutsideNested(x, cid, tg)
  \/ "mangle" \in AdvKinds /\ \E d \in net, how \in {"ident", "cid", "eph", "ephauth", "auth", "cands", "candkey"}, c \in 0..ctr.cid :
        (how # "cid" => c = 0) /\ MangleAnswer(d, how, c)

Tail2 == wire' = (IF TrackWire THEN wire \cup net' ELSE wire) /\ stepc' = (IF UseIds THEN stepc + 1 ELSE 0)
Next == (((Core \/ Adversary) /\ gone' = gone) \/ (\E n \in Origins : Vanish(n))) /\ Tail2
Spec == Init /\ [][Next]_vars

(* ================================================ properties =============================================== *)
AllCirc == {<<n, c>> : n \in Node, c \in 1..ctr.cid} 
Circs == {x \in AllCirc : Has(circ[x[1]], x[2])}
HopPeers(c) == [i \in 1..Len(c.hops) |-> c.hops[i].peer]
IdxOf(seq, x) == IF \E i \in DOMAIN seq : seq[i] = x THEN CHOOSE i \in DOMAIN seq : seq[i] = x ELSE 0
TypeOK == /\ \A n \in Node : DOMAIN circ[n] \subseteq 1..ctr.cid /\ DOMAIN relay[n] \subseteq 1..ctr.cid
          /\ UseIds => \A d \in net : d.id \in 1..ctr.msg

(* ---- C04 ---- *)
\* what leaves an exit is exactly what was sent into a circuit, to the destination it was sent to; nothing forged
ExitIntegrity == \A e \in hist.exitLog : Has(hist.sent, e.p) /\ hist.sent[e.p].dest = e.dest
\* what comes back is attributed to the right circuit of the right originator
ReturnIntegrity ==
  \A e \in hist.origLog :
     /\ Has(hist.sent, e.p)
     /\ IF hist.sent[e.p].dest = "peer"
        THEN \* end-to-end data arrives at the linked other end of the circuit it was sent into - and nowhere else
             <<<<hist.sent[e.p].o, hist.sent[e.p].cid>>, <<e.n, e.cid>>>> \in hist.links
        ELSE hist.sent[e.p].o = e.n /\ hist.sent[e.p].cid = e.cid /\ e.origin = "outside"
\* on link i of a k-hop path a forward cell carries k-i layers (>= 1), a backward cell i layers counted from the exit
HonestData(d) == d.t = "cell" /\ d.m.t = "data" /\ Has(hist.sent, d.m.p) /\ d.m.dest # "peer" /\ "taint" \notin DOMAIN d.m /\ "altered" \notin DOMAIN d.m
LayerDepth ==
  \A d \in net : HonestData(d) /\ (\A l \in DOMAIN d.L : d.L[l].ok) =>
     LET s == hist.sent[d.m.p] IN
       Has(circ[s.o], s.cid) =>
         LET c == circ[s.o][s.cid]   k == Len(c.hops)   i == IF d.src = s.o THEN 0 ELSE IdxOf(HopPeers(c), d.src) IN
           /\ ~d.plain /\ d.L # <<>>
           /\ (d.m.origin = Null /\ (d.src = s.o \/ i > 0)) => Len(d.L) = k - i
           /\ (d.m.origin # Null /\ i > 0) => Len(d.L) = k - i + 1
\* end-to-end data is covered on every link by the e2e layer (innermost) plus at least one hop layer
E2ECell(d) == d.t = "cell" /\ d.m.t = "data" /\ Has(hist.sent, d.m.p) /\ d.m.dest = "peer"
              /\ "taint" \notin DOMAIN d.m /\ "altered" \notin DOMAIN d.m
E2ELayers == \A d \in net : E2ECell(d) => (~d.plain /\ Len(d.L) >= 2 /\ d.L[Len(d.L)].k.st = "e2e")
\* neither the plaintext nor an equal ciphertext of a payload is visible on two different links
NoRepeatOnLinks ==
  LET H == {d \in wire : HonestData(d)} IN
  \A d1, d2 \in H : (d1.m.p = d2.m.p /\ d1.m.origin = d2.m.origin /\ <<d1.src, d1.dst>> # <<d2.src, d2.dst>>)
                      => (d1.L # d2.L /\ d1.L # <<>>)

(* ---- C05 ---- *)
\* all payloads that leave through one exit entry were sent into one and the same circuit, and vice versa
ExitOnlyOwn ==
  \A e1, e2 \in hist.exitLog :
     (Has(hist.sent, e1.p) /\ Has(hist.sent, e2.p)) =>
        ((e1.n = e2.n /\ e1.cid = e2.cid) <=> (hist.sent[e1.p].o = hist.sent[e2.p].o /\ hist.sent[e1.p].cid = hist.sent[e2.p].cid))
\* an existing entry is never re-keyed or re-routed (in particular not by a create that re-uses its circuit id)
EntriesStable ==
  [][\A n \in Node :
       /\ \A c \in DOMAIN exit[n] \cap DOMAIN exit'[n] : exit'[n][c].key = exit[n][c].key /\ exit'[n][c].prev = exit[n][c].prev
       \* (a relay that sent two creates for one extend - duplicated extend cell - re-points its forward route when the
       \*  second created arrives within remove_tunnel_delay: the key never changes, the far side may; see DESIGN.md)
       /\ \A c \in DOMAIN relay[n] \cap DOMAIN relay'[n] : relay'[n][c].key = relay[n][c].key
                                                          /\ relay'[n][c].dir = relay[n][c].dir
       /\ \A c \in DOMAIN circ[n] \cap DOMAIN circ'[n] : IsPrefix(circ[n][c].hops, circ'[n][c].hops)]_vars
\* a create never installs an exit socket under the id of one of the node's own circuits (which it would shadow in
\* incoming_crypto); relay and exit entries may share an id while an exit that became a relay waits for its delayed removal
NoShadow ==
  \A n \in Node :
     /\ DOMAIN circ[n] \cap DOMAIN exit[n] = {}
     /\ DOMAIN circ[n] \cap DOMAIN relay[n] = {}
\* the nodes adjacent to the entries (n, cid) - the only ones whose destroy may remove them (a relay pair and an exit
\* entry may share an id: an exit that became a relay, or a create racing the relay's own create)
Adjacent(n, cid) ==
  (IF Has(relay[n], cid) /\ Has(relay[n], relay[n][cid].to) THEN {relay[n][relay[n][cid].to].next} ELSE {})
  \cup (IF Has(exit[n], cid) THEN {exit[n][cid].pk} ELSE {})
  \cup (IF Has(circ[n], cid) THEN {FirstHopAddr(circ[n][cid])} ELSE {})
DestroyOnlyFromNeighbour ==
  [][\A d \in net : (d.t = "destroy" /\ d \notin net' /\ d.dst \in Node /\ (pend' # pend \/ circ' # circ)) =>
        d.signer \in Adjacent(d.dst, d.cid)]_vars
\* a cell that no table accepts changes no table
UnknownCellsInert ==
  [][\A d \in net : (d.t = "cell" /\ d \notin net' /\ d.dst \in Node /\ Cardinality(net \ net') = 1
                     /\ Stage(d.dst, d) = "drop") =>
        (circ' = circ /\ relay' = relay /\ exit' = exit /\ pend' = pend)]_vars

(* ---- C08 ---- *)
AdvKnows(k) == (k.e1 <= 0 \/ k.e2 <= 0) /\ (k.e1 <= 0 \/ k.st = Adv)
\* a key the originator accepted for a hop is bound to the static identity of the peer it selected, never known to Adv
NoForeignKey == \A x \in Circs : LET c == circ[x[1]][x[2]] IN
                  \A i \in DOMAIN c.hops : c.hops[i].key.st = c.hops[i].peer /\ ~AdvKnows(c.hops[i].key) /\ c.hops[i].key.e1 > 0
\* without interference both ends of every hop hold the same key: the key the originator derived for a hop is a key the
\* selected peer installed when it joined (history variable joined), and no other node ever installed it
KeyAgreement ==
  budget.adv = 0 =>
    \A x \in Circs : LET c == circ[x[1]][x[2]] IN
      \A i \in DOMAIN c.hops :
        /\ [n |-> c.hops[i].peer, key |-> c.hops[i].key] \in hist.joined
        /\ \A j \in hist.joined : j.key = c.hops[i].key => j.n = c.hops[i].peer
\* an established hop is never changed: the route laid down for a circuit leads, hop by hop, to the entries that hold the
\* hop keys the originator accepted. Wherever the forward relay entry behind hop i (still) exists it points to the peer of
\* hop i+1, and the entry it points to - while that exists - is keyed with the originator's key for hop i+1.
RECURSIVE PathOK(_, _, _, _)
PathOK(hops, i, n, id) ==
  IF i >= Len(hops) \/ ~Has(relay[n], id) THEN TRUE
  ELSE LET r == relay[n][id]  m == r.next IN
       IF r.dir # F \/ r.rdv THEN TRUE
       ELSE /\ m = hops[i + 1].peer
            \* (a hop key made with an attacker ephemeral - the selected peer itself misbehaving - has no honest entry)
            /\ (hops[i + 1].key.e2 > 0 /\ Has(relay[m], r.to)) => relay[m][r.to].key = hops[i + 1].key
            /\ (hops[i + 1].key.e2 > 0 /\ Has(exit[m], r.to) /\ ~Has(relay[m], r.to)) => exit[m][r.to].key = hops[i + 1].key
            /\ PathOK(hops, i + 1, m, r.to)
PathAgreement ==
  \A x \in Circs : LET c == circ[x[1]][x[2]] IN
     Len(c.hops) >= 1 => PathOK(c.hops, 1, c.hops[1].peer, x[2])
\* the hop list is a path: the first hop is added by a created (the answer to the originator's own create), every further
\* hop by an extended that came back through the hops before it
HopByRightAnswer ==
  [][\A n \in Node : \A c \in DOMAIN circ[n] \cap DOMAIN circ'[n] :
        Len(circ'[n][c].hops) > Len(circ[n][c].hops) =>
           \E d \in net \ net' : d.t = "cell" /\ d.dst = n /\ d.cid = c
                                   /\ d.m.t = (IF circ[n][c].hops = <<>> THEN "created" ELSE "extended")]_vars
\* a hop is only added by an answer that carries the identifier of the outstanding request of that circuit
AnswerMustMatch ==
  [][\A n \in Node : \A c \in DOMAIN circ[n] \cap DOMAIN circ'[n] :
        Len(circ'[n][c].hops) > Len(circ[n][c].hops) =>
           /\ Has(retryC[n], c)
           /\ \E d \in net \ net' : d.t = "cell" /\ d.m.t \in {"created", "extended"} /\ d.m.ident = retryC[n][c].ident
                                    /\ d.cid = c /\ d.dst = n]_vars

(* ---- C09 ---- *)
Slack == Inactive + SweepEvery + RemoveDelay
\* every relay / exit entry (and the outside sockets it owns) is gone at most Slack after its last activity,
\* every circuit at most Slack after its last activity once READY, or when its retry budget is exhausted
Reclaimed ==
  /\ \A n \in Node : \A c \in DOMAIN relay[n] : now <= relay[n][c].act + Slack
  /\ \A n \in Node : \A c \in DOMAIN exit[n] : now <= exit[n][c].act + Slack
  /\ \A n \in Node : \A c \in DOMAIN circ[n] :
        LET x == circ[n][c] IN
          \/ now <= x.act + Slack
          \/ CState(x) = "EXTENDING" /\ now <= x.born + Tries * NextHop + Slack
JoinLimit ==
  [][\A n \in Node : Cardinality(DOMAIN exit'[n] \ DOMAIN exit[n]) > 0 =>
        Cardinality(DOMAIN relay[n]) + Cardinality(DOMAIN exit[n]) < MaxJoined]_vars
RelayEarlyBudget == \A k \in DOMAIN hist.fwdEarly : hist.fwdEarly[k] <= MaxEarly
Quiet == \A n \in Node : circ[n] = EmptyF /\ relay[n] = EmptyF /\ exit[n] = EmptyF
=============================================================================
