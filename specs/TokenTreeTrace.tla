------------------------- MODULE TokenTreeTrace -------------------------
(* Recorded histories of the real TokenTree (harness/drivers/c16.py) checked against TokenTree.tla: *)
(* every event must be a step of the specification - Gather for "G" (gather_token), Unserialize for *)
(* "U" (unserialize_public of a wire string; garbage chunks are logged as the forged token), "I" for *)
(* the freshly constructed object - and reproduce the logged projection and result.                 *)
EXTENDS TokenTree, Json, IOUtils, TLCExt

Traces == JsonDeserialize(IOEnv.TRACE_FILE)

VARIABLES tid, l
tvars == <<vars, tid, l>>

Ev == Traces[tid].events

TraceInit == /\ tid \in 1..Len(Traces) /\ l = 1
             /\ parent = [t \in Good |-> Traces[tid].parent[t]]
             /\ fpar = Traces[tid].fpar
             /\ elements = <<>> /\ unchained = <<>> /\ cont = {} /\ offered = {}
             /\ contOffered = {} /\ overflowed = FALSE
             /\ view = Traces[tid].view /\ view \in Views /\ treeKey = KeyOf(view) /\ ret = "-"

TraceNext == /\ l <= Len(Ev)
             /\ LET e == Ev[l] IN
                  /\ \/ e.k = "G" /\ Gather(e.t, e.wc) /\ ret' = e.ret
                     \/ e.k = "U" /\ Unserialize(e.ts) /\ ret' = e.ret
                     \/ e.k = "I" /\ l = 1 /\ UNCHANGED vars
                  /\ treeKey' = e.key
                  /\ elements' = e.els
                  /\ unchained' = e.unch
                  /\ cont' = Range(e.cont)
             /\ l' = l + 1 /\ UNCHANGED tid

TraceSpec == TraceInit /\ [][TraceNext]_tvars

(* total verdict: a trace is rejected exactly when some logged event is not an enabled spec step *)
TraceAccepted == l <= Len(Ev) => ENABLED TraceNext
=============================================================================
