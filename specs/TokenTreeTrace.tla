------------------------- MODULE TokenTreeTrace -------------------------
(* Recorded histories of the real TokenTree (harness/drivers/c16.py) checked against TokenTree.tla: *)
(* every event must be the Gather step of the specification and reproduce the logged projection.    *)
EXTENDS TokenTree, Json, IOUtils, TLCExt

Traces == JsonDeserialize(IOEnv.TRACE_FILE)

VARIABLES tid, l
tvars == <<vars, tid, l>>

Ev == Traces[tid].events

TraceInit == /\ tid \in 1..Len(Traces) /\ l = 1
             /\ parent = [t \in Good |-> Traces[tid].parent[t]]
             /\ fpar = Traces[tid].fpar
             /\ elements = <<>> /\ unchained = <<>> /\ cont = {} /\ offered = {}
             /\ contOffered = {} /\ overflowed = FALSE

TraceNext == /\ l <= Len(Ev)
             /\ LET e == Ev[l] IN
                  /\ Gather(e.t, e.wc)
                  /\ elements' = e.els
                  /\ unchained' = e.unch
                  /\ cont' = Range(e.cont)
             /\ l' = l + 1 /\ UNCHANGED tid

TraceSpec == TraceInit /\ [][TraceNext]_tvars

(* total verdict: a trace is rejected exactly when some logged event is not an enabled spec step *)
TraceAccepted == l <= Len(Ev) => ENABLED TraceNext
=============================================================================
