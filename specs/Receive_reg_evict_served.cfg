SPECIFICATION MCSpecR
CONSTANTS PL = 2 CidLen = 1 CellId = 0 NoCrypto = {2} ExtendId = 3 MaxRelayEarly = 2 Pinned = FALSE
          MaxOps = 2 MaxRecv = 1 MaxLen = 3 Mode = "reg"
CONSTANTS Pkts <- MCPkts Lids <- MCLids Pfxs <- MCPfxs Tuns <- MCTuns XPkts <- MCXPkts Vias <- MCVias
          Dev = {"evict"} Ipv8Versions = {2, 3} TunOps = {}
INVARIANT AllListenersServed
