SPECIFICATION TraceSpec
CONSTANTS
  Pinned = {}
  Pads = {}
  FmtSel = {}
  ClsSel = {}
  K = 1
INVARIANT Conforms
INVARIANT Complete
INVARIANT RoundTrip
INVARIANT ExactConsumption
INVARIANT ReEncode
