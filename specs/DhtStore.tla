------------------------------ MODULE DhtStore ------------------------------
(* C15 - one DHT node seen from the outside.                                                        *)
(* ipv8/dht/community.py : on_find_request / generate_token / check_token / token_maintenance,      *)
(*   on_store_request (limits, token gate, lifetime), add_value / unserialize_value, store_on_nodes *)
(*   (local copy), value_maintenance, post_process_values                                           *)
(* ipv8/dht/storage.py   : Storage.put / clean, Value.expired                                       *)
(* ipv8/dht/discovery.py : on_store_peer_request                                                    *)
(*                                                                                                  *)
(* Abstract layer (what the property statement demands): Authorised (token issued by this node to   *)
(* the same address+key, at most one rotation ago), WithinLimits, Verifies, the monitors in `mon`,  *)
(* NoDowngrade, the lookup operators (used by DhtLookup*.tla).                                      *)
(* Implementation layer: the two-slot secret window, the per-key value list (newest first, entries  *)
(* whose id equals the key last), version-aware replacement, the clean-up.                          *)
(* One storage key is modelled (per-key lists are independent in Storage).                          *)
EXTENDS Naturals, Integers, Sequences, FiniteSets, TLC, SequencesExt

CONSTANTS
  Addrs, Keys,     \* a requester is an <<address, key>> pair (source address of the datagram, key that signed it);
                   \* the driver maps "A1p" / "A1m" to another port of A1's host / an IP differing from A1 only in bits
                   \* that calc_node_id masks away: same node id, different requester
  Signers,         \* value signers
  OwnSigner,       \* the signer whose key hash equals the storage key (put() keeps that entry last); "" = none
  MaxVer, Datas,   \* versions 0..MaxVer and payload variants of signed values
  UData,           \* payload variants of unsigned values
  Forged,          \* TRUE: include signed values whose signature does not verify
  Sizes,           \* TRUE: include values of exactly 170 bytes and of 171 bytes
  Multi,           \* TRUE: include multi-value requests (8 values, 9 values, version pairs, good + oversized)
  Base,            \* MAX_ENTRY_AGE in lifetime units
  Scale,           \* clock units per lifetime unit (1 in the model-checking configurations, 1000 = ms per s for recorded traces)
  MaxRot,          \* bound: number of token_maintenance runs explored
  MaxClock,        \* bound: clock values explored
  InitCloser, MaxCloser,   \* known nodes closer to the key than this node (lifetime halves from the 8th on)
  MaxIssued,       \* bound: tokens handed out
  PeerStore,       \* TRUE: explore store-peer requests (DHTDiscoveryCommunity)
  Locals,          \* TRUE: explore the local copy made by store_on_nodes
  EqReplaces,      \* put() of an equal version replaces (and refreshes) the entry - calibrated, the statement is silent
  OtherTokens,     \* subset of {"foreign", "junk"}: kinds of tokens presented besides the ones this node handed out
  MaxStored,       \* bound: steps are explored from states with at most this many stored values
  KeepSecrets,     \* size of the secret window (2); 3 is a negative control
  Validity,        \* TOKEN_EXPIRATION_TIME in clock units: a token is honoured at most this long after it was handed out.
                   \* 0 = untimed abstraction (the window is counted in rotations: at most one since the token was issued)
  RotatePeriod,    \* period of the token_maintenance timer in clock units (300 s); while a run is due the clock does not
                   \* move on.  0 = rotation is a free event (untimed configurations; recorded traces, where the real
                   \* timer decides and only the validity window is judged)
  ExpiredYields,   \* FALSE: put() compares versions whether or not the stored entry is past its lifetime (the statement:
                   \* "a stored newer version is never replaced by an older one" - it is stored until maintenance removes
                   \* it).  TRUE = negative control: an expired, not yet cleaned entry yields to any version
  CleanAll         \* TRUE: clean() removes every expired value (repaired code)
                   \* FALSE: pinned code stopped at the first unexpired value from the old end

VARIABLES secrets,  \* sequence of secret epochs, newest last (token_secrets)
          issued,   \* history: tokens this node handed out  [a, k, ep, t]  (t = clock value of the find-response;
                    \* 0 in the untimed abstraction)
          lastRot,  \* clock value of the latest token_maintenance run (stays 0 when RotatePeriod = 0)
          storage,  \* sequence of [v |-> value, exp |-> clock value after which it is expired]  (Storage.items[key])
          clock,
          closer,
          peers,    \* DHTDiscoveryCommunity.store as a set of [t |-> key whose mid is the target, k |-> key of the stored node]
          mon       \* monitor: names of violated obligations (must stay empty)
vars == <<secrets, issued, lastRot, storage, clock, closer, peers, mon>>

(* ------------------------------------- values ------------------------------------------------- *)
None == "none"
SignedValues   == [s : Signers, ver : 0..MaxVer, d : Datas, ok : (IF Forged THEN BOOLEAN ELSE {TRUE}), sz : {"small"}]
UnsignedValues == [s : {None}, ver : {0}, d : UData, ok : {TRUE}, sz : {"small"}]
SizedValues    == IF Sizes THEN [s : {None} \cup (Signers \ {OwnSigner}), ver : {0}, d : {"z"}, ok : {TRUE}, sz : {"max", "over"}]
                  ELSE {}
Values == SignedValues \cup UnsignedValues \cup SizedValues

U(i) == [s |-> None, ver |-> 0, d |-> ToString(i), ok |-> TRUE, sz |-> "small"]       \* filler values for the count limit
Fill(n) == [i \in 1..n |-> U(i)]
AnySigner == CHOOSE s \in Signers : TRUE
SV(v) == [s |-> AnySigner, ver |-> v, d |-> (CHOOSE d \in Datas : TRUE), ok |-> TRUE, sz |-> "small"]
Over  == [s |-> None, ver |-> 0, d |-> "z", ok |-> TRUE, sz |-> "over"]

Batches == {<<v>> : v \in Values} \cup
           (IF Multi THEN {Fill(8), Fill(9), <<SV(1), SV(0)>>, <<SV(0), SV(1)>>, <<SV(0), Over>>} ELSE {})

Id(v)       == IF v.s = None THEN <<None, v.d, v.sz>> ELSE <<v.s, "", "">>      \* sha1(value) / sha1(public key)
Verifies(v) == v.s = None \/ v.ok
IsOwn(v)    == v.s # None /\ v.s = OwnSigner

(* ------------------------------------- tokens ------------------------------------------------- *)
(* kind "own": sha1(str(requester) + secret ep of this node); "foreign": issued by another node to the same   *)
(* requester; "junk": 20 arbitrary bytes                                                                      *)
Epoch == secrets[Len(secrets)]
Timed == Validity > 0
Stamp == IF Timed THEN clock ELSE 0
Presentable(a, k) == {[a |-> t.a, k |-> t.k, ep |-> t.ep, kind |-> "own"] : t \in issued} \cup
                     {[a |-> a, k |-> k, ep |-> 0, kind |-> x] : x \in OtherTokens}

TokenUniverse == [a : Addrs, k : Keys, ep : 0..(MaxRot + 1), kind : {"own", "foreign", "junk"}]

(* abstract: what the statement demands.  The token (a bit string determined by requester and secret) may have been *)
(* handed out several times; it is within the validity window when one of these hand-outs is recent enough.         *)
Recent(r) == IF Timed THEN clock - r.t <= Validity       \* handed out at most TOKEN_EXPIRATION_TIME ago
                      ELSE Epoch - r.ep <= 1             \* at most one rotation since it was handed out
Authorised(a, k, tok) == /\ tok.kind = "own" /\ tok.a = a /\ tok.k = k
                         /\ \E r \in issued : r.a = a /\ r.k = k /\ r.ep = tok.ep /\ Recent(r)
(* implementation: hash equality against the secrets still in the window *)
CheckToken(a, k, tok) == tok.kind = "own" /\ tok.a = a /\ tok.k = k /\ tok.ep \in Range(secrets)

WithinLimits(b) == Len(b) <= 8 /\ \A i \in 1..Len(b) : b[i].sz # "over"

(* ------------------------------------- storage ------------------------------------------------ *)
Pow2(n) == IF n <= 0 THEN 1 ELSE 2 ^ n
Life(nc) == (Base \div Pow2(nc - 7)) * Scale         \* MAX_ENTRY_AGE // 2 ** max(0, num_closer - TARGET_NODES + 1)
Expired(e, now) == now > e.exp              \* Value.expired: age > max_age

OwnLast(s) == SelectSeq(s, LAMBDA e : ~IsOwn(e.v)) \o SelectSeq(s, LAMBDA e : IsOwn(e.v))    \* the stable sort in put()
RemoveIdx(s, i) == SubSeq(s, 1, i - 1) \o SubSeq(s, i + 1, Len(s))

Put(s, v, life, now) ==
  LET new == [v |-> v, exp |-> now + life]
      idx == {i \in 1..Len(s) : Id(s[i].v) = Id(v)}
  IN IF idx = {} THEN OwnLast(<<new>> \o s)
     ELSE LET i == CHOOSE j \in idx : TRUE IN
          IF v.ver > s[i].v.ver \/ (v.ver = s[i].v.ver /\ EqReplaces) \/ (ExpiredYields /\ Expired(s[i], now))
          THEN OwnLast(<<new>> \o RemoveIdx(s, i))
          ELSE s

AddValue(s, v, life, now) == IF Verifies(v) THEN Put(s, v, life, now) ELSE s

RECURSIVE AddAll(_, _, _, _)
AddAll(s, b, life, now) == IF b = <<>> THEN s ELSE AddAll(AddValue(s, Head(b), life, now), Tail(b), life, now)

RECURSIVE StripExpiredTail(_, _)
StripExpiredTail(s, now) == IF s = <<>> THEN s
                            ELSE IF Expired(s[Len(s)], now) THEN StripExpiredTail(SubSeq(s, 1, Len(s) - 1), now) ELSE s
CleanSeq(s, now) == IF CleanAll THEN SelectSeq(s, LAMBDA e : ~Expired(e, now)) ELSE StripExpiredTail(s, now)

(* ------------------------------------- actions ------------------------------------------------ *)
Init == /\ secrets = <<1>>        \* the constructor runs token_maintenance once
        /\ issued = {} /\ lastRot = 0 /\ storage = <<>> /\ clock = 0 /\ closer = InitCloser /\ peers = {} /\ mon = {}

FindRequest(a, k) ==                                  \* on_find_request: the response carries generate_token(requester)
  /\ Cardinality(issued \cup {[a |-> a, k |-> k, ep |-> Epoch, t |-> Stamp]}) <= MaxIssued
  /\ issued' = issued \cup {[a |-> a, k |-> k, ep |-> Epoch, t |-> Stamp]}
  /\ UNCHANGED <<secrets, lastRot, storage, clock, closer, peers, mon>>

RotDue == RotatePeriod > 0 /\ clock - lastRot >= RotatePeriod      \* the token_maintenance timer has expired

RotateSecrets ==                                      \* token_maintenance (a periodic task when RotatePeriod > 0)
  /\ Epoch <= MaxRot
  /\ RotatePeriod > 0 => RotDue
  /\ secrets' = (IF Len(secrets) < KeepSecrets THEN secrets ELSE Tail(secrets)) \o <<Epoch + 1>>
  /\ lastRot' = IF RotatePeriod > 0 THEN clock ELSE lastRot
  /\ UNCHANGED <<issued, storage, clock, closer, peers, mon>>

StoreRequest(a, k, tok, b) ==                         \* on_store_request
  LET accept == WithinLimits(b) /\ CheckToken(a, k, tok) IN
  /\ tok \in Presentable(a, k)
  /\ storage' = IF accept THEN AddAll(storage, b, Life(closer), clock) ELSE storage
  /\ mon' = mon \cup (IF accept /\ ~Authorised(a, k, tok) THEN {"auth"} ELSE {})
                \cup (IF accept /\ ~WithinLimits(b) THEN {"limits"} ELSE {})
  /\ UNCHANGED <<secrets, issued, lastRot, clock, closer, peers>>

LocalStore(v) ==                                      \* store_on_nodes keeps a local copy with the default lifetime
  /\ Locals
  /\ storage' = AddValue(storage, v, Base * Scale, clock)
  /\ UNCHANGED <<secrets, issued, lastRot, clock, closer, peers, mon>>

Clean ==                                              \* value_maintenance
  /\ storage' = CleanSeq(storage, clock)
  /\ mon' = mon \cup (IF \E i \in 1..Len(storage') : Expired(storage'[i], clock) THEN {"expiry"} ELSE {})
  /\ UNCHANGED <<secrets, issued, lastRot, clock, closer, peers>>

Tick == /\ clock < MaxClock
        /\ ~RotDue                                    \* timers fire on time: the due maintenance run comes first
        /\ clock' = clock + 1
        /\ UNCHANGED <<secrets, issued, lastRot, storage, closer, peers, mon>>

Discover ==                                           \* on_node_discovered: one more node closer to the key
  /\ closer < MaxCloser
  /\ closer' = closer + 1
  /\ UNCHANGED <<secrets, issued, lastRot, storage, clock, peers, mon>>

StorePeerRequest(a, k, tok, t) ==                     \* on_store_peer_request, t = key whose mid is the target
  LET accept == CheckToken(a, k, tok) /\ t = k IN
  /\ PeerStore /\ tok \in Presentable(a, k)
  /\ peers' = IF accept THEN peers \cup {[t |-> t, k |-> k]} ELSE peers
  /\ mon' = mon \cup (IF accept /\ ~Authorised(a, k, tok) THEN {"peer-auth"} ELSE {})
  /\ UNCHANGED <<secrets, issued, lastRot, storage, clock, closer>>

Next == \/ \E a \in Addrs, k \in Keys : FindRequest(a, k)
        \/ RotateSecrets
        \/ \E a \in Addrs, k \in Keys, tok \in TokenUniverse, b \in Batches : StoreRequest(a, k, tok, b)
        \/ \E v \in {w \in Values : w.sz # "over"} : LocalStore(v)
        \/ Clean
        \/ Tick
        \/ Discover
        \/ \E a \in Addrs, k \in Keys, tok \in TokenUniverse, t \in Keys : StorePeerRequest(a, k, tok, t)

Spec == Init /\ [][Next]_vars

(* ------------------------------------- lookup ------------------------------------------------- *)
(* post_process_values: `seen` = sequence of values received from the contacted nodes; a result is a set of     *)
(* <<data, signer>> pairs.  LookupOK is the statement; where it is silent (ties, unsigned data) it only forbids *)
(* inventing data.                                                                                              *)
VerifiedOf(seen, s) == {i \in 1..Len(seen) : seen[i].s = s /\ seen[i].ok}
TopVer(seen, s)     == CHOOSE m \in {seen[i].ver : i \in VerifiedOf(seen, s)} :
                          \A i \in VerifiedOf(seen, s) : seen[i].ver <= m
TopData(seen, s)    == {seen[i].d : i \in {j \in VerifiedOf(seen, s) : seen[j].ver = TopVer(seen, s)}}
SignersSeen(seen)   == {s \in Signers : VerifiedOf(seen, s) # {}}
UnsignedSeen(seen)  == {seen[i].d : i \in {j \in 1..Len(seen) : seen[j].s = None}}

(* ------------------------------------- properties --------------------------------------------- *)
TypeOK == /\ Len(secrets) \in 1..KeepSecrets
          /\ \A i \in 1..Len(storage) : storage[i].v.s \in Signers \cup {None} /\ storage[i].exp \in Nat
          /\ lastRot \in 0..clock
          /\ mon \subseteq {"auth", "limits", "expiry", "peer-auth"}
StoreNeedsOwnFreshToken == "auth" \notin mon
Limits                  == "limits" \notin mon /\ \A i \in 1..Len(storage) : storage[i].v.sz # "over"
SignedMeansVerified     == \A i \in 1..Len(storage) : Verifies(storage[i].v)
OneEntryPerId           == \A i, j \in 1..Len(storage) : Id(storage[i].v) = Id(storage[j].v) => i = j
ExpiredGoneAfterClean   == "expiry" \notin mon
StorePeerOnlyOwnMid     == "peer-auth" \notin mon /\ \A p \in peers : p.t = p.k
WindowIsTwoNewest       == \A i \in 1..Len(secrets) : Epoch - secrets[i] <= 1
(* the timing assumption the window rests on (holds by construction of Tick): a maintenance run is never overdue, so   *)
(* with a two-slot window and RotatePeriod = Validity / 2 no secret opens the gate longer than Validity after the first *)
(* token made with it                                                                                                   *)
RotationOnTime          == RotatePeriod > 0 => clock - lastRot <= RotatePeriod

VerOf(s, st) == LET idx == {i \in 1..Len(st) : st[i].v.s = s} IN
                IF idx = {} THEN -1 ELSE st[CHOOSE i \in idx : TRUE].v.ver
(* action property: while an entry of a signer stays stored its version never decreases; it may only disappear *)
(* through maintenance                                                                                         *)
NoDowngrade == [][\A s \in Signers : (VerOf(s, storage) >= 0 /\ VerOf(s, storage') >= 0)
                                       => VerOf(s, storage') >= VerOf(s, storage)]_vars

Depth4 == TLCGet("level") <= 4                 \* CONSTRAINT of the large configuration (exhaustive to this depth)
SmallStore == Len(storage) <= MaxStored        \* ACTION_CONSTRAINT (unprimed): large states are reached and checked, not expanded
=============================================================================
