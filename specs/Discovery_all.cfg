\* all three strategies on one Network (interplay), tiny universe
SPECIFICATION Spec
CONSTANTS
  Peers = {"p1", "p2"}
  Ghosts = {}
  Trackers = {}
  Own = "own"
  UseWalk = TRUE
  UseEdge = TRUE
  UseChurn = TRUE
  Window = 1
  WalkTimeout = 1
  TargetInterval = 0
  TargetPeers <- MinusOne
  MaxPeers <- MinusOne
  EdgeLen = 2
  NbSize = 1
  EdgeTimeout = 1
  SampleSize = 2
  PingInterval = 0
  InactiveTime = 0
  DropTime = 1
  MaxPings = 1
  PingCacheTimeout = 1
  BootTimeout = 2
  MaxTime = 2
  TickLens = {1}
  IntroOwn = FALSE
  Dev = {}
CONSTRAINT Bounded
INVARIANT TypeOK
INVARIANT NetOK
INVARIANT WalkWindow
INVARIANT NoOwnAddress
INVARIANT EdgeShape
INVARIANT EdgeBound
PROPERTY DropOnlyAfterSilence
PROPERTY PingDiscipline
PROPERTY WalkTargets
PROPERTY ForgetOnlyUnreachable
PROPERTY WalkSpacing
PROPERTY EdgeGrowsVerified
PROPERTY PongCounted
