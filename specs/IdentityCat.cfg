SPECIFICATION CatSpec
