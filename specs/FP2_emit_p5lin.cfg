SPECIFICATION Spec
CONSTANTS P = 5 PinnedAdd = FALSE Seed = 0 NX = 0 NY = 20 NZ = 0
CONSTANT Exps <- ExpsWide
CONSTANT DomX <- DomLin
CONSTANT DomY <- DomMixY
CONSTANT DomZ <- DomOneZ
INVARIANT TypeOK
INVARIANT MulFromDefinition
INVARIANT ImplRefines
