\* thorough: four bit-pairs with a window of two: the next-challenge logic with honesty checks and pending time-outs
SPECIFICATION Spec
CONSTANTS
 Nodes = {1, 2} Adv = {} Requesters = {} Verifiers = {1}
 Values <- Vals1 NChunks = 2 Window = 2 Pre <- PreOwn4
 MaxReq = 0 MaxVer = 1 MaxHon = 1 MaxDup = 0 MaxDrop = 1 MaxAdv = 0 MaxTimeouts = 1 MaxTicks = 0
 AdvKinds = {"junk", "data", "resp", "chal"} AdvResps = {0, 1, 2, 3}
 TickSteps = {}
 OnceOnly = TRUE CheckPeer = TRUE CheckHash = TRUE AskConsent = TRUE
INVARIANT StoredIntact
INVARIANT ChunkIsolation
INVARIANT VerifyOnce
INVARIANT ResultConsistent
INVARIANT ConsentGiven
INVARIANT CachesSane
PROPERTY DbAppendOnly
