---------------------------- MODULE ProofSession ----------------------------
(* SESSIONS of attribute proofs on long-lived nodes (harness/drivers/c18.py, part "session"): a few  *)
(* nodes - real AttestationCommunity objects (resolution = get_id_algorithm) or bare SchemaManagers  *)
(* (get_algorithm_instance) - carry out one proof after the other, in changing roles (attester,      *)
(* owner/prover, verifier), for changing format names, registering further formats in between.       *)
(* Composition of three specifications:                                                              *)
(*   SchemaNode.tla  - registry / history of every node; Eff(n, name) is the format node n's object  *)
(*                     for `name` has to operate with (= the one registered under that name);        *)
(*   Attest.tla      - one exact-match run; its hash bits are SELECTED HERE, by the hash mode of the  *)
(*                     format the spec's registry holds for the node that acts (attester: which hash  *)
(*                     is attested; verifier: which hash a candidate value is scored by);            *)
(*   RangeProof.tla  - one range run; the verifier's bounds lo..hi and the bounds plo..phi the proof  *)
(*                     is built for are the ones the registries of the verifier's / attester's node   *)
(*                     hold under the run's name.                                                     *)
(* So the demands of Attest / RangeProof are made of every run of a session with the parameters of   *)
(* ITS format, whatever the nodes did in the runs before.                                             *)
(* VALUES have a history too: the same attribute bytes are attested and scored under several formats  *)
(* (hash modes) in one process. `refmode` records the hash mode every value was FIRST scored under    *)
(* (certainty(value, aggregate) -> aggregate_reference(value)); the demand is that a candidate is     *)
(* always scored by the profile of ITS hash under the verifier's format of THIS run (RefBy = "format",*)
(* the repository). Deviation RefBy = "value" (negative control): the reference profile is kept per   *)
(* value bytes in a place all formats share, so a later format meets the first format's profile.      *)
(* The trace file holds sessions: [values |-> <<[sha256_4 |-> bits, sha256 |-> bits, sha512 |-> bits]>>, *)
(* events |-> <<...>>]; the hash bits of every value under every mode are computed by the harness     *)
(* with hashlib. Every event lists in `ns` the nodes that resolved the run's name while it happened.  *)
(*   G n name fmt      register_schema on node n                                                      *)
(*   N kind name a p v val cands   a run begins: roles, format name, value (exact: index into values, *)
(*                     range: the integer), candidate values scored later (indices into values)      *)
(*   Y                 the owner generates the key (resolution only)                                  *)
(* exact runs:  A np   attester attests; np = number of bit pairs of the attestation it produced      *)
(*              M n    verifier creates its n challenges and the empty aggregate                      *)
(*              C i / R i r / P i agg / S c pos s20 / H v r ok / K same    as in AttestTrace.tla      *)
(* range runs:  B ok / Q / V acc                                           as in RangeProofTrace.tla  *)
EXTENDS SchemaNode, Integers, Sequences, Json, IOUtils, TLCExt

CONSTANTS BitSpace, Honest,          \* Attest.tla (BitSpace unused here)
          MaxV, Below, WidthOnly,    \* RangeProof.tla (MaxV, Below unused here)
          RefBy                      \* "format": reference profile from the resolving format; "value": deviation

VARIABLES bits, revealed, pending, answers, agg, done,      \* Attest.tla : the current exact run
          lo, hi, plo, phi, v, built, rounds, verdict,      \* RangeProof.tla : the current range run
          tid, l,                                           \* session, next event
          rb,                                               \* index of the N event of the current run (0: none)
          refmode                                           \* value index -> hash mode it was first scored under
AT == INSTANCE Attest
RP == INSTANCE RangeProof
avars == <<bits, revealed, pending, answers, agg, done>>
rvars == <<lo, hi, plo, phi, v, built, rounds, verdict>>
svars == <<nvars, avars, rvars, tid, l, rb, refmode>>

Traces == JsonDeserialize(IOEnv.TRACE_FILE)
SessionNodes == 1..3
Ev == Traces[tid].events
Values == Traces[tid].values
Run == Ev[rb]
Zero == [k \in 0..3 |-> 0]

NoExact == /\ bits = <<>> /\ revealed = <<>> /\ pending = {} /\ answers = <<>> /\ done = {} /\ agg = Zero
NoRange == /\ lo = 0 /\ hi = 0 /\ plo = 0 /\ phi = 0 /\ v = 0 /\ built = "no" /\ rounds = 0 /\ verdict = "none"
ResetExact == /\ bits' = <<>> /\ revealed' = <<>> /\ pending' = {} /\ answers' = <<>> /\ done' = {} /\ agg' = Zero
ResetRange == /\ lo' = 0 /\ hi' = 0 /\ plo' = 0 /\ phi' = 0 /\ v' = 0 /\ built' = "no" /\ rounds' = 0
              /\ verdict' = "none"

TraceInit == /\ tid \in 1..Len(Traces) /\ l = 1 /\ rb = 0 /\ refmode = <<>>
             /\ NodeInit /\ NoExact /\ NoRange

(* all nodes of ns resolve `name` (get_id_algorithm(name)) during one step *)
RECURSIVE KeptSeq(_, _, _)
KeptSeq(c, ns, name) == IF ns = <<>> THEN c ELSE KeptSeq(Kept(c, Head(ns), name), Tail(ns), name)
ResolveAll(ns, name) ==
    /\ \A i \in 1..Len(ns) : ns[i] \in Nodes /\ Registered(ns[i], name)
    /\ used' = [n \in Nodes |-> IF \E i \in 1..Len(ns) : ns[i] = n THEN used[n] \cup {name} ELSE used[n]]
    /\ cache' = KeptSeq(cache, ns, name)
    /\ UNCHANGED registry

Begin(e) ==
    /\ \A n \in {e.a, e.p, e.v} : n \in Nodes /\ Registered(n, e.name)
    /\ rb' = l
    /\ UNCHANGED nvars
    /\ IF e.kind = "exact"
       THEN /\ \A n \in {e.a, e.p, e.v} : Eff(n, e.name).algorithm = "bonehexact"
            /\ Eff(e.a, e.name).hash = Eff(e.v, e.name).hash    \* attester and verifier mean the same format
            /\ ResetExact /\ ResetRange
       ELSE /\ e.kind = "range"
            /\ \A n \in {e.a, e.p, e.v} : Eff(n, e.name).algorithm = "pengbaorange"
            /\ lo' = Eff(e.v, e.name).min /\ hi' = Eff(e.v, e.name).max        \* the verifier's format
            /\ plo' = Eff(e.a, e.name).min /\ phi' = Eff(e.a, e.name).max      \* the format the proof is built for
            /\ v' = e.val /\ built' = "no" /\ rounds' = 0 /\ verdict' = "none"
            /\ ResetExact

HashOf(n) == Eff(n, Run.name).hash
(* the hash mode whose bits give the reference profile candidate value c is compared with *)
RefMode(c) == IF RefBy = "value" /\ c \in DOMAIN refmode THEN refmode[c] ELSE HashOf(Run.v)
ExactStep(e) ==
    /\ ResolveAll(e.ns, Run.name)
    /\ refmode' = IF e.op = "S" /\ Run.cands[e.c] \notin DOMAIN refmode
                  THEN (Run.cands[e.c] :> HashOf(Run.v)) @@ refmode ELSE refmode
    /\ \/ /\ e.op = "Y" /\ UNCHANGED avars
       \/ /\ e.op = "A" /\ bits = <<>>
          /\ bits' = Values[Run.val][HashOf(Run.a)]              \* what an attester of THIS format attests
          /\ e.np = Len(bits') \div 2
          /\ UNCHANGED <<revealed, pending, answers, agg, done>>
       \/ /\ e.op = "M" /\ bits # <<>> /\ e.n = AT!NP /\ UNCHANGED avars
       \/ /\ e.op = "C" /\ AT!Challenge(e.i)
       \/ /\ e.op = "R" /\ AT!Respond(e.i, e.r)
       \/ /\ e.op = "P" /\ AT!Process(e.i)
          /\ agg' = [k \in 0..3 |-> e.agg[k + 1]]
       \/ /\ e.op = "S" /\ bits # <<>>                            \* scored by the hash of the VERIFIER's format
          /\ AT!ScoreOK(Values[Run.cands[e.c]][RefMode(Run.cands[e.c])], e.pos, e.s20) /\ UNCHANGED avars
       \/ /\ e.op = "H" /\ e.r = e.v /\ e.ok /\ UNCHANGED avars
       \/ /\ e.op = "K" /\ e.same /\ UNCHANGED avars

RangeStep(e) ==
    /\ ResolveAll(e.ns, Run.name)
    /\ \/ /\ e.op = "Y" /\ UNCHANGED rvars
       \/ /\ e.op = "B" /\ RP!Build(e.ok)
       \/ /\ e.op = "Q" /\ RP!Round
       \/ /\ e.op = "V" /\ RP!Verdict(e.acc)

TraceNext ==
    /\ l <= Len(Ev)
    /\ LET e == Ev[l] IN
         \/ /\ e.op = "G" /\ e.n \in Nodes /\ Register(e.n, e.name, e.fmt) /\ UNCHANGED <<avars, rvars, rb, refmode>>
         \/ /\ e.op = "N" /\ Begin(e) /\ UNCHANGED refmode
         \/ /\ e.op \notin {"G", "N"} /\ rb > 0 /\ Run.kind = "exact" /\ ExactStep(e) /\ UNCHANGED <<rvars, rb>>
         \/ /\ e.op \notin {"G", "N"} /\ rb > 0 /\ Run.kind = "range" /\ RangeStep(e) /\ UNCHANGED <<avars, rb, refmode>>
    /\ l' = l + 1 /\ UNCHANGED tid

TraceSpec == TraceInit /\ [][TraceNext]_svars

(* total verdict: a session is rejected exactly when some logged event is not an enabled step *)
TraceAccepted == l <= Len(Ev) => ENABLED TraceNext

InExact == rb > 0 /\ Run.kind = "exact" /\ bits # <<>>
InRange == rb > 0 /\ Run.kind = "range"
ExactTypeOK       == InExact => AT!TypeOK
ExactSubProfile   == InExact => AT!SubProfile
ExactAggIsAnswers == InExact => AT!AggIsAnswers
ExactReconstructs == InExact => AT!Reconstructs
RangeTypeOK         == InRange => RP!TypeOK
RangeInsideBuilds   == InRange => RP!InsideBuilds
RangeInsideAccepted == InRange => RP!InsideAccepted
RangeOutsideNever   == InRange => RP!OutsideNeverAccepted
(* every value that was scored was first scored under a hash mode some format of the session has *)
RefTypeOK == \A c \in DOMAIN refmode : c \in 1..Len(Values) /\ refmode[c] \in DOMAIN Values[c]
=============================================================================
