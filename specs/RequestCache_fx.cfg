SPECIFICATION Spec
CONSTANTS NC = 2 NI = 2 Delays = {1} PassTimeouts = {} Filters = {"all"}
          Nesting = FALSE ReAdds = 0 ExtFut = 5 ReapOwnOnly = TRUE LateCancel = TRUE
          HScripts = {"none"} CoHandlers = FALSE ClaimFirst = TRUE
          TMShutdown = TRUE ShutGuard = FALSE NFut = 3 FutLoop = "all"
INVARIANT TypeOK
INVARIANT ExactlyOnce
INVARIANT ClaimedOnce
INVARIANT NoTimeoutAfterClaim
INVARIANT OutstandingWillEnd
INVARIANT TableAgrees
INVARIANT LateResponseFindsNothing
INVARIANT UniqueIdentity
INVARIANT FuturesCompletedOnTimeout
INVARIANT AfterShutdown
INVARIANT AfterFlag
INVARIANT NoLateTimeout
INVARIANT EndedIsQuiet
