SPECIFICATION TraceSpec
CONSTANTS MaxRecs = 99 MaxCalls = 9999 MaxRuns = 9999 CommitBeforeReturn = TRUE TolerantVersionRead = TRUE
          AtomicUpgrade = TRUE Legacy = FALSE MaxBatches = 9999 GateResetOnError = TRUE ReloadWait = 0 MaxDepth = 9999 EnterKeepsPending = TRUE ParentFirst = TRUE Strict = FALSE
INVARIANT TraceAccepted
INVARIANT AckedDurable
INVARIANT NoPartialRecord
INVARIANT ReopenOk
INVARIANT PseudonymVerifies
INVARIANT ObsMatchesDurable
INVARIANT ObsAckedPresent
INVARIANT ObsNoPartial
INVARIANT RebuiltHasAcked
INVARIANT RebuiltVerifies
INVARIANT ObsRebuiltMatches
INVARIANT ObsRebuiltWhole
INVARIANT ObsVerifies
