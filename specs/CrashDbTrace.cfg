SPECIFICATION TraceSpec
CONSTANTS MaxRecs = 99 MaxCalls = 9999 MaxRuns = 9999 CommitBeforeReturn = TRUE TolerantVersionRead = TRUE
          AtomicUpgrade = TRUE Legacy = FALSE Strict = FALSE
INVARIANT TraceAccepted
INVARIANT AckedDurable
INVARIANT NoPartialRecord
INVARIANT ReopenOk
INVARIANT PseudonymVerifies
INVARIANT ObsMatchesDurable
INVARIANT ObsAckedPresent
INVARIANT ObsNoPartial
INVARIANT ObsVerifies
