SPECIFICATION Spec
CONSTANTS QCap = 2 MaxPend = 1 MaxOps = 5
          NoInboundFilter = FALSE NoNullCheck = FALSE AnyoneOpens = FALSE
          RepIds = {1, 2, 3, 4, 5, 6, 7, 8}
INVARIANT TypeOK
INVARIANT EmitOnlyAllowed
INVARIANT NeverToNull
INVARIANT OpenedOnlyByPrevHop
INVARIANT EmitOnlyWhenOpen
INVARIANT QueueClean
