SPECIFICATION Spec
CONSTANTS P = 5 PinnedAdd = TRUE Seed = 0 NX = 12 NY = 12 NZ = 0
CONSTANT Exps <- ExpsStd
CONSTANT DomX <- DomMixX
CONSTANT DomY <- DomMixY
CONSTANT DomZ <- DomOneZ
INVARIANT ImplRefines
