SPECIFICATION Spec
CONSTANTS
  Ifaces = {"v4","v6"}
  Listeners = {"A"}
  Prefixes = {"p1"}
  AddrKinds = {"c4","c6","t4","t6","lan4","dom","junk"}
  Sizes = {23}
  MsgIds = {1}
  WithStats = FALSE
  Closing = TRUE
  ClosedSendRaises = FALSE
  Explicit = FALSE
  MaxBytes = 23
  MaxMsgs = 1
  DupGeneral = FALSE
  StatsForwards = TRUE
  SendWhileClosing = FALSE
CONSTRAINT Bound
INVARIANT TypeOK
INVARIANT SendRouting
INVARIANT NotifyOnce
INVARIANT FanOut
INVARIANT CountersExact
INVARIANT StatsExact
INVARIANT NoLeak
PROPERTY Monotone
