\* simulated (random) behaviours replayed on the real code: 12 bit-pairs > window of 10, honesty checks, one duplicate
SPECIFICATION SpecL
CONSTANTS
 Nodes = {1, 2} Adv = {} Requesters = {} Verifiers = {1}
 Values <- Vals1 NChunks = 2 Window = 10 Pre <- PreOwn12
 MaxReq = 0 MaxVer = 1 MaxHon = 3 MaxDup = 1 MaxDrop = 0 MaxAdv = 0 MaxTimeouts = 0 MaxTicks = 0
 AdvKinds = {} AdvResps = {}
 TickSteps = {}
 OnceOnly = TRUE CheckPeer = TRUE CheckHash = TRUE AskConsent = TRUE
INVARIANT VerifyOnce
INVARIANT ResultConsistent
INVARIANT ConsentGiven
INVARIANT CachesSane
