SPECIFICATION Spec
CONSTANTS Interval = 5 Limit = 10 PingInterval = 25 PingTimeout = 5 FindTimeout = 2 GoodWindow = 6 MaxFail = 2
          Jumps = {1} MaxOut = 2 WithQuery = TRUE WithPing = FALSE WithLookup = FALSE ChurnEveryTick = FALSE
          CtlCountRefused = FALSE CtlNotAdmitted = FALSE CtlNoReset = FALSE CtlNoRemove = FALSE
INVARIANT TypeOK
INVARIANT InvWindow
INVARIANT InvRefuse
INVARIANT InvStatus
