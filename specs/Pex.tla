-------------------------------- MODULE Pex --------------------------------
(* G05 - the PEX / swarm side of hidden services.                                                          *)
(*                                                                                                         *)
(* Part S (one hidden swarm as seen by a downloader):                                                      *)
(*   ipv8/messaging/anonymization/tunnel.py        Swarm, IntroductionPoint                                *)
(*   ipv8/messaging/anonymization/hidden_services.py  do_peer_discovery, remove_circuit (-> remove_        *)
(*   connection), PeersRequestCache.on_timeout (-> remove_intro_point), on_created_e2e (-> add_connection) *)
(* Part P (the PEX overlays of several introduction points, two swarms):                                   *)
(*   ipv8/messaging/anonymization/pex.py           PexCommunity                                            *)
(*   hidden_services.py on_establish_intro / remove_exit_socket (community exists only while the node is   *)
(*   an introduction point for the info hash), on_peers_request (answers with get_intro_points()).         *)
(* The two parts share the discrete clock `now` only; a configuration explores one of them (SpecS, SpecP). *)
(* One action per public call / message handler / task step; a handler and its synchronous consequences    *)
(* are one step. Time is in ticks; the driver fixes the number of seconds per tick.                        *)
(*                                                                                                         *)
(* SAFETY PROPERTIES (written from the docstrings / the obvious intent, not from the code):                *)
(*  S1 SwarmNoDup      an introduction point is listed at most once per (peer, seeder key)                 *)
(*                     ("Each intro point is unique to its peer and seeder's public key").                 *)
(*  S2 FreshAfterLookup / ExpiresOnlyOldUnused   ("Cleanup old introduction points") a scheduled lookup    *)
(*                     leaves no introduction point older than max_ip_age unless it carries an established *)
(*                     e2e connection, asks only such points for peers, and drops nothing else.            *)
(*  S3 TotalsMonotone / HistoryExact   removing a circuit moves its byte counters into the transfer        *)
(*                     history exactly once: the swarm totals never decrease.                              *)
(*  S4 LookupGate / DhtInterval   do_peer_discovery starts a lookup for a swarm only if it is not seeding, *)
(*                     has fewer than swarm_connection_limit established connections and the previous      *)
(*                     lookup is at least swarm_lookup_interval old; the DHT is never asked within         *)
(*                     min(min_,max_dht_lookup_interval) of the last DHT answer, and while introduction    *)
(*                     points are known never within min_dht_lookup_interval (PEX is used instead).        *)
(*  S5 E2EOnlyNew      peer discovery starts an e2e circuit only through a listed introduction point whose *)
(*                     seeder has no connection (removing a circuit makes its seeder eligible again).      *)
(*  P1 PexFresh        get_intro_points() never returns a learned introduction point older than PexAge     *)
(*                     (300 s) ("Remove old introduction points").                                         *)
(*  P2 PexNoDup        the learned list and the answer hold at most one entry per (peer, seeder key).      *)
(*  P3 PexOwnSwarm     PEX only advertises introduction points of the swarm it belongs to: every learned   *)
(*                     entry (p, s) was announced by p itself in the same swarm; the node's own entries in *)
(*                     an answer are exactly the seeders it currently is an introduction point for.        *)
(*  P4 PexBounded      at most PexCap (20) learned entries, at most SendCap (10) keys per message.         *)
(* Deviation constants (all FALSE in the checked configurations; each one switched on is a negative        *)
(* control that TLC must refute): DupAdd, ExpireUsed, NoGate, ForgetHistory, ExpireNewest, CrossSwarm.     *)
(* Deliberately NOT demanded (intent unclear, behaviour allowed): several create_e2e calls for one seeder  *)
(* in one discovery pass (one per listed point); remove_intro_point (peers-request time-out) dropping a    *)
(* point that carries a connection; an empty DHT answer not moving last_dht_response; entries that stay    *)
(* listed up to 300 s after their peer stopped announcing.  The network of part P loses and delays         *)
(* datagrams but does not forge or replay them: a node's own signed introduction request reflected back to *)
(* it from another address makes the pinned code list itself as a learned point at that address (then the  *)
(* answer holds (self, s) twice) - noted as an observation, in line with the replay observation of         *)
(* DESIGN.md section 13, not reported as a violation.                                                      *)
EXTENDS Integers, Sequences, FiniteSets, TLC

CONSTANTS
  T0, MaxTime,        \* the clock runs from T0 to MaxTime (T0 > every interval: the code starts from last_* = 0)
  (* ---- part S ---- *)
  Peers, Seeders,     \* introduction point peers / seeder public keys (small integers)
  Circuits,           \* rendezvous circuits (RP_DOWNLOADER) that may become connections of the swarm
  MaxIpAge, MinDht, MaxDht,   \* Swarm(max_ip_age, min_dht_lookup_interval, max_dht_lookup_interval)
  Interval, ConnLimit,        \* settings.swarm_lookup_interval, settings.swarm_connection_limit
  MaxBytes, MaxResult,        \* bounds of the exploration: bytes per direction and circuit, size of a lookup answer
  SeedingChoices,             \* subset of BOOLEAN: join_swarm(seeding=...)
  DupAdd,             \* deviation: add_intro_point appends without looking for an equal entry
  ExpireUsed,         \* deviation: remove_old_intro_points also drops points that carry an established connection
  NoGate,             \* deviation: do_peer_discovery ignores swarm_lookup_interval
  ForgetHistory,      \* deviation: remove_connection forgets the byte counters of the circuit
  (* ---- part P ---- *)
  Nodes, NSwarmA,     \* nodes 1..NSwarmA run the PEX overlay of swarm 1, the others that of swarm 2
  PSeeders,           \* seeder keys for which nodes may become introduction points
  PexAge, PexCap, SendCap,    \* 300 s, deque(maxlen=20), "up to 10" keys per message
  Unload,             \* TRUE: hidden-services life cycle (overlay dropped when it announces nothing any more)
  ExpireNewest,       \* deviation: the expiry loop looks at the newest entry instead of the oldest
  CrossSwarm,         \* deviation: extra bytes of another swarm's overlay are processed as well
  MaxMsgs, MaxAnn     \* bounds of the exploration (part P): datagrams in flight, (node, key) pairs ever announced

VARIABLES now,
  (* part S *)
  seeding,     \* the swarm was joined as a seeder
  ips,         \* swarm.intro_points as a set of [p, s, seen] (list order is not modelled)
  nips,        \* len(swarm.intro_points)
  conn,        \* [Circuits -> <<>> | <<p, s>>]  swarm.connections: the introduction point used
  circ,        \* [Circuits -> "ext" | "ready" | "closing"]  READY and e2e-linked = "ready"
  up, down,    \* [Circuits -> 0..MaxBytes]  circuit.bytes_up / bytes_down
  hist,        \* <<up, down>> swarm.transfer_history
  counted,     \* history: circuits whose counters went into hist
  lastLookup, lastDht,
  pend,        \* the lookup the discovery task is waiting for: [m: none|dht|pex, tg: set of <<p,s>> asked]
  e2e,         \* the create_e2e calls <<p, s>> made by the step just taken
  did,         \* what the step just taken ran: "lookup" (Swarm.lookup()), "clean" (remove_old_intro_points), ""
  (* part P *)
  pfor,        \* [Nodes -> Seq(PSeeders)]  intro_points_for
  pips,        \* [Nodes -> Seq([p, s, seen])]  intro_points, newest first
  msgs,        \* introduction requests / responses in flight [src, dst, k, pks]
  ever,        \* history: [Nodes -> SUBSET PSeeders] everything a node ever announced
  ret          \* the answer of get_intro_points if the step just taken was one: [n, t, lst]

svars == <<seeding, ips, nips, conn, circ, up, down, hist, counted, lastLookup, lastDht, pend, e2e, did>>
pvars == <<pfor, pips, msgs, ever, ret>>
vars  == <<now, svars, pvars>>

Range(f) == {f[i] : i \in DOMAIN f}
Min(a, b) == IF a < b THEN a ELSE b
RECURSIVE SumOver(_, _)
SumOver(S, f) == IF S = {} THEN 0 ELSE LET x == CHOOSE y \in S : TRUE IN f[x] + SumOver(S \ {x}, f)

(* ================================================ part S =============================================== *)
AllKeys   == Peers \X Seeders
Key(i)    == <<i.p, i.s>>
Keys(S)   == {Key(i) : i \in S}
Ip(k, t)  == [p |-> k[1], s |-> k[2], seen |-> t]
NoPend    == [m |-> "none", tg |-> {}]

Conns          == {c \in Circuits : conn[c] # <<>>}
HasConn(s)     == \E c \in Conns : conn[c][2] = s                                  \* Swarm.has_connection
Active         == {c \in Conns : circ[c] = "ready"}                              \* Swarm._active_circuits
UsedKeys       == {conn[c] : c \in Active}
TotalUp        == hist[1] + SumOver(Active, up)                                    \* Swarm.get_total_up
TotalDown      == hist[2] + SumOver(Active, down)
NumSeeders     == Cardinality({i.s : i \in ips} \cup {conn[c][2] : c \in Conns})  \* Swarm.get_num_seeders
TooOld(i)      == i.seen + MaxIpAge < now
Cleaned        == {i \in ips : ~TooOld(i) \/ (~ExpireUsed /\ Key(i) \in UsedKeys)}

(* add_intro_point for every key of R at time t *)
AddAll(S, R, t) == IF DupAdd THEN S \cup {Ip(k, t) : k \in R}
                   ELSE {i \in S : Key(i) \notin R} \cup {Ip(k, t) : k \in R}
AddCount(S, R)  == IF DupAdd THEN Cardinality(R) ELSE Cardinality(R \ Keys(S))

InitS == /\ seeding \in SeedingChoices
         /\ ips = {} /\ nips = 0
         /\ conn = [c \in Circuits |-> <<>>] /\ circ = [c \in Circuits |-> "ext"]
         /\ up = [c \in Circuits |-> 0] /\ down = [c \in Circuits |-> 0]
         /\ hist = <<0, 0>> /\ counted = {}
         /\ lastLookup = 0 /\ lastDht = 0 /\ pend = NoPend /\ e2e = {} /\ did = ""

Quiet == e2e' = {} /\ did' = ""     \* the step makes no create_e2e call and runs no clean-up

(* Swarm.add_intro_point *)
AddIntroPoint(p, s) ==
  /\ ips' = AddAll(ips, {<<p, s>>}, now) /\ nips' = nips + AddCount(ips, {<<p, s>>}) /\ Quiet
  /\ UNCHANGED <<now, seeding, conn, circ, up, down, hist, counted, lastLookup, lastDht, pend, pvars>>

(* Swarm.remove_intro_point (also: PeersRequestCache.on_timeout of a request sent to <<p, s>>) *)
RemoveIntroPoint(p, s) ==
  /\ <<p, s>> \in Keys(ips)
  /\ ips' = {i \in ips : Key(i) # <<p, s>>} /\ nips' = nips - 1 /\ Quiet
  /\ UNCHANGED <<now, seeding, conn, circ, up, down, hist, counted, lastLookup, lastDht, pend, pvars>>

(* Swarm.remove_old_intro_points called on its own *)
CleanUp ==
  /\ ips' = Cleaned /\ nips' = nips - Cardinality(ips \ Cleaned) /\ e2e' = {} /\ did' = "clean"
  /\ UNCHANGED <<now, seeding, conn, circ, up, down, hist, counted, lastLookup, lastDht, pend, pvars>>

(* on_created_e2e: a rendezvous circuit is created and handed to Swarm.add_connection with the point used *)
AddConnection(c, p, s) ==
  /\ circ[c] # "closing"
  /\ conn' = (IF conn[c] = <<>> THEN [conn EXCEPT ![c] = <<p, s>>] ELSE conn)
  /\ Quiet
  /\ UNCHANGED <<now, seeding, ips, nips, circ, up, down, hist, counted, lastLookup, lastDht, pend, pvars>>

(* on_linked_e2e: the circuit is READY and e2e *)
Linked(c) ==
  /\ circ[c] = "ext" /\ conn[c] # <<>>
  /\ circ' = [circ EXCEPT ![c] = "ready"] /\ Quiet
  /\ UNCHANGED <<now, seeding, ips, nips, conn, up, down, hist, counted, lastLookup, lastDht, pend, pvars>>

(* traffic on a circuit (d = 1 up, d = 2 down) *)
Transfer(c, d) ==
  /\ circ[c] # "closing"
  /\ IF d = 1 THEN up[c] < MaxBytes /\ up' = [up EXCEPT ![c] = @ + 1] /\ down' = down
              ELSE down[c] < MaxBytes /\ down' = [down EXCEPT ![c] = @ + 1] /\ up' = up
  /\ Quiet
  /\ UNCHANGED <<now, seeding, ips, nips, conn, circ, hist, counted, lastLookup, lastDht, pend, pvars>>

(* HiddenTunnelCommunity.remove_circuit: Swarm.remove_connection, then the circuit closes for good *)
RemoveCircuit(c) ==
  /\ circ[c] # "closing"
  /\ circ' = [circ EXCEPT ![c] = "closing"]
  /\ conn' = [conn EXCEPT ![c] = <<>>]
  /\ IF conn[c] # <<>>
     THEN /\ hist' = IF ForgetHistory THEN hist ELSE <<hist[1] + up[c], hist[2] + down[c]>>
          /\ counted' = counted \cup {c}
     ELSE UNCHANGED <<hist, counted>>
  /\ Quiet
  /\ UNCHANGED <<now, seeding, ips, nips, up, down, lastLookup, lastDht, pend, pvars>>

(* do_peer_discovery up to `await swarm.lookup()`; a run that does not pass the gate changes nothing *)
Gate == /\ ~seeding
        /\ NoGate \/ lastLookup + Interval <= now
        /\ Cardinality(Active) < ConnLimit
Discover ==
  /\ pend = NoPend       \* the interval task never overlaps itself
  /\ e2e' = {} /\ did' = (IF Gate THEN "lookup" ELSE "")
  /\ IF Gate
     THEN /\ ips' = Cleaned /\ nips' = nips - Cardinality(ips \ Cleaned)
          /\ lastLookup' = now
          /\ pend' = IF (now - lastDht > MinDht) \/ (Cleaned = {} /\ now - lastDht > MaxDht)
                     THEN [m |-> "dht", tg |-> {}]
                     ELSE IF Cleaned # {} THEN [m |-> "pex", tg |-> Keys(Cleaned)]
                     ELSE NoPend            \* "Skipping lookup": the task goes on to the next swarm
     ELSE UNCHANGED <<ips, nips, lastLookup, pend>>
  /\ UNCHANGED <<now, seeding, conn, circ, up, down, hist, counted, lastDht, pvars>>

(* the awaited lookup returns the introduction points R (dht: one of them has source DHT); the rest of       *)
(* do_peer_discovery for this swarm runs: add_intro_point for each, create_e2e where the seeder is unconnected *)
LookupDone(R, dht) ==
  /\ pend # NoPend
  /\ dht => R # {}
  /\ lastDht' = (IF dht THEN now ELSE lastDht)
  /\ ips' = AddAll(ips, R, now) /\ nips' = nips + AddCount(ips, R)
  /\ e2e' = {k \in Keys(ips') : ~HasConn(k[2])}
  /\ pend' = NoPend /\ did' = ""
  /\ UNCHANGED <<now, seeding, conn, circ, up, down, hist, counted, lastLookup, pvars>>

(* the DHT request fails (no circuit / time-out): RuntimeError, the swarm is skipped *)
LookupFail ==
  /\ pend.m = "dht"
  /\ pend' = NoPend /\ Quiet
  /\ UNCHANGED <<now, seeding, ips, nips, conn, circ, up, down, hist, counted, lastLookup, lastDht, pvars>>

(* Swarm.lookup(target): no clean-up, no schedule; only the DHT time stamp may move *)
ManualLookup(dht) ==
  /\ lastDht' = (IF dht THEN now ELSE lastDht) /\ Quiet
  /\ UNCHANGED <<now, seeding, ips, nips, conn, circ, up, down, hist, counted, lastLookup, pend, pvars>>

Tick == /\ now < MaxTime /\ now' = now + 1 /\ Quiet
        /\ UNCHANGED <<seeding, ips, nips, conn, circ, up, down, hist, counted, lastLookup, lastDht, pend, pvars>>

Results == {R \in SUBSET AllKeys : Cardinality(R) <= MaxResult}

NextS == \/ \E p \in Peers, s \in Seeders : AddIntroPoint(p, s) \/ RemoveIntroPoint(p, s)
         \/ CleanUp
         \/ \E c \in Circuits, p \in Peers, s \in Seeders : AddConnection(c, p, s)
         \/ \E c \in Circuits : Linked(c) \/ RemoveCircuit(c)
         \/ \E c \in Circuits, d \in {1, 2} : Transfer(c, d)
         \/ Discover
         \/ \E R \in Results, dht \in BOOLEAN : LookupDone(R, dht)
         \/ LookupFail
         \/ \E dht \in BOOLEAN : ManualLookup(dht)
         \/ Tick

(* ================================================ part P =============================================== *)
SwarmOf(n) == IF n <= NSwarmA THEN 1 ELSE 2
PKey(i)    == <<i.p, i.s>>
Expired(i) == i.seen + PexAge < now

NoRet == [n |-> 0, t |-> 0, lst |-> <<>>]
InitP == /\ pfor = [n \in Nodes |-> <<>>] /\ pips = [n \in Nodes |-> <<>>]
         /\ msgs = {} /\ ever = [n \in Nodes |-> {}]
         /\ ret = NoRet

(* random.sample(intro_points_for, min(len, 10)): every injective sequence of that length *)
Samples(f) == LET k == Min(Len(f), SendCap) IN
              {q \in [1..k -> Range(f)] : \A i, j \in 1..k : i # j => q[i] # q[j]}

AllSamples == UNION {{q \in [1..k -> PSeeders] : \A i, j \in 1..k : i # j => q[i] # q[j]} :
                       k \in 0..Min(Cardinality(PSeeders), SendCap)}

MsgSpace == [src : Nodes, dst : Nodes, k : {"req", "resp"}, pks : AllSamples]

(* process_extra_bytes: each announced key goes to the front with a fresh time stamp; the deque is bounded *)
RECURSIVE Proc(_, _, _)
Proc(q, from, pks) ==
  IF pks = <<>> THEN q
  ELSE LET s  == Head(pks)
           q1 == SelectSeq(q, LAMBDA i : ~(i.p = from /\ i.s = s))
           q2 == <<[p |-> from, s |-> s, seen |-> now]>> \o q1
           q3 == IF Len(q2) > PexCap THEN SubSeq(q2, 1, PexCap) ELSE q2
       IN Proc(q3, from, Tail(pks))

(* the expiry loop of get_intro_points: pop from the old end while that entry is too old *)
RECURSIVE Expire(_)
Expire(q) == IF q # <<>> /\ Expired(IF ExpireNewest THEN q[1] ELSE q[Len(q)])
             THEN Expire(SubSeq(q, 1, Len(q) - 1)) ELSE q

Exists(n) == ~Unload \/ pfor[n] # <<>>      \* hidden services: pex[info_hash] exists

(* on_establish_intro -> PexCommunity.start_announce *)
StartAnnounce(n, s) ==
  /\ pfor' = [pfor EXCEPT ![n] = IF s \in Range(@) THEN @ ELSE Append(@, s)]
  /\ ever' = [ever EXCEPT ![n] = @ \cup {s}]
  /\ ret' = NoRet /\ UNCHANGED <<now, svars, pips, msgs>>

(* remove_exit_socket -> PexCommunity.stop_announce (+ the overlay is unloaded when nothing is left) *)
StopAnnounce(n, s) ==
  /\ s \in Range(pfor[n])
  /\ pfor' = [pfor EXCEPT ![n] = SelectSeq(@, LAMBDA x : x # s)]
  /\ pips' = IF Unload /\ pfor'[n] = <<>> THEN [pips EXCEPT ![n] = <<>>] ELSE pips
  /\ ret' = NoRet /\ UNCHANGED <<now, svars, msgs, ever>>

(* walk_to / send_ping: an introduction request that piggybacks a sample of the announced keys *)
Walk(n, m, pks) ==
  /\ n # m /\ Exists(n) /\ pks \in Samples(pfor[n])
  /\ msgs' = msgs \cup {[src |-> n, dst |-> m, k |-> "req", pks |-> pks]}
  /\ ret' = NoRet /\ UNCHANGED <<now, svars, pfor, pips, ever>>

(* a datagram arrives: a node only has a listener for the prefix of its own swarm *)
Deliver(msg, pks) ==
  /\ msg \in msgs
  /\ LET n == msg.dst IN
     IF Exists(n) /\ (CrossSwarm \/ SwarmOf(msg.src) = SwarmOf(n))
     THEN /\ pips' = [pips EXCEPT ![n] = Proc(@, msg.src, msg.pks)]
          /\ IF msg.k = "req"
             THEN /\ pks \in Samples(pfor[n])
                  /\ msgs' = (msgs \ {msg}) \cup {[src |-> n, dst |-> msg.src, k |-> "resp", pks |-> pks]}
             ELSE /\ pks = <<>> /\ msgs' = msgs \ {msg}
     ELSE /\ pks = <<>> /\ msgs' = msgs \ {msg} /\ pips' = pips
  /\ ret' = NoRet /\ UNCHANGED <<now, svars, pfor, ever>>

Lose(msg) == /\ msg \in msgs /\ msgs' = msgs \ {msg}
             /\ ret' = NoRet /\ UNCHANGED <<now, svars, pfor, pips, ever>>

(* get_intro_points (on_peers_request answers with it): learned entries that are young enough + own entries *)
GetIntroPoints(n) ==
  /\ Exists(n)
  /\ pips' = [pips EXCEPT ![n] = Expire(@)]
  /\ ret' = [n |-> n, t |-> now,
             lst |-> pips'[n] \o [i \in 1..Len(pfor[n]) |-> [p |-> n, s |-> pfor[n][i], seen |-> now]]]
  /\ UNCHANGED <<now, svars, pfor, msgs, ever>>

PTick == /\ now < MaxTime /\ now' = now + 1 /\ ret' = NoRet /\ UNCHANGED <<svars, pfor, pips, msgs, ever>>

NextP == \/ \E n \in Nodes, s \in PSeeders : StartAnnounce(n, s) \/ StopAnnounce(n, s)
         \/ \E n \in Nodes, m \in Nodes, pks \in AllSamples : Walk(n, m, pks)
         \/ \E msg \in MsgSpace, pks \in AllSamples : Deliver(msg, pks)
         \/ \E msg \in MsgSpace : Lose(msg)
         \/ \E n \in Nodes : GetIntroPoints(n)
         \/ PTick

(* ================================================ specs ================================================ *)
PConstraint == /\ Cardinality(msgs) <= MaxMsgs
               /\ SumOver(Nodes, [n \in Nodes |-> Cardinality(ever[n])]) <= MaxAnn
Init  == now = T0 /\ InitS /\ InitP
SpecS == Init /\ [][NextS]_vars
SpecP == Init /\ [][NextP]_vars

(* ============================================== properties ============================================= *)
TypeOK ==
  /\ now \in T0..MaxTime /\ seeding \in BOOLEAN
  /\ \A i \in ips : i.p \in Peers /\ i.s \in Seeders /\ i.seen \in T0..now
  /\ nips \in Nat
  /\ \A c \in Circuits : (conn[c] = <<>> \/ conn[c] \in AllKeys) /\ circ[c] \in {"ext", "ready", "closing"}
  /\ lastLookup <= now /\ lastDht <= now
  /\ pend.m \in {"none", "dht", "pex"} /\ e2e \subseteq AllKeys /\ did \in {"", "lookup", "clean"}
  /\ \A n \in Nodes : Range(pfor[n]) \subseteq PSeeders /\ Len(pfor[n]) = Cardinality(Range(pfor[n]))

(* S1 *)
SwarmNoDup == Cardinality(Keys(ips)) = nips /\ Cardinality(ips) = nips

(* S2 *)
FreshOrUsed(i) == ~TooOld(i) \/ Key(i) \in UsedKeys
FreshAfterLookup == [][did' = "lookup" =>
                         /\ \A i \in ips' : ~(i.seen + MaxIpAge < now') \/ Key(i) \in UsedKeys'
                         /\ pend'.tg \subseteq Keys(ips')]_vars
ExpiresOnlyOldUnused == [][did' # "" =>
                         \A i \in ips : Key(i) \notin Keys(ips') => (TooOld(i) /\ Key(i) \notin UsedKeys)]_vars

(* S3 *)
TotalsMonotone == [][TotalUp' >= TotalUp /\ TotalDown' >= TotalDown]_vars
HistoryExact   == hist = <<SumOver(counted, up), SumOver(counted, down)>>

(* S4 *)
LookupGate  == [][did' = "lookup" =>
                    (~seeding /\ lastLookup + Interval <= now /\ Cardinality(Active) < ConnLimit)]_vars
DhtInterval == [][(pend.m # "dht" /\ pend'.m = "dht") =>
                    /\ now - lastDht > Min(MinDht, MaxDht)
                    /\ ips' # {} => now - lastDht > MinDht]_vars
PexWhenKnown == [][(pend = NoPend /\ pend'.m = "pex") => pend'.tg = Keys(ips') /\ ips' # {}]_vars

(* S5 *)
E2EOnlyNew == \A k \in e2e : k \in Keys(ips) /\ ~HasConn(k[2])

(* P1 *)
PexFresh == \A j \in 1..Len(ret.lst) : ret.lst[j].seen + PexAge >= ret.t
(* P2 *)
Inj(q) == \A i, j \in 1..Len(q) : i # j => PKey(q[i]) # PKey(q[j])
PexNoDup == (\A n \in Nodes : Inj(pips[n])) /\ Inj(ret.lst)
(* P3 *)
PexOwnSwarm ==
  /\ \A n \in Nodes : \A j \in 1..Len(pips[n]) :
        LET i == pips[n][j] IN i.p # n /\ SwarmOf(i.p) = SwarmOf(n) /\ i.s \in ever[i.p]
  /\ \A m \in msgs : Range(m.pks) \subseteq ever[m.src]
OwnAnswer == ret.n # 0 =>
  LET own == SelectSeq(ret.lst, LAMBDA i : i.p = ret.n) IN
  /\ \A j \in 1..Len(own) : own[j].seen = ret.t
  /\ {i.s : i \in Range(own)} \subseteq ever[ret.n]
(* P4 *)
PexBounded == /\ \A n \in Nodes : Len(pips[n]) <= PexCap
              /\ \A m \in msgs : Len(m.pks) <= SendCap /\ Len(m.pks) = Cardinality(Range(m.pks))
(* implementation invariant behind P1: newest first *)
PexSorted == \A n \in Nodes : \A i, j \in 1..Len(pips[n]) : i < j => pips[n][i].seen >= pips[n][j].seen
=============================================================================
