\* all three strategies, tracker, 3 ticks (thorough)
SPECIFICATION Spec
CONSTANTS
  Peers = {"p1", "p2"}
  Ghosts = {}
  Trackers = {"t1"}
  Own = "own"
  UseWalk = TRUE
  UseEdge = TRUE
  UseChurn = TRUE
  Window = 1
  WalkTimeout = 1
  TargetInterval = 0
  TargetPeers <- MinusOne
  MaxPeers <- MinusOne
  EdgeLen = 2
  NbSize = 1
  EdgeTimeout = 1
  SampleSize = 2
  PingInterval = 0
  InactiveTime = 0
  DropTime = 1
  MaxPings = 1
  PingCacheTimeout = 1
  BootTimeout = 2
  MaxTime = 3
  TickLens = {1}
  IntroOwn = FALSE
  Dev = {}
CONSTRAINT Bounded
INVARIANT TypeOK
INVARIANT NetOK
INVARIANT WalkWindow
INVARIANT NoOwnAddress
INVARIANT EdgeShape
INVARIANT EdgeBound
PROPERTY DropOnlyAfterSilence
PROPERTY PingDiscipline
PROPERTY WalkTargets
PROPERTY ForgetOnlyUnreachable
PROPERTY WalkSpacing
PROPERTY EdgeGrowsVerified
