SPECIFICATION TraceSpec
CONSTANTS Wirings = {"plain", "tunnel"} Kinds = {"basic", "cache", "tunnel"}
          MaxTasks = 1000000 MaxCaches = 1000000 MaxSocks = 1000
          WrapperForwardsRemove = TRUE CryptoListenerRemoved = TRUE RemovalAwaited = TRUE
INVARIANT TypeOK
INVARIANT SilentAfterUnload
INVARIANT NoLateActivity
