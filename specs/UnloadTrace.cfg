SPECIFICATION TraceSpec
CONSTANTS Wirings = {"plain", "tunnel"} Kinds = {"basic", "cache", "tunnel"}
          MaxTasks = 1000000 MaxCaches = 1000000 MaxSocks = 1000 MaxBoot = 1000
          InitAwaited = TRUE UnloadRemovesPending = TRUE MaxTry = 8 MaxXTask = 1000000 StoreAtOpen = TRUE
          WrapperForwardsRemove = TRUE CryptoListenerRemoved = TRUE RemovalAwaited = TRUE
INVARIANT TypeOK
INVARIANT SilentAfterUnload
INVARIANT NoLateActivity
