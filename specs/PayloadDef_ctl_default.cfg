SPECIFICATION DSpec
CONSTANTS
  Pinned = {"default_text"}
  Pads = {}
  FmtSel = {}
  ClsSel = {}
  K = 4
  DerivedMax = 0
  MaxFields = 1
  Kinds = {"?", "H", "I", "q", "20s", "varlenH", "varlenHutf8", "bits", "payload", "payload-list", "address", "arrayH-q", "raw"}
INVARIANT RoundTripDef
INVARIANT DefaultsUsed
