SPECIFICATION DSpec
CONSTANTS
  Pinned = {"default_text", "const_as_field", "elem_int_subclass"}
  Pads = {}
  FmtSel = {}
  ClsSel = {}
  K = 4
  DerivedMax = 0
  MaxFields = 1
  MaxConsts = 1
  CKinds = {"int", "text", "tuple", "msgid", "method"}
  Kinds = {"?", "H", "I", "q", "20s", "varlenH", "varlenHutf8", "bits", "payload", "payload-list", "address", "arrayH-q", "d", "arrayH-?", "arrayH-d", "raw"}
INVARIANT ConstsOffWire
INVARIANT AnnotationsMean
INVARIANT DefaultsUsed
INVARIANT RoundTripDef
CONSTRAINT AnnFocus
