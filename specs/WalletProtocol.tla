--------------------------- MODULE WalletProtocol ---------------------------
(* ipv8/attestation/wallet/community.py (AttestationCommunity) + caches.py.                                    *)
(*                                                                                                              *)
(* One action per public call / message handler / suspended-coroutine step / cache time-out of the real code:  *)
(*   RequestAttestation   request_attestation(peer, name, key)                                                  *)
(*   OnRequest            on_request_attestation up to `await attestation_request_callback`                     *)
(*   AttestAnswer         the callback's future resolves (value or None) -> attest, send_attestation (chunks)   *)
(*   OnChunk              on_attestation_chunk (both branches) incl. on_attestation_complete (database insert)  *)
(*                        and on_received_attestation (first window of challenges)                              *)
(*   Verify               verify_attestation_values + create_verify_attestation_request                        *)
(*   OnVerifyRequest      on_verify_attestation_request up to `await verify_request_callback`                   *)
(*   Consent              the owner's answer resolves -> cached_attestation_blobs, send_attestation             *)
(*   OnChallenge          on_challenge                                                                          *)
(*   OnResponse           on_challenge_response (bookkeeping, honesty verdict, completion, next challenge)      *)
(*   Timeout              RequestCache time-out of one of the four cache classes (120 s / 10 s), Tick           *)
(*   Drop / keep (dup)    the datagram network;  AdvSend: an authenticated but malicious peer                   *)
(*                                                                                                              *)
(* Symbolic data: a serialized attestation is a blob id b (= its SHA-1), chunk i of it is Data(b, i); SHA-1 of  *)
(* a reassembled byte string equals h exactly when the chunk map is the full chunk set of blob h.  A regular    *)
(* challenge of verification v for bit-pair j is <<1, v, j>>, an honesty challenge with known plaintext x is    *)
(* <<2, serial, x>>.  The honest answer to challenge j of blob b is blobs[b].ans[j] (0..2).                     *)
(*                                                                                                              *)
(* SAFETY PROPERTIES (written from the docstrings / obvious intent of the subsystem)                            *)
(*  StoredIntact     an attestation is in the database only if the chunk map it was assembled from is exactly   *)
(*                   the chunk set of the stored hash (every chunk arrived, nothing foreign), under the one-    *)
(*                   time key of the request it answers; if the attester is honest it is the blob that attester *)
(*                   made for exactly this request's public key.                                                *)
(*  ChunkIsolation   a pending attestation request (peer p, global time g) only ever collects chunks sent by p  *)
(*                   with global time g: chunks of other peers / other requests are ignored.                    *)
(*  VerifyOnce       the completion callback of one verify_attestation_values call fires at most once.          *)
(*  ResultConsistent a reported aggregate counts each challenge of the attestation exactly once with the        *)
(*                   response received for it; "liar" is reported only after a failed honesty check; once an    *)
(*                   honesty check failed no other verdict is reported; an honest prover's aggregate is the     *)
(*                   profile of the attested value.                                                             *)
(*  ConsentGiven     an owner sends attestation chunks / challenge responses for hash h only after its          *)
(*                   verify_request_callback allowed a verification of h (for somebody: see StrictConsent).     *)
(*  DbAppendOnly     (action property) stored attestations are never changed or removed.                        *)
(*  CachesSane       structural consistency of the four cache classes and allowed_attestations.                 *)
(* Observation, NOT demanded (the pinned code does not do it and the intent is unclear): StrictConsent - the    *)
(* owner answers only the peers it allowed.  on_challenge answers anybody once one verification was allowed.    *)
(*                                                                                                              *)
(* PINNED DEVIATION (genuine defect, proposed_fixes/G03-1): on_challenge_response calls the completion callback *)
(* again for every response that arrives after the verification completed (outstanding honesty checks), and     *)
(* after a failed honesty check keeps challenging and finally reports the ordinary aggregate.  OnceOnly = TRUE  *)
(* is the repaired behaviour, OnceOnly = FALSE the pinned one (violates VerifyOnce / ResultConsistent).         *)
(* Other control switches: CheckPeer, CheckHash, AskConsent (FALSE = a plausible wrong implementation).         *)
(* Time: every cache carries its deadline (now + 120 s, pending challenges now + 10 s); time-outs fire in       *)
(* deadline order on one shared clock, Tick lets time pass without a time-out.                                  *)
EXTENDS Integers, Sequences, FiniteSets, TLC

CONSTANTS Nodes,        \* node ids (naturals)
          Adv,          \* nodes under the adversary's control (authenticated peers that send what they like)
          Requesters,   \* honest nodes whose user calls request_attestation
          Verifiers,    \* honest nodes whose user calls verify_attestation_values
          Values,       \* attribute values: non-empty sequences over 0..2 = honest answer per challenge
          NChunks,      \* chunks per serialized attestation (<= 15)
          Window,       \* challenges sent at once by on_received_attestation (10 in the code)
          Pre,          \* attestations that exist at the start: sequence of [owner, by, ans]; hash i, key i
          MaxReq, MaxVer, MaxHon, MaxDup, MaxDrop, MaxAdv, MaxTimeouts, MaxTicks,
          TickSteps,    \* amounts of time that may pass without a time-out
          AdvKinds,     \* what the adversary may send: subset of {"junk", "data", "resp", "chal"}
          AdvResps,     \* response values the adversary may send (subset of 0..3)
          OnceOnly, CheckPeer, CheckHash, AskConsent

VARIABLES clock,      \* node -> Lamport clock (claim_global_time)
          reqC,       \* node -> set of ReceiveAttestationRequestCache [peer, gt, key, map, dl]
          allowed,    \* node -> set of <<peer, gt>>  (allowed_attestations)
          verC,       \* node -> set of ReceiveAttestationVerifyCache [h, map, dl]
          provC,      \* node -> set of registered ProvingAttestationCache [h, v, dl]
          pendC,      \* node -> set of PendingChallengeCache [ch, v, hc, dl]
          db,         \* node -> set of stored attestations [h, key, from, gt, map]  (from/gt/map: history)
          cached,     \* node -> hashes in cached_attestation_blobs
          askA,       \* node -> sequence of suspended on_request_attestation [peer, gt, pk]
          askV,       \* node -> sequence of suspended on_verify_attestation_request [peer, h]
          ver,        \* sequence of ProvingAttestationCache objects (they outlive their registration)
          blobs,      \* sequence of attestation blobs ever made [by, pk, ans]; index = hash
          net,        \* datagrams in flight (to honest nodes)
          now,        \* virtual time (seconds)
          nkeys, nhon,\* allocation counters: one-time keys, honesty challenges
          bud,        \* remaining budgets [dup, drop, adv, to, tick]
          reqlog,     \* history: requests made [n, peer, gt, key]
          consented,  \* history: node -> set of <<peer, h>> the owner allowed
          disclosed,  \* history: node -> set of <<peer, h>> the owner sent chunks / responses to
          advKnows    \* history: challenges that were addressed to an adversarial node
vars == <<clock, reqC, allowed, verC, provC, pendC, db, cached, askA, askV, ver, blobs, net, now, nkeys, nhon, bud,
          reqlog, consented, disclosed, advKnows>>

Honest == Nodes \ Adv
NoCh   == <<0, 0, 0>>
Zero   == [k \in 0..3 |-> 0]
Min(a, b) == IF a < b THEN a ELSE b

M(t, s, d, g, h, i, data, ch, r, pk) ==
  [t |-> t, src |-> s, dst |-> d, gt |-> g, h |-> h, seq |-> i, data |-> data, ch |-> ch, r |-> r, pk |-> pk]
ReqMsg(s, d, g, pk)           == M("req", s, d, g, 0, 0, 0, NoCh, 0, pk)
ChunkMsg(s, d, g, h, i, data) == M("chunk", s, d, g, h, i, data, NoCh, 0, 0)
VreqMsg(s, d, g, h)           == M("vreq", s, d, g, h, 0, 0, NoCh, 0, 0)
ChalMsg(s, d, g, h, ch)       == M("chal", s, d, g, h, 0, 0, ch, 0, 0)
RespMsg(s, d, g, ch, r)       == M("resp", s, d, g, 0, 0, 0, ch, r, 0)

Data(h, i) == h * 16 + i + 1
Junk(i)    == i + 1
Full(h)    == {<<i, Data(h, i)>> : i \in 0..(NChunks - 1)}
Pairs(map) == {<<e.seq, e.data>> : e \in map}
(* sha1(concatenation in sequence order) == claimed hash *)
Complete(map, h) == IF CheckHash THEN Pairs(map) = Full(h)
                    ELSE {e.seq : e \in map} = 0..(NChunks - 1)
NCh(h) == Len(blobs[h].ans)
Hashes(n) == {e.h : e \in db[n]}
RemoveAt(s, i) == [k \in 1..(Len(s) - 1) |-> IF k < i THEN s[k] ELSE s[k + 1]]
Agg(f) == [k \in 0..3 |-> Cardinality({j \in DOMAIN f : f[j] = k})]

Deadlines == UNION {{c.dl : c \in reqC[n]} \cup {c.dl : c \in verC[n]} \cup {c.dl : c \in provC[n]}
                    \cup {c.dl : c \in pendC[n]} : n \in Honest}
MinDl == IF Deadlines = {} THEN -1 ELSE CHOOSE x \in Deadlines : \A y \in Deadlines : x <= y

Init ==
  /\ clock = [n \in Nodes |-> 0]
  /\ reqC = [n \in Nodes |-> {}] /\ allowed = [n \in Nodes |-> {}] /\ verC = [n \in Nodes |-> {}]
  /\ provC = [n \in Nodes |-> {}] /\ pendC = [n \in Nodes |-> {}]
  /\ blobs = [i \in 1..Len(Pre) |-> [by |-> Pre[i].by, pk |-> i, ans |-> Pre[i].ans]]
  /\ db = [n \in Nodes |-> {[h |-> i, key |-> i, from |-> Pre[i].by, gt |-> 0, map |-> {}] :
                            i \in {j \in 1..Len(Pre) : Pre[j].owner = n /\ n \in Honest}}]
  /\ cached = [n \in Nodes |-> {}]
  /\ askA = [n \in Nodes |-> <<>>] /\ askV = [n \in Nodes |-> <<>>]
  /\ ver = <<>> /\ net = {} /\ now = 0 /\ nkeys = Len(Pre) /\ nhon = 0
  /\ bud = [dup |-> MaxDup, drop |-> MaxDrop, adv |-> MaxAdv, to |-> MaxTimeouts, tick |-> MaxTicks]
  /\ reqlog = {} /\ consented = [n \in Nodes |-> {}] /\ disclosed = [n \in Nodes |-> {}] /\ advKnows = {}

(* ------------------------------------------ the network -------------------------------------------------- *)
(* datagrams to adversarial nodes are not queued: the adversary just learns them *)
Learn(msgs) == advKnows \cup {m.ch : m \in {x \in msgs : x.t = "chal" /\ x.dst \in Adv}}
(* the handler of m ran; keep = TRUE: the network duplicated the datagram, a copy stays in flight *)
Consume(m, keep, msgs) ==
  /\ keep => bud.dup > 0
  /\ net' = ((IF keep THEN net ELSE net \ {m}) \cup {x \in msgs : x.dst \in Honest})
  /\ advKnows' = Learn(msgs)
  /\ bud' = IF keep THEN [bud EXCEPT !.dup = @ - 1] ELSE bud
Emit(msgs) == /\ net' = net \cup {x \in msgs : x.dst \in Honest}
              /\ advKnows' = Learn(msgs)

Drop(m) == /\ m \in net /\ bud.drop > 0
           /\ net' = net \ {m} /\ bud' = [bud EXCEPT !.drop = @ - 1]
           /\ UNCHANGED <<clock, reqC, allowed, verC, provC, pendC, db, cached, askA, askV, ver, blobs, now, nkeys,
                          nhon, reqlog, consented, disclosed, advKnows>>

(* ------------------------------------------ request flow ------------------------------------------------- *)
RequestAttestation(n, p) ==
  /\ n \in Requesters /\ p \in Nodes \ {n} /\ Cardinality(reqlog) < MaxReq
  /\ LET g == clock[n] + 1
         k == nkeys + 1 IN
     /\ clock' = [clock EXCEPT ![n] = g]
     /\ nkeys' = k
     /\ reqC' = [reqC EXCEPT ![n] = @ \cup {[peer |-> p, gt |-> g, key |-> k, map |-> {}, dl |-> now + 120]}]
     /\ allowed' = [allowed EXCEPT ![n] = @ \cup {<<p, g>>}]
     /\ reqlog' = reqlog \cup {[n |-> n, peer |-> p, gt |-> g, key |-> k]}
     /\ Emit({ReqMsg(n, p, g, k)})
  /\ UNCHANGED <<verC, provC, pendC, db, cached, askA, askV, ver, blobs, now, nhon, bud, consented, disclosed>>

OnRequest(m, keep) ==
  /\ m \in net /\ m.t = "req"
  /\ askA' = [askA EXCEPT ![m.dst] = Append(@, [peer |-> m.src, gt |-> m.gt, pk |-> m.pk])]
  /\ Consume(m, keep, {})
  /\ UNCHANGED <<clock, reqC, allowed, verC, provC, pendC, db, cached, askV, ver, blobs, now, nkeys, nhon, reqlog,
                 consented, disclosed>>

(* val = <<>> : the callback answered None, no attestation is made *)
AttestAnswer(n, i, val) ==
  /\ n \in Honest /\ i \in 1..Len(askA[n]) /\ val \in Values \cup {<<>>}
  /\ LET a == askA[n][i]
         b == Len(blobs) + 1 IN
     /\ askA' = [askA EXCEPT ![n] = RemoveAt(@, i)]
     /\ IF val = <<>> THEN UNCHANGED <<blobs, net, advKnows>>
        ELSE /\ blobs' = Append(blobs, [by |-> n, pk |-> a.pk, ans |-> val])
             /\ Emit({ChunkMsg(n, a.peer, a.gt, b, c, Data(b, c)) : c \in 0..(NChunks - 1)})
  /\ UNCHANGED <<clock, reqC, allowed, verC, provC, pendC, db, cached, askV, ver, now, nkeys, nhon, bud, reqlog,
                 consented, disclosed>>

(* ------------------------------------------ chunks ------------------------------------------------------- *)
(* on_received_attestation(n, from, h): values of (ver', pendC'[n], clock'[n], messages) *)
RecvAtt(n, from, h) ==
  LET pcs == {p \in provC[n] : p.h = h} IN
  IF pcs = {} THEN [ver |-> ver, pend |-> pendC[n], clock |-> clock[n], msgs |-> {}]
  ELSE LET v     == (CHOOSE p \in pcs : TRUE).v
           nch   == NCh(h)
           first == 1..Min(Window, nch) IN
       [ver   |-> [ver EXCEPT ![v].pk = blobs[h].pk, ![v].relmap = Zero, ![v].hashed = 1..nch,
                              ![v].chals = [j \in 1..nch |-> j], ![v].counted = <<>>],
        pend  |-> pendC[n] \cup {[ch |-> <<1, v, j>>, v |-> v, hc |-> -1, dl |-> now + 10] : j \in first},
        clock |-> clock[n] + Cardinality(first),
        msgs  |-> {ChalMsg(n, from, clock[n] + j, h, <<1, v, j>>) : j \in first}]

OnChunk(m, keep) ==
  /\ m \in net /\ m.t = "chunk"
  /\ LET n  == m.dst
         e  == [seq |-> m.seq, data |-> m.data, src |-> m.src, gt |-> m.gt]
         vs == {c \in verC[n] : c.h = m.h}
         rs == {c \in reqC[n] : /\ (CheckPeer => c.peer = m.src) /\ c.gt = m.gt
                                /\ <<c.peer, c.gt>> \in allowed[n]} IN
     IF vs # {} THEN
       LET c    == CHOOSE x \in vs : TRUE
           map2 == c.map \cup {e} IN
       IF Complete(map2, m.h) THEN
         LET r == RecvAtt(n, m.src, m.h) IN
         /\ verC' = [verC EXCEPT ![n] = @ \ {c}]
         /\ ver' = r.ver /\ pendC' = [pendC EXCEPT ![n] = r.pend] /\ clock' = [clock EXCEPT ![n] = r.clock]
         /\ Consume(m, keep, r.msgs)
         /\ UNCHANGED <<reqC, allowed, db>>
       ELSE
         /\ verC' = [verC EXCEPT ![n] = (@ \ {c}) \cup {[c EXCEPT !.map = map2]}]
         /\ Consume(m, keep, {})
         /\ UNCHANGED <<reqC, allowed, db, ver, pendC, clock>>
     ELSE IF rs # {} THEN
       LET c    == CHOOSE x \in rs : TRUE
           map2 == c.map \cup {e} IN
       IF Complete(map2, m.h) THEN
         /\ reqC' = [reqC EXCEPT ![n] = @ \ {c}]
         /\ allowed' = [allowed EXCEPT ![n] = @ \ {<<c.peer, c.gt>>}]
         \* the table's primary key is the hash: a second insert of the same hash fails (exception swallowed)
         /\ db' = IF m.h \in Hashes(n) THEN db
                  ELSE [db EXCEPT ![n] = @ \cup {[h |-> m.h, key |-> c.key, from |-> c.peer, gt |-> c.gt,
                                                   map |-> map2]}]
         /\ Consume(m, keep, {})
         /\ UNCHANGED <<verC, ver, pendC, clock>>
       ELSE
         /\ reqC' = [reqC EXCEPT ![n] = (@ \ {c}) \cup {[c EXCEPT !.map = map2]}]
         /\ Consume(m, keep, {})
         /\ UNCHANGED <<allowed, db, verC, ver, pendC, clock>>
     ELSE \* "Received Attestation chunk which we did not request!"
       /\ Consume(m, keep, {})
       /\ UNCHANGED <<reqC, allowed, db, verC, ver, pendC, clock>>
  /\ UNCHANGED <<provC, cached, askA, askV, blobs, now, nkeys, nhon, reqlog, consented, disclosed>>

(* ------------------------------------------ verification flow -------------------------------------------- *)
Verify(n, p, h) ==
  /\ n \in Verifiers /\ p \in Nodes \ {n} /\ h \in 1..Len(blobs) /\ Len(ver) < MaxVer
  \* explored only while no verification of h is pending at n: both caches are free (a second call while one is pending
  \* is refused by RequestCache.add and re-uses the first call's caches; not modelled)
  /\ ~\E c \in provC[n] : c.h = h
  /\ ~\E c \in verC[n] : c.h = h
  /\ LET v == Len(ver) + 1
         g == clock[n] + 1 IN
     /\ ver' = Append(ver, [node |-> n, to |-> p, h |-> h, pk |-> 0, relmap |-> Zero, hashed |-> {},
                            chals |-> <<>>, results |-> <<>>, liar |-> FALSE, counted |-> <<>>])
     /\ provC' = [provC EXCEPT ![n] = @ \cup {[h |-> h, v |-> v, dl |-> now + 120]}]
     /\ verC' = [verC EXCEPT ![n] = @ \cup {[h |-> h, map |-> {}, dl |-> now + 120]}]
     /\ clock' = [clock EXCEPT ![n] = g]
     /\ Emit({VreqMsg(n, p, g, h)})
  /\ UNCHANGED <<reqC, allowed, pendC, db, cached, askA, askV, blobs, now, nkeys, nhon, bud, reqlog, consented,
                 disclosed>>

OnVerifyRequest(m, keep) ==
  /\ m \in net /\ m.t = "vreq"
  /\ askV' = IF m.h \in Hashes(m.dst) THEN [askV EXCEPT ![m.dst] = Append(@, [peer |-> m.src, h |-> m.h])]
             ELSE askV       \* "Dropping verification request of unknown hash!"
  /\ Consume(m, keep, {})
  /\ UNCHANGED <<clock, reqC, allowed, verC, provC, pendC, db, cached, askA, ver, blobs, now, nkeys, nhon, reqlog,
                 consented, disclosed>>

Consent(n, i, allow) ==
  /\ n \in Honest /\ i \in 1..Len(askV[n])
  /\ LET a == askV[n][i]
         g == clock[n] + 1 IN
     /\ askV' = [askV EXCEPT ![n] = RemoveAt(@, i)]
     /\ consented' = IF allow THEN [consented EXCEPT ![n] = @ \cup {<<a.peer, a.h>>}] ELSE consented
     /\ IF allow \/ ~AskConsent
        THEN /\ cached' = [cached EXCEPT ![n] = @ \cup {a.h}]
             /\ clock' = [clock EXCEPT ![n] = g]
             /\ disclosed' = [disclosed EXCEPT ![n] = @ \cup {<<a.peer, a.h>>}]
             /\ Emit({ChunkMsg(n, a.peer, g, a.h, c, Data(a.h, c)) : c \in 0..(NChunks - 1)})
        ELSE UNCHANGED <<cached, clock, disclosed, net, advKnows>>
  /\ UNCHANGED <<reqC, allowed, verC, provC, pendC, db, askA, ver, blobs, now, nkeys, nhon, bud, reqlog>>

(* create_challenge_response with the key stored for hash h *)
Answer(n, h, ch) ==
  IF ch[1] = 2 THEN ch[3]
  ELSE LET e == CHOOSE x \in db[n] : x.h = h IN
       IF ch[1] = 1 /\ ch[3] \in 1..NCh(h) /\ e.key = blobs[h].pk THEN blobs[h].ans[ch[3]] ELSE 3

OnChallenge(m, keep) ==
  /\ m \in net /\ m.t = "chal"
  /\ LET n == m.dst
         g == clock[n] + 1 IN
     IF m.h \in Hashes(n) /\ m.h \in cached[n]
     THEN /\ clock' = [clock EXCEPT ![n] = g]
          /\ disclosed' = [disclosed EXCEPT ![n] = @ \cup {<<m.src, m.h>>}]
          /\ Consume(m, keep, {RespMsg(n, m.src, g, m.ch, Answer(n, m.h, m.ch))})
     ELSE /\ Consume(m, keep, {})       \* KeyError, swallowed by on_packet
          /\ UNCHANGED <<clock, disclosed>>
  /\ UNCHANGED <<reqC, allowed, verC, provC, pendC, db, cached, askA, askV, ver, blobs, now, nkeys, nhon, reqlog,
                 consented>>

(* first challenge of the list that has no pending cache, 0 = "No more bitpairs to challenge!" *)
NextRegular(chals, pend, v) ==
  LET free == {k \in 1..Len(chals) : ~\E p \in pend : p.ch = <<1, v, chals[k]>>} IN
  IF free = {} THEN 0 ELSE chals[CHOOSE k \in free : \A k2 \in free : k <= k2]

(* hc: the honesty decision taken when another challenge is sent (-1 regular, 0..2 honesty check with that value) *)
OnResponse(m, keep, hc) ==
  /\ m \in net /\ m.t = "resp" /\ hc \in -1..2
  /\ LET n   == m.dst
         pcs == {p \in pendC[n] : p.ch = m.ch} IN
     IF pcs = {} THEN
       /\ hc = -1 /\ Consume(m, keep, {})
       /\ UNCHANGED <<pendC, provC, ver, clock, nhon>>
     ELSE
       LET p     == CHOOSE x \in pcs : TRUE
           v     == p.v
           V     == ver[v]
           regs  == {q \in provC[n] : q.h = V.h /\ q.v = v}
           pend1 == pendC[n] \ {p} IN
       IF OnceOnly /\ regs = {} THEN
         \* repaired: the verification is not pending any more, the late response only frees its cache
         /\ hc = -1 /\ pendC' = [pendC EXCEPT ![n] = pend1] /\ Consume(m, keep, {})
         /\ UNCHANGED <<provC, ver, clock, nhon>>
       ELSE
         LET regular  == p.hc < 0
             j        == m.ch[3]
             inHashed == m.ch[1] = 1 /\ m.ch[2] = v /\ j \in V.hashed
             hashed1  == IF inHashed THEN V.hashed \ {j} ELSE V.hashed
             chals1   == IF inHashed THEN SelectSeq(V.chals, LAMBDA x : x # j) ELSE V.chals
             relmap1  == IF regular THEN [V.relmap EXCEPT ![m.r] = @ + 1] ELSE V.relmap
             counted1 == IF regular /\ inHashed THEN (j :> m.r) @@ V.counted ELSE V.counted
             lie      == ~regular /\ m.r # p.hc
             res1     == IF lie THEN Append(V.results, [liar |-> TRUE, agg |-> Zero]) ELSE V.results
             V1       == [V EXCEPT !.hashed = hashed1, !.chals = chals1, !.relmap = relmap1, !.counted = counted1,
                                   !.results = res1, !.liar = (V.liar \/ lie)]
             prov1    == IF lie THEN provC[n] \ regs ELSE provC[n] IN
         IF lie /\ OnceOnly THEN
           /\ hc = -1 /\ ver' = [ver EXCEPT ![v] = V1]
           /\ provC' = [provC EXCEPT ![n] = prov1] /\ pendC' = [pendC EXCEPT ![n] = pend1]
           /\ Consume(m, keep, {})
           /\ UNCHANGED <<clock, nhon>>
         ELSE IF hashed1 = {} THEN
           /\ hc = -1
           /\ ver' = [ver EXCEPT ![v] = [V1 EXCEPT !.results = Append(res1, [liar |-> FALSE, agg |-> relmap1])]]
           /\ provC' = [provC EXCEPT ![n] = prov1 \ regs] /\ pendC' = [pendC EXCEPT ![n] = pend1]
           /\ Consume(m, keep, {})
           /\ UNCHANGED <<clock, nhon>>
         ELSE IF hc >= 0 THEN
           LET ch2 == <<2, nhon + 1, hc>>
               g   == clock[n] + 1 IN
           /\ nhon < MaxHon /\ nhon' = nhon + 1
           /\ ver' = [ver EXCEPT ![v] = V1] /\ provC' = [provC EXCEPT ![n] = prov1]
           /\ pendC' = [pendC EXCEPT ![n] = pend1 \cup {[ch |-> ch2, v |-> v, hc |-> hc, dl |-> now + 10]}]
           /\ clock' = [clock EXCEPT ![n] = g]
           /\ Consume(m, keep, {ChalMsg(n, m.src, g, V.h, ch2)})
         ELSE
           LET j2 == NextRegular(chals1, pend1, v)
               g  == clock[n] + 1 IN
           /\ ver' = [ver EXCEPT ![v] = V1] /\ provC' = [provC EXCEPT ![n] = prov1]
           /\ UNCHANGED nhon
           /\ IF j2 = 0 THEN /\ pendC' = [pendC EXCEPT ![n] = pend1] /\ Consume(m, keep, {})
                             /\ UNCHANGED clock
              ELSE /\ pendC' = [pendC EXCEPT ![n] = pend1 \cup {[ch |-> <<1, v, j2>>, v |-> v, hc |-> -1,
                                                                   dl |-> now + 10]}]
                   /\ clock' = [clock EXCEPT ![n] = g]
                   /\ Consume(m, keep, {ChalMsg(n, m.src, g, V.h, <<1, v, j2>>)})
  /\ UNCHANGED <<reqC, allowed, verC, db, cached, askA, askV, blobs, now, nkeys, reqlog, consented, disclosed>>

(* ------------------------------------------ time ---------------------------------------------------------- *)
(* RequestCache time-outs fire in deadline order (one shared virtual clock); the cache is dropped, nothing else *)
Expire(dl) == /\ bud.to > 0 /\ dl = MinDl /\ now' = dl /\ bud' = [bud EXCEPT !.to = @ - 1]
              /\ UNCHANGED <<clock, allowed, db, cached, askA, askV, ver, blobs, net, nkeys, nhon, reqlog, consented,
                             disclosed, advKnows>>
ReqTimeout(n, p, g) == \E c \in reqC[n] : /\ c.peer = p /\ c.gt = g /\ Expire(c.dl)
                                          /\ reqC' = [reqC EXCEPT ![n] = @ \ {c}]
                                          /\ UNCHANGED <<verC, provC, pendC>>
VerTimeout(n, h)    == \E c \in verC[n] : /\ c.h = h /\ Expire(c.dl)
                                          /\ verC' = [verC EXCEPT ![n] = @ \ {c}]
                                          /\ UNCHANGED <<reqC, provC, pendC>>
ProvTimeout(n, h)   == \E c \in provC[n] : /\ c.h = h /\ Expire(c.dl)
                                           /\ provC' = [provC EXCEPT ![n] = @ \ {c}]
                                           /\ UNCHANGED <<reqC, verC, pendC>>
PendTimeout(n, ch)  == \E c \in pendC[n] : /\ c.ch = ch /\ Expire(c.dl)
                                           /\ pendC' = [pendC EXCEPT ![n] = @ \ {c}]
                                           /\ UNCHANGED <<reqC, verC, provC>>

Tick(d) ==
  /\ bud.tick > 0 /\ d \in TickSteps /\ Deadlines # {} /\ now + d <= MinDl
  /\ now' = now + d /\ bud' = [bud EXCEPT !.tick = @ - 1]
  /\ UNCHANGED <<clock, reqC, allowed, verC, provC, pendC, db, cached, askA, askV, ver, blobs, net, nkeys, nhon,
                 reqlog, consented, disclosed, advKnows>>

(* ------------------------------------------ the adversary ------------------------------------------------- *)
AdvBlobs == {b \in 1..Len(blobs) : blobs[b].by \in Adv}
AdvMsgs ==
  UNION {
    (IF "junk" \in AdvKinds
     THEN {ChunkMsg(a, n, g, h, i, Junk(i)) : g \in {c.gt : c \in reqC[n]} \cup {0},
                                              h \in {c.h : c \in verC[n]} \cup AdvBlobs, i \in 0..(NChunks - 1)}
     ELSE {})
    \cup (IF "data" \in AdvKinds
          THEN {ChunkMsg(a, n, g, b, i, Data(b, i)) : g \in {c.gt : c \in reqC[n]} \cup {0}, b \in AdvBlobs,
                                                      i \in 0..(NChunks - 1)}
          ELSE {})
    \cup (IF "resp" \in AdvKinds
          THEN {RespMsg(a, n, 0, ch, r) : ch \in advKnows \cap {p.ch : p \in pendC[n]}, r \in AdvResps}
          ELSE {})
    \cup (IF "chal" \in AdvKinds
          THEN {ChalMsg(a, n, 0, h, ch) : h \in Hashes(n), ch \in advKnows \cup {<<2, 0, 1>>}}
          ELSE {})
    : a \in Adv, n \in Honest}

AdvSend(m) == /\ bud.adv > 0 /\ m \in AdvMsgs /\ m \notin net
              /\ net' = net \cup {m} /\ bud' = [bud EXCEPT !.adv = @ - 1]
              /\ UNCHANGED <<clock, reqC, allowed, verC, provC, pendC, db, cached, askA, askV, ver, blobs, now,
                             nkeys, nhon, reqlog, consented, disclosed, advKnows>>

(* one named step per action, so that TLC's coverage names them *)
RequestStep     == \E n \in Requesters, p \in Nodes : RequestAttestation(n, p)
OnRequestStep   == \E m \in net, keep \in BOOLEAN : OnRequest(m, keep)
AttestStep      == \E n \in Honest, i \in 1..3, val \in Values \cup {<<>>} : AttestAnswer(n, i, val)
OnChunkStep     == \E m \in net, keep \in BOOLEAN : OnChunk(m, keep)
VerifyStep      == \E n \in Verifiers, p \in Nodes, h \in 1..Len(blobs) : Verify(n, p, h)
OnVerifyReqStep == \E m \in net, keep \in BOOLEAN : OnVerifyRequest(m, keep)
ConsentStep     == \E n \in Honest, i \in 1..3, allow \in BOOLEAN : Consent(n, i, allow)
OnChallengeStep == \E m \in net, keep \in BOOLEAN : OnChallenge(m, keep)
OnResponseStep  == \E m \in net, keep \in BOOLEAN, hc \in -1..2 : OnResponse(m, keep, hc)
ReqTimeoutStep  == \E n \in Honest : \E c \in reqC[n] : ReqTimeout(n, c.peer, c.gt)
VerTimeoutStep  == \E n \in Honest : \E c \in verC[n] : VerTimeout(n, c.h)
ProvTimeoutStep == \E n \in Honest : \E c \in provC[n] : ProvTimeout(n, c.h)
PendTimeoutStep == \E n \in Honest : \E c \in pendC[n] : PendTimeout(n, c.ch)
TickStep        == \E d \in TickSteps : Tick(d)
DropStep        == \E m \in net : Drop(m)
AdvStep         == \E m \in AdvMsgs : AdvSend(m)

Next == \/ RequestStep \/ OnRequestStep \/ AttestStep \/ OnChunkStep \/ VerifyStep \/ OnVerifyReqStep \/ ConsentStep
        \/ OnChallengeStep \/ OnResponseStep \/ ReqTimeoutStep \/ VerTimeoutStep \/ ProvTimeoutStep
        \/ PendTimeoutStep \/ TickStep \/ DropStep \/ AdvStep

Spec == Init /\ [][Next]_vars

(* ------------------------------------------ properties ---------------------------------------------------- *)
StoredIntact ==
  \A n \in Honest : \A e \in db[n] : e.gt > 0 =>
     /\ e.h \in 1..Len(blobs)
     /\ Pairs(e.map) = Full(e.h)
     /\ [n |-> n, peer |-> e.from, gt |-> e.gt, key |-> e.key] \in reqlog
     /\ e.from \in Honest => blobs[e.h].by = e.from /\ blobs[e.h].pk = e.key

ChunkIsolation ==
  \A n \in Honest :
     /\ \A c \in reqC[n] : \A e \in c.map : e.src = c.peer /\ e.gt = c.gt
     /\ \A d \in db[n] : \A e \in d.map : e.src = d.from /\ e.gt = d.gt

VerifyOnce == \A v \in 1..Len(ver) : Len(ver[v].results) <= 1

ResultConsistent ==
  \A v \in 1..Len(ver) : LET V == ver[v] IN
     /\ \A i \in 1..Len(V.results) :
          IF V.results[i].liar THEN V.liar
          ELSE /\ DOMAIN V.counted = 1..NCh(V.h)
               /\ V.results[i].agg = Agg(V.counted)
               /\ (V.to \in Honest /\ blobs[V.h].by \in Honest) => V.results[i].agg = Agg(blobs[V.h].ans)
     /\ V.liar => (V.results # <<>> /\ \A i \in 1..Len(V.results) : V.results[i].liar)

ConsentGiven  == \A n \in Honest : \A d \in disclosed[n] : \E c \in consented[n] : c[2] = d[2]
StrictConsent == \A n \in Honest : disclosed[n] \subseteq consented[n]

CachesSane ==
  \A n \in Honest :
     /\ \A c \in reqC[n] : <<c.peer, c.gt>> \in allowed[n]
     /\ \A c1, c2 \in reqC[n] : (c1.peer = c2.peer /\ c1.gt = c2.gt) => c1 = c2
     /\ \A c1, c2 \in verC[n] : c1.h = c2.h => c1 = c2
     /\ \A c1, c2 \in provC[n] : c1.h = c2.h => c1 = c2
     /\ \A c1, c2 \in pendC[n] : c1.ch = c2.ch => c1 = c2
     /\ \A c \in provC[n] : c.v \in 1..Len(ver) /\ ver[c.v].node = n /\ ver[c.v].h = c.h /\ ver[c.v].results = <<>>
     /\ \A c \in pendC[n] : c.v \in 1..Len(ver) /\ ver[c.v].node = n
     /\ cached[n] \subseteq Hashes(n)
  /\ \A dl \in Deadlines : dl >= now

DbAppendOnly == [][\A n \in Honest : db[n] \subseteq db'[n]]_vars

(* "sometimes" witnesses: expected to be VIOLATED (non-vacuity of the model) *)
WitnessStored   == \A n \in Honest : \A e \in db[n] : e.gt = 0
WitnessVerified == \A v \in 1..Len(ver) : ver[v].results = <<>>
WitnessLiar     == \A v \in 1..Len(ver) : ~ver[v].liar
=============================================================================
