SPECIFICATION Spec
CONSTANTS Interval = 3 Limit = 2 PingInterval = 4 PingTimeout = 2 FindTimeout = 1 GoodWindow = 7 MaxFail = 2
          Jumps = {1} MaxOut = 3 WithQuery = TRUE WithPing = TRUE WithLookup = TRUE ChurnEveryTick = TRUE
          CtlCountRefused = FALSE CtlNotAdmitted = FALSE CtlNoReset = FALSE CtlNoRemove = FALSE
INVARIANT TypeOK
INVARIANT InvWindow
INVARIANT InvRefuse
INVARIANT InvStatus
INVARIANT InvChurn
INVARIANT InvDeadGone
