SPECIFICATION TraceSpec
CONSTANTS
 Ov = {1, 2, 3}
 ConfOv <- Seq12
 St = {1, 2, 3, 4, 5, 6}
 ConfSt <- Seq1234
 OvOf <- OvOfT
 Target <- TargetT
 WI = 2
 MaxPeers = 64
 WithAnon = FALSE
 StaleTick = FALSE LeTarget = FALSE CloseEarly = FALSE InPlace = FALSE
INVARIANT StepOnlyLoaded
INVARIANT StepBelowTarget
INVARIANT StepOnlyRunning
INVARIANT PassComplete
INVARIANT Registered
INVARIANT UnloadOnce
INVARIANT StopComplete
INVARIANT TickerAlive
INVARIANT EndpointLast
