---------------------------- MODULE DhtNodeTrace ----------------------------
(* Request histories recorded in real DHT networks (harness/g02_net.py), one trace per (serving node,        *)
(* requester) pair, checked against the query limiter of DhtNode.tla with the shipped constants; the clock   *)
(* is in microseconds.  Events:                                                                              *)
(*   t  d microseconds pass                          q  a request arrived and was answered / refused         *)
(*   x  the table entry of the requester was dropped (observed: the entry object is gone or replaced)        *)
(*   n  a request was answered although the requester is not held in the table (the limiter cannot see it;   *)
(*      outside the statement of N1, counted by the driver)                                                  *)
EXTENDS DhtNode, Json, IOUtils, TLCExt

Traces == JsonDeserialize(IOEnv.TRACE_FILE)
AnyJump == Nat

VARIABLES tid, l
tvars == <<vars, tid, l>>
Ev == Traces[tid].events

Dropped == /\ held' = FALSE /\ innet' = FALSE /\ q' = <<>> /\ lq' = Never /\ lr' = Never /\ failed' = 0 /\ lps' = Never
           /\ out' = <<>> /\ hResp' = Never /\ hFail' = 0 /\ hQuery' = Never /\ hSilent' = 0 /\ hServed' = <<>>
           /\ status' = "none" /\ last' = "churn-removed"
           /\ UNCHANGED <<churned, hRefuseOK>>

TraceInit == /\ tid \in 1..Len(Traces) /\ l = 1 /\ Init

TraceNext == /\ l <= Len(Ev)
             /\ LET e == Ev[l] IN
                  \/ e.a = "t" /\ Tick(e.d)
                  \/ e.a = "q" /\ Query /\ last' = e.out
                  \/ e.a = "x" /\ Dropped
                  \/ e.a = "n" /\ UNCHANGED vars
             /\ l' = l + 1 /\ UNCHANGED tid

TraceSpec == TraceInit /\ [][TraceNext]_tvars
TraceAccepted == l <= Len(Ev) => ENABLED TraceNext
=============================================================================
