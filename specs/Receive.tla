------------------------------ MODULE Receive ------------------------------
(* C03 - the receive path of py-ipv8 from the transport to the message handlers.                      *)
(*   ipv8/messaging/interfaces/endpoint.py : Endpoint.add_listener / add_prefix_listener /            *)
(*       remove_listener / notify_listeners / _deliver_later                                          *)
(*   ipv8/messaging/anonymization/endpoint.py : TunnelEndpoint.notify_listeners                       *)
(*   ipv8/community.py : Community.on_packet                                                          *)
(*   ipv8/messaging/anonymization/crypto.py : PythonCryptoEndpoint.on_packet / process_cell /         *)
(*       relay_cell / incoming_crypto ; payload.py : CellPayload.from_bin                             *)
(*   ipv8/messaging/anonymization/community.py : on_cell / on_packet_from_circuit                     *)
(*   ipv8/messaging/interfaces/statistics_endpoint.py : StatisticsEndpoint.on_packet                  *)
(* Abstract layer : the registry (who asked for which prefix), "Deliver is total", prefix isolation.  *)
(* Implementation layer : the ordered listener list, the prefix map with its pruning rule, the cell   *)
(* header arithmetic, the circuit tables.  A datagram is [len, head, enc, inner]: head = its first    *)
(* bytes (all of them when short), enc/inner = what the *sender* put under the onion layers (known to *)
(* the harness that built the cell, never taken from the code under test).                            *)
(* Pinned = TRUE switches on the deviations of the pinned tree (reads of the byte after the prefix    *)
(* and of the cell header / first message byte without a length check): outcome "raised".             *)
EXTENDS Naturals, Sequences, FiniteSets, TLC, SequencesExt

CONSTANTS PL,             \* prefix length (22)
          CidLen,         \* bytes of a circuit id (4)
          CellId,         \* message id of a cell (0)
          NoCrypto,       \* message ids that may travel in a plaintext cell (create = 2, created = 3)
          ExtendId,       \* message id that needs the relay_early flag (extend = 4)
          MaxRelayEarly,  \* TunnelSettings.max_relay_early (8)
          Pinned,         \* TRUE: behaviour of the pinned tree (negative control)
          Pkts, Lids, Pfxs, Tuns, MaxOps, MaxRecv   \* exploration universe (model checking only)

VARIABLES desc,     \* listener id -> static description (kind, prefix, handlers, priv, comm, anon, tracked)
          tab,      \* [glob, pmap, reg, gl] : Endpoint._listeners, Endpoint._prefix_map + abstract registry
          open,     \* Endpoint.is_open()
          tun,      \* [circuits, exits, relays] of the crypto endpoint; relays : cid -> [dir, count]
          last,     \* what the last delivery did: [pkt, via, ft, log] or NoLast
          nops, nrecv
vars == <<desc, tab, open, tun, last, nops, nrecv>>

NoLast == [via |-> "none"]
Min2(a, b) == IF a < b THEN a ELSE b
HdrLen == PL + 1 + CidLen + 2

(* ------------------------------- the datagram ------------------------------------------------- *)
Pfx(p)   == SubSeq(p.head, 1, Min2(PL, p.len))
HasId(p) == p.len > PL
MsgId(p) == p.head[PL + 1]
Cid(p)   == SubSeq(p.head, PL + 2, PL + 1 + CidLen)
Plain(p) == p.head[PL + CidLen + 2] # 0          \* struct "?" : any non-zero byte is True
Early(p) == p.head[PL + CidLen + 3] # 0

(* ------------------------------- outcomes of one listener.on_packet --------------------------- *)
Quiet       == [h |-> <<>>, rel |-> 0, raised |-> FALSE]   \* dropped / unknown message id / counted nothing
Fail        == [h |-> <<>>, rel |-> 0, raised |-> Pinned]  \* too short to look at: dropped (pinned: raises)
Entered(hs) == [h |-> hs,   rel |-> 0, raised |-> FALSE]   \* handlers entered, in order
Relayed     == [h |-> <<>>, rel |-> 1, raised |-> FALSE]   \* cell forwarded to the next hop

(* TunnelCommunity.on_cell -> on_packet_from_circuit on a cell as it is (no decryption): the handler of message  *)
(* id CellId; it runs inside on_packet's try, so a cell it cannot parse ends there.  An empty message makes       *)
(* unwrap() put the circuit id where the message id is expected.                                                 *)
OnCellOut(o, p) ==
  LET h0 == <<"h", CellId>> IN
  IF p.len < HdrLen THEN Entered(<<h0>>)
  ELSE LET empty == p.len = HdrLen
           first == p.head[HdrLen + 1]
           mid   == IF empty THEN Cid(p)[1] ELSE first
       IN IF Plain(p) /\ empty THEN Entered(<<h0>>)
          ELSE IF Plain(p) /\ first \notin NoCrypto THEN Entered(<<h0>>)
          ELSE Entered(<<h0>> \o (IF mid \in desc[o].priv THEN << <<"c", mid>> >> ELSE <<>>))

(* Community.on_packet *)
CommOut(o, p) ==
  IF Pfx(p) # desc[o].prefix THEN Quiet
  ELSE IF ~HasId(p) THEN Fail
  ELSE IF MsgId(p) \in desc[o].handlers
       THEN IF MsgId(p) = CellId /\ desc[o].priv # {} THEN OnCellOut(o, p) ELSE Entered(<< <<"h", MsgId(p)>> >>)
  ELSE Quiet

(* PythonCryptoEndpoint.process_cell -> (relay_cell | incoming_crypto -> TunnelCommunity.on_packet -> *)
(* on_cell -> on_packet_from_circuit -> decode_map_private)                                           *)
CellOut(c, p) ==
  LET o == desc[c].comm IN
  IF p.len < HdrLen THEN Fail
  ELSE LET cid == Cid(p) IN
    IF cid \in DOMAIN tun.relays THEN
         IF Plain(p) THEN Quiet
         ELSE IF Early(p) /\ tun.relays[cid].count >= MaxRelayEarly THEN Quiet
         ELSE IF tun.relays[cid].dir = "fwd" /\ p.enc # "valid" THEN Quiet
         ELSE Relayed
    ELSE LET known == cid \in (tun.circuits \cup tun.exits)
             dec   == known /\ ~Plain(p)
         IN IF ~known /\ ~Plain(p) THEN Quiet
            ELSE IF dec /\ p.enc # "valid" THEN Quiet
            ELSE LET empty == IF dec THEN Len(p.inner) = 0 ELSE p.len = HdrLen
                     first == IF dec THEN p.inner[1] ELSE p.head[HdrLen + 1]
                 IN IF empty THEN Fail
                    ELSE IF (~Early(p) /\ first = ExtendId) \/ MaxRelayEarly <= 0 THEN Quiet
                    ELSE IF Plain(p) /\ first \notin NoCrypto THEN Quiet
                    ELSE Entered(<< <<"h", CellId>> >> \o
                                 (IF first \in desc[o].priv THEN << <<"c", first>> >> ELSE <<>>))

(* PythonCryptoEndpoint.on_packet *)
CryptoOut(c, p) ==
  LET o == desc[c].comm IN
  IF Pfx(p) = desc[o].prefix /\ ~HasId(p) THEN Fail
  ELSE IF Pfx(p) = desc[o].prefix /\ MsgId(p) = CellId THEN CellOut(c, p)
  ELSE CommOut(o, p)

(* StatisticsEndpoint.on_packet *)
StatsOut(s, p) ==
  IF p.len >= PL /\ Pfx(p) \in desc[s].tracked
  THEN IF ~HasId(p) THEN Fail ELSE Entered(<< <<"s", MsgId(p)>> >>)
  ELSE Quiet

Out(l, p) == CASE desc[l].kind = "community" -> CommOut(l, p)
               [] desc[l].kind = "crypto"    -> CryptoOut(l, p)
               [] desc[l].kind = "stats"     -> StatsOut(l, p)
               [] OTHER                      -> Quiet
Owner(l) == IF desc[l].kind = "crypto" THEN desc[l].comm ELSE l

(* ------------------------------- the listener table (implementation layer) -------------------- *)
InSeq(x, s) == \E i \in DOMAIN s : s[i] = x
Without(s, x) == SelectSeq(s, LAMBDA y : y # x)
EmptyTab == [glob |-> <<>>, pmap |-> <<>>, reg |-> {}, gl |-> {}]

AddL(T, l) == [glob |-> Append(T.glob, l),
               pmap |-> [pf \in DOMAIN T.pmap |-> Append(T.pmap[pf], l)],
               reg  |-> T.reg, gl |-> T.gl \cup {l}]
AddP(T, l, pf) == [glob |-> T.glob,
                   pmap |-> [q \in DOMAIN T.pmap \cup {pf} |->
                               IF q = pf THEN (IF pf \in DOMAIN T.pmap THEN T.pmap[pf] ELSE <<>>) \o <<l>> \o T.glob
                               ELSE T.pmap[q]],
                   reg  |-> T.reg \cup {<<l, pf>>}, gl |-> T.gl]
RemL(T, l) == LET g    == Without(T.glob, l)
                  keep == {pf \in DOMAIN T.pmap : Range(Without(T.pmap[pf], l)) # Range(g)}
              IN [glob |-> g,
                  pmap |-> [pf \in keep |-> Without(T.pmap[pf], l)],
                  reg  |-> {r \in T.reg : r[1] # l}, gl |-> T.gl \ {l}]

(* ------------------------------- delivery ----------------------------------------------------- *)
Eligible(l, p) == open /\ (Pfx(p) \in DOMAIN tab.pmap \/ InSeq(l, tab.glob))     \* _deliver_later
UdpTargets(p)  == IF Pfx(p) \in DOMAIN tab.pmap THEN tab.pmap[Pfx(p)] ELSE tab.glob
TunTargets(ft) == SelectSeq(tab.glob, LAMBDA l : desc[l].anon = ft)

RECURSIVE Run(_, _)
Run(ls, p) == IF ls = <<>> THEN <<>>
              ELSE LET l == Head(ls) IN
                   IF ~Eligible(l, p) THEN Run(Tail(ls), p)
                   ELSE LET o == Out(l, p) IN
                        LET r == [l |-> l, h |-> o.h, rel |-> o.rel, raised |-> o.raised] IN
                        IF o.raised THEN <<r>> ELSE <<r>> \o Run(Tail(ls), p)  \* an exception ends the loop

(* abstract registry: whoever asked for this prefix, and every global listener, is to be called *)
ShouldServe(p) == {r[1] : r \in {x \in tab.reg : x[2] = Pfx(p)}} \cup tab.gl
Deliver(p, via, ft) == Run(IF via = "udp" THEN UdpTargets(p) ELSE TunTargets(ft), p)
RelayedIn(log) == \E i \in DOMAIN log : log[i].rel = 1

(* ------------------------------- actions ------------------------------------------------------ *)
AddListener(l) ==
  /\ nops < MaxOps /\ nrecv = 0 /\ nops' = nops + 1
  /\ tab' = AddL(tab, l)
  /\ UNCHANGED <<desc, open, tun, last, nrecv>>
AddPrefixListener(l, pf) ==
  /\ nops < MaxOps /\ nrecv = 0 /\ nops' = nops + 1
  /\ Len(pf) = PL
  /\ tab' = AddP(tab, l, pf)
  /\ UNCHANGED <<desc, open, tun, last, nrecv>>
RemoveListener(l) ==
  /\ nops < MaxOps /\ nrecv = 0 /\ nops' = nops + 1
  /\ tab' = RemL(tab, l)
  /\ UNCHANGED <<desc, open, tun, last, nrecv>>
SetOpen(b) ==
  /\ nops < MaxOps /\ nrecv = 0 /\ nops' = nops + 1
  /\ open' = b
  /\ UNCHANGED <<desc, tab, tun, last, nrecv>>
(* the circuit tables change through the tunnel protocol (C04/C05/C09), here an environment step *)
SetTables(t) ==
  /\ tun' = t /\ tun # t
  /\ UNCHANGED <<desc, tab, open, last, nops, nrecv>>
Receive(p, via, ft) ==
  /\ nrecv < MaxRecv /\ nrecv' = nrecv + 1
  /\ LET log == Deliver(p, via, ft) IN
       /\ last' = [via |-> via, ft |-> ft, pkt |-> p, log |-> log, should |-> ShouldServe(p), open |-> open]
       /\ tun' = IF RelayedIn(log) THEN [tun EXCEPT !.relays[Cid(p)].count = @ + 1] ELSE tun
  /\ UNCHANGED <<desc, tab, open, nops>>

(* the quantifiers sit behind the bounds so that TLC does not enumerate Pkts in states where nothing is enabled *)
DoAdd       == nops < MaxOps /\ \E l \in Lids : AddListener(l)
DoAddPrefix == nops < MaxOps /\ \E l \in Lids, pf \in Pfxs : AddPrefixListener(l, pf)
DoRemove    == nops < MaxOps /\ \E l \in Lids : RemoveListener(l)
DoSetOpen   == nops < MaxOps /\ \E b \in BOOLEAN : SetOpen(b)
DoSetTables == nrecv < MaxRecv /\ \E t \in Tuns : SetTables(t)
DoReceive   == nrecv < MaxRecv /\ \E p \in Pkts, v \in {<<"udp", FALSE>>, <<"tunnel", FALSE>>, <<"tunnel", TRUE>>} :
                                    Receive(p, v[1], v[2])
Next == DoAdd \/ DoAddPrefix \/ DoRemove \/ DoSetOpen \/ DoSetTables \/ DoReceive

(* ------------------------------- properties --------------------------------------------------- *)
Served == {last.log[i].l : i \in DOMAIN last.log}
Total == last.via # "none" => \A i \in DOMAIN last.log : ~last.log[i].raised
PrefixIsolation ==
  last.via # "none" =>
    \A i \in DOMAIN last.log : \A j \in DOMAIN last.log[i].h :
       last.log[i].h[j][1] \in {"h", "c"} => Pfx(last.pkt) = desc[Owner(last.log[i].l)].prefix
OnlyRegisteredIds ==
  last.via # "none" =>
    \A i \in DOMAIN last.log : \A j \in DOMAIN last.log[i].h :
       LET e == last.log[i].h[j] o == Owner(last.log[i].l) IN
         /\ e[1] = "h" => e[2] \in desc[o].handlers
         /\ e[1] = "c" => e[2] \in desc[o].priv
AllListenersServed ==
  (last.via = "udp" /\ last.open) => last.should \subseteq Served
NothingWhenClosed == (last.via # "none" /\ ~last.open) => last.log = <<>>
TableOK == /\ Range(tab.glob) = tab.gl
           /\ \A pf \in DOMAIN tab.pmap : Len(pf) = PL
           /\ \A r \in tab.reg : r[2] \in DOMAIN tab.pmap \/ {x[1] : x \in {y \in tab.reg : y[2] = r[2]}} \subseteq tab.gl
=============================================================================
