------------------------------ MODULE Receive ------------------------------
(* C03 - the receive path of py-ipv8 from the transport to the message handlers.                      *)
(*   ipv8/messaging/interfaces/endpoint.py : Endpoint.add_listener / add_prefix_listener /            *)
(*       remove_listener / notify_listeners / _deliver_later                                          *)
(*   ipv8/messaging/anonymization/endpoint.py : TunnelEndpoint.notify_listeners                       *)
(*   ipv8/community.py : Community.on_packet                                                          *)
(*   ipv8/messaging/anonymization/crypto.py : PythonCryptoEndpoint.on_packet / process_cell /         *)
(*       relay_cell / incoming_crypto ; payload.py : CellPayload.from_bin                             *)
(*   ipv8/messaging/anonymization/community.py : on_cell / on_packet_from_circuit                     *)
(*   ipv8/messaging/interfaces/statistics_endpoint.py : StatisticsEndpoint.on_packet                  *)
(* Abstract layer : the registry (who asked for which prefix), "Deliver is total", prefix isolation.  *)
(* Implementation layer : the ordered listener list, the prefix map with its pruning rule, the cell   *)
(* header arithmetic, the circuit tables.  A datagram is [len, head, enc, inner]: head = its first    *)
(* bytes (all of them when short), enc/inner = what the *sender* put under the onion layers (known to *)
(* the harness that built the cell, never taken from the code under test).                            *)
(* Pinned = TRUE switches on the deviations of the pinned tree (reads of the byte after the prefix    *)
(* and of the cell header / first message byte without a length check): outcome "raised".             *)
(* History: the circuit tables are not a parameter but state with their own actions (RemoveTun =       *)
(* remove_circuit / remove_relay / remove_exit_socket, Tick = max_time_inactive passes, Sweep =        *)
(* do_remove); relay routes are installed in pairs and removed ONE BY ONE, so every subset of the      *)
(* tables is reachable and every cell must be handled in every one of them.  A second receive path:    *)
(* ExitReceive = a datagram from the outside world arrives at the UDP socket of an enabled exit socket *)
(* (exit_socket.py: TunnelProtocol.datagram_received -> TunnelExitSocket.datagram_received ->          *)
(* is_allowed -> DataChecker.* -> tunnel_data).  Dev = set of switched-on deviations (negative          *)
(* controls): "pair" process_cell indexes the opposite route, "rdv" relay_cell indexes the opposite    *)
(* route of a rendezvous link (the pinned tree did), "exit" DataChecker reads the second tracker        *)
(* action field without its own length check.                                                          *)
(* Registrations: the table operations are history too - any sequence of add_listener /                *)
(* add_prefix_listener / remove_listener (several overlays on ONE prefix, general listeners before and  *)
(* after them, unload of one of them) may precede a datagram.  tab.reg / tab.gl is the abstract          *)
(* registry (who asked), tab.glob / tab.pmap the table the code keeps; RegistryServed says that the      *)
(* table serves the registry for EVERY prefix in every reachable state (no datagram needed to see it).   *)
(* Deviations of the table operations (negative controls): "evict" add_prefix_listener rebuilds the      *)
(* entry of a prefix that is registered already (the second overlay evicts the first), "prune"           *)
(* remove_listener drops every entry the listener was part of (unloading one overlay of a shared         *)
(* prefix, or a general listener, takes the others with it).                                            *)
EXTENDS Naturals, Sequences, FiniteSets, TLC, SequencesExt

CONSTANTS PL,             \* prefix length (22)
          CidLen,         \* bytes of a circuit id (4)
          CellId,         \* message id of a cell (0)
          NoCrypto,       \* message ids that may travel in a plaintext cell (create = 2, created = 3)
          ExtendId,       \* message id that needs the relay_early flag (extend = 4)
          MaxRelayEarly,  \* TunnelSettings.max_relay_early (8)
          Pinned,         \* TRUE: behaviour of the pinned tree (negative control)
          Dev,            \* subset of {"pair", "rdv", "exit"}: deviations switched on (negative controls); a node has
                          \* them as desc[o].dev (model checking: one run tries several subsets);
                          \* "evict", "prune": deviations of the table operations (read from Dev itself)
          Ipv8Versions,   \* second byte of a datagram that "could be IPv8" ({1, 2})
          Pkts, Lids, Pfxs, Tuns, MaxOps, MaxRecv,  \* exploration universe (model checking only)
          Vias, XPkts, TunOps                          \* ... datagrams for exit sockets; enabled table actions

VARIABLES desc,     \* listener id -> static description (kind, prefix, handlers, priv, comm, anon, tracked,
                    \* xbt, xipv8 = the exit policy of a tunnel overlay, dev = the deviations its code has)
          tab,      \* [glob, pmap, reg, gl] : Endpoint._listeners, Endpoint._prefix_map + abstract registry
          open,     \* Endpoint.is_open()
          tun,      \* [circuits, exits, relays, stale, xon] of the crypto endpoint;
                    \* relays : cid -> [dir, count, to, rdv]; stale : entries <<table, cid>> without activity for
                    \* more than max_time_inactive; xon : exit sockets with open UDP sockets (enabled)
          last,     \* what the last delivery did: [pkt, via, ft, log] or NoLast
          nops, nrecv
vars == <<desc, tab, open, tun, last, nops, nrecv>>

NoLast == [via |-> "none"]
Min2(a, b) == IF a < b THEN a ELSE b
HdrLen == PL + 1 + CidLen + 2

(* ------------------------------- the datagram ------------------------------------------------- *)
Pfx(p)   == SubSeq(p.head, 1, Min2(PL, p.len))
HasId(p) == p.len > PL
MsgId(p) == p.head[PL + 1]
Cid(p)   == SubSeq(p.head, PL + 2, PL + 1 + CidLen)
Plain(p) == p.head[PL + CidLen + 2] # 0          \* struct "?" : any non-zero byte is True
Early(p) == p.head[PL + CidLen + 3] # 0

(* ------------------------------- outcomes of one listener.on_packet --------------------------- *)
Quiet       == [h |-> <<>>, rel |-> 0, raised |-> FALSE]   \* dropped / unknown message id / counted nothing
Fail        == [h |-> <<>>, rel |-> 0, raised |-> Pinned]  \* too short to look at: dropped (pinned: raises)
Entered(hs) == [h |-> hs,   rel |-> 0, raised |-> FALSE]   \* handlers entered, in order
Relayed     == [h |-> <<>>, rel |-> 1, raised |-> FALSE]   \* cell forwarded to the next hop
Raise(dev)  == [h |-> << <<"x", dev>> >>, rel |-> 0, raised |-> TRUE]    \* only with deviation dev of Dev switched on

(* TunnelCommunity.on_cell -> on_packet_from_circuit on a cell as it is (no decryption): the handler of message  *)
(* id CellId; it runs inside on_packet's try, so a cell it cannot parse ends there.  An empty message makes       *)
(* unwrap() put the circuit id where the message id is expected.                                                 *)
OnCellOut(o, p) ==
  LET h0 == <<"h", CellId>> IN
  IF p.len < HdrLen THEN Entered(<<h0>>)
  ELSE LET empty == p.len = HdrLen
           first == p.head[HdrLen + 1]
           mid   == IF empty THEN Cid(p)[1] ELSE first
       IN IF Plain(p) /\ empty THEN Entered(<<h0>>)
          ELSE IF Plain(p) /\ first \notin NoCrypto THEN Entered(<<h0>>)
          ELSE Entered(<<h0>> \o (IF mid \in desc[o].priv THEN << <<"c", mid>> >> ELSE <<>>))

(* Community.on_packet *)
CommOut(o, p) ==
  IF Pfx(p) # desc[o].prefix THEN Quiet
  ELSE IF ~HasId(p) THEN Fail
  ELSE IF MsgId(p) \in desc[o].handlers
       THEN IF MsgId(p) = CellId /\ desc[o].priv # {} THEN OnCellOut(o, p) ELSE Entered(<< <<"h", MsgId(p)>> >>)
  ELSE Quiet

(* PythonCryptoEndpoint.process_cell -> (relay_cell | incoming_crypto -> TunnelCommunity.on_packet -> *)
(* on_cell -> on_packet_from_circuit -> decode_map_private)                                           *)
CellOut(c, p) ==
  LET o == desc[c].comm IN
  IF p.len < HdrLen THEN Fail
  ELSE LET cid == Cid(p) IN
    IF cid \in DOMAIN tun.relays THEN
         \* the opposite route (tun.relays[r.to]) only gets its heart beat / byte count when it still exists;
         \* the cell is relayed with the keys of THIS route, except on a rendezvous link (re-encrypted with the
         \* keys of the opposite route: nothing to relay to once that route is gone)
         LET r == tun.relays[cid]
             half == r.to \notin DOMAIN tun.relays
         IN IF half /\ "pair" \in desc[o].dev THEN Raise("pair")
            ELSE IF Plain(p) THEN Quiet
            ELSE IF Early(p) /\ r.count >= MaxRelayEarly THEN Quiet
            ELSE IF r.rdv /\ half THEN (IF "rdv" \in desc[o].dev /\ p.enc = "valid" THEN Raise("rdv") ELSE Quiet)
            ELSE IF r.dir = "fwd" /\ p.enc # "valid" THEN Quiet
            ELSE Relayed
    ELSE LET known == cid \in (tun.circuits \cup tun.exits)
             dec   == known /\ ~Plain(p)
         IN IF ~known /\ ~Plain(p) THEN Quiet
            ELSE IF dec /\ p.enc # "valid" THEN Quiet
            ELSE LET empty == IF dec THEN Len(p.inner) = 0 ELSE p.len = HdrLen
                     first == IF dec THEN p.inner[1] ELSE p.head[HdrLen + 1]
                 IN IF empty THEN Fail
                    ELSE IF (~Early(p) /\ first = ExtendId) \/ MaxRelayEarly <= 0 THEN Quiet
                    ELSE IF Plain(p) /\ first \notin NoCrypto THEN Quiet
                    ELSE Entered(<< <<"h", CellId>> >> \o
                                 (IF first \in desc[o].priv THEN << <<"c", first>> >> ELSE <<>>))

(* PythonCryptoEndpoint.on_packet *)
CryptoOut(c, p) ==
  LET o == desc[c].comm IN
  IF Pfx(p) = desc[o].prefix /\ ~HasId(p) THEN Fail
  ELSE IF Pfx(p) = desc[o].prefix /\ MsgId(p) = CellId THEN CellOut(c, p)
  ELSE CommOut(o, p)

(* StatisticsEndpoint.on_packet *)
StatsOut(s, p) ==
  IF p.len >= PL /\ Pfx(p) \in desc[s].tracked
  THEN IF ~HasId(p) THEN Fail ELSE Entered(<< <<"s", MsgId(p)>> >>)
  ELSE Quiet

(* ------------------------------- the exit socket's own receive path --------------------------- *)
(* A datagram from the outside: [len, head, lastb].  DataChecker: every look at the bytes is guarded   *)
(* by a length check of its own (uTP header 20 bytes; tracker action field at 0 needs 8, at 8 needs 12; *)
(* bencoded dictionary d...e; IPv8: prefix + message id).                                              *)
Word03(p, off) == p.head[off + 1] = 0 /\ p.head[off + 2] = 0 /\ p.head[off + 3] = 0 /\ p.head[off + 4] <= 3
CouldBeUtp(p)     == p.len >= 20 /\ (p.head[1] \div 16) <= 4 /\ (p.head[1] % 16) = 1 /\ p.head[2] <= 3
CouldBeTracker(p) == (p.len >= 8 /\ Word03(p, 0)) \/ (p.len >= 12 /\ Word03(p, 8))
TrackerOverRead(p) == p.len >= 8 /\ ~Word03(p, 0) /\ p.len < 12
CouldBeDht(p)     == p.len > 1 /\ p.head[1] = 100 /\ p.lastb = 101
CouldBeBt(p)      == CouldBeUtp(p) \/ CouldBeTracker(p) \/ CouldBeDht(p)
CouldBeIpv8(p)    == p.len >= PL + 1 /\ p.head[1] = 0 /\ p.head[2] \in Ipv8Versions
ExitAllowed(o, p) == \/ CouldBeBt(p) /\ desc[o].xbt
                     \/ CouldBeIpv8(p) /\ desc[o].xipv8
                     \/ CouldBeIpv8(p) /\ Pfx(p) = desc[o].prefix
(* fam: "v4" | "v6" | "v6mapped" (an IPv4-mapped source on the IPv6 socket is ignored: the IPv4 socket has it) *)
ExitOut(o, p, fam) ==
  IF fam = "v6mapped" THEN Quiet
  ELSE IF "exit" \in desc[o].dev /\ TrackerOverRead(p) THEN Raise("exit")
  ELSE IF ExitAllowed(o, p) THEN Relayed        \* tunnel_data: one data cell back into the circuit
  ELSE Quiet

Out(l, p) == CASE desc[l].kind = "community" -> CommOut(l, p)
               [] desc[l].kind = "crypto"    -> CryptoOut(l, p)
               [] desc[l].kind = "stats"     -> StatsOut(l, p)
               [] OTHER                      -> Quiet
Owner(l) == IF desc[l].kind = "crypto" THEN desc[l].comm ELSE l

(* ------------------------------- the listener table (implementation layer) -------------------- *)
InSeq(x, s) == \E i \in DOMAIN s : s[i] = x
Without(s, x) == SelectSeq(s, LAMBDA y : y # x)
EmptyTab == [glob |-> <<>>, pmap |-> <<>>, reg |-> {}, gl |-> {}]

AddL(T, l) == [glob |-> Append(T.glob, l),
               pmap |-> [pf \in DOMAIN T.pmap |-> Append(T.pmap[pf], l)],
               reg  |-> T.reg, gl |-> T.gl \cup {l}]
AddP(T, l, pf) == [glob |-> T.glob,
                   pmap |-> [q \in DOMAIN T.pmap \cup {pf} |->
                               IF q = pf THEN (IF pf \in DOMAIN T.pmap /\ "evict" \notin Dev
                                               THEN T.pmap[pf] \o <<l>>                         \* general listeners
                                               ELSE <<l>> \o T.glob)                             \* are in there already
                               ELSE T.pmap[q]],
                   reg  |-> T.reg \cup {<<l, pf>>}, gl |-> T.gl]
RemL(T, l) == LET g    == Without(T.glob, l)
                  keep == {pf \in DOMAIN T.pmap : IF "prune" \in Dev THEN ~InSeq(l, T.pmap[pf])
                                                   ELSE Range(Without(T.pmap[pf], l)) # Range(g)}
              IN [glob |-> g,
                  pmap |-> [pf \in keep |-> Without(T.pmap[pf], l)],
                  reg  |-> {r \in T.reg : r[1] # l}, gl |-> T.gl \ {l}]

(* the table serves the registry: whoever asked for a prefix is among the listeners a datagram with that prefix *)
(* is handed to, and every general listener is in the general list and in every entry                            *)
TargetsOf(T, pf) == IF pf \in DOMAIN T.pmap THEN T.pmap[pf] ELSE T.glob
Serves(T, reg, gl) == /\ \A r \in reg : InSeq(r[1], TargetsOf(T, r[2]))
                      /\ \A g \in gl : InSeq(g, T.glob) /\ \A pf \in DOMAIN T.pmap : InSeq(g, T.pmap[pf])

(* ------------------------------- delivery ----------------------------------------------------- *)
Eligible(l, p) == open /\ (Pfx(p) \in DOMAIN tab.pmap \/ InSeq(l, tab.glob))     \* _deliver_later
UdpTargets(p)  == IF Pfx(p) \in DOMAIN tab.pmap THEN tab.pmap[Pfx(p)] ELSE tab.glob
TunTargets(ft) == SelectSeq(tab.glob, LAMBDA l : desc[l].anon = ft)

RECURSIVE Run(_, _)
Run(ls, p) == IF ls = <<>> THEN <<>>
              ELSE LET l == Head(ls) IN
                   IF ~Eligible(l, p) THEN Run(Tail(ls), p)
                   ELSE LET o == Out(l, p) IN
                        LET r == [l |-> l, h |-> o.h, rel |-> o.rel, raised |-> o.raised] IN
                        IF o.raised THEN <<r>> ELSE <<r>> \o Run(Tail(ls), p)  \* an exception ends the loop

(* abstract registry: whoever asked for this prefix, and every global listener, is to be called *)
ShouldServe(p) == {r[1] : r \in {x \in tab.reg : x[2] = Pfx(p)}} \cup tab.gl
Deliver(p, via, ft) == Run(IF via = "udp" THEN UdpTargets(p) ELSE TunTargets(ft), p)
RelayedIn(log) == \E i \in DOMAIN log : log[i].rel = 1

(* ------------------------------- the circuit tables as state ---------------------------------- *)
Entries(t) == {<<"c", c>> : c \in t.circuits} \cup {<<"x", c>> : c \in t.exits} \cup {<<"r", c>> : c \in DOMAIN t.relays}
Of(S, k) == {e[2] : e \in {s \in S : s[1] = k}}
DropEntries(t, S) == [circuits |-> t.circuits \ Of(S, "c"), exits |-> t.exits \ Of(S, "x"),
                      relays |-> [c \in DOMAIN t.relays \ Of(S, "r") |-> t.relays[c]],
                      stale |-> t.stale \ S, xon |-> t.xon \ Of(S, "x")]
TickOf(t)  == [t EXCEPT !.stale = Entries(t)]          \* more than max_time_inactive passes, nothing arrives
SweepOf(t) == DropEntries(t, t.stale)                  \* do_remove + remove_tunnel_delay
(* the datagram is a cell for a relay route whose opposite route is gone *)
HalfAt(t, p) == /\ p.len >= HdrLen /\ Cid(p) \in DOMAIN t.relays /\ t.relays[Cid(p)].to \notin DOMAIN t.relays
(* process_cell ran on this datagram (the crypto endpoint was served, own prefix, cell id, whole header) *)
CellProcessed(log, p) == \E i \in DOMAIN log :
                            /\ desc[log[i].l].kind = "crypto" /\ ~log[i].raised
                            /\ Pfx(p) = desc[desc[log[i].l].comm].prefix /\ HasId(p) /\ MsgId(p) = CellId /\ p.len >= HdrLen
HandlerIn(log) == \E i \in DOMAIN log : desc[log[i].l].kind = "crypto" /\ log[i].h # <<>>
(* heart beats and the relay_early budget: a cell for a relay keeps the OPPOSITE route alive (if there is one)  *)
(* whatever relay_cell then does with it; a cell that reached the community keeps its circuit alive              *)
TunAfter(log, p) ==
  IF ~CellProcessed(log, p) THEN tun
  ELSE LET cid == Cid(p) IN
       IF cid \in DOMAIN tun.relays
       THEN LET t1 == IF RelayedIn(log) THEN [tun EXCEPT !.relays[cid].count = @ + 1] ELSE tun
            IN [t1 EXCEPT !.stale = @ \ {<<"r", tun.relays[cid].to>>}]
       ELSE IF cid \in tun.circuits /\ cid \notin tun.exits /\ HandlerIn(log)
            THEN [tun EXCEPT !.stale = @ \ {<<"c", cid>>}]
       ELSE tun

(* ------------------------------- actions ------------------------------------------------------ *)
(* (table operations and deliveries interleave freely - the recorded traces do; the model-checking wrappers below *)
(* put the table operations first: a delivery does not change the table)                                          *)
AddListener(l) ==
  /\ nops < MaxOps /\ nops' = nops + 1
  /\ tab' = AddL(tab, l)
  /\ UNCHANGED <<desc, open, tun, last, nrecv>>
AddPrefixListener(l, pf) ==
  /\ nops < MaxOps /\ nops' = nops + 1
  /\ Len(pf) = PL
  /\ tab' = AddP(tab, l, pf)
  /\ UNCHANGED <<desc, open, tun, last, nrecv>>
RemoveListener(l) ==
  /\ nops < MaxOps /\ nops' = nops + 1
  /\ tab' = RemL(tab, l)
  /\ UNCHANGED <<desc, open, tun, last, nrecv>>
SetOpen(b) ==
  /\ nops < MaxOps /\ nops' = nops + 1
  /\ open' = b
  /\ UNCHANGED <<desc, tab, tun, last, nrecv>>
(* the circuit tables change through the tunnel protocol (C04/C05/C09), here an environment step *)
SetTables(t) ==
  /\ tun' = t /\ tun # t
  /\ UNCHANGED <<desc, tab, open, last, nops, nrecv>>
Receive(p, via, ft) ==
  /\ nrecv < MaxRecv /\ nrecv' = nrecv + 1
  /\ LET log == Deliver(p, via, ft) IN
       /\ last' = [via |-> via, ft |-> ft, pkt |-> p, log |-> log, should |-> ShouldServe(p), open |-> open,
                    half |-> HalfAt(tun, p)]
       /\ tun' = TunAfter(log, p)
  /\ UNCHANGED <<desc, tab, open, nops>>
(* remove_circuit / remove_relay / remove_exit_socket: ONE entry goes (a relay pair is not removed together) *)
RemoveTun(e) ==
  /\ e \in Entries(tun)
  /\ tun' = DropEntries(tun, {e}) /\ last' = NoLast       \* (no delivery yet since the tables changed)
  /\ UNCHANGED <<desc, tab, open, nops, nrecv>>
Tick ==
  /\ tun' = TickOf(tun) /\ tun' # tun /\ last' = NoLast
  /\ UNCHANGED <<desc, tab, open, nops, nrecv>>
Sweep ==
  /\ tun' = SweepOf(tun) /\ tun' # tun /\ last' = NoLast
  /\ UNCHANGED <<desc, tab, open, nops, nrecv>>
(* a datagram from the outside world at the socket of exit x of tunnel overlay o *)
ExitReceive(o, x, p, fam) ==
  /\ nrecv < MaxRecv /\ nrecv' = nrecv + 1
  /\ desc[o].kind = "community" /\ desc[o].priv # {}
  /\ x \in tun.xon
  /\ LET r == ExitOut(o, p, fam) IN
       last' = [via |-> "exit", ft |-> FALSE, pkt |-> p, should |-> {}, open |-> TRUE, half |-> FALSE,
                log |-> << [l |-> o, h |-> r.h, rel |-> r.rel, raised |-> r.raised] >>]
  /\ UNCHANGED <<desc, tab, open, tun, nops>>

(* the quantifiers sit behind the bounds so that TLC does not enumerate Pkts in states where nothing is enabled *)
DoAdd       == nops < MaxOps /\ nrecv = 0 /\ \E l \in Lids : AddListener(l)
DoAddPrefix == nops < MaxOps /\ nrecv = 0 /\ \E l \in Lids, pf \in Pfxs : AddPrefixListener(l, pf)
DoRemove    == nops < MaxOps /\ nrecv = 0 /\ \E l \in Lids : RemoveListener(l)
DoSetOpen   == nops < MaxOps /\ nrecv = 0 /\ \E b \in BOOLEAN : SetOpen(b)
DoSetTables == nrecv < MaxRecv /\ \E t \in Tuns : SetTables(t)
DoReceive   == nrecv < MaxRecv /\ \E p \in Pkts, v \in Vias :
                                    Receive(p, v[1], v[2])
DoRemoveTun == "rm" \in TunOps /\ nrecv < MaxRecv /\ \E e \in Entries(tun) : RemoveTun(e)
DoTick      == "tick" \in TunOps /\ nrecv < MaxRecv /\ Tick
DoSweep     == "sweep" \in TunOps /\ nrecv < MaxRecv /\ Sweep
DoExitReceive == nrecv < MaxRecv /\ \E o \in DOMAIN desc, x \in tun.xon, p \in XPkts, fam \in {"v4", "v6", "v6mapped"} :
                                       ExitReceive(o, x, p, fam)
Next == DoAdd \/ DoAddPrefix \/ DoRemove \/ DoSetOpen \/ DoSetTables \/ DoReceive
        \/ DoRemoveTun \/ DoTick \/ DoSweep \/ DoExitReceive

(* ------------------------------- properties --------------------------------------------------- *)
Served == {last.log[i].l : i \in DOMAIN last.log}
Total == last.via # "none" => \A i \in DOMAIN last.log : ~last.log[i].raised
(* Total, per deviation (several negative controls in one TLC run) *)
TotalAt(dev) == last.via # "none" => \A i \in DOMAIN last.log : ~(last.log[i].raised /\ last.log[i].h = << <<"x", dev>> >>)
TotalPair == TotalAt("pair")
TotalRdv  == TotalAt("rdv")
TotalExit == TotalAt("exit")
PrefixIsolation ==
  last.via # "none" =>
    \A i \in DOMAIN last.log : \A j \in DOMAIN last.log[i].h :
       last.log[i].h[j][1] \in {"h", "c"} => Pfx(last.pkt) = desc[Owner(last.log[i].l)].prefix
OnlyRegisteredIds ==
  last.via # "none" =>
    \A i \in DOMAIN last.log : \A j \in DOMAIN last.log[i].h :
       LET e == last.log[i].h[j] o == Owner(last.log[i].l) IN
         /\ e[1] = "h" => e[2] \in desc[o].handlers
         /\ e[1] = "c" => e[2] \in desc[o].priv
AllListenersServed ==
  (last.via = "udp" /\ last.open) => last.should \subseteq Served
(* every registration is served by the table, for every prefix, before any datagram arrives *)
RegistryServed == Serves(tab, tab.reg, tab.gl)
(* a registration ends only with remove_listener of its listener, which takes the listener out of the whole table *)
Gone(T, l) == ~InSeq(l, T.glob) /\ \A pf \in DOMAIN T.pmap : ~InSeq(l, T.pmap[pf])
OnlyRemoveUnregisters == [][/\ \A r \in tab.reg \ tab'.reg : Gone(tab', r[1])
                            /\ \A g \in tab.gl \ tab'.gl : Gone(tab', g)]_vars
NothingWhenClosed == (last.via # "none" /\ ~last.open) => last.log = <<>>
TunOK == /\ tun.stale \subseteq Entries(tun)
         /\ tun.xon \subseteq tun.exits
TableOK == /\ Range(tab.glob) = tab.gl
           /\ \A pf \in DOMAIN tab.pmap : Len(pf) = PL
           /\ \A r \in tab.reg : r[2] \in DOMAIN tab.pmap \/ {x[1] : x \in {y \in tab.reg : y[2] = r[2]}} \subseteq tab.gl
=============================================================================
