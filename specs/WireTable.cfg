SPECIFICATION Spec
CONSTANTS
  Pinned = {}
  Pads = {0}
  FmtSel = {}
  ClsSel = {}
  K = 1
