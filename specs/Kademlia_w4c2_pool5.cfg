\* complete graph over five 4 bit identifiers on and off our own path (we are 0101); replayed on the real RoutingTable
SPECIFICATION Spec
CONSTANTS W = 4 Bits <- SeqBits Cap = 2 MyNum = 5 IdNums = {5, 4, 7, 1, 12}
          RTTs = {1, 2} Addrs = {1} AddBads = {FALSE, TRUE} KMax = 0 MaxDepth = 0
          WithGen = FALSE GenInBucket = TRUE OwnPathOnly = TRUE
INVARIANT TypeOK
INVARIANT PrefixFreeComplete
INVARIANT PartitionBrute
INVARIANT NodeInOwningBucket
INVARIANT Capacity
INVARIANT OwnPathShape
INVARIANT GeneratedIdInBucket
PROPERTY SplitOnlyOwnPath
