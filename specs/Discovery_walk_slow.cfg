\* RandomWalk with target_interval and target_peers/max_peers limits
SPECIFICATION Spec
CONSTANTS
  Peers = {"p1", "p2"}
  Ghosts = {}
  Trackers = {"t1"}
  Own = "own"
  UseWalk = TRUE
  UseEdge = FALSE
  UseChurn = FALSE
  Window = 1
  WalkTimeout = 1
  TargetInterval = 1
  TargetPeers = 2
  MaxPeers = 1
  EdgeLen = 3
  NbSize = 1
  EdgeTimeout = 1
  SampleSize = 2
  PingInterval = 1
  InactiveTime = 1
  DropTime = 3
  MaxPings = 2
  PingCacheTimeout = 1
  BootTimeout = 2
  MaxTime = 4
  TickLens = {1}
  IntroOwn = FALSE
  Dev = {}
CONSTRAINT Bounded
INVARIANT TypeOK
INVARIANT NetOK
INVARIANT WalkWindow
INVARIANT NoOwnAddress
INVARIANT EdgeShape
INVARIANT EdgeBound
PROPERTY DropOnlyAfterSilence
PROPERTY PingDiscipline
PROPERTY WalkTargets
PROPERTY ForgetOnlyUnreachable
PROPERTY WalkSpacing
PROPERTY EdgeGrowsVerified
PROPERTY PongCounted
