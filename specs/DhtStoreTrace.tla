--------------------------- MODULE DhtStoreTrace ---------------------------
(* Recorded histories of real DHT nodes (harness/drivers/c15.py, binding T) checked against DhtStore.tla:    *)
(* one trace per (observed node, storage key).  Every logged event must be the corresponding action of the  *)
(* specification taken at the logged clock value and must reproduce the logged projection of the node:      *)
(* the set of stored (value, expiry) pairs and the size of the secret window.                               *)
(* The clock is in ms (Scale = 1000); Validity = 600000: a token is authorised for 600 s after a find-      *)
(* response carried it, whatever the node's rotation timer did (RotatePeriod = 0: rotations are taken from  *)
(* the log) - a store honoured with an older token sets the "auth" monitor.                                 *)
EXTENDS DhtStore, Json, IOUtils, TLCExt

Traces == JsonDeserialize(IOEnv.TRACE_FILE)

VARIABLES tid, l
tvars == <<vars, tid, l>>

Ev == Traces[tid].events

TraceInit == /\ tid \in 1..Len(Traces) /\ l = 1
             /\ secrets = <<1>> /\ issued = {} /\ lastRot = 0 /\ storage = <<>> /\ clock = 0
             /\ closer = 0 /\ peers = {} /\ mon = {}

Tok(e) == [a |-> e.tok.a, k |-> e.tok.k, ep |-> e.tok.ep, kind |-> e.tok.kind]
Val(x) == [s |-> x.s, ver |-> x.ver, d |-> x.d, ok |-> x.ok, sz |-> x.sz]
Batch(e) == [i \in 1..Len(e.b) |-> Val(e.b[i])]
Stored(e) == {[v |-> Val(x.v), exp |-> x.exp] : x \in Range(e.st)}

Matches(e) == /\ Range(storage') = Stored(e)
              /\ Len(storage') = Len(e.st)
              /\ Len(secrets') = e.nsecrets

(* time passes between events *)
Advance == /\ l <= Len(Ev) /\ clock < Ev[l].t
           /\ clock' = Ev[l].t
           /\ UNCHANGED <<secrets, issued, lastRot, storage, closer, peers, mon, tid, l>>

(* store-peer requests: the peer table also shrinks by pinging (outside the property), so only the effect of *)
(* the request itself is logged: `before` = the requester's key was already stored, `added` = it is now      *)
PeerEvent(e) == /\ e.added = (CheckToken(e.a, e.k, Tok(e)) /\ e.t_is_own_mid /\ ~e.before)
                /\ mon' = mon \cup (IF e.added /\ ~Authorised(e.a, e.k, Tok(e)) THEN {"peer-auth"} ELSE {})
                /\ UNCHANGED <<secrets, issued, lastRot, storage, clock, closer, peers>>

Step == /\ l <= Len(Ev) /\ clock = Ev[l].t
        /\ LET e == Ev[l] IN
             /\ \/ e.ev = "find"   /\ FindRequest(e.a, e.k)
                \/ e.ev = "rotate" /\ RotateSecrets
                \/ e.ev = "store"  /\ closer' = e.closer
                                   /\ LET accept == WithinLimits(Batch(e)) /\ CheckToken(e.a, e.k, Tok(e)) IN
                                      /\ storage' = IF accept THEN AddAll(storage, Batch(e), Life(e.closer), clock) ELSE storage
                                      /\ mon' = mon \cup (IF accept /\ ~Authorised(e.a, e.k, Tok(e)) THEN {"auth"} ELSE {})
                                      /\ UNCHANGED <<secrets, issued, lastRot, clock, peers>>
                \/ e.ev = "local"  /\ LocalStore(Val(e.v))
                \/ e.ev = "clean"  /\ Clean
                \/ e.ev = "peer"   /\ PeerEvent(e)
             /\ Matches(e)
        /\ l' = l + 1 /\ UNCHANGED tid

TraceNext == Advance \/ Step
TraceSpec == TraceInit /\ [][TraceNext]_tvars

(* total verdict: a trace is rejected exactly when some logged event is not an enabled spec step *)
TraceAccepted == l <= Len(Ev) => ENABLED TraceNext
=============================================================================
