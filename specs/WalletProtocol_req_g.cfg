\* replayed graph, request flow: node 1 requests twice from node 2; duplicates and losses of datagrams
SPECIFICATION SpecL
CONSTANTS
 Nodes = {1, 2} Adv = {} Requesters = {1} Verifiers = {}
 Values <- Vals1 NChunks = 2 Window = 10 Pre <- NoPre
 MaxReq = 2 MaxVer = 0 MaxHon = 0 MaxDup = 1 MaxDrop = 0 MaxAdv = 0 MaxTimeouts = 1 MaxTicks = 0
 TickSteps = {}
 OnceOnly = TRUE CheckPeer = TRUE CheckHash = TRUE AskConsent = TRUE
INVARIANT StoredIntact
INVARIANT ChunkIsolation
INVARIANT CachesSane
