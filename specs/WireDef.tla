------------------------------- MODULE WireDef -------------------------------
(* C02 - message types built with the library's definition mechanisms.                                  *)
(*                                                                                                      *)
(* The property quantifies over "every Serializable / Payload class reachable from the ipv8 package     *)
(* (old-style, VariablePayload, vp_compile'd, dataclass)".  The shipped tables of Wire.tla only contain  *)
(* the classes the library ships today; the mechanism those classes (and every message of an overlay    *)
(* built on the library) are made with is itself state-free but generic code: a definition is a list of *)
(* formats (one "bits" format stands for eight names), a list of names, and per-name rules              *)
(* fix_pack_<name> / fix_unpack_<name> that translate between the value the field has in the message    *)
(* and the value that goes on the wire.  This module gives such a definition its documented meaning:    *)
(*     bytes  = concatenation over the formats of  Enc(format, rule_pack(field value(s)))               *)
(*     decode = rule_unpack(Dec(format)) for every name, same offsets as the reference codec            *)
(* and states the same Pack / Unpack / Repack behaviours and properties as Wire.tla for every           *)
(* definition of up to MaxFields fields - top level at an offset inside a datagram, nested and listed.   *)
(* The mechanism used to materialise the definition ("plain" interpreted VariablePayload, vp_compile or *)
(* a @dataclass on DataClassPayload) is part of the state so that every definition is bound to the real *)
(* code in every form.  A definition may also be written in two steps (Derive): the fields so far are a  *)
(* class of their own that is used first, the following fields are added by a class derived from it -   *)
(* the mechanisms keep per-class state (generated methods, names, format_list), and the meaning of the  *)
(* derived class is that of the whole field list whatever was compiled, instantiated or used before.     *)
EXTENDS Wire

CONSTANTS DefKinds,     \* formats used for fields
          MaxFields,    \* longest definition
          MinFields,    \* shortest definition that is instantiated (simulation of long definitions)
          Styles,       \* definition mechanisms: "plain", "compiled", "dataclass"
          DeriveMax,    \* longest definition that is written as base class + derived class (0: none)
          DeriveUses,   \* uses explored for derived definitions
          DefUses,      \* "msg" (top level), "nest", "list"
          DefK,         \* value vectors per (definition, style) used top level
          DefKN,        \* value vectors per (definition, style) used nested / listed
          DevModes      \* {{}}; with a non-empty set of deviations also the behaviours in which they are switched on
                        \* (negative controls; explored for small definitions only)

VARIABLE dev            \* deviations switched on in this behaviour ({} = documented behaviour)

RuleKinds == {"?", "H", "I", "20s", "varlenH", "varlenHutf8"}       \* kinds for which a rule pair is modelled
(* rule options of a field: 0 = no rule, 1 = rule on the field; for "bits": the bit NAME (1..8) with a rule *)
RuleOpts(k) == IF k = "bits" THEN {0, 1, 4, 8} ELSE IF k \in RuleKinds THEN {0, 1} ELSE {0}

RotL(v) == IF Len(v) = 0 THEN v ELSE Tail(v) \o <<Head(v)>>
RotR(v) == IF Len(v) = 0 THEN v ELSE <<v[Len(v)]>> \o SubSeq(v, 1, Len(v) - 1)
RulePack(k, v) ==        \* fix_pack_<name>: message value -> wire value (named bijections, same on the real classes)
  CASE k = "?" -> ~v
    [] k = "H" -> (v + 1) % 65536
    [] k = "I" -> Compl(v)
    [] k \in {"20s", "varlenH", "varlenHutf8"} -> RotL(v)
RuleUnpack(k, v) ==      \* fix_unpack_<name>: wire value -> message value
  CASE k = "?" -> ~v
    [] k = "H" -> (v + 65535) % 65536
    [] k = "I" -> Compl(v)
    [] k \in {"20s", "varlenH", "varlenHutf8"} -> RotR(v)

DItem(k) == [fmt |-> k, cls |-> ""]
NamesOf(f) == IF f.k = "bits" THEN 8 ELSE 1
RECURSIVE NamesBefore(_, _)
NamesBefore(df, i) == IF i <= 1 THEN 0 ELSE NamesBefore(df, i - 1) + NamesOf(df[i - 1])

ToWireVal(f, v) == IF f.k = "bits" THEN [j \in 1..8 |-> IF j = f.h THEN 1 - v[j] ELSE v[j]]
                   ELSE IF f.h = 1 THEN RulePack(f.k, v) ELSE v
(* deviation "rules_by_format_count": the unpack rule of a name is only looked at while the name's      *)
(* index is below the number of FORMATS (a definition with "bits" has more names than formats)          *)
RuleSeen(df, nameIdx) == ~("rules_by_format_count" \in dev /\ nameIdx > Len(df))
FromWireVal(df, i, w) ==
  LET f == df[i] IN
  IF f.k = "bits" THEN [j \in 1..8 |-> IF j = f.h /\ RuleSeen(df, NamesBefore(df, i) + j) THEN 1 - w[j] ELSE w[j]]
  ELSE IF f.h = 1 /\ RuleSeen(df, NamesBefore(df, i) + 1) THEN RuleUnpack(f.k, w) ELSE w

EncDef(df, vals) == CatN([i \in 1..Len(df) |-> EncF(DItem(df[i].k), ToWireVal(df[i], vals[i]))], Len(df))
RECURSIVE DecDefFrom(_, _, _, _, _)
DecDefFrom(df, i, d, off, acc) ==
  IF i > Len(df) THEN R(acc, off)
  ELSE LET r == DecF(DItem(df[i].k), d, off) IN
       IF ~r.ok THEN Err ELSE DecDefFrom(df, i + 1, d, r.end, Append(acc, FromWireVal(df, i, r.val)))
DecDef(df, d, off) == DecDefFrom(df, 1, d, off, <<>>)

(* nested: <2 byte length><message>;  listed: <1 byte count> then every item nested                     *)
EncNest(df, vals) == LET b == EncDef(df, vals) IN U16(Len(b)) \o b
DecNest(df, d, off) ==
  IF ~Fits(d, off, 2) THEN Err
  ELSE LET n == d[off + 1] * 256 + d[off + 2] IN
       IF ~Fits(d, off + 2, n) THEN Err
       ELSE LET r == DecDef(df, Sub(d, off + 2, n), 0) IN
            IF r.ok /\ r.end = n THEN R(r.val, off + 2 + n) ELSE Err
RECURSIVE DecNestMany(_, _, _, _, _)
DecNestMany(df, d, off, n, acc) ==
  IF n = 0 THEN R(acc, off)
  ELSE LET r == DecNest(df, d, off) IN IF ~r.ok THEN Err ELSE DecNestMany(df, d, r.end, n - 1, Append(acc, r.val))
EncDK(df, kd, v) == CASE kd = "msg" -> EncDef(df, v)
                      [] kd = "nest" -> EncNest(df, v)
                      [] kd = "list" -> U8(Len(v)) \o CatN([i \in 1..Len(v) |-> EncNest(df, v[i])], Len(v))
DecDK(df, kd, d, off) == CASE kd = "msg" -> DecDef(df, d, off)
                           [] kd = "nest" -> DecNest(df, d, off)
                           [] kd = "list" -> IF ~Fits(d, off, 1) THEN Err ELSE DecNestMany(df, d, off + 1, d[off + 1], <<>>)
DefEndsRaw(df, kd) == kd = "msg" /\ df[Len(df)].k = "raw"
DSurround(df, kd, n, b) == PadBytes(n) \o b \o (IF DefEndsRaw(df, kd) THEN <<>> ELSE <<170, 85>>)

(* small ordered value domains per kind *)
DDom(k) ==
  CASE k = "?" -> <<FALSE, TRUE>>
    [] k = "H" -> <<0, 4660, 65535, 1>>
    [] k = "I" -> <<U4Dom[1], U4Dom[4], U4Dom[8]>>
    [] k = "q" -> <<S8Dom[1], S8Dom[5], S8Dom[8]>>
    [] k = "20s" -> <<Pat(20, 1), Fill(20, 0), Fill(20, 255)>>
    [] k = "varlenH" -> << <<>>, Pat(3, 1), Pat(40, 2), <<127, 0, 0, 1>> >>
    [] k = "varlenHutf8" -> << <<>>, <<104, 105>>, <<97, 233, 8364, 128512>> >>
    [] k = "bits" -> << <<0, 0, 0, 0, 0, 0, 0, 0>>, <<1, 0, 1, 0, 0, 1, 1, 1>>, <<1, 1, 1, 1, 1, 1, 1, 1>>, <<0, 1, 0, 0, 0, 0, 0, 1>>,
                        <<1, 0, 0, 0, 0, 0, 0, 0>>, <<0, 0, 0, 1, 0, 0, 0, 0>> >>
    [] k = "address" -> <<V4Dom[2], V6Dom[3], DmDom[2]>>
    [] k = "ip_address" -> <<V4Dom[3], V6Dom[3]>>
    [] k = "varlenH-list" -> << <<>>, <<Pat(1, 1)>>, << <<>>, Pat(3, 2), <<>> >> >>
    [] k = "raw" -> << <<>>, Pat(4, 1), Pat(30, 2) >>
Vec(df, vi) == [i \in 1..Len(df) |-> LET dm == DDom(df[i].k) IN dm[((vi * 5 + i * 3) % Len(dm)) + 1]]
DefVal(df, kd, vi) == IF kd = "list" THEN (CASE vi % 3 = 1 -> <<Vec(df, vi), Vec(df, vi + 1), Vec(df, vi + 2)>>
                                             [] vi % 3 = 2 -> <<Vec(df, vi)>>
                                             [] OTHER -> <<>>)
                      ELSE Vec(df, vi)

VARIABLES def,      \* sequence of [k: format of the field, h: rule option]
          split,    \* 0, or the number of leading fields that form the base class of a derived definition
          style     \* mechanism the definition is materialised with
dvars == <<dev, def, split, style>>

(* deviation "base_only": a derived dataclass whose base class was used first keeps the base's compiled  *)
(* form (the "already compiled" marker is inherited)                                                     *)
BaseOnly == "base_only" \in dev /\ split > 0 /\ style = "dataclass"
EffDef    == IF BaseOnly THEN SubSeq(def, 1, split) ELSE def
EffVal(v) == IF ~BaseOnly THEN v ELSE IF kind = "list" THEN [i \in 1..Len(v) |-> SubSeq(v[i], 1, split)] ELSE SubSeq(v, 1, split)

DInit == /\ dev \in DevModes /\ def = <<>> /\ split = 0 /\ style = "" /\ phase = "define"
         /\ kind = "none" /\ fmt = "" /\ val = <<>> /\ pad = 0 /\ bytes = <<>> /\ data = <<>> /\ dec = Err /\ re = <<>>

AddField(k, h) ==
  /\ phase = "define" /\ Len(def) < MaxFields /\ h \in RuleOpts(k)
  /\ dev # {} => (k \in {"H", "bits"} /\ Len(def) < 2)
  /\ Len(def) > 0 => def[Len(def)].k # "raw"                       \* 'raw' swallows the rest: last field only
  /\ split > 0 => Len(def) < DeriveMax
  /\ def' = Append(def, [k |-> k, h |-> h])
  /\ UNCHANGED <<dev, split, style, vars>>

(* the fields so far become a class of their own; what follows is added by a class derived from it      *)
Derive ==
  /\ phase = "define" /\ split = 0 /\ Len(def) > 0 /\ Len(def) < DeriveMax /\ Len(def) < MaxFields
  /\ def[Len(def)].k # "raw"
  /\ split' = Len(def)
  /\ UNCHANGED <<dev, def, style, vars>>

(* the definition is turned into a class (style) and one instance of it is chosen                       *)
Instantiate(st, kd, vi) ==
  /\ phase = "define" /\ Len(def) > 0 /\ Len(def) >= MinFields
  /\ kd # "msg" => vi <= DefKN
  /\ dev # {} => (kd = "msg" /\ vi = 1)
  /\ split > 0 => (Len(def) > split /\ vi <= DefKN /\ kd \in DeriveUses)
  /\ st = "dataclass" => \A i \in 1..Len(def) : def[i].k # "bits"      \* eight names for one format: no dataclass fields
  /\ style' = st /\ kind' = kd /\ val' = DefVal(def, kd, vi) /\ pad' = (vi + Len(def)) % 4
  /\ phase' = "chosen"
  /\ UNCHANGED <<dev, def, split, fmt, bytes, data, dec, re>>

DPack   == /\ phase = "chosen"
           /\ bytes' = EncDK(EffDef, kind, EffVal(val))
           /\ phase' = "packed"
           /\ UNCHANGED <<dvars, kind, fmt, val, pad, data, dec, re>>
DUnpack == /\ phase = "packed"
           /\ data' = DSurround(def, kind, pad, bytes)
           /\ dec' = DecDK(EffDef, kind, data', pad)
           /\ phase' = "unpacked"
           /\ UNCHANGED <<dvars, kind, fmt, val, pad, bytes, re>>
DRepack == /\ phase = "unpacked" /\ dec.ok
           /\ re' = EncDK(EffDef, kind, dec.val)
           /\ phase' = "done"
           /\ UNCHANGED <<dvars, kind, fmt, val, pad, bytes, data, dec>>

DNext == \/ \E k \in DefKinds, h \in 0..8 : AddField(k, h)
         \/ Derive
         \/ \E st \in Styles, kd \in DefUses, vi \in 1..DefK : Instantiate(st, kd, vi)
         \/ DPack \/ DUnpack \/ DRepack
DSpec == DInit /\ [][DNext]_<<dvars, vars>>

(* RoundTrip, ExactConsumption and ReEncode of Wire.tla are stated over the same variables; they are     *)
(* demanded of the documented behaviours, and a cut encoding of a definition is never accepted either     *)
Documented == dev = {}
DRoundTrip        == Documented => RoundTrip
DExactConsumption == Documented => ExactConsumption
DReEncode         == Documented => ReEncode
DefTruncationRejected == (Documented /\ phase = "packed" /\ ~DefEndsRaw(def, kind) /\ Len(bytes) > 0) =>
                            ~DecDK(def, kind, SubSeq(bytes, 1, Len(bytes) - 1), 0).ok
(* negative controls: have to be violated when the deviations are among DevModes *)
CtlRules  == (~Documented /\ style # "dataclass") => RoundTrip
CtlDerive == (~Documented /\ style = "dataclass") => RoundTrip
=============================================================================
