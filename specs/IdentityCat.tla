----------------------------- MODULE IdentityCat -----------------------------
(* Exports the universe and the message catalogues of IdentityWorld.tla to the driver: the single   *)
(* state of this specification is dumped by TLC and parsed by harness/drivers/c17.py.               *)
EXTENDS IdentityWorld
VARIABLE cat
CatInit == cat = [w |-> W, regs |-> RegCat, toks |-> TokCat, mds |-> MdCat, atts |-> AttCat]
CatNext == UNCHANGED cat
CatSpec == CatInit /\ [][CatNext]_cat
=============================================================================
