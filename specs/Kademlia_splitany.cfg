\* NEGATIVE CONTROL: any full bucket is split -> OwnPathShape must be violated
SPECIFICATION Spec
CONSTANTS W = 3 Bits <- SeqBits Cap = 1 MyNum = 5 IdNums = {0, 1, 2, 3, 4, 5, 6, 7}
          RTTs = {1} Addrs = {1} AddBads = {FALSE} KMax = 0 MaxDepth = 0
          WithGen = FALSE GenInBucket = TRUE OwnPathOnly = FALSE
INVARIANT TypeOK
INVARIANT PrefixFreeComplete
INVARIANT PartitionBrute
INVARIANT NodeInOwningBucket
INVARIANT Capacity
INVARIANT OwnPathShape
INVARIANT GeneratedIdInBucket
PROPERTY SplitOnlyOwnPath
