\* negative control: the opener check follows the address the previous hop's key was last seen at
SPECIFICATION Spec
CONSTANTS QCap = 2 MaxPend = 1 MaxOps = 4
          NoInboundFilter = FALSE NoNullCheck = FALSE AnyoneOpens = FALSE
          RepIds = {5, 7}
          TrackHistory = FALSE FlowCache = "none" HostIps = {"x"} HostPorts = {1}
          StaleVerdict = "none" HopFollowsPeer = TRUE VerdictMemo = "none"
          FlagChoices = {} SignedSrcs = {"prev", "port", "other"}
          SrcSet = {"prev", "port", "other"} DkSet = {"v4", "null"}
INVARIANT OpenedOnlyByPrevHop
