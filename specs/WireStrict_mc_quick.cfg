SPECIFICATION Spec
CONSTANTS ArrBE = FALSE Lenient = FALSE Alphabet = {0, 1, 2, 3} MaxLen = 5
CONSTANT Formats <- MCFormats
INVARIANT EndInside
INVARIANT ReEncode
INVARIANT WellFormed
INVARIANT PrefixClosed
INVARIANT NoSilentTruncation
