SPECIFICATION Spec
CONSTANTS BitSpace = 4 Honest = TRUE Window = 1 MaxRounds = 1 MaxGen = 2 MaxHon = 0 MaxDup = 0 CreditBy = "object" Reset = TRUE
INVARIANT TypeOK
INVARIANT SubProfile
INVARIANT AggIsAnswers
INVARIANT Reconstructs
INVARIANT ResultIsProfile
INVARIANT Scores
