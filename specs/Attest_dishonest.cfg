SPECIFICATION Spec
CONSTANTS BitSpace = 4 Honest = FALSE
INVARIANT Reconstructs
