\* negative control: remove_peer cleans the by-key index and services_per_peer only for a verified peer ("rmunver"):
\* a peer that advertised while it was not verified, is removed and added again is listed under what it advertised before
\* -> HistoryAgrees (AdvertisedSinceRemoval, PeersForHistory, WalkableHistory) and RemovedIsClean violated
SPECIFICATION Spec
CONSTANTS NP = 2 NA = 2 NS = 1 V6 = {} BlackAddr = {} BlackMid = {} IpCap = 1 IntroCap = 1 SvcCap = 1
          NB = 0 IterBufs = {} Defects = {"rmunver"} MaxDepth = 6
VIEW NoRetOp
INVARIANT HistoryAgrees
PROPERTY RemovedIsClean
