SPECIFICATION Spec
CONSTANTS Pfx = {"A", "B"} MaxHops = 1 MaxCid = 1 QCap = 100 MaxDepth = 4 LeakDetached = FALSE AnyState = FALSE MaxInst = 3 Lifecycle = TRUE UnloadClears = TRUE CandInit = {TRUE, FALSE} CloseWays = {"closeR", "remove"} ReasonDecides = FALSE ReadyInit = FALSE Expiry = FALSE
PROPERTY ImplRefinesAbs
