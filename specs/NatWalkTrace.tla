--------------------------- MODULE NatWalkTrace ---------------------------
(* Recorded schedules of real Community overlays on harness/simnet.py (harness/drivers/c13.py) checked      *)
(* against NatWalk.tla: every event must be the specification's step for that call / datagram, the NAT      *)
(* boxes of the simulator must translate and filter as the specification's NAT does, every emitted datagram *)
(* (addresses chosen by the code!) and the acting overlay's state must equal the specification's.           *)
EXTENDS NatWalk, Json, IOUtils, TLCExt

CONSTANT Strict   \* TRUE : every event must be the step of NatWalk.tla (protocol + network layer)
                  \* FALSE: only the network layer (NAT translation / filtering / routing) comes from the
                  \*        specification, the overlays' decisions are taken from the log as observed; the C13
                  \*        invariants are then evaluated on the real behaviour itself

Traces == JsonDeserialize(IOEnv.TRACE_FILE)

VARIABLES tid, l
tvars == <<vars, tid, l>>

T  == Traces[tid].topo
Ev == Traces[tid].events
SetOf(s) == {s[i] : i \in 1..Len(s)}

TraceInit ==
  /\ tid \in 1..Len(Traces) /\ l = 1
  /\ natOf = T.natOf /\ kind = T.kind /\ sock = T.sock /\ extip = T.extip
  /\ priv = SetOf(T.priv) /\ walkers = SetOf(T.walkers) /\ contacts = T.contacts
  /\ nbrs = [h \in DOMAIN T.natOf |-> SetOf(T.nbrs[h])]     \* IPv6 neighbours the host held when the recording started
  /\ InitOverlay
  /\ gt = T.gt0                  \* the Lamport clock every host had when the recording started

HostMatches(h, s) ==
  /\ wan'[h] = s.wan
  /\ peers'[h] = SetOf(s.peers)
  /\ known'[h] = SetOf(s.known)
  /\ svcs'[h] = SetOf(s.svcs)
  /\ gt'[h] = s.gt
  \* per overlay: get_walkable_addresses() and get_peers() as the real overlay answers them
  /\ \A v \in Svcs : WalkableOf(known'[h], peers'[h], svcs'[h], v) = SetOf(s.walkable[v])
  /\ \A v \in Svcs : {r.k : r \in InSvc(peers'[h], svcs'[h], v)} = SetOf(s.members[v])

NatsMatch(ns) ==
  /\ mapping' = [n \in Nats |-> SetOf(ns[n].mapping)]
  /\ allowed' = [n \in Nats |-> SetOf(ns[n].allowed)]
  /\ nports'  = [n \in Nats |-> ns[n].nports]

MsgOf(q) == Msg(q.ov, q.dst, q.kind, q.ns, q.dest, q.slan, q.swan, q.ilan, q.iwan, q.ins, q.ident)

(* a call or a handler run of host e.h as observed: what it sent and its state afterwards come from the log *)
Observed(e) ==
  /\ e.act \in {"Contact", "IntroWalk", "Deliver"}
  /\ LET h        == e.h
         consumed == IF e.act = "Deliver" THEN {p \in net : p.id = e.id} ELSE {}
         msgs     == [i \in 1..Len(e.emitted) |-> MsgOf(e.emitted[i])]
         em       == SetOf(e.emitted)
     IN /\ h \in Hosts
        /\ e.act = "Deliver" => (consumed # {} /\ \A p \in consumed : Route(p).to = h)
        /\ e.act = "IntroWalk" => (PunctureFirst => PunctureSettled)
        /\ Transmit(h, msgs, consumed)
        /\ wan'   = [wan EXCEPT ![h] = e.host.wan]
        /\ peers' = [peers EXCEPT ![h] = SetOf(e.host.peers)]
        /\ known' = [known EXCEPT ![h] = SetOf(e.host.known)]
        /\ svcs'  = [svcs EXCEPT ![h] = SetOf(e.host.svcs)]
        /\ gt'    = [gt EXCEPT ![h] = e.host.gt]
        /\ contacted' = IF e.act = "Contact" THEN [contacted EXCEPT ![h][e.s] = @ + 1] ELSE contacted
        /\ walked' = IF e.act = "IntroWalk" THEN [walked EXCEPT ![h][e.s] = @ \cup {e.a}] ELSE walked
        /\ intros' = IF h = "I"
                     THEN intros \cup {[ov |-> p.ov, req |-> p.from, cand |-> c.k, reqaddr |-> q.dst, candaddr |-> Pref(c),
                                        ok |-> c.k \notin stale, cur |-> Pub(c.k)] :
                                         <<p, q, c>> \in {x \in consumed \X em \X SetOf(e.host.peers) :
                                                x[2].kind = "iresp" /\ x[2].iwan # Zero
                                                /\ (Pref(x[3]) = x[2].iwan \/ Pref(x[3]) = x[2].ilan)}}
                     ELSE intros
        /\ puncAsked' = puncAsked \cup {[to |-> q.dst, wanw |-> q.swan] : q \in {x \in em : x.kind = "preq"}}
        /\ stale' = IF h = "I" THEN stale \ {p.from : p \in {x \in consumed : x.kind = "ireq"}} ELSE stale
        /\ UNCHANGED nrebind
  /\ UNCHANGED topo

TraceNext ==
  /\ l <= Len(Ev)
  /\ LET e == Ev[l] IN
       /\ \/ Strict /\ e.act = "Contact"   /\ Contact(e.h, e.s)
          \/ Strict /\ e.act = "IntroWalk" /\ IntroWalk(e.h, e.s, e.a)
          \/ /\ Strict /\ e.act = "Deliver"
             /\ \E p \in net : p.id = e.id /\ Route(p).to = e.h
             /\ \/ DeliverIReq(e.id) \/ DeliverIResp(e.id) \/ DeliverPReq(e.id) \/ DeliverPunc(e.id)
          \/ ~Strict /\ Observed(e)
          \/ e.act = "Lose"      /\ Lose(e.id, e.why)
          \/ e.act = "Rebind"    /\ Rebind(e.h)
          \/ /\ e.act = "Final"  /\ UNCHANGED vars
             /\ \A h \in Hosts : HostMatches(h, e.world[h])
             /\ net = SetOf(e.net)
       /\ e.act # "Final" =>
            /\ net' \ net = SetOf(e.emitted)
            /\ NatsMatch(e.nats)
            /\ nsent' = e.nsent
            /\ e.h \in Hosts => HostMatches(e.h, e.host)
  /\ l' = l + 1 /\ UNCHANGED tid

TraceSpec == TraceInit /\ [][TraceNext]_tvars

(* total verdict: a trace is rejected exactly when some logged event is not an enabled step of the spec *)
TraceAccepted == l <= Len(Ev) => ENABLED TraceNext

(* the C13 verdict on the behaviour as observed: the driver ends a schedule only when nothing is in flight and  *)
(* every follower has walked to everything get_walkable_addresses() offered                                    *)
AtEnd == l > Len(Ev)
ReachAtEnd   == AtEnd => (net = {} /\ \A i \in intros : (i.req \in Walkers /\ i.ok) => MutualIn(i.req, i.cand, i.ov))
HoldsWorkingAtEnd == AtEnd => \A i \in intros :
                  (i.req \in Walkers /\ i.ok /\ i.cur = Pub(i.cand) /\ ~SameNat(i.req, i.cand)
                   /\ IsPeer(i.req, i.cand)) => PeerOf(i.req, i.cand).addr = Pub(i.cand)
LanMeetAtEnd == AtEnd => \A i \in intros :
                  (i.req \in Walkers /\ SameNat(i.req, i.cand) /\ Mutual(i.req, i.cand)) =>
                      /\ PeerOf(i.req, i.cand).addr = sock[i.cand]
                      /\ PeerOf(i.cand, i.req).addr = sock[i.req]
=============================================================================
