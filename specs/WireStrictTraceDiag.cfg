SPECIFICATION TraceSpec
CONSTANTS ArrBE = FALSE Lenient = FALSE Alphabet = {} MaxLen = 0
CONSTANT Formats <- TrFormats
