SPECIFICATION Spec
CONSTANTS
  Nodes = {"S", "D", "X"}
  Swarms = {1}
  Cids = {1, 2, 3, 4}
  Ids = {1, 2, 3, 4, 5}
  Cks = {1}
  Keys = {1}
  Ephs = {1, 2}
  Tags = {1}
  Service = {"X"}
  Canonical = TRUE
  Seeders = {"S"} Downloaders = {"D"} Infra = {"X"}
  CheckIdent = TRUE CheckCookie = TRUE CheckEnabled = TRUE CheckSeeding = TRUE CheckSecret = TRUE
  CleanOnClose = TRUE CleanOnPop = TRUE
  ForgeTypes = {"IE", "RE", "LD", "PR"}
  ForgeBudget = 1 FaultBudget = 0 ApiBudget = 2
VIEW view
INVARIANT TypeOK
INVARIANT NoDangling
INVARIANT LinkJustified
INVARIANT KeyAgreement
INVARIANT ConnsLive
INVARIANT CallbackOnce
PROPERTY UnmatchedInert
