SPECIFICATION Spec
CONSTANTS NC = 2 NI = 2 Delays = {1} PassTimeouts = {} Filters = {"all"}
          Nesting = TRUE ReAdds = 0 ExtFut = 0 ReapOwnOnly = TRUE LateCancel = TRUE
          HScripts = {"none", "raise", "pop", "add"} CoHandlers = FALSE ClaimFirst = FALSE
          TMShutdown = FALSE ShutGuard = FALSE NFut = 3 FutLoop = "all"
INVARIANT NoTimeoutAfterClaim
