SPECIFICATION Spec
CONSTANTS NC = 2 NI = 2 Delays = {1} PassTimeouts = {} Filters = {"all"}
          Nesting = TRUE ReAdds = 0 ExtFut = FALSE ReapOwnOnly = TRUE LateCancel = TRUE
          HScripts = {"none", "raise", "pop", "add"} CoHandlers = FALSE ClaimFirst = FALSE
INVARIANT NoTimeoutAfterClaim
