----------------------------- MODULE ReceiveMC -----------------------------
(* Finite instances of Receive.tla: a 2-byte prefix, 1-byte circuit ids, bytes 0..3.               *)
(*   layout : every sequence of <= MaxOps table operations over 7 listeners, small datagrams        *)
(*   bytes  : four fixed layouts (as the overlays build them) x every byte string up to MaxLen      *)
EXTENDS Receive

CONSTANTS MaxLen, Mode

Alphabet == 0..3
PA == <<0, 1>>
PB == <<0, 2>>
PT == <<0, 3>>
L0 == [kind |-> "sink", prefix |-> <<>>, handlers |-> {}, priv |-> {}, comm |-> 0, anon |-> FALSE, tracked |-> {}]
MCDesc == << [L0 EXCEPT !.kind = "community", !.prefix = PA, !.handlers = {1, 2}],              \* 1  overlay A
             [L0 EXCEPT !.kind = "community", !.prefix = PA, !.handlers = {2, 3}],              \* 2  shares A's prefix
             [L0 EXCEPT !.kind = "community", !.prefix = PB, !.handlers = {0, 1}, !.anon = TRUE],\* 3  overlay B
             [L0 EXCEPT !.kind = "community", !.prefix = PT, !.handlers = {0, 3}, !.priv = {1, 2, 3}], \* 4 tunnel overlay
             [L0 EXCEPT !.kind = "crypto", !.prefix = PT, !.comm = 4],                          \* 5  its crypto endpoint
             L0,                                                                                \* 6  recording sink
             [L0 EXCEPT !.kind = "stats", !.tracked = {PA, PT}] >>                               \* 7  statistics
MCLids == IF Mode = "layout" THEN {1, 2, 5, 6} ELSE 1..7
MCPfxs == IF Mode = "layout" THEN {PA, PT} ELSE {PA, PB, PT}

Tun(c) == [circuits |-> {<<1>>}, exits |-> {<<3>>}, relays |-> (<<2>> :> [dir |-> "fwd", count |-> c])]
TunB   == [circuits |-> {<<1>>}, exits |-> {}, relays |-> (<<2>> :> [dir |-> "bwd", count |-> 1] @@ <<3>> :> [dir |-> "fwd", count |-> 1])]
MCTuns == IF Mode = "layout" THEN {} ELSE IF MaxLen <= 7 THEN {Tun(2), TunB} ELSE {Tun(1), Tun(2), TunB}

(* per-position alphabets: first byte right/foreign, circuit id, the two flag bytes, first message byte *)
Alpha(i) == CASE i = 1 -> {0, 1} [] i = PL + CidLen + 2 -> {0, 1} [] i = PL + CidLen + 3 -> {0, 1}
              [] i > HdrLen + 1 -> {0, 3} [] OTHER -> Alphabet
RECURSIVE HeadsOfLen(_)
HeadsOfLen(k) == IF k = 0 THEN {<<>>} ELSE {Append(h, b) : h \in HeadsOfLen(k - 1), b \in Alpha(k)}
Heads(n) == UNION {HeadsOfLen(k) : k \in 0..n}
KnownCell(h) == /\ Len(h) >= HdrLen /\ SubSeq(h, 1, PL) = PT /\ h[PL + 1] = CellId
                /\ h[PL + 2] # 0 /\ h[PL + CidLen + 2] = 0
Inners == {<<>>, <<0>>, <<1>>, <<2>>, <<3>>, <<1, 1>>}
PktsOf(h) == IF KnownCell(h)
             THEN {[len |-> Len(h), head |-> h, enc |-> "garbage", inner |-> <<>>]} \cup
                  {[len |-> Len(h), head |-> h, enc |-> "valid", inner |-> i] : i \in Inners}
             ELSE {[len |-> Len(h), head |-> h, enc |-> "none", inner |-> <<>>]}
SmallHeads == {<<>>, <<0>>, PA, PT, <<0, 0>>, PA \o <<1>>, PA \o <<2>>, PT \o <<0>>, PT \o <<3>>, <<0, 0, 1>>}
MCPkts == UNION {PktsOf(h) : h \in IF Mode = "layout" THEN SmallHeads ELSE Heads(MaxLen)}

RECURSIVE Fold(_, _)
Fold(T, ops) == IF ops = <<>> THEN T
                ELSE LET o == Head(ops) IN
                     Fold(CASE o[1] = "add"  -> AddL(T, o[2])
                            [] o[1] = "addp" -> AddP(T, o[2], o[3])
                            [] o[1] = "rem"  -> RemL(T, o[2]), Tail(ops))
(* what Overlay.__init__ / Community.__init__ / PythonCryptoEndpoint.setup_tunnels do *)
Load(l)    == << <<"add", l>>, <<"rem", l>>, <<"addp", l, MCDesc[l].prefix>> >>
Setup(c)   == << <<"rem", MCDesc[c].comm>>, <<"rem", c>>, <<"addp", c, MCDesc[c].prefix>> >>
Lay1 == Fold(EmptyTab, Load(1))
Lay2 == Fold(EmptyTab, Load(4) \o Setup(5))
Lay3 == Fold(EmptyTab, << <<"add", 7>> >> \o Load(1) \o Load(3) \o Load(4) \o Setup(5) \o << <<"add", 6>> >>)
Lay4 == Fold(EmptyTab, Load(1) \o Load(2) \o << <<"add", 6>> >> \o Load(4) \o Setup(5) \o << <<"add", 7>> >>)
MCWorlds == IF MaxLen <= 7 THEN { <<Lay2, Tun(2)>>, <<Lay4, TunB>> }
            ELSE { <<Lay1, Tun(1)>>, <<Lay2, Tun(1)>>, <<Lay2, Tun(2)>>, <<Lay2, TunB>>,
                   <<Lay3, Tun(1)>>, <<Lay3, Tun(2)>>, <<Lay4, TunB>> }

MCInit == /\ desc = MCDesc
          /\ open = TRUE
          /\ last = NoLast /\ nops = 0 /\ nrecv = 0
          /\ IF Mode = "bytes" THEN \E w \in MCWorlds : tab = w[1] /\ tun = w[2]
             ELSE tab = EmptyTab /\ tun = Tun(1)
MCSpec == MCInit /\ [][Next]_vars

(* "sometimes" witnesses, expected to be violated (vacuity check of the invariants' antecedents) *)
NeverHandler == last.via # "none" => \A i \in DOMAIN last.log : last.log[i].h = <<>>
NeverCircuitHandler == last.via # "none" => \A i \in DOMAIN last.log : \A j \in DOMAIN last.log[i].h : last.log[i].h[j][1] # "c"
NeverRelayed == last.via # "none" => ~RelayedIn(last.log)
=============================================================================
