----------------------------- MODULE ReceiveMC -----------------------------
(* Finite instances of Receive.tla: a 2-byte prefix, 1-byte circuit ids, bytes 0..3.               *)
(*   layout : every sequence of <= MaxOps table operations over 7 listeners, small datagrams        *)
(*   bytes  : four fixed layouts (as the overlays build them) x every byte string up to MaxLen      *)
(*   tables : the circuit tables as state - every sequence of RemoveTun / Tick / Sweep from a relay  *)
(*            pair, a rendezvous link, a circuit and an enabled exit socket, with every cell (valid / *)
(*            garbage body) and every exit-socket datagram of XHeads in between                       *)
(*   reg    : the registrations as history - every sequence of <= MaxOps table operations over two   *)
(*            overlays that SHARE a prefix, a third overlay and a sink (each of them may be general,   *)
(*            may ask for either prefix, may leave), every small datagram in every table state; the    *)
(*            actions are labelled with their parameters: the driver replays this graph into a real    *)
(*            Endpoint with real Community objects (harness/c03_reg.py)                                *)
EXTENDS Receive

CONSTANTS MaxLen, Mode

Alphabet == 0..3
PA == <<0, 1>>
PB == <<0, 2>>
PT == <<0, 3>>
L0 == [kind |-> "sink", prefix |-> <<>>, handlers |-> {}, priv |-> {}, comm |-> 0, anon |-> FALSE, tracked |-> {},
       xbt |-> FALSE, xipv8 |-> FALSE, dev |-> {}]
MCDesc == << [L0 EXCEPT !.kind = "community", !.prefix = PA, !.handlers = {1, 2}],              \* 1  overlay A
             [L0 EXCEPT !.kind = "community", !.prefix = PA, !.handlers = {2, 3}],              \* 2  shares A's prefix
             [L0 EXCEPT !.kind = "community", !.prefix = PB, !.handlers = {0, 1}, !.anon = TRUE],\* 3  overlay B
             [L0 EXCEPT !.kind = "community", !.prefix = PT, !.handlers = {0, 3}, !.priv = {1, 2, 3}, !.xbt = TRUE], \* 4 tunnel overlay
             [L0 EXCEPT !.kind = "crypto", !.prefix = PT, !.comm = 4],                          \* 5  its crypto endpoint
             L0,                                                                                \* 6  recording sink
             [L0 EXCEPT !.kind = "stats", !.tracked = {PA, PT}] >>                               \* 7  statistics
MCLids == IF Mode = "layout" THEN {1, 2, 5, 6} ELSE IF Mode = "reg" THEN {1, 2, 3, 6} ELSE 1..7
MCPfxs == IF Mode = "layout" THEN {PA, PT} ELSE IF Mode = "reg" THEN {PA, PB} ELSE {PA, PB, PT}

R(dir, c, to, rdv) == [dir |-> dir, count |-> c, to |-> to, rdv |-> rdv]
(* Tun(c): the opposite route <<0>> of relay <<2>> does not exist (any more) *)
Tun(c) == [circuits |-> {<<1>>}, exits |-> {<<3>>}, relays |-> (<<2>> :> R("fwd", c, <<0>>, FALSE)), stale |-> {}, xon |-> {}]
TunB   == [circuits |-> {<<1>>}, exits |-> {}, relays |-> (<<2>> :> R("bwd", 1, <<3>>, FALSE) @@ <<3>> :> R("fwd", 1, <<2>>, FALSE)),
           stale |-> {}, xon |-> {}]
(* a rendezvous link (both routes decrypt with their own keys, encrypt with the keys of the other) + an enabled exit *)
TunR   == [circuits |-> {}, exits |-> {<<1>>}, relays |-> (<<2>> :> R("fwd", 1, <<3>>, TRUE) @@ <<3>> :> R("fwd", 1, <<2>>, TRUE)),
           stale |-> {}, xon |-> {<<1>>}]
MCTuns == IF Mode \in {"layout", "tables"} THEN {} ELSE IF MaxLen <= 7 THEN {Tun(2), TunB} ELSE {Tun(1), Tun(2), TunB}

(* per-position alphabets: first byte right/foreign, circuit id, the two flag bytes, first message byte *)
Alpha(i) == CASE i = 1 -> {0, 1} [] i = PL + CidLen + 2 -> {0, 1} [] i = PL + CidLen + 3 -> {0, 1}
              [] i > HdrLen + 1 -> {0, 3} [] OTHER -> Alphabet
RECURSIVE HeadsOfLen(_)
HeadsOfLen(k) == IF k = 0 THEN {<<>>} ELSE {Append(h, b) : h \in HeadsOfLen(k - 1), b \in Alpha(k)}
Heads(n) == UNION {HeadsOfLen(k) : k \in 0..n}
KnownCell(h) == /\ Len(h) >= HdrLen /\ SubSeq(h, 1, PL) = PT /\ h[PL + 1] = CellId
                /\ h[PL + 2] # 0 /\ h[PL + CidLen + 2] = 0
Inners == IF Mode = "tables" THEN {<<>>, <<1>>} ELSE {<<>>, <<0>>, <<1>>, <<2>>, <<3>>, <<1, 1>>}
PktsOf(h) == IF KnownCell(h)
             THEN {[len |-> Len(h), head |-> h, enc |-> "garbage", inner |-> <<>>]} \cup
                  {[len |-> Len(h), head |-> h, enc |-> "valid", inner |-> i] : i \in Inners}
             ELSE {[len |-> Len(h), head |-> h, enc |-> "none", inner |-> <<>>]}
SmallHeads == {<<>>, <<0>>, PA, PT, <<0, 0>>, PA \o <<1>>, PA \o <<2>>, PT \o <<0>>, PT \o <<3>>, <<0, 0, 1>>}
CellHeads == {PT \o <<CellId, c, pl, ea>> \o t : c \in 0..3, pl \in {0, 1}, ea \in {0, 1}, t \in {<<>>, <<3>>}}
RegHeads == {<<>>, <<0>>, PA, PB, <<0, 0>>, PA \o <<1>>, PA \o <<2>>, PA \o <<3>>, PB \o <<0>>, PB \o <<1>>, <<0, 0, 1>>}
MCVias == IF Mode = "tables" THEN {<<"udp", FALSE>>} ELSE {<<"udp", FALSE>>, <<"tunnel", FALSE>>, <<"tunnel", TRUE>>}
MCPkts == UNION {PktsOf(h) : h \in IF Mode = "layout" THEN SmallHeads ELSE IF Mode = "reg" THEN RegHeads ELSE IF Mode = "tables" THEN CellHeads
                                    ELSE Heads(MaxLen)}

(* datagrams for an exit socket: per-position alphabets around the values DataChecker looks at, every length up to 13 *)
(* and zero-padded to the lengths where the uTP / IPv8 length checks sit                                               *)
XAlpha(i) == CASE i = 1 -> {0, 1, 65, 100}  [] i = 2 -> {0, 3, 4, 101}  [] i = 4 -> {0, 3, 4}
               [] i = 9 -> {0, 7}  [] i = 12 -> {3, 4}  [] i = 13 -> {0, 101}  [] OTHER -> {0}
RECURSIVE XHeadsOfLen(_)
XHeadsOfLen(k) == IF k = 0 THEN {<<>>} ELSE {Append(h, b) : h \in XHeadsOfLen(k - 1), b \in XAlpha(k)}
Pad(h, n) == h \o [i \in 1..(n - Len(h)) |-> 0]
XFew == {[len |-> 9, head |-> <<255, 0, 0, 0, 0, 0, 0, 0, 0>>, lastb |-> 0], [len |-> 2, head |-> <<100, 101>>, lastb |-> 101]}
MCXPkts == IF Mode # "tables" THEN {} ELSE IF MaxLen = 0 THEN XFew      \* (MaxLen = 0: the -continue control runs)
           ELSE {[len |-> Len(h), head |-> h, lastb |-> IF h = <<>> THEN 0 ELSE h[Len(h)]] : h \in UNION {XHeadsOfLen(k) : k \in 0..13}}
                \cup {[len |-> n, head |-> Pad(h, n), lastb |-> b] : h \in XHeadsOfLen(4), n \in {19, 20, 21}, b \in {0, 101}}

RECURSIVE Fold(_, _)
Fold(T, ops) == IF ops = <<>> THEN T
                ELSE LET o == Head(ops) IN
                     Fold(CASE o[1] = "add"  -> AddL(T, o[2])
                            [] o[1] = "addp" -> AddP(T, o[2], o[3])
                            [] o[1] = "rem"  -> RemL(T, o[2]), Tail(ops))
(* what Overlay.__init__ / Community.__init__ / PythonCryptoEndpoint.setup_tunnels do *)
Load(l)    == << <<"add", l>>, <<"rem", l>>, <<"addp", l, MCDesc[l].prefix>> >>
Setup(c)   == << <<"rem", MCDesc[c].comm>>, <<"rem", c>>, <<"addp", c, MCDesc[c].prefix>> >>
Lay1 == Fold(EmptyTab, Load(1))
Lay2 == Fold(EmptyTab, Load(4) \o Setup(5))
Lay3 == Fold(EmptyTab, << <<"add", 7>> >> \o Load(1) \o Load(3) \o Load(4) \o Setup(5) \o << <<"add", 6>> >>)
Lay4 == Fold(EmptyTab, Load(1) \o Load(2) \o << <<"add", 6>> >> \o Load(4) \o Setup(5) \o << <<"add", 7>> >>)
MCWorlds == IF MaxLen <= 7 THEN { <<Lay2, Tun(2)>>, <<Lay4, TunB>> }
            ELSE { <<Lay1, Tun(1)>>, <<Lay2, Tun(1)>>, <<Lay2, Tun(2)>>, <<Lay2, TunB>>,
                   <<Lay3, Tun(1)>>, <<Lay3, Tun(2)>>, <<Lay4, TunB>> }

(* tables mode: the relay pair / the rendezvous link with the default exit policy, and an exit socket alone with every *)
(* combination of the two exit flags (the only place where they matter)                                               *)
TunX   == [circuits |-> {}, exits |-> {<<1>>}, relays |-> <<>>, stale |-> {}, xon |-> {<<1>>}]
(* "pair" hides "rdv" (process_cell comes before relay_cell): a control run tries them one after the other *)
MCDevSets == IF {"pair", "rdv"} \subseteq Dev THEN {Dev \ {"rdv"}, {"rdv"}} ELSE {Dev}
MCInit == /\ IF Mode = "tables"
             THEN \E dv \in MCDevSets :
                  \/ desc = [MCDesc EXCEPT ![4].dev = dv] /\ tun \in {TunB, TunR}
                  \/ tun = TunX /\ \E b \in BOOLEAN, v \in BOOLEAN :
                                     desc = [MCDesc EXCEPT ![4].xbt = b, ![4].xipv8 = v, ![4].dev = dv]
             ELSE IF Mode = "reg" THEN desc = [l \in MCLids |-> MCDesc[l]]
             ELSE desc = MCDesc
          /\ open = TRUE
          /\ last = NoLast /\ nops = 0 /\ nrecv = 0
          /\ IF Mode = "bytes" THEN \E w \in MCWorlds : tab = w[1] /\ tun = w[2]
             ELSE IF Mode = "tables" THEN tab = Lay4
             ELSE IF Mode = "reg" THEN tab = EmptyTab /\ tun = [TunX EXCEPT !.exits = {}, !.xon = {}]
             ELSE tab = EmptyTab /\ tun = Tun(1)
MCSpec == MCInit /\ [][Next]_vars
(* tables mode: deliveries alternate with table actions (consecutive deliveries are what the bytes mode explores) *)
TReceive     == last = NoLast /\ DoReceive
(* what an exit socket does with a datagram depends on the datagram and the exit policy only: the whole alphabet is *)
(* explored where the socket stands alone, two datagrams (one dropped, one forwarded) in the other table states       *)
TExitReceive == /\ last = NoLast /\ nrecv < MaxRecv
                /\ \E o \in DOMAIN desc, x \in tun.xon, p \in (IF tun = TunX THEN XPkts \cup XFew ELSE XFew) :
                     \E fam \in (IF p \in XFew THEN {"v4", "v6", "v6mapped"} ELSE {"v4"}) : ExitReceive(o, x, p, fam)
MCNextT == DoRemoveTun \/ DoTick \/ DoSweep \/ TReceive \/ TExitReceive
MCSpecT == MCInit /\ [][MCNextT]_vars

(* reg mode: table operations first, then one datagram (a delivery does not change the table: the driver hands *)
(* every datagram to the real endpoint in every table state along the way)                                    *)
RAdd(l)        == nrecv = 0 /\ AddListener(l)
RAddPrefix(l, pf) == nrecv = 0 /\ AddPrefixListener(l, pf)
RRemove(l)     == nrecv = 0 /\ RemoveListener(l)
RSetOpen(b)    == nrecv = 0 /\ SetOpen(b)
RReceive(p)    == nrecv < MaxRecv /\ Receive(p, "udp", FALSE)
MCNextR == \/ \E l \in Lids : RAdd(l)
           \/ \E l \in Lids, pf \in Pfxs : RAddPrefix(l, pf)
           \/ \E l \in Lids : RRemove(l)
           \/ \E b \in BOOLEAN : RSetOpen(b)
           \/ \E p \in Pkts : RReceive(p)
MCSpecR == MCInit /\ [][MCNextR]_vars

(* "sometimes" witnesses, expected to be violated (vacuity check of the invariants' antecedents) *)
NeverHandler == last.via # "none" => \A i \in DOMAIN last.log : last.log[i].h = <<>>
NeverCircuitHandler == last.via # "none" => \A i \in DOMAIN last.log : \A j \in DOMAIN last.log[i].h : last.log[i].h[j][1] # "c"
NeverRelayed == last.via # "none" => ~RelayedIn(last.log)
NeverHalf == \A c \in DOMAIN tun.relays : tun.relays[c].to \in DOMAIN tun.relays   \* (TunOps = {"tick", "sweep"}: by time alone)
NeverHalfRelayed == last.via = "udp" => ~(RelayedIn(last.log) /\ last.half)
NeverHalfRdv     == last.via = "udp" => ~(last.half /\ last.pkt.enc = "valid" /\ ~Plain(last.pkt) /\ Cid(last.pkt) \in DOMAIN tun.relays
                                           /\ tun.relays[Cid(last.pkt)].rdv)
NeverExitForwarded == last.via = "exit" => ~RelayedIn(last.log)
NeverExitDropped   == last.via = "exit" => RelayedIn(last.log)
=============================================================================
