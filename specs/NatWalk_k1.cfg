SPECIFICATION Spec
CONSTANTS K = 1 SendPuncture = TRUE PunctureFirst = TRUE FollowAll = FALSE MaxId = 24 QuietCalls = TRUE
          APlaces = {"pub", "nat"} CandPlaces = {"pub", "nat", "withA", "withI"}
          MaxContactsA = 2 MaxContactsB = 2
INVARIANT TypeOK
INVARIANT Reach
INVARIANT LanMeet
INVARIANT AsksPuncture
CHECK_DEADLOCK TRUE
