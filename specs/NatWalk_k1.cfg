SPECIFICATION Spec
CONSTANTS K = 1 SendPuncture = TRUE PunctureFirst = TRUE FollowAll = FALSE MaxId = 40 QuietCalls = TRUE
          APlaces = {"pub", "nat"} CandPlaces = {"pub", "nat", "withA", "withI"}
          MaxContactsA = 2 MaxContactsB = 2
          MinContacts = 1 MaxRebinds = 1 Clock0 = 65534 Refresh = TRUE Ident16 = TRUE
          Svcs = {"M"} Phased = FALSE V6N = 0 StyleAware = TRUE SvcWalkable = TRUE
INVARIANT TypeOK
INVARIANT Reach
INVARIANT LanMeet
INVARIANT AsksPuncture
INVARIANT HandsOutCurrent
INVARIANT HoldsWorking
INVARIANT IdentFits
CHECK_DEADLOCK TRUE
