SPECIFICATION Spec
CONSTANTS N = 6 UCap = 8 WakeAll = TRUE WithContent = FALSE
INVARIANT TypeOK
INVARIANT OnlyValidConnected
INVARIANT Complete
INVARIANT NeverBad
INVARIANT WaitingAreDisjoint
INVARIANT ContentBound
INVARIANT PublicRoundTrip
INVARIANT PathRoundTrip
