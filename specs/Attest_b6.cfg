SPECIFICATION Spec
CONSTANTS BitSpace = 6 Honest = TRUE
INVARIANT TypeOK
INVARIANT SubProfile
INVARIANT AggIsAnswers
INVARIANT Reconstructs
INVARIANT TrueValueScores
INVARIANT OtherProfilesZero
