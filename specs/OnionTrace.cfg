SPECIFICATION TraceSpec
CONSTANTS
 Node = {"o", "r1", "r2", "x"}
 Adv = "adv"
 Flags <- FlagsT
 Cands <- CandsT
 FirstHops <- FirstT
 MaxJoined = 100
 MaxEarly = 8
 Tries = 6
 NextHop = 10000 Unstable = 60000 CacheTO = 10000 Inactive = 20000 RemoveDelay = 5000 SweepEvery = 5000 PingEvery = 7500
 MaxTime = 3600000
 CreateGuard = TRUE
 MaxCircuits = 1000 MaxData = 100000 MaxLoss = 100000 MaxDup = 100000 MaxAdv = 100000 MaxNow = 2000000000
 Goals = {1, 2, 3}
 Origins = {"o"}
 AdvKinds = {}
 NodeRank <- RankT
 AdvSrcs = {"adv"}
 TrackWire = TRUE
 UseIds = TRUE
 NodeTeardown = TRUE
 MayVanish = TRUE
 SweepRelays = TRUE
 TestCells = TRUE
 E2E = FALSE
 Aead = TRUE
 CheckIdent = TRUE
 RelayOnce = TRUE
 CandsGuard = TRUE
 DataGuard = TRUE
 SuspendJoin = FALSE
 JoinCacheFirst = TRUE
 AutoTimers = FALSE
INVARIANT TraceAccepted
INVARIANT ExitIntegrity
INVARIANT ReturnIntegrity
INVARIANT LayerDepth
INVARIANT NoRepeatOnLinks
INVARIANT ExitOnlyOwn
INVARIANT NoForeignKey
INVARIANT KeyAgreement
INVARIANT RelayEarlyBudget
INVARIANT Reclaimed
PROPERTY EntriesStable
PROPERTY DestroyOnlyFromNeighbour
PROPERTY UnknownCellsInert
PROPERTY AnswerMustMatch
PROPERTY JoinLimit
