\* as ExitPolicy_reconf_quick.cfg: four flag sets may be configured, all sources, one more step
SPECIFICATION Spec
CONSTANTS QCap = 2 MaxPend = 1 MaxOps = 6
          NoInboundFilter = FALSE NoNullCheck = FALSE AnyoneOpens = FALSE
          RepIds = {1, 4, 7}
          TrackHistory = FALSE FlowCache = "none" HostIps = {"x"} HostPorts = {1}
          StaleVerdict = "none" HopFollowsPeer = FALSE VerdictMemo = "none"
          FlagChoices = {{}, {"BT"}, {"IPV8", "RELAY"}, {"BT", "IPV8", "RELAY"}} SignedSrcs = {"prev", "port", "other"}
          SrcSet = {"prev", "port", "other"} DkSet = {"v4", "v6", "dom4"}
INVARIANT TypeOK
INVARIANT EmitOnlyAllowed
INVARIANT NeverToNull
INVARIANT OpenedOnlyByPrevHop
INVARIANT EmitOnlyWhenOpen
INVARIANT QueueClean
INVARIANT VerdictByOwnShape
