------------------------- MODULE TunnelEndpointTrace -------------------------
(* Histories recorded from the real TunnelEndpoint / TunnelCommunity (harness/drivers/c07.py)      *)
(* judged by the ABSTRACT layer of TunnelEndpoint.tla only: the configuration (anonymity switch,   *)
(* attached tunnel community, hop count) evolves from the logged calls, the circuits table is the  *)
(* logged environment, and what each step emitted (raw socket / send_data) and left in the queue   *)
(* must be allowed by StepAllowed.  Nothing of the implementation layer is demanded here.          *)
(* WHO ASKED evolves from the logged life-cycle calls alone (header: the instances built at the    *)
(* start; events "load" = Community(anonymize = v) for prefix p, "unload" = instance i unloaded,   *)
(* "setanon" = explicit set_anonymity): the switch inside the endpoint is never consulted, a send  *)
(* is judged by KindOf(sending instance).                                                          *)
(* WHICH CIRCUIT IS READY: `closing` of a logged circuit is what the harness did to it (took it    *)
(* down by Circuit.close / remove_circuit in any of CloseWays), not what the object reports; the   *)
(* removal timers (due) belong to the implementation layer and are not consulted here.             *)
EXTENDS TunnelEndpoint, Json, IOUtils, TLCExt

Traces == JsonDeserialize(IOEnv.TRACE_FILE)

VARIABLES tid, l
tvars == <<vars, tid, l>>

Ev == Traces[tid].events

TraceInit == /\ tid \in 1..Len(Traces) /\ l = 1
             /\ insts = [i \in 1..Len(Traces[tid].insts) |->
                          [p |-> Traces[tid].insts[i].p, req |-> Traces[tid].insts[i].req, loaded |-> TRUE]]
             /\ asked = [p \in Pfx |-> \E i \in 1..Len(Traces[tid].insts) :
                                           Traces[tid].insts[i].p = p /\ Traces[tid].insts[i].req]
             /\ anon = asked
             /\ attached = Traces[tid].attached
             /\ hopsCfg = Traces[tid].hops
             /\ cand = FALSE /\ ncirc = 0
             /\ circuits = Traces[tid].circs        \* the table at the start (header)
             /\ due = <<>> /\ queue = <<>> /\ nsent = 0 /\ out = <<>>
             /\ last = [kind |-> "env", pkt |-> 0] /\ depth = 0

(* the judgement is made on the logged values (no primed variables below a quantifier: TLC would *)
(* otherwise recurse once per queue element; "TRUE = ..." makes it evaluate the judgement as a value) *)
TraceNext ==
  /\ l <= Len(Ev)
  /\ LET e     == Ev[l]
         att2  == IF e.a = "attach" THEN TRUE ELSE IF e.a = "detach" THEN FALSE ELSE attached
         hops2 == IF e.a = "attach" THEN e.h ELSE IF e.a = "detach" THEN 1 ELSE hopsCfg
         kind  == IF e.a = "send" THEN KindOf(insts, asked, e.i) ELSE "env"
         pkt   == IF e.a = "send" THEN e.pkt ELSE 0
     IN
       /\ e.a \in {"send", "unload"} => e.i \in DOMAIN insts
       /\ TRUE = Judge(kind, pkt, {pkt}, queue, e.queue, e.out, attached, hopsCfg, circuits, att2, hops2, e.circs)
       /\ insts' = IF e.a = "setanon" THEN InstsAfterSet(insts, e.p, e.v)
                   ELSE IF e.a = "load" THEN InstsAfterLoad(insts, e.p, e.v)
                   ELSE IF e.a = "unload" THEN InstsAfterUnload(insts, e.i) ELSE insts
       /\ asked' = IF e.a = "setanon" THEN AskedAfterSet(asked, e.p, e.v)
                   ELSE IF e.a = "load" THEN AskedAfterLoad(asked, e.p, e.v) ELSE asked
       /\ anon' = asked'
       /\ attached' = att2 /\ hopsCfg' = hops2
       /\ circuits' = e.circs /\ queue' = e.queue /\ out' = e.out
       /\ nsent' = IF e.a = "send" THEN e.pkt ELSE nsent
       /\ last' = [kind |-> kind, pkt |-> pkt]
  /\ l' = l + 1 /\ UNCHANGED <<tid, cand, ncirc, depth, due>>

TraceSpec == TraceInit /\ [][TraceNext]_tvars

(* total verdict: a trace is rejected exactly when some logged event is not an allowed step *)
TraceAccepted == l <= Len(Ev) => ENABLED TraceNext
(* for a batch of falsified histories (negative controls): every one of them has to get stuck   *)
(* before its end - the one that is accepted to the end shows up as the violating tid           *)
NoneAccepted == l <= Len(Ev)
=============================================================================
