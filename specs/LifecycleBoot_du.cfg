SPECIFICATION Spec
CONSTANTS
 Boots <- B12
 Kind <- KindDU
 ConfIPs <- IPsDU
 Names <- NamesDU
 DnsAddr = {"D"}
 Others = {"X"}
 TO = 2
 MaxT = 2
 NoEnsure = FALSE NoRate = FALSE LeakSocket = FALSE
INVARIANT TypeOK
INVARIANT ContactedBlacklisted
INVARIANT NoPeerAfterContact
INVARIANT RateLimit
INVARIANT InitOnce
INVARIANT BootIPsBlacklisted
INVARIANT QuietAfterUnload
INVARIANT SocketsClosed
PROPERTY BlacklistMonotone
PROPERTY ForeignIgnored
