SPECIFICATION Spec
CONSTANTS P = 10007 PinnedAdd = FALSE Seed = 0 NX = 0 NY = 0 NZ = 0
CONSTANT Exps <- ExpsStd
CONSTANT DomX <- Dom01
CONSTANT DomY <- Dom01
CONSTANT DomZ <- DomOneZ
INVARIANT TypeOK
INVARIANT MulFromDefinition
INVARIANT ImplRefines
