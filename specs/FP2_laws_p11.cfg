SPECIFICATION Spec
CONSTANTS P = 11 PinnedAdd = FALSE Seed = 0 NX = 30 NY = 30 NZ = 12
CONSTANT Exps <- ExpsWide
CONSTANT DomX <- DomMixX
CONSTANT DomY <- DomMixY
CONSTANT DomZ <- DomMixZ
INVARIANT TypeOK
INVARIANT MulFromDefinition
INVARIANT AddCommutes
INVARIANT MulCommutes
INVARIANT AddAssoc
INVARIANT MulAssoc
INVARIANT Distributes
INVARIANT SubIsAddNeg
INVARIANT Identities
INVARIANT DivThenMul
INVARIANT InverseLaw
INVARIANT PolyInverse
INVARIANT CanonIsValue
INVARIANT EqIsCanonEq
INVARIANT PowLaw
INVARIANT ImplRefines
