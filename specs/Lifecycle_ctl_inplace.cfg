SPECIFICATION Spec
CONSTANTS
 Ov = {1, 2, 3}
 ConfOv <- Seq12
 St = {1, 2, 3, 4}
 ConfSt <- Seq123
 OvOf <- OvOfB
 Target <- TargetB
 WI = 3
 MaxPeers = 2
 WithAnon = FALSE
 StaleTick = FALSE LeTarget = FALSE CloseEarly = FALSE InPlace = TRUE
INVARIANT TypeOK
INVARIANT StepOnlyLoaded
INVARIANT StepBelowTarget
INVARIANT StepOnlyRunning
INVARIANT PassComplete
INVARIANT Registered
INVARIANT UnloadOnce
INVARIANT StopComplete
INVARIANT TickerAlive
INVARIANT EndpointLast
INVARIANT AnonIndependent
