SPECIFICATION Spec
CONSTANTS
  Ifaces = {"v4"}
  Listeners = {"A"}
  Prefixes = {"p1"}
  AddrKinds = {"c4"}
  Sizes = {23}
  MsgIds = {1}
  WithStats = FALSE
  Closing = TRUE
  ClosedSendRaises = FALSE
  Explicit = FALSE
  MaxBytes = 23
  MaxMsgs = 1
  DupGeneral = FALSE
  StatsForwards = TRUE
  SendWhileClosing = TRUE
CONSTRAINT Bound
INVARIANT SendRouting
