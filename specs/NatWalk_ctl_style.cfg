SPECIFICATION Spec
CONSTANTS K = 1 SendPuncture = TRUE PunctureFirst = TRUE FollowAll = FALSE MaxId = 40 QuietCalls = TRUE
          APlaces = {"nat"} CandPlaces = {"nat"}
          MaxContactsA = 2 MaxContactsB = 1
          MinContacts = 1 MaxRebinds = 0 Clock0 = 0 Refresh = TRUE Ident16 = TRUE
          Svcs = {"M"} Phased = FALSE V6N = 1 StyleAware = FALSE SvcWalkable = TRUE
INVARIANT Reach
CHECK_DEADLOCK FALSE
