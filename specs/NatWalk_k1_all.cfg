SPECIFICATION Spec
CONSTANTS K = 1 SendPuncture = TRUE PunctureFirst = TRUE FollowAll = TRUE MaxId = 60 QuietCalls = TRUE
          APlaces = {"pub", "nat"} CandPlaces = {"pub", "nat", "withA", "withI"}
          MaxContactsA = 2 MaxContactsB = 2
INVARIANT TypeOK
INVARIANT Reach
INVARIANT LanMeet
INVARIANT AsksPuncture
CHECK_DEADLOCK TRUE
