SPECIFICATION Spec
CONSTANTS N = 2 UCap = 2 WakeAll = TRUE WithContent = FALSE
          Views = {"full"} ReduceKey = FALSE WireStops = FALSE WireLen = 2
INVARIANT TypeOK
INVARIANT OnlyValidConnected
INVARIANT NeverBad
INVARIANT WaitingAreDisjoint
INVARIANT PublicRoundTrip
INVARIANT PublicReloadsClean
INVARIANT RetMeansContained
INVARIANT WireRetSound
INVARIANT Complete
