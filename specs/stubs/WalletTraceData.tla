---- MODULE WalletTraceData ----
(* stub for parsing only (setup.sh): harness/drivers/g03.py generates the real module per run into a scratch directory *)
EXTENDS Integers, TLC
TraceNodes == {}
TraceAdv == {}
TracePre == <<>>
TraceValues == {}
TraceTicks == {}
Traces == <<>>
====
