---------------------------- MODULE ReceiveTrace ----------------------------
(* Executions of the real receive path (harness/drivers/c03.py: real overlays of every class on a   *)
(* real UDPEndpoint whose transport is a recorder, fed through UDPEndpoint.datagram_received) checked *)
(* against Receive.tla with the real constants (22-byte prefixes, 4-byte circuit ids).                *)
(* Verdict (what C03 states): nothing raised, everyone registered was served, a handler ran only for  *)
(* its own prefix.  Separately counted: events that differ from the exact outcome Receive.tla computes *)
(* (drift) - a tighter binding that is reported but is not a verdict where the statement is silent.   *)
EXTENDS Receive, Json, IOUtils, TLCExt

Traces == JsonDeserialize(IOEnv.TRACE_FILE)

VARIABLES tid, l, bad, drift
tvars == <<vars, tid, l, bad, drift>>

Ev == Traces[tid].events

DescOf(d) == [kind |-> d.kind, prefix |-> d.prefix, handlers |-> Range(d.handlers), priv |-> Range(d.priv),
              comm |-> d.comm, anon |-> d.anon, tracked |-> Range(d.tracked), xbt |-> d.xbt, xipv8 |-> d.xipv8,
              dev |-> Dev]
NoTun == [circuits |-> {}, exits |-> {}, relays |-> <<>>, stale |-> {}, xon |-> {}]

TraceInit == /\ tid \in 1..Len(Traces) /\ l = 1 /\ bad = "" /\ drift = 0
             /\ desc = [i \in DOMAIN Traces[tid].desc |-> DescOf(Traces[tid].desc[i])]
             /\ tab = EmptyTab /\ open = TRUE /\ tun = NoTun
             /\ last = NoLast /\ nops = 0 /\ nrecv = 0

(* the logged projection of Endpoint._listeners / _prefix_map after a table operation *)
TabMatches(T, e) ==
  /\ T.glob = e.glob
  /\ DOMAIN T.pmap = {e.pmap[i].p : i \in DOMAIN e.pmap}
  /\ \A i \in DOMAIN e.pmap : T.pmap[e.pmap[i].p] = e.pmap[i].ls

(* wirings that manipulate the tables behind the endpoint's back (StatisticsEndpoint) hand the table over as is *)
TabOf(e) == LET pm == [pf \in {e.pmap[i].p : i \in DOMAIN e.pmap} |->
                         e.pmap[CHOOSE i \in DOMAIN e.pmap : e.pmap[i].p = pf].ls]
            IN [glob |-> e.glob, pmap |-> pm, gl |-> Range(e.glob),
                reg |-> {r \in UNION {{<<pm[pf][i], pf>> : i \in DOMAIN pm[pf]} : pf \in DOMAIN pm} :
                           r[1] \notin Range(e.glob)}]

(* a table operation of the code, judged on the table it left: "evicted" - someone who asked for a prefix (or for  *)
(* everything) and has not left is no longer among the listeners a datagram with that prefix is handed to (what the *)
(* statement demands: the other overlays still get the datagram); "table" - any other difference from the spec's table *)
TabReason(T, e) == IF ~Serves(TabOf(e), T.reg, T.gl) THEN "evicted" ELSE IF ~TabMatches(T, e) THEN "table" ELSE ""

TunOf(e) == [circuits |-> Range(e.circuits), exits |-> Range(e.exits),
             relays |-> [c \in {e.relays[i].cid : i \in DOMAIN e.relays} |->
                           LET r == e.relays[CHOOSE i \in DOMAIN e.relays : e.relays[i].cid = c]
                           IN [dir |-> r.dir, count |-> r.count, to |-> r.to, rdv |-> r.rdv]],
             stale |-> Range(e.stale), xon |-> Range(e.xon)]
(* what the table actions are compared on (the relay_early counters move with the deliveries only) *)
Shape(t) == [c |-> t.circuits, x |-> t.exits, r |-> DOMAIN t.relays, stale |-> t.stale, xon |-> t.xon]
(* heart beats the spec tracks itself (relay routes, circuits), on the entries both sides know *)
BeatsAgree(t, u) == \A s \in Entries(t) \cap Entries(u) : s[1] \in {"r", "c"} => (s \in t.stale <=> s \in u.stale)
XPktOf(e) == [len |-> e.len, head |-> e.head, lastb |-> e.lastb]

PktOf(e) == [len |-> e.len, head |-> e.head, enc |-> e.enc, inner |-> e.inner]

(* the property, on one recorded delivery *)
RecvReason(e) ==
  LET p == PktOf(e)
      rl == e.log
      servedRec == {rl[i].l : i \in DOMAIN rl}
  IN IF e.raised \/ \E i \in DOMAIN rl : rl[i].raised THEN "raised"
     ELSE IF e.via = "udp" /\ open /\ ~(ShouldServe(p) \subseteq servedRec) THEN "unserved"
     ELSE IF \E i \in DOMAIN rl : \E j \in DOMAIN rl[i].h :
                rl[i].h[j][1] \in {"h", "c"} /\ Pfx(p) # desc[Owner(rl[i].l)].prefix THEN "isolation"
     ELSE ""
RecvExact(e) == e.log = Deliver(PktOf(e), e.via, e.ft) /\ ~e.raised

Verdict(reason, exact) ==
  /\ bad' = IF bad # "" THEN bad ELSE reason
  /\ drift' = IF exact THEN drift ELSE drift + 1
  /\ (reason # "" => PrintT(<<"C03BAD", tid, l, reason>>))
  /\ ((~exact /\ drift < 3) => PrintT(<<"C03DRIFT", tid, l>>))

TraceNext ==
  /\ l <= Len(Ev)
  /\ LET e == Ev[l] IN
       CASE e.op = "add"  -> AddListener(e.l) /\ LET why == TabReason(AddL(tab, e.l), e) IN Verdict(why, why = "")
         [] e.op = "addp" -> AddPrefixListener(e.l, e.p) /\ LET why == TabReason(AddP(tab, e.l, e.p), e) IN Verdict(why, why = "")
         [] e.op = "rem"  -> RemoveListener(e.l) /\ LET why == TabReason(RemL(tab, e.l), e) IN Verdict(why, why = "")
         [] e.op = "tabset" -> /\ tab' = TabOf(e) /\ UNCHANGED <<desc, open, tun, last, nops, nrecv>>
                               /\ Verdict("", TRUE)
         [] e.op = "open" -> SetOpen(e.b) /\ Verdict("", TRUE)
         [] e.op = "tables" -> /\ tun' = TunOf(e) /\ UNCHANGED <<desc, tab, open, last, nops, nrecv>>
                               /\ Verdict("", BeatsAgree(tun, TunOf(e)))
         \* circuits / relay pairs / rendezvous links / exit sockets put in place (the circuit protocol: C04, C05, C08)
         [] e.op = "install" -> /\ tun' = TunOf(e) /\ UNCHANGED <<desc, tab, open, last, nops, nrecv>>
                                /\ Verdict("", TRUE)
         \* the table actions were run on the real node (remove_relay / remove_circuit / remove_exit_socket, the clock,
         \* do_circuits -> do_remove): the tables they left are taken over, a difference from the spec's result is drift
         [] e.op = "rmtun" -> /\ tun' = TunOf(e) /\ last' = NoLast /\ UNCHANGED <<desc, tab, open, nops, nrecv>>
                              /\ Verdict("", <<e.t, e.cid>> \in Entries(tun)
                                              /\ Shape(TunOf(e)) = Shape(DropEntries(tun, {<<e.t, e.cid>>})))
         [] e.op = "tick"  -> /\ tun' = TunOf(e) /\ last' = NoLast /\ UNCHANGED <<desc, tab, open, nops, nrecv>>
                              /\ Verdict("", Shape(TunOf(e)) = Shape(TickOf(tun)))
         [] e.op = "sweep" -> /\ tun' = TunOf(e) /\ last' = NoLast /\ UNCHANGED <<desc, tab, open, nops, nrecv>>
                              /\ Verdict("", Shape(TunOf(e)) = Shape(SweepOf(tun)))
         \* a datagram at a socket the tables do not hold is no execution of the node ("nosocket": the log is wrong)
         [] e.op = "xrecv" -> IF e.xc \in tun.xon
                              THEN /\ ExitReceive(e.o, e.xc, XPktOf(e), e.fam)
                                   /\ Verdict(IF e.raised THEN "raised" ELSE "",
                                              ~e.raised /\ e.fwd = ExitOut(e.o, XPktOf(e), e.fam).rel)
                              ELSE UNCHANGED vars /\ Verdict("nosocket", FALSE)
         [] e.op = "recv" -> Receive(PktOf(e), e.via, e.ft) /\ Verdict(RecvReason(e), RecvExact(e))
  /\ l' = l + 1 /\ UNCHANGED tid

TraceSpec == TraceInit /\ [][TraceNext]_tvars

TraceAccepted == bad = ""
=============================================================================
