SPECIFICATION LSpec
CONSTANTS Addrs = {} Keys = {} Signers = {"S1", "S2"} OwnSigner = "S1" MaxVer = 2 Datas = {"a", "b"} UData = {"a", "b"}
          Forged = TRUE Sizes = FALSE Multi = FALSE Base = 2 Scale = 1 MaxRot = 0 MaxClock = 0 InitCloser = 7 MaxCloser = 7
          MaxIssued = 0 PeerStore = FALSE Locals = FALSE EqReplaces = TRUE OtherTokens = {} MaxStored = 8
          KeepSecrets = 2 CleanAll = TRUE Validity = 0 RotatePeriod = 0 ExpiredYields = FALSE MaxSeen = 3
INVARIANT RefSound
INVARIANT RefComplete
