SPECIFICATION Spec
CONSTANTS
  Pinned = {"advice"}
  Pads = {0}
  FmtSel = {}
  ClsSel = {"messaging.payload.IntroductionRequestPayload"}
  K = 4
INVARIANT RoundTrip
