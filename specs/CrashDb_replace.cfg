SPECIFICATION Spec
CONSTANTS MaxRecs = 2 MaxCalls = 2 MaxRuns = 2 CommitBeforeReturn = TRUE TolerantVersionRead = TRUE
          AtomicUpgrade = TRUE Legacy = FALSE MaxBatches = 1 GateResetOnError = TRUE ReloadWait = 0 MaxDepth = 1 EnterKeepsPending = TRUE ParentFirst = TRUE
CONSTANTS MaxVers = 2 TokenConflict = "replace" MaxFaults = 0 CommitErrorRaises = TRUE
INVARIANT TypeOK
INVARIANT AckedUnchanged
INVARIANT AckedDurable
INVARIANT NoPartialRecord
INVARIANT ReopenOk
INVARIANT PseudonymVerifies
INVARIANT RebuiltHasAcked
INVARIANT RebuiltVerifies
