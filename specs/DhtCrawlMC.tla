----------------------------- MODULE DhtCrawlMC -----------------------------
(* exhaustive configurations of DhtCrawl.tla: every answer a contacted node can give, every small routing table *)
EXTENDS DhtCrawl

(* ---- answer universes for exhaustive configurations (cfg: Worlds <- WorldsNodes2 etc.) *)
SeqsUpTo(S, n) == UNION {[1..k -> S] : k \in 0..n}
Distinct(s) == \A i, j \in 1..Len(s) : i # j => s[i] # s[j]
NodeLists(n, len) == {s \in SeqsUpTo(Node \ {n}, len) : Distinct(s)}
AnsNodes2 == [n \in Node |-> {[vals |-> <<>>, nodes |-> s] : s \in NodeLists(n, 2)}
                               \cup {[vals |-> <<1>>, nodes |-> <<>>], [vals |-> <<2, 1>>, nodes |-> <<>>]}]
AnsNodes3 == [n \in Node |-> {[vals |-> <<>>, nodes |-> s] : s \in NodeLists(n, 3)}
                               \cup {[vals |-> <<1>>, nodes |-> <<>>], [vals |-> <<2, 1>>, nodes |-> <<>>]}]
AllRTs == {S \in SUBSET Node : S # {}}
SmallRTs == {S \in SUBSET Node : S # {} /\ Cardinality(S) <= 2}
WorldsNodes2 == <<[ans |-> AnsNodes2, rts |-> SmallRTs]>>
WorldsNodes3 == <<[ans |-> AnsNodes3, rts |-> AllRTs]>>
=============================================================================
