SPECIFICATION Spec
CONSTANTS ArrBE = FALSE Lenient = FALSE Alphabet = {0, 1, 2, 3} MaxLen = 6
CONSTANT Formats <- MCFormats
INVARIANT SometimesOk
