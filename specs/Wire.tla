------------------------------- MODULE Wire -------------------------------
(* Byte-level reference codec of the IPv8 wire format (C02, C03 strict decoder, C20).                  *)
(*                                                                                                      *)
(* Written from doc/reference/serialization.rst (section "Datatypes": names, byte widths, big-endian,   *)
(* length prefixes and their units) - NOT from ipv8/messaging/serialization.py.  Formats that the       *)
(* document does not list (ip_address, address, varlenIutf8, flags, node-list) follow the protocol      *)
(* description in the class docstrings: address-type byte 1 = IPv4, 2 = host name, 3 = IPv6; the        *)
(* flags short is the OR of the flag values; a DHT node is <ip_address><varlenH public key>.            *)
(*                                                                                                      *)
(* Value model (what crosses the TLC / Python boundary):                                                *)
(*   1 and 2 byte unsigned ints .. TLC integers                                                         *)
(*   4 and 8 byte unsigned ints .. sequences of 16-bit limbs, most significant first (TLC ints are 32   *)
(*                                 bit); the reference turns limbs into big-endian bytes itself         *)
(*   signed ints ................ [neg, mag] with mag in limbs; the reference does the two's complement *)
(*   byte strings ............... Seq(0..255);  text .. sequence of Unicode code points (UTF-8 is done  *)
(*                                by the reference);  f / d .. the 4 / 8 IEEE bytes (layout trusted)    *)
(*   addresses .................. [kind |-> "v4"|"v6"|"dom", ip |-> bytes, host |-> code points, port]  *)
(*   messages ................... records  logical field name |-> value                                 *)
(*                                                                                                      *)
(* Shape: one action per public call of the Serializer: Pack, Unpack (at an offset inside surrounding   *)
(* bytes), Repack (pack what was decoded).                                                              *)
EXTENDS Naturals, Sequences, FiniteSets, TLC, Json, IOUtils

CONSTANTS Pinned,      \* names of deviations of the pinned code that are switched on; {} = documented / repaired
          Pads,        \* start offsets explored
          FmtSel,      \* registered format names explored by the model (kind "fmt")
          ClsSel,      \* message classes explored by the model (kinds "msg", "nest", "list")
          K            \* number of value vectors per message class

(* ------------------------------------------------------------------------------------------------ *)
(* bytes, integers                                                                                    *)
(* ------------------------------------------------------------------------------------------------ *)
Sub(d, off, n)  == SubSeq(d, off + 1, off + n)
Fits(d, off, n) == off + n <= Len(d)
R(v, e) == [ok |-> TRUE, val |-> v, end |-> e]
Err     == [ok |-> FALSE, val |-> <<>>, end |-> 0]

RECURSIVE CatN(_, _)
CatN(f, n) == IF n = 0 THEN <<>> ELSE CatN(f, n - 1) \o f[n]

Rev(s) == [i \in 1..Len(s) |-> s[Len(s) + 1 - i]]

U8(v)  == <<v>>
U16(v) == <<v \div 256, v % 256>>
LimbBytes(ls) == CatN([i \in 1..Len(ls) |-> U16(ls[i])], Len(ls))
BytesLimbs(x) == [i \in 1..(Len(x) \div 2) |-> x[2 * i - 1] * 256 + x[2 * i]]

Compl(ls) == [i \in 1..Len(ls) |-> 65535 - ls[i]]
RECURSIVE IncL(_)
IncL(ls) == IF Len(ls) = 0 THEN <<>>
            ELSE LET n == Len(ls) IN
                 IF ls[n] < 65535 THEN [i \in 1..n |-> IF i = n THEN ls[n] + 1 ELSE ls[i]]
                 ELSE Append(IncL(SubSeq(ls, 1, n - 1)), 0)
NegL(ls) == IncL(Compl(ls))
IsZero(ls) == \A i \in 1..Len(ls) : ls[i] = 0
ToTwos(v)    == IF v.neg THEN NegL(v.mag) ELSE v.mag
FromTwos(ls) == IF ls[1] >= 32768 THEN [neg |-> TRUE, mag |-> NegL(ls)] ELSE [neg |-> FALSE, mag |-> ls]

(* length prefix of lw bytes holding the count n (n is a TLC integer, < 2^31) *)
EncLen(lw, n) == IF lw = 1 THEN U8(n) ELSE IF lw = 2 THEN U16(n) ELSE U16(n \div 65536) \o U16(n % 65536)
DecLen(lw, d, off) ==
  IF ~Fits(d, off, lw) THEN Err
  ELSE LET x == Sub(d, off, lw) IN
       IF lw = 1 THEN R(x[1], off + 1)
       ELSE IF lw = 2 THEN R(x[1] * 256 + x[2], off + 2)
       ELSE IF x[1] >= 64 THEN Err          \* promises >= 2^30 items: more than any buffer holds
       ELSE R(((x[1] * 256 + x[2]) * 65536) + x[3] * 256 + x[4], off + 4)

(* ------------------------------------------------------------------------------------------------ *)
(* UTF-8 (RFC 3629)                                                                                   *)
(* ------------------------------------------------------------------------------------------------ *)
EncCp(c) == IF c < 128 THEN <<c>>
            ELSE IF c < 2048 THEN <<192 + (c \div 64), 128 + (c % 64)>>
            ELSE IF c < 65536 THEN <<224 + (c \div 4096), 128 + ((c \div 64) % 64), 128 + (c % 64)>>
            ELSE <<240 + (c \div 262144), 128 + ((c \div 4096) % 64), 128 + ((c \div 64) % 64), 128 + (c % 64)>>
RECURSIVE EncUtf8(_)
EncUtf8(s) == IF Len(s) = 0 THEN <<>>
              ELSE IF Len(s) = 1 THEN EncCp(s[1])
              ELSE LET m == Len(s) \div 2 IN EncUtf8(SubSeq(s, 1, m)) \o EncUtf8(SubSeq(s, m + 1, Len(s)))
Cont(b) == b >= 128 /\ b < 192
LegalCp(c) == c >= 0 /\ c <= 1114111 /\ ~(c >= 55296 /\ c <= 57343)
RECURSIVE DecU(_, _, _)
DecU(b, i, acc) ==
  IF i > Len(b) THEN R(acc, 0)
  ELSE LET c == b[i] IN
    IF c < 128 THEN DecU(b, i + 1, Append(acc, c))
    ELSE IF c >= 194 /\ c < 224 THEN
      IF i + 1 <= Len(b) /\ Cont(b[i + 1]) THEN DecU(b, i + 2, Append(acc, (c - 192) * 64 + (b[i + 1] - 128))) ELSE Err
    ELSE IF c >= 224 /\ c < 240 THEN
      IF i + 2 <= Len(b) /\ Cont(b[i + 1]) /\ Cont(b[i + 2])
      THEN LET cp == (c - 224) * 4096 + (b[i + 1] - 128) * 64 + (b[i + 2] - 128) IN
           IF cp >= 2048 /\ LegalCp(cp) THEN DecU(b, i + 3, Append(acc, cp)) ELSE Err
      ELSE Err
    ELSE IF c >= 240 /\ c < 245 THEN
      IF i + 3 <= Len(b) /\ Cont(b[i + 1]) /\ Cont(b[i + 2]) /\ Cont(b[i + 3])
      THEN LET cp == (c - 240) * 262144 + (b[i + 1] - 128) * 4096 + (b[i + 2] - 128) * 64 + (b[i + 3] - 128) IN
           IF cp >= 65536 /\ LegalCp(cp) THEN DecU(b, i + 4, Append(acc, cp)) ELSE Err
      ELSE Err
    ELSE Err
DecUtf8(b) == DecU(b, 1, <<>>)

(* ------------------------------------------------------------------------------------------------ *)
(* registered formats (doc/reference/serialization.rst, table "Available data types")                 *)
(* ------------------------------------------------------------------------------------------------ *)
(* TLC pre-computes a constant definition only when its body applies no user-defined operator with  *)
(* parameters, so the tables below are written with literals and zero-arity names only.               *)
U1 == [t |-> "u", n |-> 1]
U2 == [t |-> "u", n |-> 2]
U4 == [t |-> "u", n |-> 4]
U8x == [t |-> "u", n |-> 8]
S4 == [t |-> "s", n |-> 4]
S8 == [t |-> "s", n |-> 8]
BO == [t |-> "bool", n |-> 1]
BY1 == [t |-> "bytes", n |-> 1]           \* 'c'
BY4 == [t |-> "bytes", n |-> 4]           \* also the opaque IEEE bytes of 'f'
BY8 == [t |-> "bytes", n |-> 8]           \* also the opaque IEEE bytes of 'd'
BY20 == [t |-> "bytes", n |-> 20]
BY32 == [t |-> "bytes", n |-> 32]
BY64 == [t |-> "bytes", n |-> 64]
BY74 == [t |-> "bytes", n |-> 74]

Reg ==
  ("?" :> [k |-> "struct", c |-> <<BO>>]) @@ ("B" :> [k |-> "struct", c |-> <<U1>>]) @@ ("BBH" :> [k |-> "struct", c |-> <<U1, U1, U2>>]) @@
  ("BH" :> [k |-> "struct", c |-> <<U1, U2>>]) @@ ("c" :> [k |-> "struct", c |-> <<BY1>>]) @@ ("f" :> [k |-> "struct", c |-> <<BY4>>]) @@ ("d" :> [k |-> "struct", c |-> <<BY8>>]) @@
  ("H" :> [k |-> "struct", c |-> <<U2>>]) @@ ("HH" :> [k |-> "struct", c |-> <<U2, U2>>]) @@ ("I" :> [k |-> "struct", c |-> <<U4>>]) @@ ("l" :> [k |-> "struct", c |-> <<S4>>]) @@
  ("LL" :> [k |-> "struct", c |-> <<U4, U4>>]) @@ ("q" :> [k |-> "struct", c |-> <<S8>>]) @@ ("Q" :> [k |-> "struct", c |-> <<U8x>>]) @@
  ("QH" :> [k |-> "struct", c |-> <<U8x, U2>>]) @@ ("QL" :> [k |-> "struct", c |-> <<U8x, U4>>]) @@
  ("QQHHBH" :> [k |-> "struct", c |-> <<U8x, U8x, U2, U2, U1, U2>>]) @@ ("ccB" :> [k |-> "struct", c |-> <<BY1, BY1, U1>>]) @@
  ("4SH" :> [k |-> "struct", c |-> <<BY4, U2>>]) @@ ("20s" :> [k |-> "struct", c |-> <<BY20>>]) @@ ("32s" :> [k |-> "struct", c |-> <<BY32>>]) @@
  ("64s" :> [k |-> "struct", c |-> <<BY64>>]) @@ ("74s" :> [k |-> "struct", c |-> <<BY74>>]) @@ ("c20s" :> [k |-> "struct", c |-> <<BY1, BY20>>]) @@
  ("bits" :> [k |-> "bits"]) @@ ("ipv4" :> [k |-> "ipv4"]) @@
  ("ip_address" :> [k |-> "addr", dom |-> FALSE]) @@ ("address" :> [k |-> "addr", dom |-> TRUE]) @@
  ("raw" :> [k |-> "raw"]) @@
  ("varlenBx2" :> [k |-> "varlen", lw |-> 1, unit |-> 2, utf8 |-> FALSE]) @@ ("varlenH" :> [k |-> "varlen", lw |-> 2, unit |-> 1, utf8 |-> FALSE]) @@ ("varlenHutf8" :> [k |-> "varlen", lw |-> 2, unit |-> 1, utf8 |-> TRUE]) @@
  ("varlenIutf8" :> [k |-> "varlen", lw |-> 4, unit |-> 1, utf8 |-> TRUE]) @@ ("varlenHx20" :> [k |-> "varlen", lw |-> 2, unit |-> 20, utf8 |-> FALSE]) @@ ("varlenI" :> [k |-> "varlen", lw |-> 4, unit |-> 1, utf8 |-> FALSE]) @@
  ("doublevarlenH" :> [k |-> "varlen", lw |-> 2, unit |-> 1, utf8 |-> FALSE]) @@
  ("varlenH-list" :> [k |-> "list", of |-> "varlenH"]) @@
  ("payload" :> [k |-> "payload"]) @@ ("payload-list" :> [k |-> "list", of |-> "payload"]) @@
  ("arrayH-?" :> [k |-> "array", it |-> BO]) @@ ("arrayH-q" :> [k |-> "array", it |-> S8]) @@
  ("arrayH-d" :> [k |-> "array", it |-> BY8]) @@
  ("flags" :> [k |-> "flags"]) @@ ("node-list" :> [k |-> "list", of |-> "node"]) @@
  ("node" :> [k |-> "node"])                 \* internal: the item format of node-list

(* the "bytes" column of the document for the fixed-size formats ("32s/64s/74s" are printed as 20 in   *)
(* the document - an obvious copy error next to "str (length 32/64/74)": the described length is used) *)
DocSize ==
  ("?" :> 1) @@ ("B" :> 1) @@ ("BBH" :> 4) @@ ("BH" :> 3) @@ ("c" :> 1) @@ ("f" :> 4) @@ ("d" :> 8) @@ ("H" :> 2) @@
  ("HH" :> 4) @@ ("I" :> 4) @@ ("l" :> 4) @@ ("LL" :> 8) @@ ("q" :> 8) @@ ("Q" :> 8) @@ ("QH" :> 10) @@ ("QL" :> 12) @@
  ("QQHHBH" :> 23) @@ ("ccB" :> 3) @@ ("4SH" :> 6) @@ ("20s" :> 20) @@ ("32s" :> 32) @@ ("64s" :> 64) @@
  ("74s" :> 74) @@ ("c20s" :> 21) @@ ("bits" :> 1) @@ ("ipv4" :> 6)

RegisteredNames == DOMAIN Reg \ {"node"}
ModelFmts       == RegisteredNames \ {"payload", "payload-list"}   \* those two are explored per message class

(* ------------------------------------------------------------------------------------------------ *)
(* message table: every Serializable shipped under ipv8/ (key = module path without "ipv8." + class)  *)
(* wire   : sequence of [fmt, cls, names]  (cls only for payload / payload-list)                      *)
(* fields : sequence of [name, type, cls]  logical fields = constructor arguments = attributes        *)
(* hand   : TRUE for hand-written to_pack_list / from_unpack_list pairs (ToWire / FromWire below)      *)
(* ------------------------------------------------------------------------------------------------ *)
CI  == <<"I", "circuit_id">>
IDH == <<"H", "identifier">>
IDI == <<"I", "identifier">>
AN  == "messaging.anonymization.payload."

(* raw rows: <<"base">> | <<"vp", wire items>> | <<"hand", wire formats, logical fields <<name, type>> >>   *)
(* raw wire item: <<fmt, name>> | <<"bits", 8 names>> | <<"payload" or "payload-list", name, class>>        *)
MsgTable ==
  \* ---- abstract / empty bases
  ("messaging.serialization.Payload" :> <<"base">>) @@
  ("messaging.lazy_payload.VariablePayload" :> <<"base">>) @@
  ("messaging.lazy_payload.VariablePayloadWID" :> <<"base">>) @@
  ("messaging.payload_dataclass.DataClassPayload" :> <<"base">>) @@
  ("messaging.payload_dataclass.DataClassPayloadWID" :> <<"base">>) @@
  ("messaging.anonymization.payload.CellablePayload" :> <<"base">>) @@
  \* ---- ipv8/messaging/payload.py
  ("messaging.payload.IntroductionRequestPayload" :>
     <<"hand", <<"ipv4", "ipv4", "ipv4", "bits", "H", "raw">>,
          <<<<"destination_address", "ipv4">>, <<"source_lan_address", "ipv4">>, <<"source_wan_address", "ipv4">>,
            <<"advice", "bool">>, <<"connection_type", "conntype">>, <<"identifier", "H">>,
            <<"extra_bytes", "raw">>, <<"supports_new_style", "bool">>>>>>) @@
  ("messaging.payload.IntroductionResponsePayload" :>
     <<"hand", <<"ipv4", "ipv4", "ipv4", "ipv4", "ipv4", "bits", "H", "raw">>,
          <<<<"destination_address", "ipv4">>, <<"source_lan_address", "ipv4">>, <<"source_wan_address", "ipv4">>,
            <<"lan_introduction_address", "ipv4">>, <<"wan_introduction_address", "ipv4">>,
            <<"connection_type", "conntype">>, <<"identifier", "H">>, <<"extra_bytes", "raw">>,
            <<"supports_new_style", "bool">>, <<"intro_supports_new_style", "bool">>,
            <<"peer_limit_reached", "bool">>>>>>) @@
  ("messaging.payload.PunctureRequestPayload" :>
     <<"hand", <<"ipv4", "ipv4", "H">>,
          <<<<"lan_walker_address", "ipv4">>, <<"wan_walker_address", "ipv4">>, <<"identifier", "H">>>>>>) @@
  ("messaging.payload.PuncturePayload" :>
     <<"hand", <<"ipv4", "ipv4", "H">>,
          <<<<"source_lan_address", "ipv4">>, <<"source_wan_address", "ipv4">>, <<"identifier", "H">>>>>>) @@
  ("messaging.payload.NewIntroductionRequestPayload" :>
     <<"vp", <<<<"ip_address", "destination_address">>, <<"ip_address", "source_lan_address">>,
          <<"ip_address", "source_wan_address">>, IDH,
          <<"bits", "connection_type_0", "connection_type_1", "supports_new_style", "dflag1", "dflag2", "tunnel",
                "sync", "advice">>, <<"raw", "extra_bytes">>>>>>) @@
  ("messaging.payload.NewIntroductionResponsePayload" :>
     <<"vp", <<<<"ip_address", "destination_address">>, <<"ip_address", "source_lan_address">>,
          <<"ip_address", "source_wan_address">>, <<"ip_address", "lan_introduction_address">>,
          <<"ip_address", "wan_introduction_address">>, IDH,
          <<"bits", "intro_supports_new_style", "flag1", "flag2", "flag3", "flag4", "flag5", "flag6", "flag7">>,
          <<"raw", "extra_bytes">>>>>>) @@
  ("messaging.payload.NewPunctureRequestPayload" :>
     <<"vp", <<<<"ip_address", "lan_walker_address">>, <<"ip_address", "wan_walker_address">>, IDH>>>>) @@
  ("messaging.payload.NewPuncturePayload" :>
     <<"vp", <<<<"ip_address", "source_lan_address">>, <<"ip_address", "source_wan_address">>, IDH>>>>) @@
  \* ---- ipv8/messaging/payload_headers.py
  ("messaging.payload_headers.BinMemberAuthenticationPayload" :>
     <<"hand", <<"varlenH">>, <<<<"public_key_bin", "varlenH">>>>>>) @@
  ("messaging.payload_headers.GlobalTimeDistributionPayload" :>
     <<"hand", <<"Q">>, <<<<"global_time", "Q">>>>>>) @@
  \* ---- ipv8/peerdiscovery/payload.py
  ("peerdiscovery.payload.SimilarityRequestPayload" :>
     <<"hand", <<"H", "ipv4", "ipv4", "bits", "raw">>,
          <<<<"identifier", "H">>, <<"lan_address", "ipv4">>, <<"wan_address", "ipv4">>,
            <<"connection_type", "conntype">>, <<"preference_list", "list20">>>>>>) @@
  ("peerdiscovery.payload.SimilarityResponsePayload" :>
     <<"hand", <<"H", "varlenHx20", "raw">>,
          <<<<"identifier", "H">>, <<"preference_list", "list20">>, <<"tb_overlap", "tblist">>>>>>) @@
  ("peerdiscovery.payload.PingPayload" :> <<"hand", <<"H">>, <<<<"identifier", "H">>>>>>) @@
  ("peerdiscovery.payload.PongPayload" :> <<"hand", <<"H">>, <<<<"identifier", "H">>>>>>) @@
  ("peerdiscovery.payload.DiscoveryIntroductionRequestPayload" :>
     <<"hand", <<"c20s", "ipv4", "ipv4", "ipv4", "bits", "H", "raw">>,
          <<<<"introduce_to", "20s">>, <<"destination_address", "ipv4">>, <<"source_lan_address", "ipv4">>,
            <<"source_wan_address", "ipv4">>, <<"advice", "bool">>, <<"connection_type", "conntype">>,
            <<"identifier", "H">>, <<"extra_bytes", "raw">>>>>>) @@
  \* ---- ipv8/dht/payload.py, ipv8/dht/provider.py
  ("dht.payload.PingRequestPayload" :> <<"vp", <<IDI>>>>) @@
  ("dht.payload.PingResponsePayload" :> <<"vp", <<IDI>>>>) @@
  ("dht.payload.StoreRequestPayload" :>
     <<"vp", <<IDI, <<"20s", "token">>, <<"20s", "target">>, <<"varlenH-list", "values">>>>>>) @@
  ("dht.payload.StoreResponsePayload" :> <<"vp", <<IDI>>>>) @@
  ("dht.payload.FindRequestPayload" :>
     <<"vp", <<IDI, <<"ip_address", "lan_address">>, <<"20s", "target">>, <<"I", "offset">>, <<"?", "force_nodes">>>>>>) @@
  ("dht.payload.FindResponsePayload" :>
     <<"vp", <<IDI, <<"20s", "token">>, <<"varlenH-list", "values">>, <<"node-list", "nodes">>>>>>) @@
  ("dht.payload.StorePeerRequestPayload" :> <<"vp", <<IDI, <<"20s", "token">>, <<"20s", "target">>>>>>) @@
  ("dht.payload.StorePeerResponsePayload" :> <<"vp", <<IDI>>>>) @@
  ("dht.payload.ConnectPeerRequestPayload" :>
     <<"vp", <<IDI, <<"ip_address", "lan_address">>, <<"20s", "target">>>>>>) @@
  ("dht.payload.ConnectPeerResponsePayload" :> <<"vp", <<IDI, <<"node-list", "nodes">>>>>>) @@
  ("dht.payload.StrPayload" :> <<"vp", <<<<"raw", "data">>>>>>) @@
  ("dht.payload.SignedStrPayload" :>
     <<"vp", <<<<"varlenH", "data">>, <<"I", "version">>, <<"varlenH", "public_key">>>>>>) @@
  ("dht.provider.DHTIntroPointPayload" :>
     <<"vp", <<<<"ip_address", "address">>, <<"I", "last_seen">>, <<"varlenH", "intro_pk">>, <<"varlenH", "seeder_pk">>>>>>) @@
  \* ---- ipv8/messaging/anonymization/payload.py
  (AN \o "ExtraIntroductionPayload" :> <<"vp", <<<<"flags", "flags">>>>>>) @@
  (AN \o "DataPayload" :>
     <<"vp", <<CI, <<"address", "dest_address">>, <<"address", "org_address">>, <<"raw", "data">>>>>>) @@
  (AN \o "CreatePayload" :> <<"vp", <<CI, IDH, <<"varlenH", "node_public_key">>, <<"varlenH", "key">>>>>>) @@
  (AN \o "CreatedPayload" :>
     <<"vp", <<CI, IDH, <<"varlenH", "key">>, <<"32s", "auth">>, <<"raw", "candidates_enc">>>>>>) @@
  (AN \o "ExtendPayload" :>
     <<"vp", <<CI, IDH, <<"varlenH", "node_public_key">>, <<"varlenH", "key">>, <<"ip_address", "node_addr">>>>>>) @@
  (AN \o "ExtendedPayload" :>
     <<"vp", <<CI, IDH, <<"varlenH", "key">>, <<"32s", "auth">>, <<"raw", "candidates_enc">>>>>>) @@
  (AN \o "PingPayload" :> <<"vp", <<CI, IDH>>>>) @@
  (AN \o "PongPayload" :> <<"vp", <<CI, IDH>>>>) @@
  (AN \o "DestroyPayload" :> <<"vp", <<CI, <<"H", "reason">>>>>>) @@
  (AN \o "EstablishIntroPayload" :> <<"vp", <<CI, IDH, <<"20s", "info_hash">>, <<"varlenH", "public_key">>>>>>) @@
  (AN \o "IntroEstablishedPayload" :> <<"vp", <<CI, IDH>>>>) @@
  (AN \o "EstablishRendezvousPayload" :> <<"vp", <<CI, IDH, <<"20s", "cookie">>>>>>) @@
  (AN \o "RendezvousEstablishedPayload" :> <<"vp", <<CI, IDH, <<"ip_address", "rendezvous_point_addr">>>>>>) @@
  (AN \o "CreateE2EPayload" :>
     <<"vp", <<IDH, <<"20s", "info_hash">>, <<"varlenH", "node_public_key">>, <<"varlenH", "key">>>>>>) @@
  (AN \o "CreatedE2EPayload" :>
     <<"vp", <<IDH, <<"varlenH", "key">>, <<"32s", "auth">>, <<"raw", "rp_info_enc">>>>>>) @@
  (AN \o "LinkE2EPayload" :> <<"vp", <<CI, IDH, <<"20s", "cookie">>>>>>) @@
  (AN \o "LinkedE2EPayload" :> <<"vp", <<CI, IDH>>>>) @@
  (AN \o "PeersRequestPayload" :> <<"vp", <<CI, IDH, <<"20s", "info_hash">>>>>>) @@
  (AN \o "IntroductionInfo" :>
     <<"vp", <<<<"ip_address", "address">>, <<"varlenH", "key">>, <<"varlenH", "seeder_pk">>, <<"B", "source">>>>>>) @@
  (AN \o "PeersResponsePayload" :>
     <<"vp", <<CI, IDH, <<"20s", "info_hash">>, <<"payload-list", "peers", AN \o "IntroductionInfo">>>>>>) @@
  (AN \o "RendezvousInfo" :> <<"vp", <<<<"ip_address", "address">>, <<"varlenH", "key">>, <<"20s", "cookie">>>>>>) @@
  (AN \o "TestRequestPayload" :> <<"vp", <<CI, IDH, <<"H", "response_size">>, <<"raw", "data">>>>>>) @@
  (AN \o "TestResponsePayload" :> <<"vp", <<CI, IDH, <<"raw", "data">>>>>>) @@
  \* ---- ipv8/attestation/wallet/payload.py
  ("attestation.wallet.payload.RequestAttestationPayload" :> <<"hand", <<"raw">>, <<<<"metadata", "raw">>>>>>) @@
  ("attestation.wallet.payload.VerifyAttestationRequestPayload" :>
     <<"hand", <<"20s">>, <<<<"attestation_hash", "20s">>>>>>) @@
  ("attestation.wallet.payload.AttestationChunkPayload" :>
     <<"hand", <<"20s", "H", "raw">>,
          <<<<"attestation_hash", "20s">>, <<"sequence_number", "H">>, <<"data", "raw">>>>>>) @@
  ("attestation.wallet.payload.ChallengePayload" :>
     <<"hand", <<"20s", "raw">>, <<<<"attestation_hash", "20s">>, <<"challenge", "raw">>>>>>) @@
  ("attestation.wallet.payload.ChallengeResponsePayload" :>
     <<"hand", <<"20s", "raw">>, <<<<"challenge_hash", "20s">>, <<"response", "raw">>>>>>) @@
  \* ---- ipv8/attestation/identity/payload.py
  ("attestation.identity.payload.DisclosePayload" :>
     <<"vp", <<<<"varlenH", "metadata">>, <<"varlenH", "tokens">>, <<"varlenH", "attestations">>,
          <<"varlenH", "authorities">>>>>>) @@
  ("attestation.identity.payload.AttestPayload" :> <<"vp", <<<<"varlenH", "attestation">>>>>>) @@
  ("attestation.identity.payload.RequestMissingPayload" :> <<"vp", <<<<"I", "known">>>>>>) @@
  ("attestation.identity.payload.MissingResponsePayload" :> <<"vp", <<<<"raw", "tokens">>>>>>)

Fd(name, type)      == [name |-> name, type |-> type, cls |-> ""]
NI(it) == [fmt |-> it[1], cls |-> IF it[1] \in {"payload", "payload-list"} THEN it[3] ELSE "",
           names |-> IF it[1] = "bits" THEN Tail(it) ELSE <<it[2]>>]
VPFieldsOf(it) == IF it.fmt = "bits" THEN [j \in 1..8 |-> Fd(it.names[j], "bit")]
                  ELSE <<[name |-> it.names[1], type |-> it.fmt, cls |-> it.cls]>>
W(fmt)     == [fmt |-> fmt, cls |-> "", names |-> <<>>]
(* normalised row: [hand, base, wire: seq of [fmt, cls, names], fields: seq of [name, type, cls]] *)
Msg(cls) ==
  LET r == MsgTable[cls] IN
  CASE r[1] = "base" -> [hand |-> FALSE, base |-> TRUE, wire |-> <<>>, fields |-> <<>>]
    [] r[1] = "vp"   -> LET wire == [i \in 1..Len(r[2]) |-> NI(r[2][i])] IN
                        [hand |-> FALSE, base |-> FALSE, wire |-> wire,
                         fields |-> CatN([i \in 1..Len(wire) |-> VPFieldsOf(wire[i])], Len(wire))]
    [] r[1] = "hand" -> [hand |-> TRUE, base |-> FALSE, wire |-> [i \in 1..Len(r[2]) |-> W(r[2][i])],
                         fields |-> [i \in 1..Len(r[3]) |-> Fd(r[3][i][1], r[3][i][2])]]

Classes     == DOMAIN MsgTable
BaseClasses == {c \in Classes : MsgTable[c][1] = "base"}
HandClasses == {c \in Classes : MsgTable[c][1] = "hand"}

(* ---- hand-written payloads: logical fields <-> wire values.                                        *)
(* Flag byte of the (Dispersy) introduction messages: connection type in the two most significant     *)
(* bits, 'advice' in the least significant bit of an introduction request.                            *)
B01(x) == IF x THEN 1 ELSE 0
CT(ct) == IF ct = "public" THEN <<1, 0>> ELSE IF ct = "symmetric-NAT" THEN <<1, 1>> ELSE <<0, 0>>
DecCT(a, b) == IF a = 0 /\ b = 0 THEN "unknown" ELSE IF a = 1 /\ b = 0 THEN "public"
               ELSE IF a = 1 /\ b = 1 THEN "symmetric-NAT" ELSE "N/A"
Chunks(raw, n) == [i \in 1..((Len(raw) + n - 1) \div n) |->
                     SubSeq(raw, n * (i - 1) + 1, IF n * i < Len(raw) THEN n * i ELSE Len(raw))]
Advice(bit) == IF "advice" \in Pinned THEN bit = 0 ELSE bit = 1       \* pinned code: [True, False][bit]

HandToWire(cls, f) ==
  CASE cls = "messaging.payload.IntroductionRequestPayload" ->
         <<f.destination_address, f.source_lan_address, f.source_wan_address,
           <<CT(f.connection_type)[1], CT(f.connection_type)[2], B01(f.supports_new_style), 0, 0, 0, 0, B01(f.advice)>>,
           f.identifier, f.extra_bytes>>
    [] cls = "messaging.payload.IntroductionResponsePayload" ->
         <<f.destination_address, f.source_lan_address, f.source_wan_address, f.lan_introduction_address,
           f.wan_introduction_address,
           <<CT(f.connection_type)[1], CT(f.connection_type)[2], 0, B01(f.supports_new_style),
             B01(f.intro_supports_new_style), B01(f.peer_limit_reached), 0, 0>>,
           f.identifier, f.extra_bytes>>
    [] cls = "messaging.payload.PunctureRequestPayload" -> <<f.lan_walker_address, f.wan_walker_address, f.identifier>>
    [] cls = "messaging.payload.PuncturePayload" -> <<f.source_lan_address, f.source_wan_address, f.identifier>>
    [] cls = "messaging.payload_headers.BinMemberAuthenticationPayload" -> <<f.public_key_bin>>
    [] cls = "messaging.payload_headers.GlobalTimeDistributionPayload" -> <<f.global_time>>
    [] cls = "peerdiscovery.payload.SimilarityRequestPayload" ->
         <<f.identifier, f.lan_address, f.wan_address,
           <<CT(f.connection_type)[1], CT(f.connection_type)[2], 0, 0, 0, 0, 0, 0>>,
           CatN(f.preference_list, Len(f.preference_list))>>
    [] cls = "peerdiscovery.payload.SimilarityResponsePayload" ->
         <<f.identifier, CatN(f.preference_list, Len(f.preference_list)),
           CatN([i \in 1..Len(f.tb_overlap) |-> f.tb_overlap[i][1] \o LimbBytes(f.tb_overlap[i][2])], Len(f.tb_overlap))>>
    [] cls \in {"peerdiscovery.payload.PingPayload", "peerdiscovery.payload.PongPayload"} -> <<f.identifier>>
    [] cls = "peerdiscovery.payload.DiscoveryIntroductionRequestPayload" ->
         << <<(<<89>>), f.introduce_to>>,      \* 'Y' + the 20 byte member id
           f.destination_address, f.source_lan_address, f.source_wan_address,
           <<CT(f.connection_type)[1], CT(f.connection_type)[2], 1, 0, 0, 0, 0, B01(f.advice)>>,
           f.identifier, f.extra_bytes>>
    [] cls = "attestation.wallet.payload.RequestAttestationPayload" -> <<f.metadata>>
    [] cls = "attestation.wallet.payload.VerifyAttestationRequestPayload" -> <<f.attestation_hash>>
    [] cls = "attestation.wallet.payload.AttestationChunkPayload" -> <<f.attestation_hash, f.sequence_number, f.data>>
    [] cls = "attestation.wallet.payload.ChallengePayload" -> <<f.attestation_hash, f.challenge>>
    [] cls = "attestation.wallet.payload.ChallengeResponsePayload" -> <<f.challenge_hash, f.response>>

HandFromWire(cls, w) ==
  CASE cls = "messaging.payload.IntroductionRequestPayload" ->
         [destination_address |-> w[1], source_lan_address |-> w[2], source_wan_address |-> w[3],
          advice |-> Advice(w[4][8]), connection_type |-> DecCT(w[4][1], w[4][2]), identifier |-> w[5],
          extra_bytes |-> w[6], supports_new_style |-> w[4][3] = 1]
    [] cls = "messaging.payload.IntroductionResponsePayload" ->
         [destination_address |-> w[1], source_lan_address |-> w[2], source_wan_address |-> w[3],
          lan_introduction_address |-> w[4], wan_introduction_address |-> w[5],
          connection_type |-> DecCT(w[6][1], w[6][2]), identifier |-> w[7], extra_bytes |-> w[8],
          supports_new_style |-> w[6][4] = 1, intro_supports_new_style |-> w[6][5] = 1,
          peer_limit_reached |-> w[6][6] = 1]
    [] cls = "messaging.payload.PunctureRequestPayload" ->
         [lan_walker_address |-> w[1], wan_walker_address |-> w[2], identifier |-> w[3]]
    [] cls = "messaging.payload.PuncturePayload" ->
         [source_lan_address |-> w[1], source_wan_address |-> w[2], identifier |-> w[3]]
    [] cls = "messaging.payload_headers.BinMemberAuthenticationPayload" -> [public_key_bin |-> w[1]]
    [] cls = "messaging.payload_headers.GlobalTimeDistributionPayload" -> [global_time |-> w[1]]
    [] cls = "peerdiscovery.payload.SimilarityRequestPayload" ->
         [identifier |-> w[1], lan_address |-> w[2], wan_address |-> w[3],
          connection_type |-> DecCT(w[4][1], w[4][2]), preference_list |-> Chunks(w[5], 20)]
    [] cls = "peerdiscovery.payload.SimilarityResponsePayload" ->
         [identifier |-> w[1], preference_list |-> Chunks(w[2], 20),
          tb_overlap |-> [i \in 1..(Len(w[3]) \div 24) |->
                            <<Sub(w[3], 24 * (i - 1), 20), BytesLimbs(Sub(w[3], 24 * (i - 1) + 20, 4))>>]]
    [] cls \in {"peerdiscovery.payload.PingPayload", "peerdiscovery.payload.PongPayload"} -> [identifier |-> w[1]]
    [] cls = "peerdiscovery.payload.DiscoveryIntroductionRequestPayload" ->
         [introduce_to |-> IF "introduce_to" \in Pinned THEN <<w[1][2]>> ELSE w[1][2],   \* pinned: introduce_to[1:]
          destination_address |-> w[2], source_lan_address |-> w[3], source_wan_address |-> w[4],
          advice |-> Advice(w[5][8]), connection_type |-> DecCT(w[5][1], w[5][2]), identifier |-> w[6],
          extra_bytes |-> w[7]]
    [] cls = "attestation.wallet.payload.RequestAttestationPayload" -> [metadata |-> w[1]]
    [] cls = "attestation.wallet.payload.VerifyAttestationRequestPayload" -> [attestation_hash |-> w[1]]
    [] cls = "attestation.wallet.payload.AttestationChunkPayload" ->
         [attestation_hash |-> w[1], sequence_number |-> w[2], data |-> w[3]]
    [] cls = "attestation.wallet.payload.ChallengePayload" -> [attestation_hash |-> w[1], challenge |-> w[2]]
    [] cls = "attestation.wallet.payload.ChallengeResponsePayload" -> [challenge_hash |-> w[1], response |-> w[2]]

VPToWire(m, f) == [i \in 1..Len(m.wire) |->
                     IF m.wire[i].fmt = "bits" THEN [j \in 1..8 |-> f[m.wire[i].names[j]]] ELSE f[m.wire[i].names[1]]]
VPFromWire(m, w) ==
  [n \in {m.fields[i].name : i \in 1..Len(m.fields)} |->
     LET wi == CHOOSE i \in 1..Len(m.wire) : \E j \in 1..Len(m.wire[i].names) : m.wire[i].names[j] = n
         wj == CHOOSE j \in 1..Len(m.wire[wi].names) : m.wire[wi].names[j] = n
     IN IF m.wire[wi].fmt = "bits" THEN w[wi][wj] ELSE w[wi]]
ToWire(cls, f)   == IF MsgTable[cls][1] = "hand" THEN HandToWire(cls, f) ELSE VPToWire(Msg(cls), f)
FromWire(cls, w) == IF MsgTable[cls][1] = "hand" THEN HandFromWire(cls, w) ELSE VPFromWire(Msg(cls), w)

(* ------------------------------------------------------------------------------------------------ *)
(* encoder                                                                                            *)
(* ------------------------------------------------------------------------------------------------ *)
EncC(c, v) == CASE c.t = "u" -> (IF c.n = 1 THEN U8(v) ELSE IF c.n = 2 THEN U16(v) ELSE LimbBytes(v))
                [] c.t = "s" -> LimbBytes(ToTwos(v))
                [] c.t = "bool" -> <<B01(v)>>
                [] c.t = "bytes" -> v
EncStruct(c, v) == IF Len(c) = 1 THEN EncC(c[1], v) ELSE CatN([i \in 1..Len(c) |-> EncC(c[i], v[i])], Len(c))

EncAddr(a) == CASE a.kind = "v4" -> <<1>> \o a.ip \o U16(a.port)
                [] a.kind = "v6" -> <<3>> \o a.ip \o U16(a.port)
                [] a.kind = "dom" -> LET h == EncUtf8(a.host) IN <<2>> \o U16(Len(h)) \o h \o U16(a.port)

Pow2(e) == 2 ^ e
RECURSIVE SumPow(_, _, _)
SumPow(v, lo, hi) == IF Len(v) = 0 THEN 0
                     ELSE (IF Head(v) >= lo /\ Head(v) <= hi THEN Pow2(Head(v) - lo) ELSE 0) + SumPow(Tail(v), lo, hi)

HostOrder == "array_host_order" \in Pinned     \* pinned code: array('q').tobytes() and pack("H", n): little-endian host

RECURSIVE EncF(_, _), EncMsg(_, _)
EncF(item, v) ==
  LET g == Reg[item.fmt] IN
  CASE g.k = "struct" -> EncStruct(g.c, v)
    [] g.k = "bits" -> <<v[1] * 128 + v[2] * 64 + v[3] * 32 + v[4] * 16 + v[5] * 8 + v[6] * 4 + v[7] * 2 + v[8]>>
    [] g.k = "ipv4" -> v.ip \o U16(v.port)
    [] g.k = "addr" -> EncAddr(v)
    [] g.k = "raw" -> v
    [] g.k = "varlen" -> LET b == IF g.utf8 THEN EncUtf8(v) ELSE v IN EncLen(g.lw, Len(b) \div g.unit) \o b
    [] g.k = "list" -> U8(Len(v)) \o CatN([i \in 1..Len(v) |-> EncF([fmt |-> g.of, cls |-> item.cls], v[i])], Len(v))
    [] g.k = "payload" -> LET b == EncMsg(item.cls, v) IN U16(Len(b)) \o b
    [] g.k = "array" -> (IF HostOrder THEN Rev(U16(Len(v))) ELSE U16(Len(v))) \o
                        CatN([i \in 1..Len(v) |-> IF HostOrder THEN Rev(EncC(g.it, v[i])) ELSE EncC(g.it, v[i])], Len(v))
    [] g.k = "flags" -> <<SumPow(v, 8, 15), SumPow(v, 0, 7)>>
    [] g.k = "node" -> EncAddr(v.address) \o U16(Len(v.key)) \o v.key
EncMsg(cls, f) == LET m == Msg(cls)
                      w == ToWire(cls, f)
                  IN CatN([i \in 1..Len(m.wire) |-> EncF(m.wire[i], w[i])], Len(m.wire))

(* ------------------------------------------------------------------------------------------------ *)
(* strict decoder: Err whenever the bytes promised are not there; result end = absolute offset        *)
(* ------------------------------------------------------------------------------------------------ *)
DecC(c, d, off) ==
  IF ~Fits(d, off, c.n) THEN Err
  ELSE LET x == Sub(d, off, c.n) IN
       R((CASE c.t = "u" -> (IF c.n = 1 THEN x[1] ELSE IF c.n = 2 THEN x[1] * 256 + x[2] ELSE BytesLimbs(x))
            [] c.t = "s" -> FromTwos(BytesLimbs(x))
            [] c.t = "bool" -> x[1] # 0
            [] c.t = "bytes" -> x), off + c.n)
RECURSIVE DecComps(_, _, _, _, _)
DecComps(c, i, d, off, acc) ==
  IF i > Len(c) THEN R(acc, off)
  ELSE LET r == DecC(c[i], d, off) IN IF ~r.ok THEN Err ELSE DecComps(c, i + 1, d, r.end, Append(acc, r.val))
DecStruct(c, d, off) == LET r == DecComps(c, 1, d, off, <<>>) IN
                        IF ~r.ok THEN Err ELSE IF Len(c) = 1 THEN R(r.val[1], r.end) ELSE r

DecAddr(dom, d, off) ==
  IF ~Fits(d, off, 1) THEN Err
  ELSE LET t == d[off + 1] IN
    IF t = 1 THEN (IF Fits(d, off, 7)
                   THEN R([kind |-> "v4", ip |-> Sub(d, off + 1, 4), port |-> d[off + 6] * 256 + d[off + 7]], off + 7)
                   ELSE Err)
    ELSE IF t = 3 THEN (IF Fits(d, off, 19)
                        THEN R([kind |-> "v6", ip |-> Sub(d, off + 1, 16), port |-> d[off + 18] * 256 + d[off + 19]], off + 19)
                        ELSE Err)
    ELSE IF t = 2 /\ dom THEN
      (IF ~Fits(d, off, 3) THEN Err
       ELSE LET n == d[off + 2] * 256 + d[off + 3] IN
            IF ~Fits(d, off, 5 + n) THEN Err
            ELSE LET h == DecUtf8(Sub(d, off + 3, n)) IN
                 IF ~h.ok THEN Err
                 ELSE R([kind |-> "dom", host |-> h.val, port |-> d[off + 4 + n] * 256 + d[off + 5 + n]], off + 5 + n))
    ELSE Err

BitSeq(n) == SelectSeq(<<0, 1, 2, 3, 4, 5, 6, 7, 8, 9, 10, 11, 12, 13, 14, 15>>, LAMBDA e : (n \div Pow2(e)) % 2 = 1)

RECURSIVE DecF(_, _, _), DecMsg(_, _, _), DecMany(_, _, _, _, _), DecWire(_, _, _, _, _)
DecMany(item, d, off, n, acc) ==
  IF n = 0 THEN R(acc, off)
  ELSE LET r == DecF(item, d, off) IN IF ~r.ok THEN Err ELSE DecMany(item, d, r.end, n - 1, Append(acc, r.val))
DecF(item, d, off) ==
  LET g == Reg[item.fmt] IN
  CASE g.k = "struct" -> DecStruct(g.c, d, off)
    [] g.k = "bits" -> IF ~Fits(d, off, 1) THEN Err
                       ELSE R([j \in 1..8 |-> (d[off + 1] \div Pow2(8 - j)) % 2], off + 1)
    [] g.k = "ipv4" -> IF ~Fits(d, off, 6) THEN Err
                       ELSE R([kind |-> "v4", ip |-> Sub(d, off, 4), port |-> d[off + 5] * 256 + d[off + 6]], off + 6)
    [] g.k = "addr" -> DecAddr(g.dom, d, off)
    [] g.k = "raw" -> IF off > Len(d) THEN Err ELSE R(Sub(d, off, Len(d) - off), Len(d))
    [] g.k = "varlen" ->
         LET l == DecLen(g.lw, d, off) IN
         IF ~l.ok THEN Err
         ELSE IF ~Fits(d, l.end, l.val * g.unit) THEN Err
         ELSE LET b == Sub(d, l.end, l.val * g.unit) IN
              IF g.utf8 THEN (LET t == DecUtf8(b) IN IF t.ok THEN R(t.val, l.end + Len(b)) ELSE Err)
              ELSE R(b, l.end + Len(b))
    [] g.k = "list" -> IF ~Fits(d, off, 1) THEN Err
                       ELSE DecMany([fmt |-> g.of, cls |-> item.cls], d, off + 1, d[off + 1], <<>>)
    [] g.k = "payload" ->
         IF ~Fits(d, off, 2) THEN Err
         ELSE LET n == d[off + 1] * 256 + d[off + 2] IN
              IF ~Fits(d, off + 2, n) THEN Err
              ELSE LET r == DecMsg(item.cls, Sub(d, off + 2, n), 0) IN
                   IF r.ok /\ r.end = n THEN R(r.val, off + 2 + n) ELSE Err
    [] g.k = "array" ->
         IF ~Fits(d, off, 2) THEN Err
         ELSE LET c == Sub(d, off, 2)
                  n == IF HostOrder THEN c[2] * 256 + c[1] ELSE c[1] * 256 + c[2] IN
              IF ~Fits(d, off + 2, n * g.it.n) THEN Err
              ELSE R([i \in 1..n |-> LET x == Sub(d, off + 2 + (i - 1) * g.it.n, g.it.n) IN
                                     DecC(g.it, IF HostOrder THEN Rev(x) ELSE x, 0).val], off + 2 + n * g.it.n)
    [] g.k = "flags" -> IF ~Fits(d, off, 2) THEN Err
                        ELSE R(BitSeq(d[off + 1] * 256 + d[off + 2]),
                               IF "flags_offset" \in Pinned THEN 2 ELSE off + 2)   \* pinned: returns self.size
    [] g.k = "node" ->
         LET a == DecAddr(FALSE, d, off) IN
         IF ~a.ok THEN Err
         ELSE LET k == DecF([fmt |-> "varlenH", cls |-> ""], d, a.end) IN
              IF ~k.ok THEN Err ELSE R([address |-> a.val, key |-> k.val], k.end)
DecWire(wire, i, d, off, acc) ==
  IF i > Len(wire) THEN R(acc, off)
  ELSE LET r == DecF(wire[i], d, off) IN IF ~r.ok THEN Err ELSE DecWire(wire, i + 1, d, r.end, Append(acc, r.val))
DecMsg(cls, d, off) == LET r == DecWire(Msg(cls).wire, 1, d, off, <<>>) IN
                       IF ~r.ok THEN Err ELSE R(FromWire(cls, r.val), r.end)

(* tunnel cell (CellPayload.to_bin / from_bin, always a whole datagram):                              *)
(* <22 byte overlay prefix><message id 0><circuit id: u32><plaintext: bool><relay_early: bool><message> *)
CellPrefix == [i \in 1..22 |-> (i * 37 + 99) % 256]
EncCell(v) == CellPrefix \o <<0>> \o LimbBytes(v.circuit_id) \o <<B01(v.plaintext), B01(v.relay_early)>> \o v.message
DecCell(d) == IF Len(d) < 29 THEN Err
              ELSE R([circuit_id |-> BytesLimbs(Sub(d, 23, 4)), plaintext |-> d[28] # 0, relay_early |-> d[29] # 0,
                      message |-> Sub(d, 29, Len(d) - 29)], Len(d))
(* one entry point for the kinds of thing that are packed *)
ItemOf(kind, fmt) == CASE kind = "fmt" -> [fmt |-> fmt, cls |-> ""]
                       [] kind = "nest" -> [fmt |-> "payload", cls |-> fmt]
                       [] kind = "list" -> [fmt |-> "payload-list", cls |-> fmt]
EncK(kind, fmt, v)      == IF kind = "msg" THEN EncMsg(fmt, v) ELSE IF kind = "cell" THEN EncCell(v) ELSE EncF(ItemOf(kind, fmt), v)
DecK(kind, fmt, d, off) == IF kind = "msg" THEN DecMsg(fmt, d, off) ELSE IF kind = "cell" THEN DecCell(d)
                           ELSE DecF(ItemOf(kind, fmt), d, off)
EndsRaw(kind, fmt) == \/ kind = "cell"
                      \/ kind = "fmt" /\ fmt = "raw"
                      \/ kind = "msg" /\ (LET w == Msg(fmt).wire IN Len(w) > 0 /\ w[Len(w)].fmt = "raw")
PadBytes(n) == SubSeq(<<222, 173, 190, 239>>, 1, n)
Trailer(kind, fmt) == IF EndsRaw(kind, fmt) THEN <<>> ELSE <<170, 85>>
Surround(kind, fmt, n, b) == PadBytes(n) \o b \o Trailer(kind, fmt)

(* ------------------------------------------------------------------------------------------------ *)
(* boundary domains (ordered, so that message vectors can be drawn diagonally)                        *)
(* ------------------------------------------------------------------------------------------------ *)
Pat(n, k) == [i \in 1..n |-> (i * 37 + k * 11) % 256]
Fill(n, x) == [i \in 1..n |-> x]
NodeKeys == IF "WIRE_KEYS" \in DOMAIN IOEnv THEN JsonDeserialize(IOEnv.WIRE_KEYS) ELSE <<Pat(74, 1), Pat(74, 2)>>

U4Dom == << <<0, 0>>, <<0, 1>>, <<1, 0>>, <<4660, 22136>>, <<32767, 65535>>, <<32768, 0>>, <<65535, 65534>>, <<65535, 65535>> >>
U8Dom == << <<0, 0, 0, 0>>, <<0, 0, 0, 1>>, <<0, 0, 1, 0>>, <<291, 17767, 35243, 52719>>, <<32767, 65535, 65535, 65535>>,
            <<32768, 0, 0, 0>>, <<65535, 65535, 65535, 65534>>, <<65535, 65535, 65535, 65535>> >>
Sg(neg, mag) == [neg |-> neg, mag |-> mag]
S4Dom == << Sg(FALSE, <<0, 0>>), Sg(FALSE, <<0, 1>>), Sg(TRUE, <<0, 1>>), Sg(FALSE, <<4660, 22136>>), Sg(TRUE, <<4660, 22136>>),
            Sg(FALSE, <<32767, 65535>>), Sg(TRUE, <<32767, 65535>>), Sg(TRUE, <<32768, 0>>), Sg(TRUE, <<1, 0>>) >>
S8Dom == << Sg(FALSE, <<0, 0, 0, 0>>), Sg(FALSE, <<0, 0, 0, 1>>), Sg(TRUE, <<0, 0, 0, 1>>),
            Sg(FALSE, <<291, 17767, 35243, 52719>>), Sg(TRUE, <<291, 17767, 35243, 52719>>),
            Sg(FALSE, <<32767, 65535, 65535, 65535>>), Sg(TRUE, <<32767, 65535, 65535, 65535>>),
            Sg(TRUE, <<32768, 0, 0, 0>>), Sg(TRUE, <<0, 1, 0, 0>>) >>
CompDom(c) ==
  CASE c.t = "bool" -> <<FALSE, TRUE>>
    [] c.t = "u" /\ c.n = 1 -> <<0, 1, 127, 128, 254, 255>>
    [] c.t = "u" /\ c.n = 2 -> <<0, 1, 255, 256, 4660, 32768, 65534, 65535>>
    [] c.t = "u" /\ c.n = 4 -> U4Dom
    [] c.t = "u" /\ c.n = 8 -> U8Dom
    [] c.t = "s" /\ c.n = 4 -> S4Dom
    [] c.t = "s" /\ c.n = 8 -> S8Dom
    [] c.t = "bytes" /\ c.n = 1 -> << <<0>>, <<89>>, <<255>> >>
    [] c.t = "bytes" /\ c.n = 4 -> << <<0, 0, 0, 0>>, <<63, 128, 0, 0>>, <<127, 128, 0, 0>>, <<128, 0, 0, 0>>, <<0, 0, 0, 1>>,
                                      <<192, 73, 15, 219>> >>
    [] c.t = "bytes" /\ c.n = 8 -> << <<0, 0, 0, 0, 0, 0, 0, 0>>, <<63, 240, 0, 0, 0, 0, 0, 0>>, <<127, 240, 0, 0, 0, 0, 0, 0>>,
                                      <<128, 0, 0, 0, 0, 0, 0, 0>>, <<0, 0, 0, 0, 0, 0, 0, 1>>, <<192, 9, 33, 251, 84, 68, 45, 24>> >>
    [] c.t = "bytes" /\ c.n > 8 -> <<Fill(c.n, 0), Pat(c.n, 1), Fill(c.n, 255), Pat(c.n, 7)>>
Diag(doms, i) == [j \in 1..Len(doms) |-> doms[j][((i * 5 + j * 3) % Len(doms[j])) + 1]]
MaxLen(doms) == CHOOSE n \in {Len(doms[j]) : j \in 1..Len(doms)} : \A j \in 1..Len(doms) : Len(doms[j]) <= n
StructDom(c) == IF Len(c) = 1 THEN CompDom(c[1])
                ELSE LET doms == [j \in 1..Len(c) |-> CompDom(c[j])] IN [i \in 1..(MaxLen(doms) + 2) |-> Diag(doms, i)]

V4(ip, port) == [kind |-> "v4", ip |-> ip, port |-> port]
V6(ip, port) == [kind |-> "v6", ip |-> ip, port |-> port]
Dm(h, port)  == [kind |-> "dom", host |-> h, port |-> port]
V4Dom == <<V4(<<0, 0, 0, 0>>, 0), V4(<<1, 2, 3, 4>>, 1), V4(<<127, 0, 0, 1>>, 8090), V4(<<192, 168, 1, 255>>, 256),
           V4(<<255, 255, 255, 255>>, 65535), V4(<<10, 0, 0, 200>>, 65534), V4(<<8, 8, 4, 4>>, 255)>>
V6Dom == <<V6(Fill(16, 0), 0), V6(Fill(15, 0) \o <<1>>, 1), V6(<<32, 1, 13, 184, 0, 0, 0, 0, 0, 0, 255, 0, 0, 66, 131, 41>>, 8090),
           V6(Fill(16, 255), 65535), V6(<<254, 128>> \o Fill(6, 0) \o Pat(8, 3), 256)>>
DmDom == <<Dm(<<97>>, 0), Dm(<<108, 111, 99, 97, 108, 104, 111, 115, 116>>, 8090),
           Dm(<<116, 114, 105, 98, 108, 101, 114, 46, 111, 114, 103>>, 65535),
           Dm(<<98, 252, 99, 104, 101, 114, 46, 101, 120, 97, 109, 112, 108, 101>>, 1),
           Dm(Fill(253, 120), 443)>>
BitsDom == [i \in 1..256 |-> [j \in 1..8 |-> ((i - 1) \div Pow2(8 - j)) % 2]]
BytesDom == << <<>>, <<0>>, <<255>>, Pat(2, 1), Pat(20, 2), Pat(255, 3), Pat(256, 4), Pat(257, 5), Pat(600, 6) >>
TextDom == << <<>>, <<97>>, <<104, 101, 108, 108, 111>>, <<0>>, <<127>>, <<128>>, <<2047>>, <<2048>>, <<55295>>, <<57344>>,
              <<65535>>, <<65536>>, <<1114111>>, <<97, 233, 8364, 128512, 122>>, Fill(300, 233) >>
NodeDom == LET nk == NodeKeys IN
           << [address |-> V4Dom[2], key |-> nk[1]], [address |-> V6Dom[3], key |-> nk[2]],
              [address |-> V4Dom[5], key |-> nk[((2) % Len(nk)) + 1]] >>

CellDom == LET ms == << <<>>, <<0>>, Pat(5, 2), Pat(300, 3) >> IN
           {[circuit_id |-> U4Dom[i], plaintext |-> (i % 2 = 0), relay_early |-> (i % 3 = 0), message |-> ms[(i % 4) + 1]] : i \in 1..8}

RECURSIVE TypeDom(_, _), MsgDomSeq(_)
TypeDom(t, cls) ==
  CASE t = "bit" -> <<0, 1>>
    [] t = "bool" -> <<FALSE, TRUE>>
    [] t = "conntype" -> <<"unknown", "public", "symmetric-NAT">>
    [] t = "list20" -> << <<>>, <<Pat(20, 1)>>, <<Pat(20, 2), Fill(20, 0), Pat(20, 3)>> >>
    [] t = "tblist" -> << <<>>, << <<Pat(20, 4), <<0, 1>> >> >>,
                          << <<Fill(20, 0), <<65535, 65535>> >>, <<Pat(20, 5), <<4660, 22136>> >> >> >>
    [] t = "payload" -> MsgDomSeq(cls)
    [] t = "payload-list" -> LET m == MsgDomSeq(cls) IN << <<>>, <<m[1]>>, <<m[2], m[1], m[Len(m)]>> >>
    [] t = "bits" -> BitsDom
    [] t = "ipv4" -> V4Dom
    [] t = "ip_address" -> V4Dom \o V6Dom
    [] t = "address" -> V4Dom \o V6Dom \o DmDom
    [] t = "raw" -> << <<>>, <<0>>, Pat(1, 1), Pat(5, 2), Pat(300, 3) >>
    [] t = "varlenBx2" -> << <<>>, Pat(2, 1), Pat(4, 2), Pat(508, 3), Pat(510, 4) >>
    [] t \in {"varlenH", "doublevarlenH", "varlenI"} -> BytesDom
    [] t \in {"varlenHutf8", "varlenIutf8"} -> TextDom
    [] t = "varlenHx20" -> << <<>>, Pat(20, 1), Pat(40, 2), Pat(260, 3) >>
    [] t = "varlenH-list" -> << <<>>, << <<>> >>, <<Pat(1, 1)>>, << <<>>, Pat(3, 2), <<>> >>, [i \in 1..255 |-> <<i>>],
                                <<Pat(300, 4), Pat(2, 5)>> >>
    [] t = "arrayH-?" -> << <<>>, <<TRUE>>, <<FALSE, TRUE, TRUE>>, Fill(257, TRUE) >>
    [] t = "arrayH-q" -> << <<>>, <<S8Dom[2]>>, S8Dom >>
    [] t = "arrayH-d" -> << <<>>, <<CompDom(BY8)[2]>>, CompDom(BY8) >>
    [] t = "flags" -> << <<>>, <<0>>, <<15>>, <<0, 2>>, <<7, 8>>, <<0, 1, 2, 3, 4, 5, 6, 7, 8, 9, 10, 11, 12, 13, 14, 15>> >>
    [] t = "node-list" -> << <<>>, <<NodeDom[1]>>, NodeDom >>
    [] t \in DOMAIN Reg /\ Reg[t].k = "struct" -> StructDom(Reg[t].c)
MsgDomSeq(cls) ==
  LET fs   == Msg(cls).fields
      doms == [j \in 1..Len(fs) |-> TypeDom(fs[j].type, fs[j].cls)] IN
  [i \in 1..K |-> [n \in {fs[j].name : j \in 1..Len(fs)} |->
                     LET fj == CHOOSE j \in 1..Len(fs) : fs[j].name = n IN doms[fj][((i * 5 + fj * 3) % Len(doms[fj])) + 1]]]
Range(f) == {f[x] : x \in DOMAIN f}
ValDom(kind, fmt) ==
  CASE kind = "fmt" -> Range(TypeDom(fmt, ""))
    [] kind \in {"msg", "nest"} -> Range(MsgDomSeq(fmt))
    [] kind = "list" -> Range(TypeDom("payload-list", fmt))
    [] kind = "cell" -> CellDom

(* ------------------------------------------------------------------------------------------------ *)
(* the model                                                                                          *)
(* ------------------------------------------------------------------------------------------------ *)
VARIABLES kind, fmt, val, pad, bytes, data, dec, re, phase
vars == <<kind, fmt, val, pad, bytes, data, dec, re, phase>>

Init == /\ phase = "chosen" /\ bytes = <<>> /\ data = <<>> /\ dec = Err /\ re = <<>>
        /\ \/ kind = "fmt" /\ fmt \in FmtSel
           \/ kind \in {"msg", "nest", "list"} /\ fmt \in ClsSel \ BaseClasses
           \/ kind = "cell" /\ fmt = "cell" /\ "raw" \in FmtSel
        /\ val \in ValDom(kind, fmt)
        /\ pad \in Pads /\ (kind = "cell" => pad = 0)

Pack   == /\ phase = "chosen"
          /\ bytes' = EncK(kind, fmt, val)
          /\ phase' = "packed"
          /\ UNCHANGED <<kind, fmt, val, pad, data, dec, re>>
Unpack == /\ phase = "packed"
          /\ data' = Surround(kind, fmt, pad, bytes)
          /\ dec' = DecK(kind, fmt, data', pad)
          /\ phase' = "unpacked"
          /\ UNCHANGED <<kind, fmt, val, pad, bytes, re>>
Repack == /\ phase = "unpacked" /\ dec.ok
          /\ re' = EncK(kind, fmt, dec.val)
          /\ phase' = "done"
          /\ UNCHANGED <<kind, fmt, val, pad, bytes, data, dec>>
Next == Pack \/ Unpack \/ Repack
Spec == Init /\ [][Next]_vars

(* ------------------------------------- properties ------------------------------------------------ *)
Decoded == phase \in {"unpacked", "done"}
RoundTrip        == Decoded => dec.ok /\ dec.val = val
ExactConsumption == Decoded => dec.ok /\ dec.end = pad + Len(bytes)
ReEncode         == phase = "done" => re = bytes
DocWidth         == (kind = "fmt" /\ fmt \in DOMAIN DocSize /\ phase # "chosen") => Len(bytes) = DocSize[fmt]
IsPrefix(a, b)   == Len(a) <= Len(b) /\ SubSeq(b, 1, Len(a)) = a
(* no legal encoding is a prefix of another one (self-delimiting formats; 'raw' is not, by definition) *)
PrefixFree       == (kind = "fmt" /\ phase = "packed" /\ pad = 0 /\ fmt # "raw") =>
                       \A w \in ValDom(kind, fmt) : w # val => ~IsPrefix(bytes, EncK(kind, fmt, w))
(* a cut encoding is never accepted: the strict decoder reports Err for every proper prefix *)
TruncationRejected == (phase = "packed" /\ pad = 0 /\ ~EndsRaw(kind, fmt) /\ Len(bytes) > 0) =>
                       ~DecK(kind, fmt, SubSeq(bytes, 1, Len(bytes) - 1), 0).ok
=============================================================================
