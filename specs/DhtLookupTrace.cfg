SPECIFICATION LSpec
CONSTANTS Addrs = {} Keys = {} Signers = {} OwnSigner = "" MaxVer = 0 Datas = {} UData = {}
          Forged = FALSE Sizes = FALSE Multi = FALSE Base = 3600 Scale = 1000 MaxRot = 0 MaxClock = 0 InitCloser = 0 MaxCloser = 0
          MaxIssued = 0 PeerStore = FALSE Locals = FALSE EqReplaces = TRUE OtherTokens = {} MaxStored = 0
          KeepSecrets = 2 CleanAll = TRUE Validity = 0 RotatePeriod = 0 ExpiredYields = FALSE
INVARIANT AllLookupsOK
