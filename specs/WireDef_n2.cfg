SPECIFICATION DSpec
CONSTANTS
  Pinned = {}
  Pads = {}
  FmtSel = {}
  ClsSel = {}
  K = 1
  DefKinds = {"H", "bits", "varlenH", "?", "raw"}
  MinFields = 1
  MaxFields = 2
  DeriveMax = 2
  DeriveUses = {"msg"}
  Styles = {"plain", "compiled", "dataclass"}
  DefUses = {"msg", "nest", "list"}
  DefK = 2
  DefKN = 1
  DevModes = {{}, {"rules_by_format_count", "base_only"}}
INVARIANT DRoundTrip
INVARIANT DExactConsumption
INVARIANT DReEncode
INVARIANT DefTruncationRejected
INVARIANT CtlRules
INVARIANT CtlDerive
