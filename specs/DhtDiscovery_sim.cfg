SPECIFICATION Spec
CONSTANTS Nodes = {1, 2, 3} Adv = {3} Storers = {1, 2} Connectors = {1, 2} AltAddr = {9} AdvReqTargets = {1, 2} AdvRespTargets = {1, 2}
          ConnKeys = {1, 2, 3} ConnPings = {0, 1, 2, 3}
          Acts = {"token", "rotate", "store", "connect", "pingall", "adv-spresp", "adv-cpresp", "adv-pong"}
          Timeout = 1 PingInterval = 5 KeepAlive = 12 Enough = 2 MaxFind = 8
          Jumps = {1, 4, 13} MaxClock = 60 MaxId = 12 MaxEpoch = 2 MaxSent = 30
          EmptyKeyHit = FALSE PingTimeoutOk = FALSE NoTokenCheck = FALSE NoTargetCheck = FALSE AckFromSender = FALSE
          NoSweep = FALSE NoPuncture = FALSE PunctSwapped = FALSE SendRefused = FALSE PongUnsolicitedResets = FALSE
CONSTANT TokenPairs <- TP_all
CONSTANT FindSets <- FS_all
CONSTRAINT Bound
INVARIANT TypeOK
INVARIANT StoreAuth
INVARIANT StoreForMeAcked
INVARIANT ConnectExact
INVARIANT RefusedNotSent
INVARIANT ConnectResult
INVARIANT UnsolicitedInert
INVARIANT SweptFresh
PROPERTY KeepAlive_P
