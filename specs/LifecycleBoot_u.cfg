SPECIFICATION Spec
CONSTANTS
 Boots <- B1
 Kind <- KindU
 ConfIPs <- IPsU
 Names <- NamesU
 DnsAddr = {}
 Others = {"X", "Y"}
 TO = 2
 MaxT = 3
 NoEnsure = FALSE NoRate = FALSE LeakSocket = FALSE
INVARIANT TypeOK
INVARIANT ContactedBlacklisted
INVARIANT NoPeerAfterContact
INVARIANT RateLimit
INVARIANT InitOnce
INVARIANT BootIPsBlacklisted
INVARIANT QuietAfterUnload
INVARIANT SocketsClosed
PROPERTY BlacklistMonotone
PROPERTY ForeignIgnored
