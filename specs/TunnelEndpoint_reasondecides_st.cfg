SPECIFICATION Spec
CONSTANTS Pfx = {"A", "B"} MaxHops = 2 MaxCid = 2 QCap = 100 MaxDepth = 5 LeakDetached = FALSE AnyState = FALSE MaxInst = 2 Lifecycle = FALSE UnloadClears = FALSE CandInit = {TRUE, FALSE} CloseWays = {"close", "closeR", "remove", "removeR", "removeNow", "removeD"} ReasonDecides = TRUE ReadyInit = FALSE Expiry = FALSE
INVARIANT StateFollowsClose
