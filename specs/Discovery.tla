---------------------------- MODULE Discovery ----------------------------
(* G01 - peer discovery strategies of py-ipv8 as seen by ONE overlay O ("the observer"):                         *)
(*   ipv8/peerdiscovery/discovery.py  RandomWalk.take_step, EdgeWalk.take_step                                    *)
(*   ipv8/peerdiscovery/churn.py      RandomChurn.take_step                                                       *)
(*   ipv8/community.py                walk_to, send_introduction_request, get_new_introduction, bootstrap,        *)
(*                                    on_introduction_request / on_introduction_response / on_packet              *)
(*   ipv8/peerdiscovery/community.py  send_ping / on_pong / PingRequestCache, on_similarity_response               *)
(*   ipv8/peerdiscovery/network.py    the part of Network the strategies use: _all_addresses (known, introBy),     *)
(*                                    verified_peers, reverse_intro_lookup (intros), blacklist, remove_peer,       *)
(*                                    remove_by_address, discover_address, add_verified_peer                       *)
(*   ipv8/bootstrapping/dispersy/bootstrapper.py  get_addresses / keep_alive / initialize (blacklisting)           *)
(*   ipv8_service.IPv8.on_tick        the target_peers gate in front of take_step                                  *)
(*                                                                                                                 *)
(* One action per public call / message handler / timer:                                                           *)
(*   WalkStep(a, q)          RandomWalk.take_step   a = walk target or "none" (reset branch: get_new_introduction   *)
(*                                                  with q = peer asked, tracker kept alive, or "none" = bootstrap) *)
(*   EdgeNbh(N, Wk) EdgeStart(r) EdgeGrow(ch)       the three branches of EdgeWalk.take_step                        *)
(*   ChurnStep(W)            RandomChurn.take_step  W = the sampled window                                          *)
(*   RecvIntroReq(p) RecvIntroResp(p, a) RecvSimResp(p) RecvPong(p, t) RecvOther(p)  Community.on_packet + handler  *)
(*   Tick(d)                 the clock; PingRequestCache time-outs fall due                                         *)
(* The environment is adversarial in time: any peer may send any of these datagrams at any moment (the code keeps   *)
(* no table of outstanding introduction requests, so unsolicited responses are processed as well).                  *)
(* Every remote peer has one address and the address names the peer (Addr = Peers + Ghosts + Trackers + Own);       *)
(* Ghosts are addresses nobody listens on, Trackers are the bootstrap servers (blacklisted once the bootstrapper    *)
(* has been initialised; assumed silent until then).                                                                *)
(*                                                                                                                 *)
(* SAFETY PROPERTIES (from the docstrings of the strategies; checked by TLC on this module and on every recorded    *)
(* execution of the real code):                                                                                     *)
(*  S1 DropOnlyAfterSilence  (RandomChurn: "drop_time: time after which a peer is dropped", "remove them if          *)
(*       unresponsive") a verified peer leaves the Network only in a churn step, only if it has answered before and  *)
(*       has then been silent for MORE than DropTime, and only if a ping to it is on record: never while it answers. *)
(*  S2 PingDiscipline        ("ping them if inactive", "ping_interval: time between pings", test_ping_timeout) a     *)
(*       ping goes to a verified peer that is inactive (> InactiveTime silent) or has fewer than MaxPings round-trip  *)
(*       measurements, at most one per peer per PingInterval, at most SampleSize per step.                           *)
(*  S3 WalkWindow            ("window_size: the amount of unanswered packets we can have in-flight") at most Window  *)
(*       walks are outstanding.                                                                                      *)
(*  S4 WalkTargets           a RandomWalk walk goes to a known, not blacklisted, not yet verified address that has   *)
(*       no walk outstanding; never to Own (unless a peer introduced our own address: the code does not filter it,   *)
(*       allowed and reported as an observation, constant IntroOwn).                                                 *)
(*  S5 ForgetOnlyUnreachable ("timeout: the timeout after which peers are considered unreachable") an address is     *)
(*       forgotten only (a) with its peer in a churn drop, or (b) by RandomWalk when a walk to it stayed unanswered  *)
(*       for MORE than WalkTimeout and no verified peer lives there.                                                 *)
(*  S6 WalkSpacing           ("target_interval: the target interval between steps") two RandomWalk steps that send   *)
(*       something are more than TargetInterval apart.                                                               *)
(*  S7 EdgeShape / EdgeBound ("depth-first search ... starting from your direct neighborhood", "when a certain       *)
(*       depth is reached, we teleport home") every edge starts at a neighbourhood root, consecutive members were    *)
(*       introduced by their predecessor (and were verified when appended), edges under construction are shorter     *)
(*       than EdgeLen, completed ones have 2..EdgeLen members; at most one edge per root, at most NbSize roots.      *)
(*  S8 PongCounted          (PingRequestCache: "cache for ping measurements to a peer", Peer.pings) a pong that answers a *)
(*       ping of ours whose cache is still alive is recorded as one round-trip measurement and consumes the cache.   *)
(* NOT required (intent unclear, behaviour allowed and reported): a peer whose last_response is still 0 (it was      *)
(* verified by its first datagram and never heard of again) is never dropped; a drop may rely on a ping that was     *)
(* sent before the peer's last answer; EdgeWalk keeps dropped peers in its neighbourhood; max_peers admits one peer  *)
(* more than its value; RandomChurn._pinged keeps entries of peers removed by somebody else.                          *)
(*                                                                                                                 *)
(* Dev is a set of deviation names (negative controls, Discovery_ctl_*.cfg): "dropEarly", "noPingGuard", "pingFlood",  *)
(* "noWindow", "walkVerified", "forgetAnswered", "edgeAny", "pongUnmatched" (= the pinned DiscoveryCommunity.send_ping  *)
(* once the overlay's global time has passed 65535: the cache is keyed by the unreduced global time, the pong carries  *)
(* it modulo 65536 - genuine defect G01-1, proposed_fixes/G01-1.diff).                                                 *)
(* Configurations: Discovery_{walk,walk_slow,walk3,churn,edge,edge_nb2,all}.cfg and *_q.cfg (model checking),           *)
(* Discovery_r_*.cfg (graphs whose every transition is replayed on the real code), DiscoveryTrace.tla (recorded runs). *)
EXTENDS Integers, Sequences, FiniteSets, TLC

CONSTANTS Peers, Ghosts, Trackers, Own,
          UseWalk, UseEdge, UseChurn,
          Window, WalkTimeout, TargetInterval,      \* RandomWalk(window_size, timeout, target_interval)
          TargetPeers,                              \* IPv8.on_tick: walk strategies run while |peers| < TargetPeers (-1: always)
          MaxPeers,                                 \* Community.max_peers (-1: unlimited)
          EdgeLen, NbSize, EdgeTimeout,             \* EdgeWalk(edge_length, neighborhood_size, edge_timeout)
          SampleSize, PingInterval, InactiveTime, DropTime, MaxPings,   \* RandomChurn(...), Peer.pings.maxlen
          PingCacheTimeout,                         \* PingRequestCache.timeout_delay
          BootTimeout,                              \* DispersyBootstrapper.bootstrap_timeout
          MaxTime, TickLens,
          IntroOwn,                                 \* TRUE: peers may introduce the observer's own address
          Dev

NoAddr      == "none"
Addr        == Peers \cup Ghosts \cup Trackers \cup {Own}
Introducers == Peers \cup Trackers
Never       == -1
MinusOne    == -1     \* for configuration files (TLC cfg syntax has no negative numbers)

VARIABLES now,
          known,      \* DOMAIN Network._all_addresses
          introBy,    \* Addr -> introducer recorded in _all_addresses (NoAddr: none / not known)
          verified,   \* Network.verified_peers
          lastResp,   \* Peer.last_response (Never = 0 in the code)
          npings,     \* len(Peer.pings)
          intros,     \* Network.reverse_intro_lookup: addresses recorded as introduced by a peer (only grows)
          inited,     \* bootstrapper initialised: Trackers are on Network.blacklist
          lastBoot,   \* DispersyBootstrapper.last_bootstrap
          walkT,      \* RandomWalk.intro_timeouts
          lastStep,   \* RandomWalk.last_step
          pinged,     \* RandomChurn._pinged
          pingT,      \* live PingRequestCaches per peer (the times they were created)
          nbh,        \* EdgeWalk._neighborhood
          under,      \* EdgeWalk.under_construction (<<>> = no edge for this root)
          edgeResp,   \* EdgeWalk.last_edge_responses
          complete,   \* EdgeWalk.complete_edges (as a set)
          out         \* what the last action put on the wire: introduction requests (by destination), pings; + branch taken

vars == <<now, known, introBy, verified, lastResp, npings, intros, inited, lastBoot, walkT, lastStep, pinged, pingT,
          nbh, under, edgeResp, complete, out>>

netVars   == <<known, introBy, verified, intros>>
walkVars  == <<walkT, lastStep>>
churnVars == <<pinged>>
edgeVars  == <<nbh, under, edgeResp, complete>>

Min(a, b) == IF a < b THEN a ELSE b
Last(s)   == s[Len(s)]
Black     == IF inited THEN Trackers ELSE {}
Quiet(k)  == [kind |-> k, reqs |-> {}, pings |-> {}]
Roots     == {r \in Peers : under[r] # <<>>}
Walkable  == known \ verified
Gate      == TargetPeers = -1 \/ Cardinality(verified) < TargetPeers

Init == /\ now = 0 /\ known = {} /\ introBy = [a \in Addr |-> NoAddr] /\ verified = {}
        /\ lastResp = [p \in Peers |-> Never] /\ npings = [p \in Peers |-> 0]
        /\ intros = [p \in Introducers |-> {}] /\ inited = FALSE /\ lastBoot = Never
        /\ walkT = [a \in Addr |-> Never] /\ lastStep = Never
        /\ pinged = [p \in Peers |-> Never] /\ pingT = [p \in Peers |-> {}]
        /\ nbh = {} /\ under = [p \in Peers |-> <<>>] /\ edgeResp = [p \in Peers |-> Never] /\ complete = {}
        /\ out = Quiet("init")

(* ------------------------------------------------------------------------------------------------------------ *)
(* Community.on_packet + add_verified_peer                                                                        *)
(* ------------------------------------------------------------------------------------------------------------ *)
(* on_packet: the verified peer at the source address has its last_response refreshed (before the handler runs)  *)
Touched(p) == IF UseChurn /\ p \in verified THEN [lastResp EXCEPT ![p] = now] ELSE lastResp

(* handler: Peer(key, source) is a NEW object (last_response 0, no pings) unless the key is already verified      *)
Admit(p, lr) == /\ verified' = verified \cup {p}
                /\ lastResp' = IF p \in verified THEN lr ELSE [lr EXCEPT ![p] = Never]
                /\ npings' = IF p \in verified THEN npings ELSE [npings EXCEPT ![p] = 0]

Full == MaxPeers >= 0 /\ MaxPeers < Cardinality(verified)

RecvIntroReq(p) ==
  /\ p \in Peers
  /\ IF Full THEN /\ lastResp' = Touched(p) /\ UNCHANGED <<verified, npings, known>>
             ELSE /\ Admit(p, Touched(p)) /\ known' = known \cup {p}
  /\ out' = Quiet("env")
  /\ UNCHANGED <<now, introBy, intros, inited, lastBoot, walkVars, churnVars, pingT, edgeVars>>

RecvSimResp(p) ==
  /\ p \in Peers \cup (IF inited THEN Trackers ELSE {})
  /\ IF p \in Trackers \/ (Full /\ p \notin verified)          \* blacklisted source / over capacity: not admitted
     THEN /\ lastResp' = Touched(p) /\ UNCHANGED <<verified, npings, known>>
     ELSE /\ Admit(p, Touched(p)) /\ known' = known \cup {p}
  /\ out' = Quiet("env")
  /\ UNCHANGED <<now, introBy, intros, inited, lastBoot, walkVars, churnVars, pingT, edgeVars>>

(* on_introduction_response: no max_peers test, no test that a request is outstanding; then discover_address      *)
RecvIntroResp(p, a) ==
  /\ p \in Peers \cup (IF inited THEN Trackers ELSE {})
  /\ a \in (Addr \ {p}) \cup {NoAddr}
  /\ a = Own => IntroOwn
  /\ a \in Trackers => inited
  /\ LET isPeer == p \in Peers
         ver1   == IF isPeer THEN verified \cup {p} ELSE verified
         known1 == IF isPeer THEN known \cup {p} ELSE known
         record == /\ a # NoAddr /\ a \notin Black
                   /\ (a \notin known1 \/ introBy[a] \notin ver1)      \* new address, or its previous parent is gone
     IN /\ IF isPeer THEN Admit(p, Touched(p))
                     ELSE UNCHANGED <<verified, lastResp, npings>>     \* blacklisted source: never verified
        /\ known' = IF record THEN known1 \cup {a} ELSE known1
        /\ introBy' = IF record THEN [introBy EXCEPT ![a] = p] ELSE introBy
        /\ intros' = IF record THEN [intros EXCEPT ![p] = @ \cup {a}] ELSE intros
  /\ out' = Quiet("env")
  /\ UNCHANGED <<now, inited, lastBoot, walkVars, churnVars, pingT, edgeVars>>

(* a pong that matches a live PingRequestCache of the current Peer object: one more round-trip measurement        *)
RecvPong(p, t) ==
  /\ UseChurn /\ p \in verified /\ t \in pingT[p]
  /\ lastResp' = [lastResp EXCEPT ![p] = now]
  /\ IF "pongUnmatched" \in Dev THEN UNCHANGED <<npings, pingT>>
     ELSE /\ npings' = [npings EXCEPT ![p] = Min(MaxPings, @ + 1)]
          /\ pingT' = [pingT EXCEPT ![p] = @ \ {t}]
  /\ out' = Quiet("pong")
  /\ UNCHANGED <<now, netVars, inited, lastBoot, walkVars, churnVars, edgeVars>>

(* any other datagram from the address of a verified peer (ping, puncture, similarity request, late pong ...)    *)
RecvOther(p) ==
  /\ UseChurn /\ p \in verified
  /\ lastResp' = [lastResp EXCEPT ![p] = now]
  /\ out' = Quiet("env")
  /\ UNCHANGED <<now, netVars, npings, inited, lastBoot, walkVars, churnVars, pingT, edgeVars>>

Tick(d) ==
  /\ d \in TickLens /\ now + d <= MaxTime
  /\ now' = now + d
  /\ pingT' = [p \in Peers |-> {t \in pingT[p] : t + PingCacheTimeout > now + d}]
  /\ out' = Quiet("tick")
  /\ UNCHANGED <<netVars, lastResp, npings, inited, lastBoot, walkVars, churnVars, edgeVars>>

(* ------------------------------------------------------------------------------------------------------------ *)
(* Community.bootstrap with one DispersyBootstrapper over Trackers (task runs to completion within the step)      *)
(* ------------------------------------------------------------------------------------------------------------ *)
BootDue  == Trackers # {} /\ (lastBoot = Never \/ now - lastBoot >= BootTimeout)
BootReqs == IF BootDue THEN Trackers ELSE {}
BootEff  == /\ inited' = (inited \/ Trackers # {})
            /\ lastBoot' = IF BootDue THEN now ELSE lastBoot

(* ------------------------------------------------------------------------------------------------------------ *)
(* RandomWalk.take_step                                                                                            *)
(* ------------------------------------------------------------------------------------------------------------ *)
WalkStep(a, q) ==
  /\ UseWalk /\ Gate
  /\ LET expired  == {x \in Addr : walkT[x] # Never /\ walkT[x] + WalkTimeout < now}
         wt1      == [x \in Addr |-> IF x \in expired THEN Never ELSE walkT[x]]
         unans    == IF "forgetAnswered" \in Dev THEN expired
                     ELSE {x \in expired : x \notin verified}
         known1   == known \ unans
         ver1     == verified \ unans                   \* = verified unless "forgetAnswered"
         ib1      == [x \in Addr |-> IF x \in unans THEN NoAddr ELSE introBy[x]]
         inflight == {x \in Addr : wt1[x] # Never}
         slow     == TargetInterval > 0 /\ lastStep # Never /\ lastStep + TargetInterval >= now
         windowed == "noWindow" \notin Dev /\ Window > 0 /\ Window <= Cardinality(inflight)
         avail    == (IF "walkVerified" \in Dev THEN known1 ELSE known1 \ ver1) \ inflight
     IN /\ known' = known1 /\ introBy' = ib1 /\ verified' = ver1
        /\ IF slow \/ windowed
           THEN /\ a = NoAddr /\ q = NoAddr
                /\ walkT' = wt1 /\ out' = Quiet("walk-wait")
                /\ UNCHANGED <<lastStep, inited, lastBoot>>
           ELSE \/ /\ a \in avail /\ q = NoAddr                     \* walk_to(choice(available))
                   /\ walkT' = [wt1 EXCEPT ![a] = now]
                   /\ out' = [kind |-> "walk", reqs |-> {a}, pings |-> {}]
                   /\ lastStep' = now /\ UNCHANGED <<inited, lastBoot>>
                \/ /\ a = NoAddr /\ walkT' = wt1 /\ lastStep' = now  \* get_new_introduction()
                   /\ IF ver1 = {}
                      THEN /\ q = NoAddr /\ BootEff                  \* no peers: bootstrap()
                           /\ out' = [kind |-> "boot", reqs |-> BootReqs, pings |-> {}]
                      ELSE \/ /\ q \in ver1                          \* send_introduction_request(choice(peers))
                              /\ out' = [kind |-> "intro", reqs |-> {q}, pings |-> {}]
                              /\ UNCHANGED <<inited, lastBoot>>
                           \/ /\ inited /\ q \in Trackers            \* 5%: bootstrapper.keep_alive
                              /\ out' = [kind |-> "keep", reqs |-> {q}, pings |-> {}]
                              /\ UNCHANGED <<inited, lastBoot>>
  /\ UNCHANGED <<now, intros, lastResp, npings, churnVars, pingT, edgeVars>>

(* ------------------------------------------------------------------------------------------------------------ *)
(* RandomChurn.take_step                                                                                           *)
(* ------------------------------------------------------------------------------------------------------------ *)
ChurnStep(W) ==
  /\ UseChurn
  /\ W \subseteq verified /\ Cardinality(W) = Min(Cardinality(verified), SampleSize)
  /\ LET dropAfter   == IF "dropEarly" \in Dev THEN InactiveTime ELSE DropTime
         ShouldDrop(p) == lastResp[p] # Never /\ now > lastResp[p] + dropAfter
         Inactive(p)   == lastResp[p] # Never /\ now > lastResp[p] + InactiveTime
         drops  == {p \in W : ShouldDrop(p) /\ ("noPingGuard" \in Dev \/ pinged[p] # Never)}
         cand   == {p \in W \ drops : Inactive(p) \/ npings[p] < MaxPings}
         doPing == {p \in cand : \/ "pingFlood" \in Dev
                                 \/ pinged[p] = Never \/ now > pinged[p] + PingInterval}
     IN /\ verified' = verified \ drops                              \* Network.remove_peer
        /\ known' = known \ drops
        /\ introBy' = [x \in Addr |-> IF x \in drops THEN NoAddr ELSE introBy[x]]
        /\ lastResp' = [p \in Peers |-> IF p \in drops THEN Never ELSE lastResp[p]]
        /\ npings' = [p \in Peers |-> IF p \in drops THEN 0 ELSE npings[p]]
        /\ pinged' = [p \in Peers |-> IF p \in drops THEN Never ELSE IF p \in doPing THEN now ELSE pinged[p]]
        /\ pingT' = [p \in Peers |-> IF p \in drops THEN {} ELSE IF p \in doPing THEN pingT[p] \cup {now} ELSE pingT[p]]
        /\ out' = [kind |-> "churn", reqs |-> {}, pings |-> doPing]
  /\ UNCHANGED <<now, intros, inited, lastBoot, walkVars, edgeVars>>

(* ------------------------------------------------------------------------------------------------------------ *)
(* EdgeWalk.take_step                                                                                              *)
(* ------------------------------------------------------------------------------------------------------------ *)
NbhOpen == nbh = {} \/ Cardinality(nbh) < NbSize

(* wait for the neighbourhood: take the first peers, bootstrap, walk to the first walkable addresses             *)
EdgeNbh(N, Wk) ==
  /\ UseEdge /\ Gate /\ NbhOpen
  /\ N \subseteq verified /\ Cardinality(N) = Min(NbSize, Cardinality(verified))
  /\ Wk \subseteq Walkable /\ Cardinality(Wk) = Min(NbSize, Cardinality(Walkable))
  /\ nbh' = N
  /\ BootEff
  /\ out' = [kind |-> "nbh", reqs |-> Wk \cup BootReqs, pings |-> {}]
  /\ UNCHANGED <<now, netVars, lastResp, npings, walkVars, churnVars, pingT, under, edgeResp, complete>>

(* a root without an edge: start one and ask the root for an introduction                                         *)
EdgeStart(r) ==
  /\ UseEdge /\ Gate /\ ~NbhOpen
  /\ r \in nbh \ Roots
  /\ under' = [under EXCEPT ![r] = <<r>>]
  /\ edgeResp' = [edgeResp EXCEPT ![r] = now]
  /\ out' = [kind |-> "start", reqs |-> {r}, pings |-> {}]
  /\ UNCHANGED <<now, netVars, lastResp, npings, inited, lastBoot, walkVars, churnVars, pingT, nbh, complete>>

Candidates(r) == IF "edgeAny" \in Dev THEN verified \ {Last(under[r])}
                 ELSE intros[Last(under[r])] \cap verified
ChoiceFuns == [Peers -> Peers \cup {NoAddr}]
IsChoice(f) == \A r \in Peers : IF r \notin Roots \/ Candidates(r) = {} THEN f[r] = NoAddr ELSE f[r] \in Candidates(r)

(* every root has an edge: grow each of them by one verified introduction, walk to the unverified ones, finish    *)
(* edges that reached EdgeLen or did not grow for more than EdgeTimeout                                            *)
EdgeGrow(ch) ==
  /\ UseEdge /\ Gate /\ ~NbhOpen /\ nbh \ Roots = {}
  /\ IsChoice(ch)
  /\ LET Grows(r)   == ch[r] # NoAddr
         Grown(r)   == Append(under[r], ch[r])
         Full2(r)   == Grows(r) /\ Len(Grown(r)) = EdgeLen
         Stale(r)   == ~Grows(r) /\ edgeResp[r] + EdgeTimeout < now
         Unver(r)   == intros[Last(under[r])] \ verified
     IN /\ under' = [r \in Peers |-> IF r \notin Roots THEN <<>>
                                     ELSE IF Full2(r) \/ Stale(r) THEN <<>>
                                     ELSE IF Grows(r) THEN Grown(r) ELSE under[r]]
        /\ edgeResp' = [r \in Peers |-> IF r \in Roots /\ Grows(r) THEN now ELSE edgeResp[r]]
        /\ complete' = complete \cup {Grown(r) : r \in {x \in Roots : Full2(x)}}
                                \cup {under[r] : r \in {x \in Roots : Stale(x) /\ Len(under[x]) > 1}}
        /\ out' = [kind |-> "grow",
                   reqs |-> UNION {Unver(r) : r \in Roots} \cup {ch[r] : r \in {x \in Roots : Grows(x) /\ ~Full2(x)}},
                   pings |-> {}]
  /\ UNCHANGED <<now, netVars, lastResp, npings, inited, lastBoot, walkVars, churnVars, pingT, nbh>>

(* ------------------------------------------------------------------------------------------------------------ *)
Next == \/ \E d \in TickLens : Tick(d)
        \/ \E p \in Peers : RecvIntroReq(p)
        \/ \E p \in Introducers : RecvSimResp(p)
        \/ \E p \in Introducers : \E a \in Addr \cup {NoAddr} : RecvIntroResp(p, a)
        \/ \E p \in Peers : \E t \in 0..MaxTime : RecvPong(p, t)
        \/ \E p \in Peers : RecvOther(p)
        \/ \E a \in Addr \cup {NoAddr} : \E q \in Introducers \cup {NoAddr} : WalkStep(a, q)
        \/ \E W \in SUBSET Peers : ChurnStep(W)
        \/ \E N \in SUBSET Peers : \E Wk \in SUBSET Addr : EdgeNbh(N, Wk)
        \/ \E r \in Peers : EdgeStart(r)
        \/ \E ch \in ChoiceFuns : EdgeGrow(ch)

Spec == Init /\ [][Next]_vars

(* ------------------------------------------------------------------------------------------------------------ *)
(* Properties                                                                                                      *)
(* ------------------------------------------------------------------------------------------------------------ *)
Times == -1..MaxTime
TypeOK == /\ now \in 0..MaxTime /\ known \subseteq Addr /\ verified \subseteq Peers
          /\ introBy \in [Addr -> Introducers \cup {NoAddr}]
          /\ lastResp \in [Peers -> Times] /\ npings \in [Peers -> 0..MaxPings]
          /\ intros \in [Introducers -> SUBSET Addr] /\ inited \in BOOLEAN /\ lastBoot \in Times
          /\ walkT \in [Addr -> Times] /\ lastStep \in Times
          /\ pinged \in [Peers -> Times] /\ pingT \in [Peers -> SUBSET Times]
          /\ nbh \subseteq Peers /\ DOMAIN under = Peers /\ edgeResp \in [Peers -> Times]
          /\ out.reqs \subseteq Addr /\ out.pings \subseteq Peers

(* structure of the Network the strategies rely on *)
NetOK == /\ verified \subseteq known                      \* Peer.address of a verified peer is a known address
         /\ known \cap Black = {}                         \* blacklisted addresses are never walkable / verified
         /\ \A a \in Addr : a \notin known => introBy[a] = NoAddr
         /\ \A a \in known : introBy[a] # NoAddr => a \in intros[introBy[a]]
         /\ \A p \in Peers : p \notin verified => lastResp[p] = Never /\ npings[p] = 0 /\ pingT[p] = {}

(* S1 *)
DropOnlyAfterSilence ==
  [][\A p \in verified \ verified' :
        /\ out'.kind = "churn"
        /\ lastResp[p] # Never /\ now > lastResp[p] + DropTime
        /\ pinged[p] # Never]_vars

(* S2 *)
PingDiscipline ==
  [][/\ Cardinality(out'.pings) <= SampleSize
     /\ \A p \in out'.pings :
          /\ p \in verified
          /\ npings[p] < MaxPings \/ (lastResp[p] # Never /\ now > lastResp[p] + InactiveTime)
          /\ pinged[p] = Never \/ now > pinged[p] + PingInterval]_vars

(* S8 *)
PongCounted ==
  [][out'.kind = "pong" => \E p \in Peers : /\ npings'[p] = Min(MaxPings, npings[p] + 1)
                                              /\ Cardinality(pingT'[p]) = Cardinality(pingT[p]) - 1]_vars

(* S3 *)
WalkWindow == Window > 0 => Cardinality({a \in Addr : walkT[a] # Never}) <= Window

(* S4 *)
WalkTargets ==
  [][out'.kind = "walk" =>
        \A a \in out'.reqs : /\ a \in known /\ a \notin verified /\ a \notin Black
                             /\ walkT[a] = Never
                             /\ (a = Own => IntroOwn)]_vars
NoOwnAddress == ~IntroOwn => Own \notin known /\ Own \notin out.reqs

(* S5 *)
ForgetOnlyUnreachable ==
  [][\A a \in known \ known' :
        \/ out'.kind = "churn" /\ a \in verified \ verified'
        \/ /\ out'.kind \in {"walk", "intro", "boot", "keep", "walk-wait"}
           /\ a \notin verified
           /\ walkT[a] # Never /\ walkT[a] + WalkTimeout < now]_vars

(* S6 *)
WalkSpacing ==
  [][out'.kind \in {"walk", "intro", "boot", "keep"} =>
        TargetInterval = 0 \/ lastStep = Never \/ now > lastStep + TargetInterval]_vars

(* S7 *)
IsPath(e) == \A i \in 1..(Len(e) - 1) : e[i + 1] \in Peers /\ e[i + 1] \in intros[e[i]]
EdgeShape == /\ \A r \in Roots : /\ r \in nbh /\ under[r][1] = r
                                 /\ Len(under[r]) < EdgeLen /\ IsPath(under[r])
             /\ \A e \in complete : /\ Len(e) >= 2 /\ Len(e) <= EdgeLen /\ e[1] \in nbh /\ IsPath(e)
EdgeBound == /\ Cardinality(Roots) <= NbSize
             /\ (out.kind \in {"nbh", "start"} => Cardinality(out.reqs \ Trackers) <= NbSize)
EdgeGrowsVerified ==
  [][\A r \in Peers : (under[r] # <<>> /\ Len(under'[r]) > Len(under[r])) => Last(under'[r]) \in verified]_vars

(* state constraint for model checking: keep the history of completed edges small *)
Bounded == Cardinality(complete) <= 3
=============================================================================
