SPECIFICATION Spec
CONSTANTS Wirings = {"plain", "tunnel"} Kinds = {"basic", "cache", "tunnel"} MaxTasks = 3 MaxCaches = 1 MaxSocks = 2 MaxBoot = 1 MaxTry = 2 MaxXTask = 2 StoreAtOpen = TRUE
          InitAwaited = TRUE UnloadRemovesPending = TRUE
          WrapperForwardsRemove = TRUE CryptoListenerRemoved = TRUE RemovalAwaited = TRUE
INVARIANT TypeOK
INVARIANT LoadedReachable
INVARIANT SilentAfterUnload
INVARIANT NoLateActivity
INVARIANT JobsHeld
INVARIANT NoOrphanSocket
PROPERTY NoNewTaskAfterUnload
