SPECIFICATION Spec
CONSTANTS
 o = o
 o2 = o2
 r1 = r1
 r2 = r2
 x = x
 Node = {o, r1, r2, x}
 Adv = adv
 Flags <- FlagsDef
 Cands <- CandsDef
 FirstHops <- FirstHopsDef
 MaxJoined = 3
 MaxEarly = 3
 Tries = 2
 NextHop = 4 Unstable = 24 CacheTO = 4 Inactive = 8 RemoveDelay = 2 SweepEvery = 2 PingEvery = 3 MaxTime = 100
 CreateGuard = TRUE
 MaxCircuits = 1 MaxData = 1 MaxLoss = 0 MaxDup = 0 MaxAdv = 0 MaxNow = 0
 Goals = {3}
 Origins = {o}
 AdvKinds = {}
 NodeRank <- RankDef
 AdvSrcs = {adv}
 TrackWire = FALSE
 UseIds = FALSE
 NodeTeardown = FALSE
 MayVanish = FALSE
 SweepRelays = TRUE
 TestCells = FALSE
 E2E = FALSE
 Aead = TRUE
 CheckIdent = TRUE
 RelayOnce = TRUE
 CandsGuard = TRUE
 DataGuard = TRUE
 SuspendJoin = FALSE
 JoinCacheFirst = TRUE
 AutoTimers = TRUE
INVARIANT TypeOK
INVARIANT PathAgreement
INVARIANT ExitIntegrity
INVARIANT ReturnIntegrity
INVARIANT LayerDepth
INVARIANT ExitOnlyOwn
INVARIANT NoForeignKey
INVARIANT KeyAgreement
INVARIANT RelayEarlyBudget
PROPERTY EntriesStable
PROPERTY DestroyOnlyFromNeighbour
PROPERTY UnknownCellsInert
PROPERTY AnswerMustMatch
PROPERTY JoinLimit
