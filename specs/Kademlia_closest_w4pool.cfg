\* closest_nodes walk = brute force, complete graph over seven 4 bit identifiers (thorough)
SPECIFICATION Spec
CONSTANTS W = 4 Bits <- SeqBits Cap = 2 MyNum = 5 IdNums = {5, 4, 7, 6, 1, 12, 13}
          RTTs = {0} Addrs = {1} AddBads = {FALSE, TRUE} KMax = 3 MaxDepth = 0
          WithGen = FALSE GenInBucket = TRUE OwnPathOnly = TRUE
INVARIANT TypeOK
INVARIANT PrefixFreeComplete
INVARIANT PartitionBrute
INVARIANT NodeInOwningBucket
INVARIANT Capacity
INVARIANT OwnPathShape
INVARIANT GeneratedIdInBucket
INVARIANT ClosestExact
INVARIANT FirstDiffAgree
PROPERTY SplitOnlyOwnPath
