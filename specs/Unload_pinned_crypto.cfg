SPECIFICATION Spec
CONSTANTS Wirings = {"plain", "tunnel"} Kinds = {"basic", "cache", "tunnel"} MaxTasks = 2 MaxCaches = 1 MaxSocks = 1
          WrapperForwardsRemove = TRUE CryptoListenerRemoved = FALSE RemovalAwaited = TRUE
INVARIANT TypeOK
INVARIANT LoadedReachable
INVARIANT SilentAfterUnload
INVARIANT NoLateActivity
PROPERTY NoNewTaskAfterUnload
