----------------------------- MODULE DhtLookup -----------------------------
(* Binding E for post_process_values / find_values: TLC enumerates every list of at most MaxSeen values a     *)
(* lookup can receive from the contacted nodes (valid, forged, several versions, several signers, unsigned)   *)
(* and computes what the statement allows the lookup to report:                                               *)
(*   top[s]   = <<highest verified version of signer s, set of data carried at that version>> or <<-1, {}>>   *)
(*   unsigned = data of the unsigned values received                                                          *)
(* The driver compares the real result with these (data reported for s must be in top[s][2], a signer is      *)
(* reported exactly when top[s][1] >= 0, nothing unsigned is invented).                                       *)
EXTENDS DhtStore

CONSTANT MaxSeen
VARIABLES seen, top, unsigned

LookupValues == SignedValues \cup UnsignedValues

LInit == /\ Init
         /\ seen \in UNION {[1..n -> LookupValues] : n \in 0..MaxSeen}
         /\ top = [s \in Signers |-> IF VerifiedOf(seen, s) = {} THEN <<-1, {}>> ELSE <<TopVer(seen, s), TopData(seen, s)>>]
         /\ unsigned = UnsignedSeen(seen)
LNext == UNCHANGED <<vars, seen, top, unsigned>>
LSpec == LInit /\ [][LNext]_<<vars, seen, top, unsigned>>

(* sanity of the reference itself: what is reported for a signer was received with a verifying signature of    *)
(* that signer, and nothing newer that verifies was received                                                   *)
RefSound == \A s \in Signers : top[s][1] >= 0 =>
              /\ \A d \in top[s][2] : \E i \in 1..Len(seen) : seen[i] = [s |-> s, ver |-> top[s][1], d |-> d, ok |-> TRUE, sz |-> "small"]
              /\ \A i \in 1..Len(seen) : (seen[i].s = s /\ seen[i].ok) => seen[i].ver <= top[s][1]
              /\ top[s][2] # {}
RefComplete == \A s \in Signers : top[s][1] < 0 => \A i \in 1..Len(seen) : seen[i].s = s => ~seen[i].ok
=============================================================================
