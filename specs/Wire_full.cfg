SPECIFICATION Spec
CONSTANTS
  Pinned = {}
  Pads = {0, 1, 2, 3}
  FmtSel <- ModelFmts
  ClsSel <- Classes
  K = 14
INVARIANT RoundTrip
INVARIANT ExactConsumption
INVARIANT ReEncode
INVARIANT DocWidth
INVARIANT PrefixFree
INVARIANT TruncationRejected
