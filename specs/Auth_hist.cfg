SPECIFICATION Spec
CONSTANTS
  Overlays = {"B"}
  PrefixOf <- MCPrefixOf
  Authenticated <- MCAuthenticated
  Keys = {"h1", "att"}
  Honest = {"h1"}
  Attacker = {"att"}
  MsgIds = {1}
  Prefixes = {"pB"}
  Bodies = {"b0"}
  MaxSend = 1
  MaxMut = 1
  MaxDeliver = 1
  WithInject = TRUE
  CheckSig = TRUE
  CoverAll = TRUE
  Addrs = {"a1", "a2"}
  MaxAcq = 2
  EarlyBook = FALSE
  TrustSource = FALSE
  EarlyNote = FALSE
  StaleKeys = FALSE
  WithNotes = TRUE
INVARIANT TypeOK
INVARIANT Unforgeable
INVARIANT HonestSignOnlyBySend
INVARIANT AuthOnly
INVARIANT NoForgedVerified
INVARIANT OverlaySeparation
INVARIANT HonestAttribution
INVARIANT BookLegit
INVARIANT BookNoKeyEmpty
INVARIANT NotesLegit
INVARIANT KeyResolution
PROPERTY RejectInert
