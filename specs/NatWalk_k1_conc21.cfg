SPECIFICATION Spec
CONSTANTS K = 1 SendPuncture = TRUE PunctureFirst = TRUE FollowAll = FALSE MaxId = 30 QuietCalls = FALSE
          APlaces = {"pub", "nat"} CandPlaces = {"pub", "nat", "withA"}
          MaxContactsA = 2 MaxContactsB = 1
INVARIANT TypeOK
INVARIANT Reach
INVARIANT LanMeet
INVARIANT AsksPuncture
CHECK_DEADLOCK TRUE
