SPECIFICATION TraceSpec
CONSTANTS BitSpace = 0 Honest = TRUE
INVARIANT TraceAccepted
INVARIANT TypeOK
INVARIANT SubProfile
INVARIANT AggIsAnswers
INVARIANT Reconstructs
