----------------------------- MODULE PexTrace -----------------------------
(* Recorded executions of real PexCommunity overlays on the simulated network (harness/drivers/g05.py,     *)
(* record_p_traces) checked against part P of Pex.tla: every event must be the specification's step for    *)
(* that call / datagram with the keys the code really sampled, and must reproduce the logged lists.        *)
EXTENDS Pex, Json, IOUtils, TLCExt

Traces == JsonDeserialize(IOEnv.TRACE_FILE)

VARIABLES tid, l
tvars == <<vars, tid, l>>

Ev == Traces[tid].events

Rec(x)  == [p |-> x[1], s |-> x[2], seen |-> x[3]]
Recs(q) == [j \in 1..Len(q) |-> Rec(q[j])]
MsgOf(x) == [src |-> x[1], dst |-> x[2], k |-> x[3], pks |-> x[4]]
ASSUME Nodes = 1..Cardinality(Nodes)
Idx(n)  == n          \* the log lists per-node values in node order

(* Next of Pex.tla is not used here; its (huge, for twelve keys) quantifier domains are replaced in the cfg *)
NoSamples == {<<>>}
NoMsgs    == {}

TraceInit == tid \in 1..Len(Traces) /\ l = 1 /\ Init

TraceNext ==
  /\ l <= Len(Ev)
  /\ LET e == Ev[l]
         sentPks == IF Len(e.sent) > 0 THEN e.sent[1][4] ELSE <<>>
     IN /\ \/ e.a = "StartAnnounce" /\ StartAnnounce(e.n, e.s)
           \/ e.a = "StopAnnounce" /\ StopAnnounce(e.n, e.s)
           \/ e.a = "Walk" /\ Len(e.sent) = 1 /\ Walk(e.n, e.m, sentPks)
           \/ e.a = "Deliver" /\ Len(e.sent) <= 1 /\ Deliver(MsgOf(e.msg), sentPks)
           \/ e.a = "Lose" /\ Len(e.sent) = 0 /\ Lose(MsgOf(e.msg))
           \/ e.a = "GetIntroPoints" /\ Len(e.sent) = 0 /\ GetIntroPoints(e.n) /\ ret'.lst = Recs(e.lst)
           \/ e.a = "PTick" /\ Len(e.sent) = 0 /\ PTick
        /\ now' = e.now
        /\ pfor' = [n \in Nodes |-> e.pfor[Idx(n)]]
        /\ pips' = [n \in Nodes |-> Recs(e.pips[Idx(n)])]
        /\ \A i \in 1..Len(e.sent) : MsgOf(e.sent[i]) \in msgs'
  /\ l' = l + 1 /\ UNCHANGED tid

TraceSpec == TraceInit /\ [][TraceNext]_tvars

(* total verdict: a trace is rejected exactly when some logged event is not an enabled step.  The fast path    *)
(* (PexTrace.cfg) only counts: all traces are accepted iff TLC finds sum(len + 1) distinct states; the         *)
(* ENABLED form (PexTrace_locate.cfg) names the failing trace and event.                                       *)
TraceAccepted == l <= Len(Ev) => ENABLED TraceNext
=============================================================================
