\* part S (quick tier): max_ip_age 0 - every point is too old one tick later unless refreshed or in use; small enough for a complete cover
SPECIFICATION SpecS
CONSTANTS
  T0 = 10  MaxTime = 11
  Peers = {1, 2}  Seeders = {1}  Circuits = {1}
  MaxIpAge = 0  MinDht = 3  MaxDht = 1  Interval = 1  ConnLimit = 2  MaxBytes = 0  MaxResult = 1
  SeedingChoices = {FALSE}
  DupAdd = FALSE  ExpireUsed = FALSE  NoGate = FALSE  ForgetHistory = FALSE
  Nodes = {1}  NSwarmA = 1  PSeeders = {1}  PexAge = 3  PexCap = 2  SendCap = 10
  Unload = FALSE  ExpireNewest = FALSE  CrossSwarm = FALSE  MaxMsgs = 0  MaxAnn = 2
INVARIANT TypeOK
INVARIANT SwarmNoDup
INVARIANT HistoryExact
INVARIANT E2EOnlyNew
PROPERTY FreshAfterLookup
PROPERTY ExpiresOnlyOldUnused
PROPERTY TotalsMonotone
PROPERTY LookupGate
PROPERTY DhtInterval
PROPERTY PexWhenKnown
