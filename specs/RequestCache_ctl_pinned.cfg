SPECIFICATION Spec
CONSTANTS NC = 2 NI = 1 Delays = {1} PassTimeouts = {} Filters = {"all"}
          Nesting = FALSE ReAdds = 1 ExtFut = 0 ReapOwnOnly = FALSE LateCancel = TRUE
          HScripts = {} CoHandlers = FALSE ClaimFirst = TRUE
          TMShutdown = FALSE ShutGuard = FALSE NFut = 3 FutLoop = "all"
INVARIANT NoTimeoutAfterClaim
