SPECIFICATION Spec
CONSTANTS NC = 2 NI = 1 Delays = {1} PassTimeouts = {} Filters = {"all"}
          Nesting = FALSE ReAdds = 1 ExtFut = FALSE ReapOwnOnly = FALSE LateCancel = TRUE
          HScripts = {} CoHandlers = FALSE ClaimFirst = TRUE
INVARIANT NoTimeoutAfterClaim
