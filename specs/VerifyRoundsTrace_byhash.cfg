SPECIFICATION TraceSpec
CONSTANTS BitSpace = 0 Honest = TRUE Window = 10 MaxRounds = 100 MaxHon = 100000 MaxDup = 100000
CONSTANTS CreditBy = "hash"
INVARIANT TraceAccepted
INVARIANT TypeOK
INVARIANT SubProfile
INVARIANT AggIsAnswers
INVARIANT Reconstructs
INVARIANT ResultIsProfile
