\* both flows: node 1 obtains an attestation from node 2, node 2 then verifies it at node 1
SPECIFICATION Spec
CONSTANTS
 Nodes = {1, 2} Adv = {} Requesters = {1} Verifiers = {2}
 Values <- Vals1 NChunks = 2 Window = 10 Pre <- NoPre
 MaxReq = 1 MaxVer = 1 MaxHon = 1 MaxDup = 1 MaxDrop = 0 MaxAdv = 0 MaxTimeouts = 1 MaxTicks = 0
 AdvKinds = {"junk", "data", "resp", "chal"} AdvResps = {0, 1, 2, 3}
 TickSteps = {}
 OnceOnly = TRUE CheckPeer = TRUE CheckHash = TRUE AskConsent = TRUE
INVARIANT StoredIntact
INVARIANT ChunkIsolation
INVARIANT VerifyOnce
INVARIANT ResultConsistent
INVARIANT ConsentGiven
INVARIANT CachesSane
PROPERTY DbAppendOnly
