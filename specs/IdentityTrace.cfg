SPECIFICATION TraceSpec
CONSTANTS AlreadyChecked = TRUE PkPerAuthority = TRUE CheckSubject = TRUE CheckPermission = TRUE CommitBeforeSend = TRUE Window = 300 RespCap = 10 FitAll = 8 Compare = TRUE
INVARIANT TraceAccepted
INVARIANT TypeOK
INVARIANT SignsOnlyConsented
INVARIANT StoresOnlyValidlySigned
INVARIANT TokensOnlyUpToPermitted
INVARIANT TreesVerified
INVARIANT SentOnlyRecorded
