SPECIFICATION Spec
CONSTANTS Nodes = {1, 2} Adv = {} Storers = {2} Connectors = {1} AltAddr = {} AdvReqTargets = {} AdvRespTargets = {} ConnKeys = {2} ConnPings = {0, 2}
          Acts = {"token", "store", "connect", "pingall"}
          Timeout = 1 PingInterval = 5 KeepAlive = 12 Enough = 2 MaxFind = 8
          Jumps = {1, 13} MaxClock = 19 MaxId = 2 MaxEpoch = 1 MaxSent = 6
          EmptyKeyHit = FALSE PingTimeoutOk = FALSE NoTokenCheck = FALSE NoTargetCheck = FALSE AckFromSender = FALSE
          NoSweep = FALSE NoPuncture = FALSE PunctSwapped = FALSE SendRefused = FALSE PongUnsolicitedResets = FALSE
CONSTANT TokenPairs <- TP_local
CONSTANT FindSets <- FS_local
CONSTRAINT Bound
INVARIANT TypeOK
INVARIANT StoreAuth
INVARIANT StoreForMeAcked
INVARIANT ConnectExact
INVARIANT RefusedNotSent
INVARIANT ConnectResult
INVARIANT UnsolicitedInert
INVARIANT SweptFresh
PROPERTY KeepAlive_P
