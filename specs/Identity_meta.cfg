\* name and metadata: registrations fixing the name / extra metadata against metadata variants
SPECIFICATION MCSpec
CONSTANTS AlreadyChecked = TRUE PkPerAuthority = TRUE CheckSubject = TRUE CheckPermission = TRUE CommitBeforeSend = TRUE Window = 300 RespCap = 10 FitAll = 8
  Regs = {1, 4, 5, 7} Senders = {1} TokIdx = {2} MdIdx = {2, 3, 4, 8, 9, 12} AttIdx = {1} MissIdx = {}
  Ticks = {} OwnerPeers = {} KnownVals = {} AttSend = {} RegFirst = FALSE FaultTabs = {}
  MaxReg = 2 MaxMsg = 2 MaxTick = 0 MaxOwn = 0 MaxFault = 0
INVARIANT TypeOK
INVARIANT SignsOnlyConsented
INVARIANT StoresOnlyValidlySigned
INVARIANT TokensOnlyUpToPermitted
INVARIANT TreesVerified
INVARIANT SentOnlyRecorded
