SPECIFICATION TraceSpec
CONSTANTS
  Nodes = {"S", "D", "T", "A", "B", "C"}
  Swarms = {1, 2}
  Cids <- Big Ids <- Big Cks <- Big Keys <- Big Ephs <- Big Tags <- Big
  Service = {"S", "D", "T", "A", "B", "C"}
  Canonical = FALSE
  ForgeTypes <- NoNodes Seeders <- NoNodes Downloaders <- NoNodes Infra <- NoNodes
  CheckIdent = TRUE CheckCookie = TRUE CheckEnabled = TRUE CheckSeeding = TRUE CheckSecret = TRUE
  CleanOnClose = TRUE CleanOnPop = TRUE
  ForgeBudget = 0 FaultBudget = 0 ApiBudget = 0
INVARIANT NotDone
