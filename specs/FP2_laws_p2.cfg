SPECIFICATION Spec
CONSTANTS P = 2 PinnedAdd = FALSE Seed = 0 NX = 0 NY = 0 NZ = 0
CONSTANT Exps <- ExpsStd
CONSTANT DomX <- DomAll
CONSTANT DomY <- DomAll
CONSTANT DomZ <- DomAll
INVARIANT TypeOK
INVARIANT MulFromDefinition
INVARIANT AddCommutes
INVARIANT MulCommutes
INVARIANT AddAssoc
INVARIANT MulAssoc
INVARIANT Distributes
INVARIANT SubIsAddNeg
INVARIANT Identities
INVARIANT DivThenMul
INVARIANT InverseLaw
INVARIANT PolyInverse
INVARIANT CanonIsValue
INVARIANT EqIsCanonEq
INVARIANT PowLaw
INVARIANT ImplRefines
