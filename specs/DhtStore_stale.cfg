SPECIFICATION Spec
CONSTANTS Addrs = {"A1"} Keys = {"K1"} Signers = {"S1", "S2"} OwnSigner = "S1" MaxVer = 2 Datas = {"a"} UData = {}
          Forged = FALSE Sizes = FALSE Multi = FALSE Base = 2 Scale = 1 MaxRot = 0 MaxClock = 4 InitCloser = 8 MaxCloser = 8
          MaxIssued = 1 PeerStore = FALSE Locals = FALSE EqReplaces = TRUE OtherTokens = {} MaxStored = 8
          KeepSecrets = 2 CleanAll = TRUE Validity = 0 RotatePeriod = 0 ExpiredYields = FALSE
INVARIANT TypeOK
INVARIANT StoreNeedsOwnFreshToken
INVARIANT Limits
INVARIANT SignedMeansVerified
INVARIANT OneEntryPerId
INVARIANT ExpiredGoneAfterClean
INVARIANT StorePeerOnlyOwnMid
INVARIANT WindowIsTwoNewest
PROPERTY NoDowngrade
ACTION_CONSTRAINT SmallStore
