\* part S (quick tier): two circuits with byte counters, one key, clock stopped
SPECIFICATION SpecS
CONSTANTS
  T0 = 10  MaxTime = 10
  Peers = {1}  Seeders = {1}  Circuits = {1, 2}
  MaxIpAge = 2  MinDht = 3  MaxDht = 1  Interval = 1  ConnLimit = 1  MaxBytes = 1  MaxResult = 1
  SeedingChoices = {FALSE}
  DupAdd = FALSE  ExpireUsed = FALSE  NoGate = FALSE  ForgetHistory = FALSE
  Nodes = {1}  NSwarmA = 1  PSeeders = {1}  PexAge = 3  PexCap = 2  SendCap = 10
  Unload = FALSE  ExpireNewest = FALSE  CrossSwarm = FALSE  MaxMsgs = 0  MaxAnn = 2
INVARIANT TypeOK
INVARIANT SwarmNoDup
INVARIANT HistoryExact
INVARIANT E2EOnlyNew
PROPERTY FreshAfterLookup
PROPERTY ExpiresOnlyOldUnused
PROPERTY TotalsMonotone
PROPERTY LookupGate
PROPERTY DhtInterval
PROPERTY PexWhenKnown
