------------------------------ MODULE Lifecycle ------------------------------
(* G04 - the service container  ipv8_service.py : class IPv8                                        *)
(*   __init__ (overlays / strategies from the configuration), start, the ticker task + on_tick,     *)
(*   add_strategy, unload_overlay, stop, produce_anonymized_endpoint.                               *)
(* (the bootstrappers live in LifecycleBoot.tla)                                                    *)
(*                                                                                                  *)
(* One action per public call / task step of the real code.  A "task step" is what one wake-up of   *)
(* an asyncio task executes until its next await:                                                   *)
(*   Start            await IPv8.start(): endpoint.open, on_start hooks, ticker task created, first *)
(*                    on_tick pass runs until its first sleep                                       *)
(*   Wake             the ticker's sleep ends: the pass continues (smoothing sleep) or on_tick      *)
(*                    returns and the next pass begins (walk_interval sleep)                        *)
(*   AddStrategy(s)   IPv8.add_strategy(overlay, strategy, target)                                  *)
(*   UnloadOverlay(o) IPv8.unload_overlay(o): synchronous part (lists filtered, o.unload() called:  *)
(*                    the coroutine exists but has not run)                                         *)
(*   UnloadRun(o)     the unload coroutine of o runs to completion                                  *)
(*   Stop             await IPv8.stop() up to its gather(): ticker cancelled and dead, unload()     *)
(*                    called on every registered overlay; the endpoint is closed by the UnloadRun   *)
(*                    that completes the gather (or at once when nothing is registered)             *)
(*   SetPeers(o, k)   environment: overlay o now has k verified peers                               *)
(*   ProduceAnon      await IPv8.produce_anonymized_endpoint()                                      *)
(*                                                                                                  *)
(* on_tick, as written:  smooth = walk_interval // len(strategies); ticker = len(strategies);       *)
(*   for (strategy, target) in self.strategies:  [REPAIRED: skip entries no longer registered]      *)
(*       if target == -1 or strategy.get_peer_count() < target: strategy.take_step()  (exceptions   *)
(*       swallowed); ticker -= 1 (not below 0); if ticker and smooth > 0.01: await sleep(smooth)    *)
(*   else: await sleep(walk_interval)                                                               *)
(* unload_overlay RE-BINDS self.overlays / self.strategies to filtered copies, add_strategy APPENDS *)
(* in place: a pass suspended in a smoothing sleep keeps iterating the list object it started with  *)
(* (tk.iter; tk.alias = "that object is still self.strategies").                                    *)
(*                                                                                                  *)
(* SAFETY PROPERTIES (from the docstrings: "schedules all registered strategies", "call every tick  *)
(* unless a target number of peers has been reached; -1: always called", "Unregister and unload a   *)
(* given overlay instance", "Stop all registered IPv8 strategies, unload all registered overlays    *)
(* and close the endpoint"):                                                                        *)
(*  P1 StepOnlyLoaded   take_step is only entered for a strategy that is registered and whose       *)
(*                      overlay is registered and not unloaded/being unloaded - in particular never *)
(*                      after unload_overlay(o) returned, also not in the pass that was suspended   *)
(*                      while unload_overlay ran ("unload_overlay during a tick is safe").          *)
(*  P2 StepBelowTarget  take_step is only entered when target = -1 or peer count < target.          *)
(*  P3 StepOnlyRunning  take_step is only entered between start and stop, with the endpoint open.   *)
(*  P4 PassComplete     a completed pass has considered every strategy that was registered during   *)
(*                      the whole pass (nobody is skipped because somebody else was unloaded).      *)
(*  P5 Registered       registered overlays = loaded overlays; every registered strategy belongs to *)
(*                      a registered overlay.                                                       *)
(*  P6 UnloadOnce       unload() is called at most once per overlay (stop does not unload again     *)
(*                      what unload_overlay already unloaded).                                      *)
(*  P7 StopComplete     after stop: nothing registered, every overlay that was ever registered is   *)
(*                      unloaded (exactly one unload call), ticker dead, endpoint closed.           *)
(*  P8 EndpointLast     the endpoint is never closed while an overlay is loaded or still unloading. *)
(*  P9 AnonIndependent  an endpoint made by produce_anonymized_endpoint is open and is not the      *)
(*                      service's endpoint: stop leaves it open (it belongs to the caller).         *)
(*                                                                                                  *)
(* ALLOWED, NOTED (not judged): the on_start entries are bound at __init__, so start() also runs    *)
(* the hook of an overlay that was unloaded before start (hooks' = ConfOv); walk_interval //         *)
(* len(strategies) is a FLOOR division, so with the default interval 0.5 there is never a smoothing *)
(* pause; a take_step that raises is swallowed and counts as a step (the harness makes strategy 1/2 *)
(* raise).                                                                                          *)
(* ASSUMPTIONS (caller discipline, behaviour outside is allowed and not judged): stop() is not      *)
(* called while an unload_overlay() is still in progress and no API call is made while stop() is in *)
(* progress; start/stop are called once; a strategy is registered once, for its own overlay, and    *)
(* not for an overlay that was already unloaded.                                                    *)
(*                                                                                                  *)
(* DEVIATION CONSTANTS: StaleTick = TRUE is the pinned code (no "still registered" check: the       *)
(* suspended pass steps strategies of an overlay unloaded meanwhile; violates P1) - G04-1.          *)
(* LeTarget (peer count <= target), CloseEarly (stop closes before the unloads finished) and        *)
(* InPlace (unload_overlay filters the lists in place) are negative controls.                       *)
EXTENDS Integers, Sequences, FiniteSets, TLC

CONSTANTS Ov,        \* overlay instances
          ConfOv,    \* sequence: overlays built by __init__ from the configuration
          St,        \* strategy instances
          ConfSt,    \* sequence: strategies built by __init__ (walkers, configuration order)
          OvOf,      \* [St -> Ov]
          Target,    \* [St -> {-1} \cup Nat]
          WI,        \* walker_interval (integer >= 1)
          MaxPeers,
          WithAnon,  \* explore produce_anonymized_endpoint
          StaleTick, LeTarget, CloseEarly, InPlace

VARIABLES overlays,   \* IPv8.overlays
          strategies, \* IPv8.strategies (the strategy ids; targets are Target[s])
          ovst,       \* [Ov -> "fresh" | "loaded" | "unloading" | "unloaded"]
          ucalls,     \* [Ov -> Nat] number of calls of overlay.unload()
          peers,      \* [Ov -> 0..MaxPeers]
          ep,         \* "unopened" | "open" | "closed"
          svc,        \* "new" | "running" | "stopping" | "stopped"
          tk,         \* the ticker task, see NoTick / RunPass
          steps,      \* sequence of strategies whose take_step was entered by the last action
          seen,       \* strategies considered so far by the current pass
          atStart,    \* strategies registered when the current pass began
          missed,     \* set by the action that completes a pass: registered all along but not considered
          hooks,      \* overlays whose on_start hook ran (in order)
          anon        \* "none" | "open" | "closed" : the endpoint made by produce_anonymized_endpoint
vars == <<overlays, strategies, ovst, ucalls, peers, ep, svc, tk, steps, seen, atStart, missed, hooks, anon>>

Range(s) == {s[i] : i \in 1..Len(s)}
Filter(s, P(_)) == SelectSeq(s, P)

NoTick(st) == [st |-> st, iter |-> <<>>, alias |-> FALSE, pos |-> 0, ticker |-> 0, smooth |-> 0]

Eligible(s) == \/ Target[s] = -1
               \/ IF LeTarget THEN peers[OvOf[s]] <= Target[s] ELSE peers[OvOf[s]] < Target[s]

(* the for loop of on_tick from index pos of the list `it` until the next await.                    *)
(* result: [tk, steps, seen]                                                                        *)
RECURSIVE Loop(_, _, _, _, _, _, _)
Loop(it, al, pos, tkr, sm, acc, sn) ==
  IF pos > Len(it) THEN [tk |-> NoTick("idle"), steps |-> acc, seen |-> sn]
  ELSE LET s == it[pos] IN
       IF ~StaleTick /\ s \notin Range(strategies)
       THEN Loop(it, al, pos + 1, tkr, sm, acc, sn)          \* repaired: no longer registered, skipped
       ELSE LET acc2 == IF Eligible(s) THEN Append(acc, s) ELSE acc
                t2   == IF tkr > 0 THEN tkr - 1 ELSE 0
            IN IF t2 > 0 /\ sm >= 1
               THEN [tk |-> [st |-> "mid", iter |-> it, alias |-> al, pos |-> pos + 1, ticker |-> t2, smooth |-> sm],
                     steps |-> acc2, seen |-> sn \cup {s}]
               ELSE Loop(it, al, pos + 1, t2, sm, acc2, sn \cup {s})

NewPass == LET n == Len(strategies) IN
           Loop(strategies, TRUE, 1, n, IF n > 0 THEN WI \div n ELSE 0, <<>>, {})

ApplyRun(r, fresh) ==
  /\ tk' = r.tk /\ steps' = r.steps
  /\ IF r.tk.st = "idle"
     THEN /\ missed' = ((IF fresh THEN Range(strategies) ELSE atStart) \cap Range(strategies)) \ r.seen
          /\ seen' = {} /\ atStart' = {}
     ELSE /\ missed' = {} /\ seen' = r.seen
          /\ atStart' = IF fresh THEN Range(strategies) ELSE atStart

Init == /\ overlays = ConfOv /\ strategies = ConfSt
        /\ ovst = [o \in Ov |-> IF o \in Range(ConfOv) THEN "loaded" ELSE "fresh"]
        /\ ucalls = [o \in Ov |-> 0] /\ peers = [o \in Ov |-> 0]
        /\ ep = "unopened" /\ svc = "new" /\ tk = NoTick("none")
        /\ steps = <<>> /\ seen = {} /\ atStart = {} /\ missed = {} /\ hooks = <<>> /\ anon = "none"

Start == /\ svc = "new"
         /\ ep' = "open" /\ svc' = "running"
         /\ hooks' = ConfOv      \* on_start entries are bound at __init__: also run for an overlay unloaded before start
         /\ ApplyRun(NewPass, TRUE)
         /\ UNCHANGED <<overlays, strategies, ovst, ucalls, peers, anon>>

Wake == /\ svc = "running" /\ tk.st \in {"mid", "idle"}
        /\ IF tk.st = "idle" THEN ApplyRun(NewPass, TRUE)
           ELSE ApplyRun(Loop(tk.iter, tk.alias, tk.pos, tk.ticker, tk.smooth, <<>>, seen), FALSE)
        /\ UNCHANGED <<overlays, strategies, ovst, ucalls, peers, ep, svc, hooks, anon>>

AddStrategy(s) ==
  /\ svc \in {"new", "running"} /\ s \notin Range(strategies)
  /\ ovst[OvOf[s]] \in {"fresh", "loaded"}
  /\ overlays' = IF OvOf[s] \in Range(overlays) THEN overlays ELSE Append(overlays, OvOf[s])
  /\ ovst' = [ovst EXCEPT ![OvOf[s]] = "loaded"]
  /\ strategies' = Append(strategies, s)
  /\ tk' = IF tk.st = "mid" /\ tk.alias THEN [tk EXCEPT !.iter = Append(@, s)] ELSE tk
  /\ steps' = <<>> /\ missed' = {}
  /\ UNCHANGED <<ucalls, peers, ep, svc, seen, atStart, hooks, anon>>

(* InPlace (control): the lists are filtered in place; the suspended iterator keeps its index and   *)
(* so skips what slid into a position it has already passed.                                        *)

UnloadOverlay(o) ==
  /\ svc \in {"new", "running"} /\ ovst[o] = "loaded"
  /\ overlays' = Filter(overlays, LAMBDA x : x # o)
  /\ strategies' = Filter(strategies, LAMBDA s : OvOf[s] # o)
  /\ ovst' = [ovst EXCEPT ![o] = "unloading"]
  /\ ucalls' = [ucalls EXCEPT ![o] = @ + 1]
  /\ tk' = IF tk.st # "mid" THEN tk
           ELSE IF InPlace /\ tk.alias
                THEN [tk EXCEPT !.iter = Filter(@, LAMBDA s : OvOf[s] # o)]   \* the iterator keeps its index
                ELSE [tk EXCEPT !.alias = FALSE]
  /\ steps' = <<>> /\ missed' = {}
  /\ UNCHANGED <<peers, ep, svc, seen, atStart, hooks, anon>>

GatherDone(st) == \A o \in Ov : st[o] # "unloading"

UnloadRun(o) ==
  /\ ovst[o] = "unloading"
  /\ ovst' = [ovst EXCEPT ![o] = "unloaded"]
  /\ IF svc = "stopping" /\ GatherDone(ovst')
     THEN ep' = "closed" /\ svc' = "stopped"
     ELSE UNCHANGED <<ep, svc>>
  /\ steps' = <<>> /\ missed' = {}
  /\ UNCHANGED <<overlays, strategies, ucalls, peers, tk, seen, atStart, hooks, anon>>

Stop ==
  /\ svc \in {"new", "running"} /\ GatherDone(ovst)
  /\ tk' = NoTick(IF svc = "running" THEN "dead" ELSE "none")
  /\ overlays' = <<>> /\ strategies' = <<>>
  /\ ovst' = [o \in Ov |-> IF o \in Range(overlays) THEN "unloading" ELSE ovst[o]]
  /\ ucalls' = [o \in Ov |-> IF o \in Range(overlays) THEN ucalls[o] + 1 ELSE ucalls[o]]
  /\ IF overlays = <<>> \/ CloseEarly
     THEN ep' = "closed" /\ svc' = IF overlays = <<>> THEN "stopped" ELSE "stopping"
     ELSE ep' = ep /\ svc' = "stopping"
  /\ steps' = <<>> /\ missed' = {} /\ seen' = {} /\ atStart' = {}
  /\ UNCHANGED <<peers, hooks, anon>>

SetPeers(o, k) ==
  /\ svc \in {"new", "running"} /\ peers[o] # k
  /\ peers' = [peers EXCEPT ![o] = k]
  /\ steps' = <<>> /\ missed' = {}
  /\ UNCHANGED <<overlays, strategies, ovst, ucalls, ep, svc, tk, seen, atStart, hooks, anon>>

ProduceAnon ==
  /\ WithAnon /\ anon = "none"
  /\ anon' = "open"
  /\ steps' = <<>> /\ missed' = {}
  /\ UNCHANGED <<overlays, strategies, ovst, ucalls, peers, ep, svc, tk, seen, atStart, hooks>>

Next == \/ Start \/ Wake \/ Stop \/ ProduceAnon
        \/ \E s \in St : AddStrategy(s)
        \/ \E o \in Ov : UnloadOverlay(o)
        \/ \E o \in Ov : UnloadRun(o)
        \/ \E o \in Ov, k \in 0..MaxPeers : SetPeers(o, k)

Spec == Init /\ [][Next]_vars

(* ------------------------------------------ properties ------------------------------------------ *)
TypeOK == /\ Range(overlays) \subseteq Ov /\ Range(strategies) \subseteq St
          /\ Len(overlays) = Cardinality(Range(overlays)) /\ Len(strategies) = Cardinality(Range(strategies))
          /\ ovst \in [Ov -> {"fresh", "loaded", "unloading", "unloaded"}]
          /\ peers \in [Ov -> 0..MaxPeers]
          /\ ep \in {"unopened", "open", "closed"} /\ svc \in {"new", "running", "stopping", "stopped"}
          /\ tk.st \in {"none", "mid", "idle", "dead"}
          /\ anon \in {"none", "open", "closed"}

StepOnlyLoaded  == \A i \in 1..Len(steps) : steps[i] \in Range(strategies) /\ ovst[OvOf[steps[i]]] = "loaded"
StepBelowTarget == \A i \in 1..Len(steps) : Target[steps[i]] = -1 \/ peers[OvOf[steps[i]]] < Target[steps[i]]
StepOnlyRunning == steps # <<>> => svc = "running" /\ ep = "open"
PassComplete    == missed = {}
Registered      == /\ Range(overlays) = {o \in Ov : ovst[o] = "loaded"}
                   /\ \A i \in 1..Len(strategies) : OvOf[strategies[i]] \in Range(overlays)
UnloadOnce      == \A o \in Ov : ucalls[o] <= 1 /\ (ucalls[o] = 1 <=> ovst[o] \in {"unloading", "unloaded"})
StopComplete    == svc = "stopped" => /\ overlays = <<>> /\ strategies = <<>> /\ ep = "closed"
                                      /\ tk.st \in {"none", "dead"}
                                      /\ \A o \in Ov : ovst[o] \in {"fresh", "unloaded"}
TickerAlive     == (svc = "running" <=> tk.st \in {"mid", "idle"}) /\ (svc = "new" => tk.st = "none")
EndpointLast    == ep = "closed" => \A o \in Ov : ovst[o] \notin {"loaded", "unloading"}
AnonIndependent == anon # "closed"
=============================================================================
