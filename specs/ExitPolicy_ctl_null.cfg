SPECIFICATION Spec
CONSTANTS QCap = 2 MaxPend = 1 MaxOps = 4
          NoInboundFilter = FALSE NoNullCheck = TRUE AnyoneOpens = FALSE
          RepIds = {1, 5, 7}
          TrackHistory = FALSE FlowCache = "none" HostIps = {"x"} HostPorts = {1}
          StaleVerdict = "none" HopFollowsPeer = FALSE VerdictMemo = "none" FlagChoices = {} SignedSrcs = {}
          SrcSet = {"prev", "port", "other"} DkSet = {"v4", "v6", "dom4", "dom6", "domfail", "null"}
INVARIANT NeverToNull
