SPECIFICATION Spec
CONSTANTS QCap = 2 MaxPend = 1 MaxOps = 4
          NoInboundFilter = FALSE NoNullCheck = TRUE AnyoneOpens = FALSE
          RepIds = {1, 5, 7}
INVARIANT NeverToNull
