SPECIFICATION Spec
CONSTANTS Pfx = {"A", "B"} MaxHops = 1 MaxCid = 0 QCap = 100 MaxDepth = 3 LeakDetached = FALSE AnyState = FALSE MaxInst = 3 Lifecycle = TRUE UnloadClears = FALSE CandInit = {FALSE} CloseWays = {"closeR", "remove"} ReasonDecides = FALSE ReadyInit = FALSE Expiry = FALSE
INVARIANT TypeOK
INVARIANT NoRawForAnon
INVARIANT TunnelledOnlyOverReadyRightCircuit
INVARIANT QueueBounded
INVARIANT PlainUnaffected
INVARIANT SwitchFollowsRequests
INVARIANT StateFollowsClose
PROPERTY ImplRefinesAbs
PROPERTY PlainLeavesQueue
PROPERTY ClosedForGood
