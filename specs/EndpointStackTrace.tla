------------------------- MODULE EndpointStackTrace -------------------------
(* Recorded random executions of the real stack  StatisticsEndpoint -> DispatcherEndpoint -> UDPEndpoint +        *)
(* UDPv6Endpoint on loopback (harness/drivers/g08.py, binding T) checked against EndpointStack.tla: every event    *)
(* must be the named step of the specification and reproduce the logged projection of the real objects             *)
(* (registries, life cycle, sockets, counters, bytes seen on the wire, statistics) and the observed outcome.       *)
EXTENDS EndpointStack, Json, IOUtils, TLCExt, Sequences

Traces == JsonDeserialize(IOEnv.TRACE_FILE)

VARIABLES tid, l
tvars == <<vars, tid, l>>

Ev == Traces[tid].events

TraceInit == tid \in 1..Len(Traces) /\ l = 1 /\ Init

SetOf(seq) == {seq[j] : j \in 1..Len(seq)}

Step(e) ==
  CASE e.a = "Add"     -> Add(e.l)
    [] e.a = "AddP"    -> AddP(e.l, e.p)
    [] e.a = "Remove"  -> Remove(e.l)
    [] e.a = "Recv"    -> Recv(e.i, e.p, e.m, e.s)
    [] e.a = "Notify"  -> Notify(e.p, e.m, e.s)
    [] e.a = "Send"    -> Send(e.k, "auto", e.p, e.m, e.s)
    [] e.a = "DOpen"   -> DOpen
    [] e.a = "DClose"  -> DClose
    [] e.a = "IOpen"   -> IOpen(e.i)
    [] e.a = "IClose"  -> IClose(e.i)
    [] e.a = "Settle"  -> Settle
    [] e.a = "Reset"   -> Reset
    [] e.a = "ErrorCb" -> ErrorCb(e.i)
    [] e.a = "Enable"  -> Enable(e.p, e.b)
    [] OTHER           -> FALSE

Observed(e) ==
  /\ ifs' = e.ifs /\ socks' = e.socks /\ gen' = e.gen /\ pm' = e.pm
  /\ up' = e.up /\ down' = e.down /\ sentB' = e.sentB
  /\ tracked' = SetOf(e.tracked)
  /\ \A p \in Prefixes, m \in MsgIds : stat'[p][m] = e.stat[p][ToString(m)]
  /\ last'.deliv = e.deliv /\ last'.wire = SetOf(e.wire) /\ last'.out = e.out

TraceNext == /\ l <= Len(Ev)
             /\ Step(Ev[l])
             /\ Observed(Ev[l])
             /\ l' = l + 1 /\ UNCHANGED tid

TraceSpec == TraceInit /\ [][TraceNext]_tvars

(* total verdict: a trace is rejected exactly when some logged event is not an enabled spec step *)
TraceAccepted == l <= Len(Ev) => ENABLED TraceNext
=============================================================================
