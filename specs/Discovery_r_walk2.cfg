\* replay: RandomWalk, window 2, no tracker, own address may be introduced
SPECIFICATION Spec
CONSTANTS
  Peers = {"p1"}
  Ghosts = {"g1", "g2"}
  Trackers = {}
  Own = "own"
  UseWalk = TRUE
  UseEdge = FALSE
  UseChurn = FALSE
  Window = 2
  WalkTimeout = 1
  TargetInterval = 0
  TargetPeers <- MinusOne
  MaxPeers <- MinusOne
  EdgeLen = 3
  NbSize = 1
  EdgeTimeout = 1
  SampleSize = 2
  PingInterval = 1
  InactiveTime = 1
  DropTime = 3
  MaxPings = 2
  PingCacheTimeout = 1
  BootTimeout = 2
  MaxTime = 2
  TickLens = {1}
  IntroOwn = TRUE
  Dev = {}
CONSTRAINT Bounded
INVARIANT TypeOK
INVARIANT NetOK
INVARIANT WalkWindow
INVARIANT NoOwnAddress
INVARIANT EdgeShape
INVARIANT EdgeBound
PROPERTY DropOnlyAfterSilence
PROPERTY PingDiscipline
PROPERTY WalkTargets
PROPERTY ForgetOnlyUnreachable
PROPERTY WalkSpacing
PROPERTY EdgeGrowsVerified
PROPERTY PongCounted
