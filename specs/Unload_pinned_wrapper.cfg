SPECIFICATION Spec
CONSTANTS Wirings = {"plain", "tunnel"} Kinds = {"basic", "cache", "tunnel"} MaxTasks = 2 MaxCaches = 1 MaxSocks = 1 MaxBoot = 1 MaxTry = 1 MaxXTask = 1 StoreAtOpen = TRUE
          InitAwaited = TRUE UnloadRemovesPending = TRUE
          WrapperForwardsRemove = FALSE CryptoListenerRemoved = TRUE RemovalAwaited = TRUE
INVARIANT TypeOK
INVARIANT LoadedReachable
INVARIANT SilentAfterUnload
INVARIANT NoLateActivity
INVARIANT JobsHeld
PROPERTY NoNewTaskAfterUnload
