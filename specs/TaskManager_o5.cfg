SPECIFICATION Spec
CONSTANTS Names = {"a", "b"} MaxT = 4 MaxOps = 5 IdentityPop = TRUE
INVARIANT TypeOK
INVARIANT NoDuplicateActiveName
INVARIANT RegistryComplete
INVARIANT ReplaceAfterOldFinished
INVARIANT NothingAfterShutdown
PROPERTY NoNewAfterShutdown
