SPECIFICATION Spec
CONSTANTS K = 1 SendPuncture = TRUE PunctureFirst = TRUE FollowAll = FALSE MaxId = 60 QuietCalls = TRUE
          APlaces = {"nat"} CandPlaces = {"nat"}
          MaxContactsA = 1 MaxContactsB = 1
          MinContacts = 1 MaxRebinds = 0 Clock0 = 0 Refresh = TRUE Ident16 = TRUE
          Svcs = {"M", "X"} Phased = TRUE V6N = 0 StyleAware = TRUE SvcWalkable = FALSE
INVARIANT Reach
CHECK_DEADLOCK FALSE
