--------------------------- MODULE RangeProofTrace ---------------------------
(* Runs of the real PengBaoRangeAlgorithm (fresh keys; values inside, on and outside the bounds;    *)
(* proofs built for a wider range than the verifier's) checked against RangeProof.tla. Events:      *)
(*   B ok    attest() for value v with the prover's range: ok = a proof was produced (an exception  *)
(*           or no result within the time budget is ok = FALSE)                                     *)
(*   Q       one create_challenges / create_challenge_response / process_challenge_response round   *)
(*   V acc   certainty(claim "in range", aggregate) = 1.0                                           *)
EXTENDS RangeProof, Sequences, Json, IOUtils, TLCExt

Traces == JsonDeserialize(IOEnv.TRACE_FILE)

VARIABLES tid, l
tvars == <<vars, tid, l>>
Ev == Traces[tid].events

TraceInit == /\ tid \in 1..Len(Traces) /\ l = 1
             /\ lo = Traces[tid].lo /\ hi = Traces[tid].hi
             /\ plo = Traces[tid].plo /\ phi = Traces[tid].phi /\ v = Traces[tid].v
             /\ built = "no" /\ rounds = 0 /\ verdict = "none"

TraceNext == /\ l <= Len(Ev)
             /\ LET e == Ev[l] IN
                  \/ e.op = "B" /\ Build(e.ok)
                  \/ e.op = "Q" /\ Round
                  \/ e.op = "V" /\ Verdict(e.acc)
             /\ l' = l + 1 /\ UNCHANGED tid

TraceSpec == TraceInit /\ [][TraceNext]_tvars
TraceAccepted == l <= Len(Ev) => ENABLED TraceNext
=============================================================================
