--------------------------- MODULE DhtCrawlTrace ---------------------------
(* Crawls recorded in real DHT networks (harness/g02_net.py: every node a real DHTCommunity, real answers,   *)
(* loss, dead nodes, rate limiting) checked against DhtCrawl.tla: every logged event must be the named step  *)
(* of the specification with the logged arguments, and the logged projection of the real Crawl object /      *)
(* request cache / wire must equal the specification's next state.  All invariants of DhtCrawl.tla are       *)
(* evaluated in every state of every recorded crawl.                                                         *)
EXTENDS DhtCrawl, Json, IOUtils, TLCExt

Traces == JsonDeserialize(IOEnv.TRACE_FILE)
NoWorlds == <<>>

VARIABLES tid, l
tvars == <<vars, tid, l>>

Ev == Traces[tid].events
ToSet(s) == {s[i] : i \in 1..Len(s)}

PostOK(s) ==
  /\ phase' = s.phase
  /\ todo' = s.todo
  /\ tried' = ToSet(s.tried)
  /\ [i \in 1..Len(outst') |-> [to |-> outst'[i].to, kind |-> outst'[i].kind, task |-> launched'[outst'[i].k].n]] = s.outst
  /\ responses' = s.responses
  /\ stored' = s.stored
  /\ result' = s.result
  /\ nreq' = s.nreq

TraceInit == /\ tid \in 1..Len(Traces) /\ l = 1 /\ Init

Step1(e) == \/ e.a = "Find" /\ FindBody(ToSet(e.rt), e.mode) /\ world' = 0
            \/ e.a = "Respond" /\ RespondBody(e.i, [vals |-> e.vals, nodes |-> e.nodes])
            \/ e.a = "Drain" /\ Drain
            \/ e.a = "Expire" /\ Expire
            \/ e.a = "StoreAck" /\ StoreAck
            \/ e.a = "StoreExpire" /\ StoreExpire

TraceNext == /\ l <= Len(Ev)
             /\ LET e == Ev[l] IN
                  /\ Step1(e)
                  /\ e.chk => PostOK(e.s)
             /\ l' = l + 1 /\ UNCHANGED tid

TraceSpec == TraceInit /\ [][TraceNext]_tvars

(* total verdict: a trace is rejected exactly when some logged event is not an enabled step of the specification *)
TraceAccepted == l <= Len(Ev) => ENABLED TraceNext
(* fast path: the number of distinct states of an accepted batch is the number of events + the number of traces *)
=============================================================================
