\* verification with time passing (115 s), time-outs of all cache classes, late datagrams
SPECIFICATION Spec
CONSTANTS
 Nodes = {1, 2} Adv = {} Requesters = {} Verifiers = {1}
 Values <- Vals1 NChunks = 2 Window = 10 Pre <- PreOwn2
 MaxReq = 0 MaxVer = 1 MaxHon = 0 MaxDup = 0 MaxDrop = 1 MaxAdv = 0 MaxTimeouts = 2 MaxTicks = 1
 AdvKinds = {"junk", "data", "resp", "chal"} AdvResps = {0, 1, 2, 3}
 TickSteps = {115}
 OnceOnly = TRUE CheckPeer = TRUE CheckHash = TRUE AskConsent = TRUE
INVARIANT StoredIntact
INVARIANT ChunkIsolation
INVARIANT VerifyOnce
INVARIANT ResultConsistent
INVARIANT ConsentGiven
INVARIANT CachesSane
PROPERTY DbAppendOnly
