--------------------------- MODULE WalletProtocolL ---------------------------
EXTENDS WalletProtocolMC

(* the same next-state relation with the action and its arguments recorded, for state graphs that are replayed   *)
(* on the real code (TLC labels edges only for constant-bounded quantifiers)                                    *)
VARIABLE act
NextL ==
  \/ \E n \in Requesters, p \in Nodes : RequestAttestation(n, p) /\ act' = <<"RequestAttestation", n, p>>
  \/ \E m \in net, keep \in BOOLEAN : OnRequest(m, keep) /\ act' = <<"OnRequest", m, keep>>
  \/ \E n \in Honest, i \in 1..3, val \in Values \cup {<<>>} : AttestAnswer(n, i, val) /\ act' = <<"AttestAnswer", n, i, val>>
  \/ \E m \in net, keep \in BOOLEAN : OnChunk(m, keep) /\ act' = <<"OnChunk", m, keep>>
  \/ \E n \in Verifiers, p \in Nodes, h \in 1..Len(blobs) : Verify(n, p, h) /\ act' = <<"Verify", n, p, h>>
  \/ \E m \in net, keep \in BOOLEAN : OnVerifyRequest(m, keep) /\ act' = <<"OnVerifyRequest", m, keep>>
  \/ \E n \in Honest, i \in 1..3, allow \in BOOLEAN : Consent(n, i, allow) /\ act' = <<"Consent", n, i, allow>>
  \/ \E m \in net, keep \in BOOLEAN : OnChallenge(m, keep) /\ act' = <<"OnChallenge", m, keep>>
  \/ \E m \in net, keep \in BOOLEAN, hc \in -1..2 : OnResponse(m, keep, hc) /\ act' = <<"OnResponse", m, keep, hc>>
  \/ \E n \in Honest : \E c \in reqC[n] : ReqTimeout(n, c.peer, c.gt) /\ act' = <<"ReqTimeout", n, c.peer, c.gt>>
  \/ \E n \in Honest : \E c \in verC[n] : VerTimeout(n, c.h) /\ act' = <<"VerTimeout", n, c.h>>
  \/ \E n \in Honest : \E c \in provC[n] : ProvTimeout(n, c.h) /\ act' = <<"ProvTimeout", n, c.h>>
  \/ \E n \in Honest : \E c \in pendC[n] : PendTimeout(n, c.ch) /\ act' = <<"PendTimeout", n, c.ch>>
  \/ \E d \in TickSteps : Tick(d) /\ act' = <<"Tick", d>>
  \/ \E m \in net : Drop(m) /\ act' = <<"Drop", m>>
  \/ \E m \in AdvMsgs : AdvSend(m) /\ act' = <<"AdvSend", m>>
SpecL == Init /\ act = <<"Init">> /\ [][NextL]_<<vars, act>>
=============================================================================
