\* complete graph, 4 bit identifiers, capacity 1: splits down to the full identifier width; replayed on the real RoutingTable (thorough)
SPECIFICATION Spec
CONSTANTS W = 4 Bits <- SeqBits Cap = 1 MyNum = 5 IdNums = {0, 1, 2, 3, 4, 5, 6, 7, 8, 9, 10, 11, 12, 13, 14, 15}
          RTTs = {1, 2} Addrs = {1} AddBads = {FALSE, TRUE} KMax = 0 MaxDepth = 0
          WithGen = FALSE GenInBucket = TRUE OwnPathOnly = TRUE
INVARIANT TypeOK
INVARIANT PrefixFreeComplete
INVARIANT PartitionBrute
INVARIANT NodeInOwningBucket
INVARIANT Capacity
INVARIANT OwnPathShape
INVARIANT GeneratedIdInBucket
PROPERTY SplitOnlyOwnPath
