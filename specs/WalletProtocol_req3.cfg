\* thorough: three requests to two attesters, one loss, one time-out
SPECIFICATION Spec
CONSTANTS
 Nodes = {1, 2, 3} Adv = {} Requesters = {1} Verifiers = {}
 Values <- Vals1 NChunks = 2 Window = 10 Pre <- NoPre
 MaxReq = 3 MaxVer = 0 MaxHon = 0 MaxDup = 0 MaxDrop = 1 MaxAdv = 0 MaxTimeouts = 1 MaxTicks = 0
 AdvKinds = {"junk", "data", "resp", "chal"} AdvResps = {0, 1, 2, 3}
 TickSteps = {}
 OnceOnly = TRUE CheckPeer = TRUE CheckHash = TRUE AskConsent = TRUE
INVARIANT StoredIntact
INVARIANT ChunkIsolation
INVARIANT VerifyOnce
INVARIANT ResultConsistent
INVARIANT ConsentGiven
INVARIANT CachesSane
PROPERTY DbAppendOnly
