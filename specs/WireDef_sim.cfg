SPECIFICATION DSpec
CONSTANTS
  Pinned = {}
  Pads = {}
  FmtSel = {}
  ClsSel = {}
  K = 1
  DefKinds = {"H", "bits", "varlenH", "?", "I", "20s", "varlenHutf8", "address", "ip_address", "varlenH-list", "q"}
  MinFields = 4
  MaxFields = 9
  DeriveMax = 9
  DeriveUses = {"msg", "nest", "list"}
  Styles = {"plain", "compiled", "dataclass"}
  DefUses = {"msg", "nest", "list"}
  DefK = 3
  DefKN = 3
  DevModes = {{}}
INVARIANT DRoundTrip
INVARIANT DExactConsumption
INVARIANT DReEncode
