SPECIFICATION TraceSpec
CONSTANTS N = 64 MaxInit = 8 MaxReq = 24 MaxTasks = 4 TopK = 4 MaxStore = 8
          Modes = {"values", "nodes"}
          CtlNoTriedCheck = FALSE CtlNoSort = FALSE CtlCacheRecent = FALSE CtlBudgetByResponses = FALSE
CONSTANT Worlds <- NoWorlds
INVARIANT TraceAccepted
INVARIANT TypeOK
INVARIANT InvBudget
INVARIANT InvNoRepeat
INVARIANT InvClosestFirst
INVARIANT InvDone
INVARIANT InvValues
INVARIANT InvNodes
INVARIANT InvCache
INVARIANT InvNoStoreOtherwise
INVARIANT InvResponses
