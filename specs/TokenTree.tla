---------------------------- MODULE TokenTree ----------------------------
(* ipv8/attestation/tokentree/tree.py : TokenTree.gather_token, _append_chain_reaction_token,      *)
(* serialize_public / unserialize_public, Token.receive_content.                                   *)
(* Abstract layer : ConnectedValid(offered) - mentions no arrival order.                           *)
(* Implementation layer : elements (insertion ordered dict), unchained (ordered waiting area with  *)
(* capacity UCap, oldest evicted), the chain reaction that wakes waiting children.                 *)
EXTENDS Naturals, Sequences, FiniteSets, TLC, SequencesExt

CONSTANTS N,           \* good tokens 1..N (valid owner signature); tree shape chosen in Init
          UCap,        \* capacity of the waiting area (unchained_max_size)
          WakeAll,     \* TRUE: every waiting child is woken (repaired code). FALSE: pinned code woke the first only
          WithContent  \* TRUE: explore content attachment as well

Genesis == 0
Good    == 1..N
F       == N + 1       \* forged / foreign token: signature does not verify under the tree key
D       == N + 2       \* validly signed, but its parent is F (can never be connected)
Tokens  == Good \cup {F, D}

VARIABLES parent,      \* Good -> 0..N, parent[t] < t
          fpar,        \* parent of the forged token (any)
          elements,    \* sequence without duplicates: insertion order of TokenTree.elements
          unchained,   \* sequence without duplicates: TokenTree.unchained
          cont,        \* tokens whose stored object (in elements or unchained) carries content
          offered,     \* history: every token ever handed to gather_token
          contOffered, \* history: tokens whose correct content was ever supplied
          overflowed   \* history: the waiting area has evicted something
vars == <<parent, fpar, elements, unchained, cont, offered, contOffered, overflowed>>

SigOk(t) == t # F
Par(t)   == IF t \in Good THEN parent[t] ELSE IF t = F THEN fpar ELSE F

RECURSIVE Connected(_, _)
Connected(t, S) == /\ t \in S /\ SigOk(t)
                   /\ (Par(t) = Genesis \/ (Par(t) # t /\ Connected(Par(t), S)))
ConnectedValid(S) == {t \in S : Connected(t, S)}

Els == Range(elements)

Init == /\ parent \in [Good -> 0..N]
        /\ \A t \in Good : parent[t] < t
        /\ fpar \in {0, 1}
        /\ elements = <<>> /\ unchained = <<>> /\ cont = {} /\ offered = {}
        /\ contOffered = {} /\ overflowed = FALSE

Without(s, x) == SelectSeq(s, LAMBDA y : y # x)

(* chain reaction after appending t: gather_token(child) for waiting children of t.               *)
(* returns <<elements, unchained>>                                                                 *)
RECURSIVE Wake(_, _, _, _)
Wake(t, els, unch, par) ==
  LET idxs == {i \in 1..Len(unch) : par[unch[i]] = t} IN
  IF idxs = {} THEN <<els, unch>>
  ELSE LET i    == CHOOSE j \in idxs : \A k \in idxs : j <= k
           c    == unch[i]
           rest == Without(unch, c)
           r    == Wake(c, Append(els, c), rest, par)
       IN IF WakeAll THEN Wake(t, r[1], r[2], par) ELSE r

ParFun == [t \in Tokens |-> Par(t)]

(* the pure function behind gather_token; used by the action and by the reload operators *)
GatherStep(st, t, wc) ==
  \* st = [els, unch, cont, ovf]
  IF ~SigOk(t) THEN st
  ELSE IF Par(t) # Genesis /\ Par(t) \notin Range(st.els) THEN
         IF t \in Range(st.unch) THEN st
         ELSE LET u == Append(st.unch, t)
                  c == IF wc THEN st.cont \cup {t} ELSE st.cont
              IN IF Len(u) > UCap
                 THEN [els |-> st.els, unch |-> Tail(u), cont |-> c \ {Head(u)}, ovf |-> TRUE]
                 ELSE [els |-> st.els, unch |-> u, cont |-> c, ovf |-> st.ovf]
  ELSE IF t \in Range(st.els) THEN
         [st EXCEPT !.cont = IF wc THEN @ \cup {t} ELSE @]
  ELSE LET r == Wake(t, Append(st.els, t), st.unch, ParFun)
       IN [els |-> r[1], unch |-> r[2], cont |-> IF wc THEN st.cont \cup {t} ELSE st.cont, ovf |-> st.ovf]

Gather(t, wc) ==
  LET r == GatherStep([els |-> elements, unch |-> unchained, cont |-> cont, ovf |-> overflowed], t, wc) IN
  /\ offered' = offered \cup {t}
  /\ contOffered' = IF wc THEN contOffered \cup {t} ELSE contOffered
  /\ elements' = r.els /\ unchained' = r.unch /\ cont' = r.cont /\ overflowed' = r.ovf
  /\ UNCHANGED <<parent, fpar>>

(* Token.receive_content on a token of the tree: accepted only if it hashes to the content pointer *)
ReceiveContent(t, good) ==
  /\ WithContent /\ t \in Els
  /\ cont' = IF good THEN cont \cup {t} ELSE cont
  /\ contOffered' = IF good THEN contOffered \cup {t} ELSE contOffered
  /\ UNCHANGED <<parent, fpar, elements, unchained, offered, overflowed>>

Next == \/ \E t \in Tokens, wc \in (IF WithContent THEN BOOLEAN ELSE {FALSE}) : Gather(t, wc)
        \/ \E t \in Tokens, good \in BOOLEAN : ReceiveContent(t, good)

Spec == Init /\ [][Next]_vars

(* ---------------------------------------------------------------------------------------------- *)
(* reload: serialize_public() lists elements in insertion order; unserialize_public gathers them  *)
(* one by one into a fresh tree.  serialize_public(up_to = t) lists t, parent(t), ... root.        *)
RECURSIVE Fold(_, _)
Fold(st, seq) == IF seq = <<>> THEN st ELSE Fold(GatherStep(st, Head(seq), FALSE), Tail(seq))
Fresh == [els |-> <<>>, unch |-> <<>>, cont |-> {}, ovf |-> FALSE]
Reload(seq) == Fold(Fresh, seq)

RECURSIVE PathSeq(_)
PathSeq(t) == IF Par(t) = Genesis \/ Par(t) \notin Els THEN <<t>> ELSE <<t>> \o PathSeq(Par(t))

(* ------------------------------------- properties --------------------------------------------- *)
TypeOK == /\ Els \subseteq Tokens /\ Range(unchained) \subseteq Tokens
          /\ Len(elements) = Cardinality(Els) /\ Len(unchained) = Cardinality(Range(unchained))
          /\ Len(unchained) <= UCap

OnlyValidConnected == Els \subseteq ConnectedValid(offered)
Complete           == ~overflowed => Els = ConnectedValid(offered)
NeverBad           == F \notin Els /\ D \notin Els
WaitingAreDisjoint == Els \cap Range(unchained) = {}
ContentBound       == cont \subseteq contOffered
PublicRoundTrip    == Range(Reload(elements).els) = Els
PathRoundTrip      == \A t \in Els : Len(PathSeq(t)) <= UCap + 1 => Range(Reload(PathSeq(t)).els) = Range(PathSeq(t))
=============================================================================
