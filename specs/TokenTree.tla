---------------------------- MODULE TokenTree ----------------------------
(* ipv8/attestation/tokentree/tree.py : TokenTree.gather_token, _append_chain_reaction_token,      *)
(* serialize_public / unserialize_public, Token.receive_content.                                   *)
(* Abstract layer : ConnectedValid(offered) - mentions no arrival order.                           *)
(* Implementation layer : elements (insertion ordered dict), unchained (ordered waiting area with  *)
(* capacity UCap, oldest evicted), the chain reaction that wakes waiting children; the key the     *)
(* object ends up with for each way of constructing it (view, treeKey); wire strings: Unserialize  *)
(* offers every chunk of a string, in any chunk order, and reports whether all were taken (ret).   *)
EXTENDS Naturals, Sequences, FiniteSets, TLC, SequencesExt

CONSTANTS N,           \* good tokens 1..N (valid owner signature); tree shape chosen in Init
          UCap,        \* capacity of the waiting area (unchained_max_size)
          WakeAll,     \* TRUE: every waiting child is woken (repaired code). FALSE: pinned code woke the first only
          WithContent, \* TRUE: explore content attachment as well
          Views,       \* how the tree object was constructed (subset of {"pub", "full", "own"}), chosen in Init
          ReduceKey,   \* TRUE: the constructor reduces whatever key object it is given to its public part (as the
                       \* library does).  FALSE (negative control): the key object is kept as given
          WireLen,     \* 0: no wire action.  k > 0: unserialize_public of every chunk sequence of length <= k
          WireStops    \* FALSE: as documented.  TRUE (negative control): unserialize_public gives up at the first
                       \* chunk that gather_token does not take at once

Genesis == 0
Good    == 1..N
F       == N + 1       \* forged / foreign token: signature does not verify under the tree key
D       == N + 2       \* validly signed, but its parent is F (can never be connected)
Tokens  == Good \cup {F, D}

VARIABLES parent,      \* Good -> 0..N, parent[t] < t
          fpar,        \* parent of the forged token (any)
          elements,    \* sequence without duplicates: insertion order of TokenTree.elements
          unchained,   \* sequence without duplicates: TokenTree.unchained
          cont,        \* tokens whose stored object (in elements or unchained) carries content
          offered,     \* history: every token ever handed to gather_token
          contOffered, \* history: tokens whose correct content was ever supplied
          overflowed,  \* history: the waiting area has evicted something
          view,        \* "pub":  TokenTree(public_key = K.pub())     a view made from the bare public key
                       \* "full": TokenTree(public_key = K)           a view made from a key object that also carries
                       \*         the secret part (a PrivateKey is-a PublicKey in the key vault)
                       \* "own":  TokenTree(private_key = K)          the owner's own tree, which gathers as well
          treeKey,     \* the key the tree verifies with and whose hash is its genesis pointer
          ret          \* result of the last public call: gather_token -> token (TRUE) / None (FALSE);
                       \* unserialize_public -> "all information was correctly unserialized".  "-" when not tracked
vars == <<parent, fpar, elements, unchained, cont, offered, contOffered, overflowed, view, treeKey, ret>>

(* Abstract layer: the tree's key IS the owner's public key, however the tree object was built: tokens are *)
(* signed by a key pair, the genesis pointer is SHA3-256(PUBLIC KEY).                                      *)
OwnerSigned(t) == t # F
(* Implementation layer: the object verifies with treeKey and compares parents with H(treeKey).  Every     *)
(* token of the universe was signed for / points at the owner's PUBLIC key.                                *)
KeyOf(v)  == IF ReduceKey \/ v = "pub" THEN "ownerPub" ELSE "ownerFull"
SigOk(t)  == OwnerSigned(t) /\ treeKey = "ownerPub"
Par(t)   == IF t \in Good THEN parent[t] ELSE IF t = F THEN fpar ELSE F
AtRoot(t) == Par(t) = 0 /\ treeKey = "ownerPub"    \* the token points at H(ownerPub); the tree compares with H(treeKey)

RECURSIVE Connected(_, _)
Connected(t, S) == /\ t \in S /\ OwnerSigned(t)
                   /\ (Par(t) = Genesis \/ (Par(t) # t /\ Connected(Par(t), S)))
ConnectedValid(S) == {t \in S : Connected(t, S)}

Els == Range(elements)

Init == /\ parent \in [Good -> 0..N]
        /\ \A t \in Good : parent[t] < t
        /\ fpar \in {0, 1}
        /\ elements = <<>> /\ unchained = <<>> /\ cont = {} /\ offered = {}
        /\ contOffered = {} /\ overflowed = FALSE
        /\ view \in Views /\ treeKey = KeyOf(view) /\ ret = "-"

Without(s, x) == SelectSeq(s, LAMBDA y : y # x)

(* chain reaction after appending t: gather_token(child) for waiting children of t.               *)
(* returns <<elements, unchained>>                                                                 *)
RECURSIVE Wake(_, _, _, _)
Wake(t, els, unch, par) ==
  LET idxs == {i \in 1..Len(unch) : par[unch[i]] = t} IN
  IF idxs = {} THEN <<els, unch>>
  ELSE LET i    == CHOOSE j \in idxs : \A k \in idxs : j <= k
           c    == unch[i]
           rest == Without(unch, c)
           r    == Wake(c, Append(els, c), rest, par)
       IN IF WakeAll THEN Wake(t, r[1], r[2], par) ELSE r

ParFun == [t \in Tokens |-> Par(t)]

(* the pure function behind gather_token; used by the action and by the reload operators *)
GatherStep(st, t, wc) ==
  \* st = [els, unch, cont, ovf]
  IF ~SigOk(t) THEN st
  ELSE IF ~AtRoot(t) /\ Par(t) \notin Range(st.els) THEN
         IF t \in Range(st.unch) THEN st
         ELSE LET u == Append(st.unch, t)
                  c == IF wc THEN st.cont \cup {t} ELSE st.cont
              IN IF Len(u) > UCap
                 THEN [els |-> st.els, unch |-> Tail(u), cont |-> c \ {Head(u)}, ovf |-> TRUE]
                 ELSE [els |-> st.els, unch |-> u, cont |-> c, ovf |-> st.ovf]
  ELSE IF t \in Range(st.els) THEN
         [st EXCEPT !.cont = IF wc THEN @ \cup {t} ELSE @]
  ELSE LET r == Wake(t, Append(st.els, t), st.unch, ParFun)
       IN [els |-> r[1], unch |-> r[2], cont |-> IF wc THEN st.cont \cup {t} ELSE st.cont, ovf |-> st.ovf]

(* what gather_token returns: the (stored) token when it is part of the tree afterwards, None otherwise *)
GatherRet(st, t) == SigOk(t) /\ (AtRoot(t) \/ Par(t) \in Range(st.els))

Cur == [els |-> elements, unch |-> unchained, cont |-> cont, ovf |-> overflowed]
Tracked(b) == IF WireLen > 0 THEN b ELSE "-"

Gather(t, wc) ==
  LET r == GatherStep(Cur, t, wc) IN
  /\ offered' = offered \cup {t}
  /\ contOffered' = IF wc THEN contOffered \cup {t} ELSE contOffered
  /\ elements' = r.els /\ unchained' = r.unch /\ cont' = r.cont /\ overflowed' = r.ovf
  /\ ret' = Tracked(GatherRet(Cur, t))
  /\ UNCHANGED <<parent, fpar, view, treeKey>>

(* unserialize_public(s): s is cut into chunks, EVERY chunk is offered to gather_token in the order of the     *)
(* byte string, whatever happened to the chunks before it; the result says whether all of them were taken.     *)
(* The chunks of a wire string are arbitrary: any order (serialize_public(up_to) lists leaf first), forged,     *)
(* foreign, dangling and repeated chunks.  <<st, ok>>                                                            *)
RECURSIVE FoldRet(_, _, _)
FoldRet(st, seq, ok) == IF seq = <<>> \/ (WireStops /\ ~ok) THEN <<st, ok>>
                        ELSE FoldRet(GatherStep(st, Head(seq), FALSE), Tail(seq), ok /\ GatherRet(st, Head(seq)))

(* explored: strings whose chunks are pairwise different (repeats across calls and against the tree remain) *)
WireSeqs == {s \in UNION {[1..k -> Tokens] : k \in 1..WireLen} : \A i, j \in DOMAIN s : s[i] = s[j] => i = j}

Unserialize(seq) ==
  LET r == FoldRet(Cur, seq, TRUE) IN
  /\ offered' = offered \cup Range(seq)
  /\ elements' = r[1].els /\ unchained' = r[1].unch /\ cont' = r[1].cont /\ overflowed' = r[1].ovf
  /\ ret' = Tracked(r[2])
  /\ UNCHANGED <<parent, fpar, view, treeKey, contOffered>>

(* Token.receive_content on a token of the tree: accepted only if it hashes to the content pointer *)
ReceiveContent(t, good) ==
  /\ WithContent /\ t \in Els
  /\ cont' = IF good THEN cont \cup {t} ELSE cont
  /\ contOffered' = IF good THEN contOffered \cup {t} ELSE contOffered
  /\ UNCHANGED <<parent, fpar, elements, unchained, offered, overflowed, view, treeKey, ret>>

Next == \/ \E t \in Tokens, wc \in (IF WithContent THEN BOOLEAN ELSE {FALSE}) : Gather(t, wc)
        \/ \E t \in Tokens, good \in BOOLEAN : ReceiveContent(t, good)
        \/ \E seq \in WireSeqs : Unserialize(seq)

Spec == Init /\ [][Next]_vars

(* ---------------------------------------------------------------------------------------------- *)
(* reload: serialize_public() lists elements in insertion order; unserialize_public gathers them  *)
(* one by one into a fresh tree.  serialize_public(up_to = t) lists t, parent(t), ... root.        *)
RECURSIVE Fold(_, _)
Fold(st, seq) == IF seq = <<>> THEN st ELSE Fold(GatherStep(st, Head(seq), FALSE), Tail(seq))
Fresh == [els |-> <<>>, unch |-> <<>>, cont |-> {}, ovf |-> FALSE]
Reload(seq) == Fold(Fresh, seq)

RECURSIVE PathSeq(_)
PathSeq(t) == IF Par(t) = Genesis \/ Par(t) \notin Els THEN <<t>> ELSE <<t>> \o PathSeq(Par(t))

(* ------------------------------------- properties --------------------------------------------- *)
TypeOK == /\ Els \subseteq Tokens /\ Range(unchained) \subseteq Tokens
          /\ Len(elements) = Cardinality(Els) /\ Len(unchained) = Cardinality(Range(unchained))
          /\ Len(unchained) <= UCap
          /\ view \in Views /\ treeKey \in {"ownerPub", "ownerFull"} /\ (WireLen = 0 => ret = "-")

KeyIsPublic        == treeKey = "ownerPub"      \* whatever key object the tree was built from
OnlyValidConnected == Els \subseteq ConnectedValid(offered)
Complete           == ~overflowed => Els = ConnectedValid(offered)
NeverBad           == F \notin Els /\ D \notin Els
WaitingAreDisjoint == Els \cap Range(unchained) = {}
ContentBound       == cont \subseteq contOffered
PublicRoundTrip    == Range(Reload(elements).els) = Els
PublicReloadsClean == FoldRet(Fresh, elements, TRUE)[2]     \* ... and unserialize_public reports success for it
(* The public calls, judged in every reachable state for every call that could come next (this is the       *)
(* action property "every Gather / Unserialize step ..." written as a state predicate over the pure step      *)
(* functions, which TLC evaluates once per state instead of once per transition).                             *)
(* - the result means what the documentation says                                                              *)
RetMeansContained  == \A t \in Tokens : GatherRet(Cur, t) = (t \in Range(GatherStep(Cur, t, FALSE).els))
WireRetSound       == \A seq \in WireSeqs : LET r == FoldRet(Cur, seq, TRUE) IN
                                               r[2] => Range(seq) \subseteq Range(r[1].els)
(* - one wire string has the effect of all its chunks, in any chunk order: nothing behind a refused or parked   *)
(*   chunk is skipped                                                                                            *)
WireIsFold         == \A seq \in WireSeqs : LET r == FoldRet(Cur, seq, TRUE)[1] IN
                          ~r.ovf => Range(r.els) = ConnectedValid(offered \cup Range(seq))
PathRoundTrip      == \A t \in Els : Len(PathSeq(t)) <= UCap + 1 => Range(Reload(PathSeq(t)).els) = Range(PathSeq(t))
=============================================================================
