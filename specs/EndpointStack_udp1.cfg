SPECIFICATION Spec
CONSTANTS
  Ifaces = {"v4"}
  Listeners = {"A","B"}
  Prefixes = {"p1"}
  AddrKinds = {"c4","t4","lan4"}
  Sizes = {23,25}
  MsgIds = {1}
  WithStats = FALSE
  Closing = TRUE
  ClosedSendRaises = FALSE
  Explicit = FALSE
  MaxBytes = 48
  MaxMsgs = 1
  DupGeneral = FALSE
  StatsForwards = TRUE
  SendWhileClosing = FALSE
CONSTRAINT Bound
INVARIANT TypeOK
INVARIANT SendRouting
INVARIANT NotifyOnce
INVARIANT FanOut
INVARIANT CountersExact
INVARIANT StatsExact
INVARIANT NoLeak
PROPERTY Monotone
