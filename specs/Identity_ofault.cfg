\* storage faults in the owner role: a failed Metadata write in self_advertise / request_attestation_advertisement opens
\* nothing and sends nothing; a failed Attestations write in on_attest stores nothing
SPECIFICATION MCSpec
CONSTANTS AlreadyChecked = TRUE PkPerAuthority = TRUE CheckSubject = TRUE CheckPermission = TRUE CommitBeforeSend = TRUE Window = 300 RespCap = 10 FitAll = 8
  Regs = {} Senders = {} TokIdx = {} MdIdx = {} AttIdx = {} MissIdx = {}
  Ticks = {} OwnerPeers = {1, 2} KnownVals = {0} AttSend = {1, 4} RegFirst = FALSE FaultTabs = {1, 2}
  MaxReg = 0 MaxMsg = 2 MaxTick = 0 MaxOwn = 2 MaxFault = 2
INVARIANT TypeOK
INVARIANT SignsOnlyConsented
INVARIANT StoresOnlyValidlySigned
INVARIANT TokensOnlyUpToPermitted
INVARIANT TreesVerified
INVARIANT SentOnlyRecorded
