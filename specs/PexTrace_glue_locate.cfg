\* as PexTrace_glue.cfg, with the ENABLED form of the verdict (names the failing trace and event)
SPECIFICATION TraceSpec
CONSTANTS
  T0 = 10  MaxTime = 100000
  Peers = {1}  Seeders = {1}  Circuits = {1}
  MaxIpAge = 2  MinDht = 3  MaxDht = 1  Interval = 1  ConnLimit = 1  MaxBytes = 0  MaxResult = 1
  SeedingChoices = {FALSE}
  DupAdd = FALSE  ExpireUsed = FALSE  NoGate = FALSE  ForgetHistory = FALSE
  Nodes = {1, 2, 3, 4, 5, 6}  NSwarmA = 3  PSeeders = {1, 2, 3, 4, 5, 6, 7, 8, 9, 10, 11, 12}
  PexAge = 3  PexCap = 20  SendCap = 10
  Unload = TRUE  ExpireNewest = FALSE  CrossSwarm = FALSE  MaxMsgs = 1000  MaxAnn = 1000
CONSTANTS AllSamples <- NoSamples  MsgSpace <- NoMsgs
INVARIANT TraceAccepted
INVARIANT PexFresh
INVARIANT PexNoDup
INVARIANT PexOwnSwarm
INVARIANT OwnAnswer
INVARIANT PexBounded
INVARIANT PexSorted
