\* CONTROL: the reassembled attestation is accepted when all sequence numbers are present (hash not checked)
SPECIFICATION Spec
CONSTANTS
 Nodes = {1, 2, 3} Adv = {3} Requesters = {1} Verifiers = {}
 Values <- Vals1 NChunks = 2 Window = 10 Pre <- PreAdv
 MaxReq = 2 MaxVer = 0 MaxHon = 0 MaxDup = 1 MaxDrop = 0 MaxAdv = 2 MaxTimeouts = 1 MaxTicks = 0
 AdvKinds = {"junk", "data"} AdvResps = {0, 1, 2, 3}
 TickSteps = {}
 OnceOnly = TRUE CheckPeer = TRUE CheckHash = FALSE AskConsent = TRUE
INVARIANT StoredIntact
INVARIANT ChunkIsolation
INVARIANT VerifyOnce
INVARIANT ResultConsistent
INVARIANT ConsentGiven
INVARIANT CachesSane
PROPERTY DbAppendOnly
