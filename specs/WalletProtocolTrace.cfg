\* validation of recorded executions of the real code (fast path: the driver counts the states)
SPECIFICATION TraceSpec
CONSTANTS
 Nodes <- TraceNodes Adv <- TraceAdv Requesters <- TraceNodes Verifiers <- TraceNodes
 Values <- TraceValues NChunks = 2 Window = 10 Pre <- TracePre
 MaxReq = 1000 MaxVer = 1000 MaxHon = 1000 MaxDup = 1000 MaxDrop = 1000 MaxAdv = 1000 MaxTimeouts = 1000 MaxTicks = 1000
 AdvKinds = {"junk", "data", "resp", "chal"} AdvResps = {0, 1, 2, 3}
 TickSteps <- TraceTicks
 OnceOnly = TRUE CheckPeer = TRUE CheckHash = TRUE AskConsent = TRUE
INVARIANT StoredIntact
INVARIANT ChunkIsolation
INVARIANT VerifyOnce
INVARIANT ResultConsistent
INVARIANT ConsentGiven
INVARIANT CachesSane
