\* negative control: "answer first, commit later" - after the failed write no row remembers the attestation, the replayed disclosure is attested again
SPECIFICATION MCSpec
CONSTANTS AlreadyChecked = TRUE PkPerAuthority = TRUE CheckSubject = TRUE CheckPermission = TRUE CommitBeforeSend = FALSE Window = 300 RespCap = 10 FitAll = 8
  Regs = {1} Senders = {1} TokIdx = {2} MdIdx = {2} AttIdx = {1} MissIdx = {1}
  Ticks = {} OwnerPeers = {} KnownVals = {} AttSend = {} RegFirst = TRUE FaultTabs = {1}
  MaxReg = 1 MaxMsg = 2 MaxTick = 0 MaxOwn = 0 MaxFault = 1
INVARIANT SignsOnlyConsented
