SPECIFICATION Spec
CONSTANTS K = 2 SendPuncture = TRUE PunctureFirst = TRUE FollowAll = TRUE MaxId = 80 QuietCalls = TRUE
          APlaces = {"pub", "nat"} CandPlaces = {"pub", "nat", "withA"}
          MaxContactsA = 1 MaxContactsB = 1
INVARIANT TypeOK
INVARIANT Reach
INVARIANT LanMeet
INVARIANT AsksPuncture
CHECK_DEADLOCK TRUE
