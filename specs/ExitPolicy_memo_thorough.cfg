\* the filter has no memory of packets: packets sharing head / length / first bytes with packets judged before
\* (3/9: same first 22 bytes and length, other last byte; 1/10: same head, one byte shorter; 5/11: twins), in both
\* directions, with and without a reconfiguration in between
SPECIFICATION Spec
CONSTANTS QCap = 2 MaxPend = 1 MaxOps = 5
          NoInboundFilter = FALSE NoNullCheck = FALSE AnyoneOpens = FALSE
          RepIds = {1, 3, 5, 9, 10, 11}
          TrackHistory = TRUE FlowCache = "none" HostIps = {"x"} HostPorts = {1}
          StaleVerdict = "none" HopFollowsPeer = FALSE VerdictMemo = "none"
          FlagChoices = {{}, {"BT"}, {"IPV8"}} SignedSrcs = {}
          SrcSet = {"prev"} DkSet = {"v4", "v6", "dom4"}
INVARIANT TypeOK
INVARIANT EmitOnlyAllowed
INVARIANT NeverToNull
INVARIANT OpenedOnlyByPrevHop
INVARIANT EmitOnlyWhenOpen
INVARIANT QueueClean
INVARIANT VerdictByOwnShape
