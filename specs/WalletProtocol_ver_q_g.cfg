\* replayed graph (quick), verification flow: one honesty check, one lost datagram
SPECIFICATION SpecL
CONSTANTS
 Nodes = {1, 2} Adv = {} Requesters = {} Verifiers = {1}
 Values <- Vals1 NChunks = 2 Window = 10 Pre <- PreOwn2
 MaxReq = 0 MaxVer = 1 MaxHon = 1 MaxDup = 0 MaxDrop = 1 MaxAdv = 0 MaxTimeouts = 0 MaxTicks = 0
 AdvKinds = {"junk", "data", "resp", "chal"} AdvResps = {0, 1, 2, 3}
 TickSteps = {}
 OnceOnly = TRUE CheckPeer = TRUE CheckHash = TRUE AskConsent = TRUE
INVARIANT VerifyOnce
INVARIANT ResultConsistent
INVARIANT ConsentGiven
INVARIANT CachesSane
