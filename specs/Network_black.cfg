\* blacklists: address 2 and identity 3 are blacklisted
SPECIFICATION Spec
CONSTANTS NP = 3 NA = 3 NS = 1 V6 = {3} BlackAddr = {2} BlackMid = {3} IpCap = 2 IntroCap = 1 SvcCap = 1
          NB = 0 IterBufs = {} Defects = {} MaxDepth = 4
VIEW NoRetOp
INVARIANT TypeOK
INVARIANT LookupsAgree
INVARIANT HistoryAgrees
INVARIANT BlacklistedNeverVerified
INVARIANT SnapshotRoundTrip
PROPERTY QueriesPure
PROPERTY RemovedIsGone
PROPERTY RemovedIsClean
PROPERTY ReAddWorks
