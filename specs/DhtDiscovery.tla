--------------------------- MODULE DhtDiscovery ---------------------------
(***************************************************************************************************************)
(* G07 - the DHT peer-discovery layer of py-ipv8: ipv8/dht/discovery.py (DHTDiscoveryCommunity) and the        *)
(* connect_peer path that ipv8/dht/provider.py (DHTCommunityProvider.peer_lookup) hands to the tunnel          *)
(* community.  The key/value half of the provider (announce / lookup = store_value / find_values) is the       *)
(* DHTCommunity of DhtStore.tla / DhtLookup.tla / DhtCrawl.tla; find_nodes is abstracted here as "the crawl    *)
(* returned the node set S" (parameter of StorePeer / ConnectFound), a find round trip that yields a token as  *)
(* GetToken.                                                                                                   *)
(*                                                                                                             *)
(* Every node runs the same code.  A node's key (mid) is its number, its home address is its number too.       *)
(* Nodes in Adv may in addition send arbitrary messages signed with THEIR OWN key (signatures are unforgeable:  *)
(* `from` of a message is always the signer), from their home address or from an address in AltAddr.           *)
(* `sent` is the set of all datagrams ever put on the wire by the code: it only grows, any member can be        *)
(* delivered any number of times in any order (loss = never delivered, duplication = delivered twice).  It is  *)
(* kept as the canonically sorted sequence `wire`, so that Recv(n, i) names a datagram by a constant-level      *)
(* parameter (TLC then prints it in the labels of the state graph, which the replay needs).                    *)
(*                                                                                                             *)
(* One action per public call / message handler / timer / task step, a handler and its synchronous             *)
(* consequences (futures resolved, awaiting coroutine resumed) being one step:                                 *)
(*   GetToken       one find-request/find-response round trip: the responder issues a token                    *)
(*   Rotate         token_maintenance (the responder forgets the secret before the previous one)               *)
(*   StorePeer      store_peer(): find_nodes returned S; send_store_peer_request                               *)
(*   ConnectPeer    connect_peer(mid, peer): local table / ping shortcut / start of the lookup                 *)
(*   ConnectFound   the lookup of connect_peer returned S; send_connect_peer_request                           *)
(*   Recv           on_store_peer_request / _response, on_connect_peer_request / _response,                    *)
(*                  on_ping_request / _response (the overrides of DHTDiscoveryCommunity)                       *)
(*   AdvSpReq, AdvResp, AdvCpReq, AdvPing   the same handlers fed with a datagram forged by an adversary       *)
(*   PingAll        the 10 s ping_all task: keep-alive pings, removal of dead holders, expiry of `store`       *)
(*   TimeoutReq     Request.on_timeout of one outstanding request (5 s)                                        *)
(*   Unload         unload(): the request cache shuts down and refuses every later request                     *)
(*   Advance        the clock moves (never past the deadline of an outstanding request)                        *)
(*                                                                                                             *)
(* SAFETY PROPERTIES (from the docstrings / obvious intent of the subsystem)                                   *)
(*  P1 StoreAuth        a node listed in store[k] of a holder has key k (a peer can only register itself) and   *)
(*                      the holder issued a token to exactly that key at exactly that address: it got there     *)
(*                      only through a store-peer request signed by it that carried a valid token.              *)
(*  P2 StoreForMeAcked  m is in store_for_me of n only if n sent m a store-peer request for n's own key and a   *)
(*                      response with the identifier of that request arrived while it was outstanding.          *)
(*  P3 KeepAlive_P      (action) an entry of `store` disappears only when its owner has not been heard (store   *)
(*     + SweptFresh     or ping) for more than KeepAlive; the time of the last query only moves forward; a      *)
(*                      holder leaves store_for_me only after two keep-alive pings in a row timed out.          *)
(*                      SweptFresh (ghost `fresh`): after a ping_all run no expired entry and no holder that    *)
(*                      failed twice is left.                                                                   *)
(*  P4 ConnectExact     a connect-peer response lists only nodes stored under the requested key (so: only the   *)
(*                      peer with that mid, at a token-verified address) and the responder sent a puncture      *)
(*                      request naming the requester (its claimed LAN and its source address) to exactly the    *)
(*                      listed nodes (one for one).                                                             *)
(*  P5 RefusedNotSent   a store-peer / connect-peer request whose cache the request cache refused (shutting     *)
(*                      down) is not sent.                                                                      *)
(*  P6 UnsolicitedInert a store-peer / connect-peer / ping response that matches no outstanding request of     *)
(*                      that kind changes nothing and sends nothing (ghost `inert`, evaluated in the step).     *)
(*  P7 ConnectResult    connect_peer answers from the local table only with the (non-empty) nodes stored under  *)
(*                      that mid, answers [peer] only when that peer answered the ping, and otherwise performs  *)
(*                      the lookup; a result is never an empty list (failure is DHTError).                      *)
(*                                                                                                             *)
(* Deviations found in the pinned code (constants; FALSE = repaired behaviour, which is what is modelled):     *)
(*   EmptyKeyHit    G07-1: `if mid in self.store` is true for a key whose list is empty (store is a            *)
(*                  defaultdict: keys are created by on_connect_peer_request and survive expiry), so            *)
(*                  connect_peer returns [] without a lookup and without DHTError           -> violates P7      *)
(*   PingTimeoutOk  G07-2: ping() consumes its time-out (future resolves to None), so connect_peer(mid, peer)  *)
(*                  returns [peer] although the ping was never answered, and never looks up  -> violates P7      *)
(* Further switches are spec-level negative controls (a plausible deviation that must violate a property):      *)
(*   NoTokenCheck, NoTargetCheck (P1), AckFromSender (P2), NoSweep (P3), NoPuncture, PunctSwapped (P4),        *)
(*   SendRefused (P5; the behaviour before /repo 7d2dd90), PongUnsolicitedResets (P6).                         *)
(*                                                                                                             *)
(* Allowed because the intent is not stated (noted, not demanded): a response is matched by identifier only    *)
(* (not by sender); a repeated store-peer request is acknowledged without refreshing the entry; an entry keeps  *)
(* the address of the first store request while its owner keeps pinging; an unmatched pong of a holder          *)
(* refreshes its last_response (not part of the state here); a holder that expired us but still answers pings  *)
(* stays in store_for_me (pongs do not say whether we are still stored); futures of requests that are          *)
(* outstanding when the request cache shuts down are never resolved (Unload is only taken between calls).      *)
(*                                                                                                             *)
(* The ...Body forms of the actions take the identifiers of the new requests as a parameter (the code draws     *)
(* them at random; the model-checking wrappers StorePeer / ConnectPeer / ConnectFound / PingAll number them      *)
(* consecutively, and the harness renames the real identifiers in the order in which they were drawn).          *)
(*                                                                                                             *)
(* Model-checking facets (DhtDiscoveryMC.tla + DhtDiscovery_*.cfg; Acts switches action families on):          *)
(*   store  (adversary, tokens, rotation)   keep (clock, pings, time-outs, expiry)   local (connector is a     *)
(*   holder: local table, expiry, ping shortcut)   conn (lookup, punctures, forged answers, unload)   punct     *)
(*   (forged connect requests with LAN # source address at a holder)   sim (everything at once, -simulate);    *)
(*   ctl_*  one deviation switched on each (must violate);  wit_*  "sometimes" formulas (must be violated).    *)
(***************************************************************************************************************)
EXTENDS Naturals, Sequences, FiniteSets, TLC

CONSTANTS Nodes,          \* node numbers (= keys = home addresses)
          Adv,            \* nodes that may forge messages under their own key
          Storers,        \* nodes on which store_peer() / ping_all run
          Connectors,     \* nodes on which connect_peer() / unload() are called
          TokenPairs,     \* <<n, m>>: n may obtain a token from m
          Acts,           \* names of the enabled action families (facets of the model for model checking)
          AdvReqTargets,  \* nodes the adversary sends forged requests to
          AdvRespTargets, \* nodes the adversary sends forged responses to
          FindSets,       \* possible outcomes of find_nodes (sets of nodes)
          ConnKeys,       \* mids connect_peer is called for
          ConnPings,      \* the `peer` argument of connect_peer (0 = None)
          AltAddr,        \* additional source addresses of the adversary
          Timeout,        \* request time-out            (code: 5 s)
          PingInterval,   \* PING_INTERVAL               (code: 25 s)
          KeepAlive,      \* life of a store entry without queries (code: 60 s)
          Enough,         \* TARGET_NODES // 2           (code: 4)
          MaxFind,        \* MAX_NODES_IN_FIND           (code: 8)
          Jumps,          \* possible clock advances
          MaxClock, MaxId, MaxEpoch, MaxSent,
          EmptyKeyHit, PingTimeoutOk,
          NoTokenCheck, NoTargetCheck, AckFromSender, NoSweep, NoPuncture, PunctSwapped, SendRefused,
          PongUnsolicitedResets

VARIABLES clock,
          store,      \* [Nodes -> [Nodes -> Seq([k, a, lq])]]   holder -> key -> stored nodes (key, address, last query)
          skeys,      \* [Nodes -> SUBSET Nodes]                 keys present in the dict `store` (implementation layer)
          sfm,        \* [Nodes -> Seq([m, failed, lp, oid])]    store_for_me[own mid]
          reqs,       \* [Nodes -> SUBSET [id, ty, to, dl, oid]] outstanding requests ("sp", "cp", "ping")
          nid,        \* [Nodes -> Nat]                          every identifier below is used
          tokens,     \* [Nodes -> [Nodes -> token]]             tokens received
          epoch,      \* [Nodes -> Nat]                          current token secret
          down,       \* [Nodes -> BOOLEAN]                      request cache shut down
          call,       \* [Nodes -> [ph, key, wait, got]]         the connect_peer call in progress
          res,        \* [Nodes -> [key, kind, nodes, answered]] result of the last connect_peer call
          wire,       \* datagrams ever sent by the code: the set `sent`, listed in a canonical order
          issued,     \* ghost: [Nodes -> SUBSET [k, a]]         (key, address) pairs a token was really handed out to
          acked,      \* ghost: [Nodes -> SUBSET [id, to]]       acknowledged store-peer requests
          regd,       \* ghost: [Nodes -> SUBSET Nat]            identifiers accepted by the request cache
          fresh,      \* ghost: BOOLEAN                          no ping_all run so far left an expired entry behind
          inert       \* ghost: BOOLEAN                          no unmatched response has changed anything so far

core == <<clock, store, skeys, sfm, reqs, nid, tokens, epoch, down, call, res, wire, issued, acked, regd>>
vars == <<core, fresh, inert>>
nodeVars == <<store, skeys, sfm, reqs, nid, tokens, epoch, down, call, res, issued, acked, regd>>

On(a) == a \in Acts
T0 == PingInterval        \* the clock starts here, so that "never pinged" (lp = 0) is always due, as with the epoch clock
NoTok == [iss |-> 0, k |-> 0, a |-> 0, ep |-> 0]
Junk  == [iss |-> 0, k |-> 0, a |-> 0, ep |-> 1]          \* a token nobody issued
Idle  == [ph |-> "idle", key |-> 0, wait |-> {}, got |-> {}, p |-> 0]
NoRes == [key |-> 0, kind |-> "none", nodes |-> {}, answered |-> FALSE]

M(t, from, fa, to, id, key, tok, nds, lan, wan) ==
  [t |-> t, from |-> from, fa |-> fa, to |-> to, id |-> id, key |-> key, tok |-> tok, nodes |-> nds, lan |-> lan, wan |-> wan]

sent == {wire[i] : i \in DOMAIN wire}
TIdx(t) == CASE t = "spreq" -> 1 [] t = "spresp" -> 2 [] t = "cpreq" -> 3 [] t = "punct" -> 4 [] t = "cpresp" -> 5
             [] t = "ping" -> 6 [] t = "pong" -> 7
NodesCode(S) == IF S = {} THEN 0 ELSE LET nd == CHOOSE nd \in S : TRUE IN Cardinality(S) * 10000 + nd.k * 100 + nd.a
Vec(m) == <<TIdx(m.t), m.from, m.to, m.id, m.fa, m.key, m.tok.iss, m.tok.k, m.tok.a, m.tok.ep, NodesCode(m.nodes), m.lan, m.wan>>
Less(m1, m2) == LET a == Vec(m1) b == Vec(m2) IN
                \E i \in DOMAIN a : a[i] < b[i] /\ \A j \in 1..(i - 1) : a[j] = b[j]
Insert(q, m) == LET c == Cardinality({j \in DOMAIN q : Less(q[j], m)}) IN
                SubSeq(q, 1, c) \o <<m>> \o SubSeq(q, c + 1, Len(q))
RECURSIVE InsertAll(_, _)
InsertAll(q, S) == IF S = {} THEN q ELSE LET m == CHOOSE m \in S : TRUE IN InsertAll(Insert(q, m), S \ {m})
(* `wire` is kept sorted (a canonical listing of the set `sent`), so that a datagram can be named by its position *)
Put(S) == InsertAll(wire, S \ sent)

Max(S) == CHOOSE x \in S : \A y \in S : y <= x
Rank(m, W) == Cardinality({x \in W : x < m})
Holders(n) == {sfm[n][i].m : i \in DOMAIN sfm[n]}
EntrySet(s) == {[k |-> s[i].k, a |-> s[i].a] : i \in DOMAIN s}
FirstN(s, c) == IF Len(s) <= c THEN s ELSE SubSeq(s, 1, c)

Init ==
  /\ clock = T0
  /\ store = [n \in Nodes |-> [k \in Nodes |-> <<>>]]
  /\ skeys = [n \in Nodes |-> {}]
  /\ sfm = [n \in Nodes |-> <<>>]
  /\ reqs = [n \in Nodes |-> {}]
  /\ nid = [n \in Nodes |-> 1]
  /\ tokens = [n \in Nodes |-> [m \in Nodes |-> NoTok]]
  /\ epoch = [n \in Nodes |-> 1]
  /\ down = [n \in Nodes |-> FALSE]
  /\ call = [n \in Nodes |-> Idle]
  /\ res = [n \in Nodes |-> NoRes]
  /\ wire = <<>>
  /\ issued = [n \in Nodes |-> {}]
  /\ acked = [n \in Nodes |-> {}]
  /\ regd = [n \in Nodes |-> {}]
  /\ fresh = TRUE
  /\ inert = TRUE

---------------------------------------------------------------------------------------------------------------
(* tokens *)
AddrsOf(n) == IF n \in Adv THEN {n} \cup AltAddr ELSE {n}

GetToken(n, m, a) ==
  /\ On("token")
  /\ n # m /\ ~down[m] /\ ~down[n] /\ a \in AddrsOf(n)
  /\ LET tk == [iss |-> m, k |-> n, a |-> a, ep |-> epoch[m]] IN
       /\ tokens[n][m] # tk
       /\ tokens' = [tokens EXCEPT ![n][m] = tk]
       /\ issued' = [issued EXCEPT ![m] = @ \cup {[k |-> n, a |-> a]}]
  /\ UNCHANGED <<clock, store, skeys, sfm, reqs, nid, epoch, down, call, res, wire, acked, regd>>
  /\ UNCHANGED <<fresh, inert>>

Rotate(n) ==
  /\ On("rotate")
  /\ epoch[n] < MaxEpoch
  /\ epoch' = [epoch EXCEPT ![n] = @ + 1]
  /\ UNCHANGED <<clock, store, skeys, sfm, reqs, nid, tokens, down, call, res, wire, issued, acked, regd>>
  /\ UNCHANGED <<fresh, inert>>

TokOK(n, m) == /\ m.tok.iss = n /\ m.tok.k = m.from /\ m.tok.a = m.fa
               /\ m.tok.ep \in {epoch[n], epoch[n] - 1} /\ m.tok.ep >= 1

---------------------------------------------------------------------------------------------------------------
(* store_peer / send_store_peer_request *)
SPTargets(n, S) == {m \in S : m \notin Holders(n) /\ tokens[n][m] # NoTok}

StorePeerBody(n, S, idf) ==
  LET W == SPTargets(n, S) IN
  /\ n \notin S
  /\ IF Len(sfm[n]) >= Enough \/ W = {}
     THEN UNCHANGED vars                     \* enough holders / nobody to ask (DHTError): nothing happens
     ELSE /\ DOMAIN idf = W
          /\ \A m \in W : idf[m] >= nid[n]
          /\ \A m1, m2 \in W : m1 # m2 => idf[m1] # idf[m2]
          /\ nid' = [nid EXCEPT ![n] = 1 + Max({idf[m] : m \in W})]
          /\ IF down[n]
             THEN /\ UNCHANGED <<reqs, regd>>
                  /\ wire' = IF SendRefused
                             THEN Put({M("spreq", n, n, m, idf[m], n, tokens[n][m], {}, 0, 0) : m \in W})
                             ELSE wire
             ELSE /\ reqs' = [reqs EXCEPT ![n] = @ \cup {[id |-> idf[m], ty |-> "sp", to |-> m, dl |-> clock + Timeout,
                                                          oid |-> 0] : m \in W}]
                  /\ regd' = [regd EXCEPT ![n] = @ \cup {idf[m] : m \in W}]
                  /\ wire' = Put({M("spreq", n, n, m, idf[m], n, tokens[n][m], {}, 0, 0) : m \in W})
          /\ UNCHANGED <<clock, store, skeys, sfm, tokens, epoch, down, call, res, issued, acked, fresh, inert>>

StorePeer(n, S) ==
  On("store") /\ StorePeerBody(n, S, [m \in SPTargets(n, S) |-> nid[n] + Rank(m, SPTargets(n, S))])

---------------------------------------------------------------------------------------------------------------
(* connect_peer *)
ConnectPeerBody(n, k, p, id) ==
  /\ UNCHANGED <<fresh, inert>>
  /\ call[n].ph = "idle" /\ k # n /\ p # n
  /\ p # 0 => ~down[n]
  /\ LET hit == IF EmptyKeyHit THEN k \in skeys[n] ELSE store[n][k] # <<>> IN
     IF hit
     THEN /\ res' = [res EXCEPT ![n] = [key |-> k, kind |-> "local", nodes |-> EntrySet(store[n][k]), answered |-> FALSE]]
          /\ UNCHANGED <<reqs, regd, nid, wire, call>>
     ELSE IF p # 0
     THEN /\ id >= nid[n]
          /\ nid' = [nid EXCEPT ![n] = id + 1]
          /\ reqs' = [reqs EXCEPT ![n] = @ \cup {[id |-> id, ty |-> "ping", to |-> p, dl |-> clock + Timeout, oid |-> 0]}]
          /\ regd' = [regd EXCEPT ![n] = @ \cup {id}]
          /\ wire' = Put({M("ping", n, n, p, id, 0, NoTok, {}, 0, 0)})
          /\ call' = [call EXCEPT ![n] = [ph |-> "ping", key |-> k, wait |-> {id}, got |-> {}, p |-> p]]
          /\ UNCHANGED res
     ELSE /\ call' = [call EXCEPT ![n] = [ph |-> "find", key |-> k, wait |-> {}, got |-> {}, p |-> 0]]
          /\ UNCHANGED <<reqs, regd, nid, wire, res>>
  /\ UNCHANGED <<clock, store, skeys, sfm, tokens, epoch, down, issued, acked>>

ConnectPeer(n, k, p) == On("connect") /\ ConnectPeerBody(n, k, p, nid[n])

Finish(n, got) ==      \* the call returns: the gathered nodes, or DHTError when there are none
  /\ call' = [call EXCEPT ![n] = Idle]
  /\ res' = [res EXCEPT ![n] = [key |-> call[n].key, kind |-> IF got = {} THEN "fail" ELSE "ok", nodes |-> got,
                                answered |-> FALSE]]

ConnectFoundBody(n, S, idf) ==
  /\ UNCHANGED <<fresh, inert>>
  /\ call[n].ph = "find"
  /\ n \notin S
  /\ IF S = {}
     THEN /\ Finish(n, {}) /\ UNCHANGED <<reqs, regd, nid, wire>>          \* find_nodes raised / found nobody
     ELSE /\ DOMAIN idf = S
          /\ \A m \in S : idf[m] >= nid[n]
          /\ \A m1, m2 \in S : m1 # m2 => idf[m1] # idf[m2]
          /\ nid' = [nid EXCEPT ![n] = 1 + Max({idf[m] : m \in S})]
          /\ LET msgs == {M("cpreq", n, n, m, idf[m], call[n].key, NoTok, {}, n, 0) : m \in S} IN
             IF down[n]
             THEN IF SendRefused        \* (before 7d2dd90: sent although refused; the futures of the refused caches never resolve)
                  THEN /\ wire' = Put(msgs)
                       /\ call' = [call EXCEPT ![n] = [@ EXCEPT !.ph = "wait", !.wait = {idf[m] : m \in S}]]
                       /\ UNCHANGED <<reqs, regd, res>>
                  ELSE /\ Finish(n, {}) /\ UNCHANGED <<reqs, regd, wire>>
             ELSE /\ reqs' = [reqs EXCEPT ![n] = @ \cup {[id |-> idf[m], ty |-> "cp", to |-> m, dl |-> clock + Timeout,
                                                          oid |-> 0] : m \in S}]
                  /\ regd' = [regd EXCEPT ![n] = @ \cup {idf[m] : m \in S}]
                  /\ wire' = Put(msgs)
                  /\ call' = [call EXCEPT ![n] = [@ EXCEPT !.ph = "wait", !.wait = {idf[m] : m \in S}]]
                  /\ UNCHANGED res
  /\ UNCHANGED <<clock, store, skeys, sfm, tokens, epoch, down, issued, acked>>

ConnectFound(n, S) == On("connect") /\ ConnectFoundBody(n, S, [m \in S |-> nid[n] + Rank(m, S)])

---------------------------------------------------------------------------------------------------------------
(* message handlers *)
OnSpReq(n, m) ==
  LET ok == (NoTokenCheck \/ TokOK(n, m)) /\ (NoTargetCheck \/ m.key = m.from)
      cur == store[n][m.key]
      has == \E i \in DOMAIN cur : cur[i].k = m.from
  IN IF ~ok THEN UNCHANGED core
     ELSE /\ store' = IF has THEN store
                      ELSE [store EXCEPT ![n][m.key] = Append(@, [k |-> m.from, a |-> m.fa, lq |-> clock])]
          /\ skeys' = [skeys EXCEPT ![n] = @ \cup {m.key}]
          /\ wire' = Put({M("spresp", n, n, m.fa, m.id, 0, NoTok, {}, 0, 0)})
          /\ UNCHANGED <<clock, sfm, reqs, nid, tokens, epoch, down, call, res, issued, acked, regd>>

Matching(n, ty, id) == {r \in reqs[n] : r.ty = ty /\ r.id = id}

OnSpResp(n, m) ==
  IF Matching(n, "sp", m.id) = {} THEN UNCHANGED core
  ELSE LET r == CHOOSE r \in Matching(n, "sp", m.id) : TRUE
           who == IF AckFromSender THEN m.from ELSE r.to
       IN /\ reqs' = [reqs EXCEPT ![n] = @ \ {r}]
          /\ sfm' = IF who \in Holders(n) THEN sfm
                    ELSE [sfm EXCEPT ![n] = Append(@, [m |-> who, failed |-> 0, lp |-> 0, oid |-> r.id])]
          /\ acked' = [acked EXCEPT ![n] = @ \cup {[id |-> r.id, to |-> r.to]}]
          /\ UNCHANGED <<clock, store, skeys, nid, tokens, epoch, down, call, res, wire, issued, regd>>

OnCpReq(n, m) ==
  LET lst == FirstN(store[n][m.key], MaxFind)
      nds == EntrySet(lst)
      puncts == IF NoPuncture THEN {}
                ELSE IF PunctSwapped THEN {M("punct", n, n, lst[i].a, m.id, 0, NoTok, {}, m.fa, m.lan) : i \in DOMAIN lst}
                ELSE {M("punct", n, n, lst[i].a, m.id, 0, NoTok, {}, m.lan, m.fa) : i \in DOMAIN lst}
      \* (`key` and `lan` of the response are ghost fields: what the request asked for; the datagram carries id + nodes)
  IN /\ wire' = Put(puncts \cup {M("cpresp", n, n, m.fa, m.id, m.key, NoTok, nds, m.lan, 0)})
     /\ skeys' = [skeys EXCEPT ![n] = @ \cup {m.key}]       \* defaultdict: the lookup creates the key (pinned)
     /\ UNCHANGED <<clock, store, sfm, reqs, nid, tokens, epoch, down, call, res, issued, acked, regd>>

OnCpResp(n, m) ==
  IF Matching(n, "cp", m.id) = {} THEN UNCHANGED core
  ELSE LET r == CHOOSE r \in Matching(n, "cp", m.id) : TRUE
           got == call[n].got \cup m.nodes
           left == call[n].wait \ {r.id}
       IN /\ reqs' = [reqs EXCEPT ![n] = @ \ {r}]
          /\ IF call[n].ph = "wait" /\ r.id \in call[n].wait
             THEN IF left = {} THEN Finish(n, got)
                  ELSE call' = [call EXCEPT ![n] = [@ EXCEPT !.wait = left, !.got = got]] /\ UNCHANGED res
             ELSE UNCHANGED <<call, res>>
          /\ UNCHANGED <<clock, store, skeys, sfm, nid, tokens, epoch, down, wire, issued, acked, regd>>

Refresh(s, k, now) == [i \in DOMAIN s |-> IF s[i].k = k THEN [s[i] EXCEPT !.lq = now] ELSE s[i]]
FirstKeyOf(n, k) ==    \* find_node_in_dict: the first list (dict order = insertion order; one list per owner unless a control is on)
  LET ks == {x \in Nodes : \E i \in DOMAIN store[n][x] : store[n][x][i].k = k} IN
  IF ks = {} THEN 0 ELSE CHOOSE x \in ks : \A y \in ks : x <= y

OnPing(n, m) ==
  /\ wire' = Put({M("pong", n, n, m.fa, m.id, 0, NoTok, {}, 0, 0)})
  /\ LET x == FirstKeyOf(n, m.from) IN
       store' = IF x = 0 THEN store ELSE [store EXCEPT ![n][x] = Refresh(@, m.from, clock)]
  /\ UNCHANGED <<clock, skeys, sfm, reqs, nid, tokens, epoch, down, call, res, issued, acked, regd>>

ResetFailed(s, pred(_)) == [i \in DOMAIN s |-> IF pred(s[i]) THEN [s[i] EXCEPT !.failed = 0] ELSE s[i]]

OnPong(n, m) ==
  IF Matching(n, "ping", m.id) = {}
  THEN IF PongUnsolicitedResets
       THEN /\ sfm' = [sfm EXCEPT ![n] = ResetFailed(@, LAMBDA e : e.m = m.from)]
            /\ UNCHANGED <<clock, store, skeys, reqs, nid, tokens, epoch, down, call, res, wire, issued, acked, regd>>
       ELSE UNCHANGED core
  ELSE LET r == CHOOSE r \in Matching(n, "ping", m.id) : TRUE IN
       /\ reqs' = [reqs EXCEPT ![n] = @ \ {r}]
       /\ sfm' = IF r.oid = 0 THEN sfm ELSE [sfm EXCEPT ![n] = ResetFailed(@, LAMBDA e : e.oid = r.oid)]
       /\ IF call[n].ph = "ping" /\ r.id \in call[n].wait
          THEN /\ call' = [call EXCEPT ![n] = Idle]
               /\ res' = [res EXCEPT ![n] = [key |-> call[n].key, kind |-> "pinged",
                                             nodes |-> {[k |-> call[n].p, a |-> call[n].p]}, answered |-> TRUE]]
          ELSE UNCHANGED <<call, res>>
       /\ UNCHANGED <<clock, store, skeys, nid, tokens, epoch, down, wire, issued, acked, regd>>

Handle(n, m) ==
  CASE m.t = "spreq"  -> OnSpReq(n, m)
    [] m.t = "spresp" -> OnSpResp(n, m)
    [] m.t = "cpreq"  -> OnCpReq(n, m)
    [] m.t = "cpresp" -> OnCpResp(n, m)
    [] m.t = "ping"   -> OnPing(n, m)
    [] m.t = "pong"   -> OnPong(n, m)

IsResp(m) == m.t \in {"spresp", "cpresp", "pong"}
KindOf(m) == IF m.t = "spresp" THEN "sp" ELSE IF m.t = "cpresp" THEN "cp" ELSE "ping"
Unsolicited(n, m) == IsResp(m) /\ Matching(n, KindOf(m), m.id) = {}

RecvBody(n, m) ==       \* one datagram reaches the handler of node n
  /\ ~down[n] /\ m.to = n
  /\ Handle(n, m)
  /\ inert' = (inert /\ (Unsolicited(n, m) => UNCHANGED core))       \* ghost for P6
  /\ UNCHANGED fresh

(* any datagram the code ever sent can arrive, any number of times, in any order *)
Recv(n, i) == i \in DOMAIN wire /\ wire[i].t # "punct" /\ RecvBody(n, wire[i])

(* what an adversary can put in front of node n: anything signed with its own key.                       *)
(*  AdvSpReq: a store-peer request from address fa for key k carrying the token it got from y (0: a made-up one) *)
(*  AdvResp : a response of kind t echoing identifier id (an outstanding one, or 0) listing itself (nd = 1) or nobody *)
AdvOK(x, n, T) == x \in Adv /\ n \in T /\ x # n
AdvSpReq(x, n, fa, k, y) ==
  /\ On("adv-spreq") /\ AdvOK(x, n, AdvReqTargets) /\ fa \in AddrsOf(x)
  /\ LET tk == IF y = 0 THEN Junk ELSE tokens[x][y] IN
       tk # NoTok /\ RecvBody(n, M("spreq", x, fa, n, 0, k, tk, {}, 0, 0))
AdvResp(x, n, t, id, nd) ==
  /\ On("adv-" \o t) /\ AdvOK(x, n, AdvRespTargets)
  /\ id = 0 \/ \E r \in reqs[n] : r.id = id
  /\ nd = 1 => t = "cpresp"
  /\ RecvBody(n, M(t, x, x, n, id, 0, NoTok, IF nd = 1 THEN {[k |-> x, a |-> x]} ELSE {}, 0, 0))
AdvCpReq(x, n, fa, k, lan) ==      \* the LAN address it claims need not be the address it sends from
  /\ On("adv-cpreq") /\ AdvOK(x, n, AdvReqTargets) /\ fa \in AddrsOf(x) /\ lan \in AddrsOf(x)
  /\ RecvBody(n, M("cpreq", x, fa, n, 0, k, NoTok, {}, lan, 0))
AdvPing(x, n) ==
  /\ On("adv-ping") /\ AdvOK(x, n, AdvReqTargets)
  /\ RecvBody(n, M("ping", x, x, n, 0, 0, NoTok, {}, 0, 0))

---------------------------------------------------------------------------------------------------------------
(* ping_all *)
PingAllBody(n, idf) ==       \* idf: position in store_for_me -> identifier of the ping sent to it
  /\ ~down[n]
  /\ LET s == sfm[n]
         due == {i \in DOMAIN s : s[i].failed < 2 /\ s[i].lp + PingInterval <= clock}
         marked == [i \in DOMAIN s |-> IF i \in due THEN [s[i] EXCEPT !.lp = clock] ELSE s[i]]
     IN /\ DOMAIN idf = due
        /\ \A i \in due : idf[i] >= nid[n]
        /\ \A i, j \in due : i # j => idf[i] # idf[j]
        /\ nid' = IF due = {} THEN nid ELSE [nid EXCEPT ![n] = 1 + Max({idf[i] : i \in due})]
        /\ sfm' = [sfm EXCEPT ![n] = SelectSeq(marked, LAMBDA e : e.failed < 2)]
        /\ reqs' = [reqs EXCEPT ![n] = @ \cup {[id |-> idf[i], ty |-> "ping", to |-> s[i].m, dl |-> clock + Timeout,
                                                oid |-> s[i].oid] : i \in due}]
        /\ regd' = [regd EXCEPT ![n] = @ \cup {idf[i] : i \in due}]
        /\ wire' = Put({M("ping", n, n, s[i].m, idf[i], 0, NoTok, {}, 0, 0) : i \in due})
  /\ store' = IF NoSweep THEN store
              ELSE [store EXCEPT ![n] = [k \in Nodes |-> SelectSeq(store[n][k], LAMBDA e : ~(clock > e.lq + KeepAlive))]]
  /\ UNCHANGED <<clock, skeys, tokens, epoch, down, call, res, issued, acked>>
  /\ fresh' = /\ fresh                                                            \* ghost for P3
              /\ (\A k \in Nodes : \A j \in DOMAIN store'[n][k] : ~(clock > store'[n][k][j].lq + KeepAlive))
              /\ (\A i \in DOMAIN sfm'[n] : sfm'[n][i].failed < 2)
  /\ UNCHANGED inert

DuePos(n) == {i \in DOMAIN sfm[n] : sfm[n][i].failed < 2 /\ sfm[n][i].lp + PingInterval <= clock}
PingAll(n) ==         \* the code walks the list from the back: the last due entry gets the first identifier
  On("pingall") /\ PingAllBody(n, [i \in DuePos(n) |-> nid[n] + Cardinality({j \in DuePos(n) : j > i})])

---------------------------------------------------------------------------------------------------------------
(* time-outs, shutdown, clock *)
Bump(s, oid) == [i \in DOMAIN s |-> IF s[i].oid = oid /\ s[i].failed < 2 THEN [s[i] EXCEPT !.failed = @ + 1] ELSE s[i]]

TimeoutBody(n, r) ==
  /\ UNCHANGED <<fresh, inert>>
  /\ r \in reqs[n] /\ r.dl <= clock
  /\ reqs' = [reqs EXCEPT ![n] = @ \ {r}]
  /\ sfm' = IF r.ty = "ping" /\ r.oid # 0 THEN [sfm EXCEPT ![n] = Bump(@, r.oid)] ELSE sfm
  /\ IF r.id \in call[n].wait
     THEN IF call[n].ph = "ping"
          THEN IF PingTimeoutOk
               THEN /\ call' = [call EXCEPT ![n] = Idle]
                    /\ res' = [res EXCEPT ![n] = [key |-> call[n].key, kind |-> "pinged",
                                                  nodes |-> {[k |-> call[n].p, a |-> call[n].p]}, answered |-> FALSE]]
               ELSE /\ call' = [call EXCEPT ![n] = [@ EXCEPT !.ph = "find", !.wait = {}]]     \* go on with the lookup
                    /\ UNCHANGED res
          ELSE LET left == call[n].wait \ {r.id} IN
               IF left = {} THEN Finish(n, call[n].got)
               ELSE call' = [call EXCEPT ![n] = [@ EXCEPT !.wait = left]] /\ UNCHANGED res
     ELSE UNCHANGED <<call, res>>
  /\ UNCHANGED <<clock, store, skeys, nid, tokens, epoch, down, wire, issued, acked, regd>>

TimeoutReq(n, ty, id) == \E r \in Matching(n, ty, id) : TimeoutBody(n, r)

Unload(n) ==
  /\ On("unload")
  /\ UNCHANGED <<fresh, inert>>
  /\ ~down[n] /\ call[n].ph \in {"idle", "find"}
  /\ down' = [down EXCEPT ![n] = TRUE]
  /\ reqs' = [reqs EXCEPT ![n] = {}]
  /\ UNCHANGED <<clock, store, skeys, sfm, nid, tokens, epoch, call, res, wire, issued, acked, regd>>

Advance(d) ==
  /\ clock + d <= MaxClock
  /\ d = Timeout => \E n \in Nodes : reqs[n] # {}        \* (model checking only) the small step serves the time-outs
  /\ \A n \in Nodes : \A r \in reqs[n] : clock + d <= r.dl
  /\ clock' = clock + d
  /\ UNCHANGED nodeVars /\ UNCHANGED <<wire, fresh, inert>>

---------------------------------------------------------------------------------------------------------------
Next ==
  \/ \E pr \in TokenPairs : \E a \in AddrsOf(pr[1]) : GetToken(pr[1], pr[2], a)
  \/ \E n \in {pr[2] : pr \in TokenPairs} : Rotate(n)
  \/ \E n \in Storers : \E S \in FindSets : StorePeer(n, S)
  \/ \E n \in Connectors : \E k \in ConnKeys : \E p \in ConnPings : ConnectPeer(n, k, p)
  \/ \E n \in Connectors : \E S \in FindSets : ConnectFound(n, S)
  \/ \E n \in Nodes : \E i \in 1..MaxSent : Recv(n, i)
  \/ \E x \in Adv : \E n \in AdvReqTargets : \E fa \in AltAddr \cup Nodes : \E k \in Nodes : \E y \in {0} \cup Nodes :
        AdvSpReq(x, n, fa, k, y)
  \/ \E x \in Adv : \E n \in AdvRespTargets : \E t \in {"spresp", "cpresp", "pong"} : \E id \in 0..MaxId : \E nd \in {0, 1} :
        AdvResp(x, n, t, id, nd)
  \/ \E x \in Adv : \E n \in AdvReqTargets : \E fa \in AltAddr \cup Nodes : \E k \in Nodes : \E lan \in AltAddr \cup Nodes :
        AdvCpReq(x, n, fa, k, lan)
  \/ \E x \in Adv : \E n \in AdvReqTargets : AdvPing(x, n)
  \/ \E n \in Nodes : PingAll(n)
  \/ \E n \in Nodes : \E ty \in {"sp", "cp", "ping"} : \E id \in 1..MaxId : TimeoutReq(n, ty, id)
  \/ \E n \in Connectors \cup Storers : Unload(n)
  \/ \E d \in Jumps : Advance(d)

Spec == Init /\ [][Next]_vars

Bound == /\ \A n \in Nodes : nid[n] <= MaxId + 1
         /\ Cardinality(sent) <= MaxSent

---------------------------------------------------------------------------------------------------------------
(* properties *)
TypeOK ==
  /\ clock \in Nat
  /\ \A n \in Nodes : \A k \in Nodes : \A i \in DOMAIN store[n][k] :
        store[n][k][i].k \in Nodes /\ store[n][k][i].lq <= clock
  /\ \A n \in Nodes : \A i \in DOMAIN sfm[n] : sfm[n][i].failed \in 0..2 /\ sfm[n][i].lp <= clock
  /\ \A n \in Nodes : \A r \in reqs[n] : r.ty \in {"sp", "cp", "ping"} /\ r.id < nid[n] /\ r.dl <= clock + Timeout
  /\ \A n \in Nodes : \A r1, r2 \in reqs[n] : (r1.id = r2.id /\ r1.ty = r2.ty) => r1 = r2
  /\ \A n \in Nodes : call[n].ph \in {"idle", "find", "ping", "wait"}
  /\ \A n \in Nodes : \A i, j \in DOMAIN sfm[n] : i # j => sfm[n][i].m # sfm[n][j].m

(* P1 *)
StoreAuth ==
  \A n \in Nodes : \A k \in Nodes : \A i \in DOMAIN store[n][k] :
    LET e == store[n][k][i] IN
      /\ e.k = k
      /\ \E tk \in issued[n] : tk.k = e.k /\ tk.a = e.a

(* P2 *)
StoreForMeAcked ==
  \A n \in Nodes : \A i \in DOMAIN sfm[n] :
    \E a \in acked[n] :
      /\ a.to = sfm[n][i].m
      /\ \E m \in sent : m.t = "spreq" /\ m.from = n /\ m.to = a.to /\ m.id = a.id /\ m.key = n

(* P3 *)
Gone(seq, k) == \A j \in DOMAIN seq : seq[j].k # k
KeepAliveStep ==
  /\ \A n \in Nodes : \A k \in Nodes : \A i \in DOMAIN store[n][k] :
       LET e == store[n][k][i] IN
         /\ Gone(store'[n][k], e.k) => clock > e.lq + KeepAlive
         /\ \A j \in DOMAIN store'[n][k] : store'[n][k][j].k = e.k => store'[n][k][j].lq >= e.lq
  /\ \A n \in Nodes : \A i \in DOMAIN sfm[n] :
       (sfm[n][i].m \notin {sfm'[n][j].m : j \in DOMAIN sfm'[n]}) => sfm[n][i].failed >= 2
KeepAlive_P == [][KeepAliveStep]_vars
(* after a ping_all run no expired entry and no holder that failed twice is left *)
SweptFresh == fresh

(* P4 *)
ConnectExact ==
  /\ \A r \in sent : r.t = "cpresp" =>
       /\ Cardinality(r.nodes) <= MaxFind
       /\ \A nd \in r.nodes :
            /\ nd.k = r.key
            /\ \E tk \in issued[r.from] : tk.k = nd.k /\ tk.a = nd.a
            /\ \E p \in sent : /\ p.t = "punct" /\ p.from = r.from /\ p.to = nd.a /\ p.id = r.id
                               /\ p.wan = r.to /\ p.lan = r.lan
  /\ \A p \in sent : p.t = "punct" =>
       \E r \in sent : /\ r.t = "cpresp" /\ r.from = p.from /\ r.id = p.id /\ r.to = p.wan /\ r.lan = p.lan
                       /\ \E nd \in r.nodes : nd.a = p.to

(* P5 *)
RefusedNotSent ==
  \A m \in sent : m.t \in {"spreq", "cpreq"} => m.id \in regd[m.from]

(* P6 *)
UnsolicitedInert == inert

(* P7 *)
ConnectResult ==
  \A n \in Nodes :
    /\ res[n].kind \in {"local", "ok", "pinged"} => res[n].nodes # {}
    /\ res[n].kind = "local" => \A nd \in res[n].nodes : nd.k = res[n].key
    /\ res[n].kind = "pinged" => res[n].answered

(* "sometimes" formulas: each must be VIOLATED (run in the witness configuration), so that the properties are not vacuous *)
WitnessStored == \A n \in Nodes : \A k \in Nodes : store[n][k] = <<>>
WitnessHolder == \A n \in Nodes : sfm[n] = <<>>
WitnessExpired == \A n \in Nodes : \A k \in Nodes : ~(k \in skeys[n] /\ store[n][k] = <<>> /\ \E tk \in issued[n] : tk.k = k)
WitnessConnectOk == \A n \in Nodes : res[n].kind # "ok"
WitnessLocal == \A n \in Nodes : res[n].kind # "local"
WitnessPinged == \A n \in Nodes : res[n].kind # "pinged"
WitnessDropped == \A n \in Nodes : ~(sfm[n] = <<>> /\ acked[n] # {})
WitnessPuncture == \A m \in sent : m.t # "punct"
=============================================================================
