SPECIFICATION Spec
CONSTANTS NC = 2 NI = 2 Delays = {1} PassTimeouts = {} Filters = {"all"}
          Nesting = FALSE ReAdds = 0 ExtFut = FALSE ReapOwnOnly = TRUE LateCancel = FALSE
          HScripts = {} CoHandlers = FALSE ClaimFirst = TRUE
INVARIANT NoTimeoutAfterClaim
