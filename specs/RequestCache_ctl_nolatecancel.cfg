SPECIFICATION Spec
CONSTANTS NC = 2 NI = 2 Delays = {1} PassTimeouts = {} Filters = {"all"}
          Nesting = FALSE ReAdds = 0 ExtFut = 0 ReapOwnOnly = TRUE LateCancel = FALSE
          HScripts = {} CoHandlers = FALSE ClaimFirst = TRUE
          TMShutdown = FALSE ShutGuard = FALSE NFut = 3 FutLoop = "all"
INVARIANT NoTimeoutAfterClaim
