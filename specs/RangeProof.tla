----------------------------- MODULE RangeProof -----------------------------
(* ipv8/attestation/wallet/pengbaorange : create_attest_pair, PengBaoPublicData.check,             *)
(* PengBaoRangeAlgorithm.attest / create_challenges / create_challenge_response /                   *)
(* process_challenge_response / certainty.                                                          *)
(* Peng-Bao range proof with IDEALISED commitments: a commitment binds its content and hides it.    *)
(* What is kept of the construction is its arithmetic core: the prover can decompose               *)
(* w^2 (v - lo + 1)(hi - v + 1) into positive parts exactly when that product is positive, and      *)
(* the verifier's equations c1 = c / g^(lo-1), c2 = g^(hi+1) / c tie the proof to the verifier's    *)
(* own bounds. The Boudot equality / square sub-proofs and the commitments' number theory are       *)
(* outside TLA+ (DESIGN.md C18).                                                                    *)
EXTENDS Integers, TLC

CONSTANTS MaxV,      \* values of the exhaustive model are 0..MaxV, bounds MinV..MaxV
          Below,     \* MinV = -Below (a prover may build for a window that starts below zero)
          WidthOnly  \* TRUE: deviation - the verifier only checks c1 * c2 = g^(hi-lo+2), which ties the WIDTH of
                     \* the prover's window but not its position (negative control; never on in the trace spec)

VARIABLES lo, hi,     \* the verifier's range
          plo, phi,   \* the range the prover builds the proof for
          v,          \* the prover's value
          built,      \* "no" | "yes" | "failed"
          rounds,     \* challenge / response / check rounds carried out
          verdict     \* "none" | "accepted" | "rejected" : certainty(claim "in range") = 1.0 / 0.0
vars == <<lo, hi, plo, phi, v, built, rounds, verdict>>
MinV == 0 - Below

In(x, a, b) == a <= x /\ x <= b
ProductPositive == (v - plo + 1) * (phi - v + 1) > 0      \* what create_attest_pair can decompose
SameRange == plo = lo /\ phi = hi

(* the prover's window is ANY window: wider, narrower, one bound moved, or the same width shifted  *)
(* left / right by any offset (disjoint from, partially overlapping or equal to the verifier's)     *)
Init == /\ lo \in MinV..MaxV /\ hi \in lo..MaxV /\ plo \in MinV..MaxV /\ phi \in plo..MaxV
        /\ v \in 0..MaxV
        /\ built = "no" /\ rounds = 0 /\ verdict = "none"

(* prover: attest(). ok = a proof came out. A value inside the prover's range must yield a proof;   *)
(* for a value outside it the property only demands that nothing acceptable comes out.              *)
Build(ok) == /\ built = "no"
             /\ (ProductPositive /\ SameRange) => ok     \* demanded of the honest prover (the verifier's format) only
             /\ built' = IF ok THEN "yes" ELSE "failed"
             /\ UNCHANGED <<lo, hi, plo, phi, v, rounds, verdict>>

(* verifier challenges (s, t), prover responds, verifier runs PengBaoPublicData.check *)
Round == /\ built = "yes" /\ rounds < 3
         /\ rounds' = rounds + 1
         /\ verdict' = "none"                    \* the aggregate changed: earlier scores are stale
         /\ UNCHANGED <<lo, hi, plo, phi, v, built>>

SameWidth == phi - plo = hi - lo
Shifted   == SameWidth /\ ~SameRange
Allowed == IF WidthOnly /\ rounds >= 1 /\ SameWidth /\ In(v, plo, phi) THEN {TRUE}   \* the deviation accepts
           ELSE IF rounds >= 1 /\ SameRange /\ In(v, lo, hi) THEN {TRUE}     \* inside: accepted
           ELSE IF ~In(v, lo, hi) THEN {FALSE}                                \* outside: never accepted
           ELSE BOOLEAN                                                       \* the statement is silent
Verdict(acc) == /\ built = "yes" /\ acc \in Allowed
                /\ verdict' = IF acc THEN "accepted" ELSE "rejected"
                /\ UNCHANGED <<lo, hi, plo, phi, v, built, rounds>>

Next == \/ \E ok \in BOOLEAN : Build(ok)
        \/ Round
        \/ \E acc \in BOOLEAN : Verdict(acc)
Spec == Init /\ [][Next]_vars

TypeOK == built \in {"no", "yes", "failed"} /\ verdict \in {"none", "accepted", "rejected"} /\ rounds \in 0..3
BuildableIffInside == ProductPositive <=> In(v, plo, phi)
InsideBuilds == (SameRange /\ In(v, lo, hi)) => built # "failed"
InsideAccepted == (verdict # "none" /\ rounds >= 1 /\ SameRange /\ In(v, lo, hi)) => verdict = "accepted"
OutsideNeverAccepted == ~In(v, lo, hi) => verdict # "accepted"
=============================================================================
