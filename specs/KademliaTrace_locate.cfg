\* as KademliaTrace.cfg; names the trace and event that is not a step of the specification
SPECIFICATION TraceSpec
CONSTANTS W <- DictW Bits <- DictBits
          Cap = 1 MyNum = 0 IdNums = {} RTTs = {} Addrs = {} AddBads = {} KMax = 0 MaxDepth = 0
          WithGen = TRUE GenInBucket = TRUE OwnPathOnly = TRUE
INVARIANT TypeOKT
INVARIANT PrefixFreeCompleteT
INVARIANT NodeInOwningBucket
INVARIANT Capacity
INVARIANT OwnPathShapeT
INVARIANT GeneratedIdInBucket
INVARIANT TraceAccepted
PROPERTY SplitOnlyOwnPathT
