SPECIFICATION Spec
CONSTANTS Addrs = {"A1", "A2"} Keys = {"K1", "K2"} Signers = {"S1", "S2"} OwnSigner = "S1" MaxVer = 2 Datas = {"a", "b"} UData = {"a", "b"}
          Forged = TRUE Sizes = TRUE Multi = TRUE Base = 2 Scale = 1 MaxRot = 4 MaxClock = 6 InitCloser = 7 MaxCloser = 8
          MaxIssued = 6 PeerStore = TRUE Locals = TRUE EqReplaces = TRUE OtherTokens = {"foreign", "junk"} MaxStored = 12
          KeepSecrets = 2 CleanAll = TRUE Validity = 0 RotatePeriod = 0 ExpiredYields = FALSE
INVARIANT TypeOK
INVARIANT StoreNeedsOwnFreshToken
INVARIANT Limits
INVARIANT SignedMeansVerified
INVARIANT OneEntryPerId
INVARIANT ExpiredGoneAfterClean
INVARIANT StorePeerOnlyOwnMid
INVARIANT WindowIsTwoNewest
ACTION_CONSTRAINT SmallStore
CONSTRAINT Depth4
