----------------------------- MODULE WireStrict -----------------------------
(* C03, second half: the *strict* decoder of the py-ipv8 wire formats                                 *)
(*   ipv8/messaging/serialization.py : Serializer.unpack_serializable / unpack_serializable_list,     *)
(*   DefaultStruct, Bits, IPv4, Address, Raw, VarLen(Utf8), ListOf, NestedPayload, DefaultArray;      *)
(*   ipv8/messaging/anonymization/payload.py : Flags ; ipv8/dht/payload.py : NodePacker ;             *)
(*   ipv8/peerdiscovery/network.py : Network.load_snapshot                                            *)
(* written from the documented formats (name -> layout table below), not from the unpack code.        *)
(* Dec* return Err whenever a fixed field, a length prefix, the bytes a length prefix promises, a     *)
(* nested payload or an array item does not lie completely inside the buffer.  The decoded value is a  *)
(* tree of "shapes" [k, b, n, sub, r]; the re-encoding of the shapes must reproduce the consumed      *)
(* bytes (ReEncode) - that is "every length-prefixed part really has its declared length".            *)
(* Lenient = TRUE gives the slicing semantics of the pinned VarLen / NestedPayload / DefaultArray /     *)
(* Raw (negative control: EndInside and ReEncode fail).                                               *)
EXTENDS Naturals, Sequences, FiniteSets, TLC, SequencesExt

CONSTANTS Lenient, Alphabet, MaxLen, Formats,
          ArrBE     \* byte order of an array's count: DefaultArray registers its count format as "H" (native order);
                    \* which order is *right* is C02's question, C03 only needs the count to be honoured

Huge == 1000000      \* stands for every 4-byte length >= 2^16: no datagram is that long

(* ------------------------------- format table ------------------------------------------------- *)
FixSize(n) == CASE n \in {"?", "B", "c", "bits"} -> 1
                [] n \in {"H", "flags"} -> 2
                [] n \in {"BH", "ccB"} -> 3
                [] n \in {"BBH", "f", "HH", "I", "l"} -> 4
                [] n \in {"4SH", "ipv4"} -> 6
                [] n \in {"d", "LL", "q", "Q"} -> 8
                [] n = "QH" -> 10 [] n = "QL" -> 12 [] n = "20s" -> 20 [] n = "c20s" -> 21
                [] n = "QQHHBH" -> 23 [] n = "32s" -> 32 [] n = "64s" -> 64 [] n = "74s" -> 74
                [] OTHER -> 0
VarW(n) == CASE n = "varlenBx2" -> 1
             [] n \in {"varlenH", "varlenHutf8", "varlenHx20", "doublevarlenH"} -> 2
             [] n \in {"varlenI", "varlenIutf8"} -> 4
             [] OTHER -> 0
VarBase(n) == CASE n = "varlenBx2" -> 2 [] n = "varlenHx20" -> 20 [] OTHER -> 1
ArrItem(n) == CASE n = "arrayH-?" -> 1 [] n \in {"arrayH-q", "arrayH-d"} -> 8 [] OTHER -> 0
It(n) == [n |-> n, sub |-> <<>>]
ListItem(it) == CASE it.n = "varlenH-list" -> It("varlenH")
                  [] it.n = "node-list"    -> It("node")
                  [] it.n = "payload-list" -> [n |-> "payload", sub |-> it.sub]
                  [] OTHER -> It("")
NodeFmt == <<It("ip_address"), It("varlenH")>>

(* ------------------------------- bytes -------------------------------------------------------- *)
Slice(b, off, n) == SubSeq(b, off + 1, off + n)          \* n bytes after 0-based offset off
U(b, off, w) == CASE w = 1 -> b[off + 1]
                  [] w = 2 -> b[off + 1] * 256 + b[off + 2]
                  [] w = 4 -> IF b[off + 1] = 0 /\ b[off + 2] = 0 THEN b[off + 3] * 256 + b[off + 4] ELSE Huge
BE(v, w) == CASE w = 1 -> <<v>>
              [] w = 2 -> <<v \div 256, v % 256>>
              [] w = 4 -> <<0, 0, v \div 256, v % 256>>

(* ------------------------------- shapes ------------------------------------------------------- *)
Sh(k, b, n, sub, r) == [k |-> k, b |-> b, n |-> n, sub |-> sub, r |-> r]
Err == [ok |-> FALSE, end |-> 0, v |-> <<>>]
Ok(e, v) == [ok |-> TRUE, end |-> e, v |-> v]

RECURSIVE DecItem(_, _, _), DecSeq(_, _, _, _), DecMany(_, _, _, _, _)

DecItem(it, b, off) ==
  LET n == it.n
      L == Len(b)
  IN
  IF FixSize(n) > 0 THEN
       IF off + FixSize(n) <= L THEN Ok(off + FixSize(n), Sh("fix", <<>>, 0, <<>>, Slice(b, off, FixSize(n)))) ELSE Err
  ELSE IF n = "raw" THEN
       IF off <= L THEN Ok(L, Sh("var", Slice(b, off, L - off), 0, <<>>, <<>>))
       ELSE IF Lenient THEN Ok(L, Sh("var", <<>>, 0, <<>>, <<>>)) ELSE Err
  ELSE IF VarW(n) > 0 THEN
       LET w == VarW(n) IN
       IF off + w > L THEN Err
       ELSE LET size == U(b, off, w) * VarBase(n) IN
            IF off + w + size <= L THEN Ok(off + w + size, Sh("var", Slice(b, off + w, size), 0, <<>>, <<>>))
            ELSE IF Lenient THEN Ok(off + w + size, Sh("var", Slice(b, off + w, L - (off + w)), 0, <<>>, <<>>))
            ELSE Err
  ELSE IF ArrItem(n) > 0 THEN
       LET s == ArrItem(n) IN
       IF off + 2 > L THEN Err
       ELSE LET cnt == IF ArrBE THEN U(b, off, 2) ELSE b[off + 1] + 256 * b[off + 2]
                size == cnt * s
                avail == L - (off + 2)
            IN IF size <= avail THEN Ok(off + 2 + size, Sh("arr", <<>>, cnt, <<>>, Slice(b, off + 2, size)))
               ELSE IF Lenient /\ avail % s = 0
                    THEN Ok(off + 2 + size, Sh("arr", <<>>, avail \div s, <<>>, Slice(b, off + 2, avail)))
               ELSE Err
  ELSE IF n \in {"address", "ip_address"} THEN
       IF off + 1 > L THEN Err
       ELSE LET t == b[off + 1] IN
            IF t = 1 THEN (IF off + 7 <= L THEN Ok(off + 7, Sh("addr", <<>>, 1, <<>>, Slice(b, off + 1, 6))) ELSE Err)
            ELSE IF t = 3 THEN (IF off + 19 <= L THEN Ok(off + 19, Sh("addr", <<>>, 3, <<>>, Slice(b, off + 1, 18))) ELSE Err)
            ELSE IF t = 2 /\ n = "address" THEN
                 IF off + 3 > L THEN Err
                 ELSE LET hl == U(b, off + 1, 2) IN
                      IF off + 5 + hl <= L
                      THEN Ok(off + 5 + hl, Sh("addr", Slice(b, off + 3, hl), 2, <<>>, Slice(b, off + 3 + hl, 2)))
                      ELSE Err
            ELSE Err
  ELSE IF n \in {"varlenH-list", "node-list", "payload-list"} THEN
       IF off + 1 > L THEN Err
       ELSE LET r == DecMany(ListItem(it), b, off + 1, b[off + 1], <<>>) IN
            IF r.ok THEN Ok(r.end, Sh("list", <<>>, b[off + 1], r.v, <<>>)) ELSE Err
  ELSE IF n = "payload" THEN
       IF off + 2 > L THEN Err
       ELSE LET size == U(b, off, 2)
                have == IF off + 2 + size <= L THEN size ELSE L - (off + 2)
            IN IF have < size /\ ~Lenient THEN Err
               ELSE LET sl == Slice(b, off + 2, have)
                        r  == DecSeq(it.sub, sl, 0, <<>>)
                    IN IF r.ok THEN Ok(off + 2 + size, Sh("nest", sl, 0, r.v, <<>>)) ELSE Err
  ELSE IF n = "node" THEN
       LET r == DecSeq(NodeFmt, b, off, <<>>) IN
       IF r.ok THEN Ok(r.end, Sh("seq", <<>>, 0, r.v, <<>>)) ELSE Err
  ELSE Err

DecSeq(fmts, b, off, acc) ==
  IF fmts = <<>> THEN Ok(off, acc)
  ELSE LET r == DecItem(Head(fmts), b, off) IN
       IF r.ok THEN DecSeq(Tail(fmts), b, r.end, Append(acc, r.v)) ELSE Err

DecMany(it, b, off, cnt, acc) ==
  IF cnt = 0 THEN Ok(off, acc)
  ELSE LET r == DecItem(it, b, off) IN
       IF r.ok THEN DecMany(it, b, r.end, cnt - 1, Append(acc, r.v)) ELSE Err

(* Serializer.unpack_serializable(cls, data, offset) *)
DecMsg(fmts, b, off) == IF off > Len(b) /\ ~Lenient THEN Err ELSE DecSeq(fmts, b, off, <<>>)

(* Serializer.unpack_serializable_list(classes, data, offset, consume_all) *)
RECURSIVE DecClasses(_, _, _, _)
DecClasses(cl, b, off, acc) ==
  IF cl = <<>> THEN Ok(off, acc)
  ELSE LET r == DecMsg(Head(cl), b, off) IN
       IF r.ok THEN DecClasses(Tail(cl), b, r.end, Append(acc, r.v)) ELSE Err
DecMsgList(cl, b, off, consumeAll) ==
  LET r == DecClasses(cl, b, off, <<>>) IN
  IF ~r.ok THEN Err
  ELSE IF consumeAll /\ r.end < Len(b) THEN Err
  ELSE r

(* Network.load_snapshot: address records until the first one that does not parse *)
RECURSIVE SnapCount(_, _)
SnapCount(b, off) == IF off >= Len(b) THEN 0
                     ELSE LET r == DecItem(It("address"), b, off) IN
                          IF r.ok THEN 1 + SnapCount(b, r.end) ELSE 0

(* ------------------------------- re-encoding of a decoded value ------------------------------- *)
RECURSIVE EncItem(_, _), EncSeq(_, _), EncMany(_, _)
EncItem(it, s) ==
  LET n == it.n IN
  IF FixSize(n) > 0 THEN s.r
  ELSE IF n = "raw" THEN s.b
  ELSE IF VarW(n) > 0 THEN BE(Len(s.b) \div VarBase(n), VarW(n)) \o s.b
  ELSE IF ArrItem(n) > 0 THEN (IF ArrBE THEN BE(s.n, 2) ELSE <<s.n % 256, s.n \div 256>>) \o s.r
  ELSE IF n \in {"address", "ip_address"} THEN
       (IF s.n = 2 THEN <<2>> \o BE(Len(s.b), 2) \o s.b \o s.r ELSE <<s.n>> \o s.r)
  ELSE IF n \in {"varlenH-list", "node-list", "payload-list"} THEN <<s.n>> \o EncMany(ListItem(it), s.sub)
  ELSE IF n = "payload" THEN BE(Len(s.b), 2) \o s.b
  ELSE IF n = "node" THEN EncSeq(NodeFmt, s.sub)
  ELSE <<>>
EncSeq(fmts, ss) == IF fmts = <<>> THEN <<>> ELSE EncItem(Head(fmts), Head(ss)) \o EncSeq(Tail(fmts), Tail(ss))
EncMany(it, ss) == IF ss = <<>> THEN <<>> ELSE EncItem(it, Head(ss)) \o EncMany(it, Tail(ss))

(* a list has as many items as it declares, an array as many bytes, a nested payload decodes inside its slice *)
RECURSIVE WellItem(_, _), WellSeq(_, _)
WellItem(it, s) ==
  LET n == it.n IN
  IF VarW(n) > 0 THEN Len(s.b) % VarBase(n) = 0
  ELSE IF ArrItem(n) > 0 THEN Len(s.r) = s.n * ArrItem(n)
  ELSE IF n \in {"varlenH-list", "node-list", "payload-list"} THEN
       /\ Len(s.sub) = s.n /\ \A i \in DOMAIN s.sub : WellItem(ListItem(it), s.sub[i])
  ELSE IF n = "payload" THEN
       /\ Len(s.sub) = Len(it.sub) /\ WellSeq(it.sub, s.sub)
       /\ LET e == EncSeq(it.sub, s.sub) IN Len(e) <= Len(s.b) /\ e = SubSeq(s.b, 1, Len(e))
  ELSE IF n = "node" THEN WellSeq(NodeFmt, s.sub)
  ELSE TRUE
WellSeq(fmts, ss) == \A i \in DOMAIN fmts : WellItem(fmts[i], ss[i])

(* what the harness can see of a decoded value: raw bytes of fixed fields / arrays / nested slices are dropped *)
RECURSIVE Strip(_)
Strip(s) == Sh(s.k, IF s.k = "nest" THEN <<>> ELSE s.b, s.n, [i \in DOMAIN s.sub |-> Strip(s.sub[i])], <<>>)
StripAll(ss) == [i \in DOMAIN ss |-> Strip(ss[i])]

(* ------------------------------- exhaustive exploration: every byte string -------------------- *)
VARIABLES fi, buf
wvars == <<fi, buf>>
Res == DecMsg(Formats[fi], buf, 0)

Init == fi \in DOMAIN Formats /\ buf = <<>>
Grow(x) == Len(buf) < MaxLen /\ buf' = Append(buf, x) /\ UNCHANGED fi
Cut == buf # <<>> /\ buf' = SubSeq(buf, 1, Len(buf) - 1) /\ UNCHANGED fi
Next == (\E x \in Alphabet : Grow(x)) \/ Cut
Spec == Init /\ [][Next]_wvars

EndInside == Res.ok => Res.end <= Len(buf)
ReEncode  == Res.ok => /\ Len(Res.v) = Len(Formats[fi])
                       /\ EncSeq(Formats[fi], Res.v) = SubSeq(buf, 1, Res.end)
WellFormed == Res.ok => WellSeq(Formats[fi], Res.v)
(* decoding looks at nothing beyond the end it reports: the consumed prefix alone decodes to the same value *)
PrefixClosed == Res.ok /\ Res.end <= Len(buf) =>
                  LET r == DecMsg(Formats[fi], SubSeq(buf, 1, Res.end), 0) IN r.ok /\ r.v = Res.v
(* a cut-off message is never accepted: every proper prefix of the consumed bytes is an error or ends earlier *)
NoSilentTruncation ==
  Res.ok /\ Res.end <= Len(buf) =>
    \A k \in 0..(Res.end - 1) :
       LET r == DecMsg(Formats[fi], SubSeq(buf, 1, k), 0) IN ~r.ok \/ r.end <= k
SometimesOk == ~Res.ok   \* witness, expected to be violated
=============================================================================
