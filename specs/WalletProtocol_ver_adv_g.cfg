\* replayed graph: the prover (node 3) is adversarial: own attestation, arbitrary responses
SPECIFICATION SpecL
CONSTANTS
 Nodes = {1, 3} Adv = {3} Requesters = {} Verifiers = {1}
 Values <- Vals1 NChunks = 2 Window = 10 Pre <- PreAdvOnly
 MaxReq = 0 MaxVer = 1 MaxHon = 1 MaxDup = 0 MaxDrop = 0 MaxAdv = 5 MaxTimeouts = 0 MaxTicks = 0
 AdvKinds = {"data", "resp"} AdvResps = {1, 3}
 TickSteps = {}
 OnceOnly = TRUE CheckPeer = TRUE CheckHash = TRUE AskConsent = TRUE
INVARIANT StoredIntact
INVARIANT ChunkIsolation
INVARIANT VerifyOnce
INVARIANT ResultConsistent
INVARIANT ConsentGiven
INVARIANT CachesSane
