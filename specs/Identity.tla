------------------------------ MODULE Identity ------------------------------
(* C17 - identity consent.  One IdentityCommunity node (key 0) in both of its roles:               *)
(*   attestor : add_known_hash, on_disclosure / on_missing_response -> _received_disclosure_for_attest *)
(*              -> IdentityManager.substantiate -> should_sign -> AttestPayload / RequestMissingPayload *)
(*   owner    : self_advertise, request_attestation_advertisement (permissions), on_request_missing,  *)
(*              on_attest                                                                            *)
(* Implementation layer: one action per public call / message handler, state shaped like the code    *)
(* (known_attestation_hashes, per-pseudonym TokenTree elements/unchained, Metadata and Attestations   *)
(* tables with their primary keys and INSERT OR IGNORE, token_chain, permissions).                    *)
(* Environment: Fault(t) arms a one-shot storage error on a table; every handler is modelled with the *)
(* order of its writes and sends, so that "what left the node" and "what is on record" stay related   *)
(* also on the error path (SentOnlyRecorded; a replay after a failed write is attested exactly once). *)
(* Abstract layer: what the property statement demands, written over history variables (regHist,      *)
(* signed, handed) - SignsOnlyConsented, StoresOnlyValidlySigned, TokensOnlyUpToPermitted.            *)
EXTENDS IdentityWorld, FiniteSets, TLC

CONSTANTS AlreadyChecked,   \* TRUE : should_sign refuses metadata the node has attested already     [repaired code]
                            \* FALSE: the pinned comparison (bytes of the authority key against the key) never
                            \*        matches, a replayed disclosure is signed again                [deviation]
          PkPerAuthority,   \* TRUE : Attestations rows are keyed (subject, authority, metadata)  [repaired schema]
                            \* FALSE: keyed (subject, metadata) as in the pinned schema: a third party's attestation
                            \*        shadows the node's own row, "already attested" is never seen  [deviation]
          CheckSubject,     \* FALSE: should_sign without the subject-key comparison   (negative control)
          CheckPermission,  \* FALSE: on_request_missing ignores the permission index  (negative control)
          CommitBeforeSend, \* TRUE : the own attestation is written to the Attestations table before the AttestPayload
                            \*        leaves the node; a failed write aborts the handler, nothing is sent    [the code]
                            \* FALSE: "answer first, commit later": the packet is out when the write fails, no row
                            \*        remembers it and a replayed disclosure is attested again      (negative control)
          Window,           \* 300 s
          RespCap,          \* tokens per MissingResponsePayload (1296 // 128 = 10)
          FitAll            \* longest chain that is certainly disclosed in full by _fit_disclosure

VARIABLES clock,     \* seconds
          known,     \* known_attestation_hashes : hash -> [name, time, subj, meta]   (subj = 0 : no entry)
          regHist,   \* history : every registration ever made [h, name, time, subj, meta]
          els,       \* peer -> tokens in identity_manager.get_pseudonym(peer).tree.elements
          unch,      \* peer -> tokens waiting in tree.unchained
          mdTab,     \* rows of the Metadata table (metadata ids; stored under their signer, key = (signer, token pointer))
          attTab,    \* rows of the Attestations table [subj, auth, signer, md]
          signed,    \* history : metadata this node has ever signed an attestation for
          signLog,   \* history : [md, to, consent, chain, fresh] one entry per AttestPayload sent
          chain,     \* length of the own token_chain
          perm,      \* permissions : peer -> highest index opened
          handed,    \* history : peer -> positions of own tokens ever sent to it
          out,       \* messages emitted by the last step
          fault      \* environment: the table whose next write (INSERT) fails with a storage error - sqlite3.OperationalError,
                     \* "database is locked" / "disk full" - TabAtt, TabMd or NoFault.  One shot: the first INSERT into
                     \* that table after arming raises, whatever the row; the error leaves the handler / the call.
vars == <<clock, known, regHist, els, unch, mdTab, attTab, signed, signLog, chain, perm, handed, out, fault>>
attestorVars == <<known, regHist, els, unch, mdTab, signed, signLog>>
ownerVars    == <<chain, perm, handed>>

NoReg == [name |-> 0, time |-> 0, subj |-> 0, meta |-> 0]
NoFault == 0
TabAtt  == 1     \* Attestations
TabMd   == 2     \* Metadata
NoOut == [to |-> 0, att |-> {}, miss |-> 0, missKnown |-> 0, respSent |-> FALSE, discSent |-> FALSE, toks |-> {}]

Init == /\ clock = 0
        /\ known = [h \in Hashes |-> NoReg] /\ regHist = {}
        /\ els = [p \in Peers |-> {}] /\ unch = [p \in Peers |-> {}]
        /\ mdTab = {} /\ attTab = {} /\ signed = {} /\ signLog = {}
        /\ chain = 0 /\ perm = [p \in Peers |-> 0] /\ handed = [p \in Peers |-> {}]
        /\ out = NoOut /\ fault = NoFault

(* ------------------------------------------ user / clock ---------------------------------------- *)
Tick(d) == /\ d > 0 /\ clock' = clock + d /\ out' = NoOut
           /\ UNCHANGED <<attestorVars, attTab, ownerVars, fault>>

(* the environment arms a storage fault on table t (see `fault`) *)
Fault(t) == /\ t \in {TabAtt, TabMd} /\ fault' = t /\ out' = NoOut
            /\ UNCHANGED <<clock, attestorVars, attTab, ownerVars>>

(* add_known_hash: the table is keyed by the hash alone, the latest registration replaces the entry  *)
AddKnownHash(h, name, subj, meta) ==
  /\ known' = [known EXCEPT ![h] = [name |-> name, time |-> clock, subj |-> subj, meta |-> meta]]
  /\ regHist' = regHist \cup {[h |-> h, name |-> name, time |-> clock, subj |-> subj, meta |-> meta]}
  /\ out' = NoOut
  /\ UNCHANGED <<clock, els, unch, mdTab, attTab, signed, signLog, ownerVars, fault>>

(* ------------------------------- IdentityManager.substantiate ------------------------------------ *)
(* TokenTree.gather_token for the tree of peer p (C16: the chain reaction wakes every waiting child)  *)
RECURSIVE WakeClosure(_, _)
WakeClosure(e, u) == LET ready == {t \in u : W.tokPar[t] \in e} IN
                     IF ready = {} THEN <<e, u>> ELSE WakeClosure(e \cup ready, u \ ready)

GatherOne(st, p, t) ==
  IF W.tokOwner[t] # p THEN [st EXCEPT !.ok = FALSE]                       \* signature does not verify
  ELSE IF W.tokPar[t] # 0 /\ W.tokPar[t] \notin st.e
       THEN [e |-> st.e, u |-> st.u \cup {t}, ok |-> FALSE]                \* delayed, gather_token returns None
  ELSE IF t \in st.e THEN st
  ELSE LET r == WakeClosure(st.e \cup {t}, st.u) IN [e |-> r[1], u |-> r[2], ok |-> st.ok]

RECURSIVE FoldTok(_, _, _)
FoldTok(st, p, seq) == IF seq = <<>> THEN st ELSE FoldTok(GatherOne(st, p, Head(seq)), p, Tail(seq))

(* PseudonymManager.add_metadata: verified under the pseudonym's key; INSERT OR IGNORE, key (key, token_pointer) *)
AddMd(tab, p, m) ==
  IF W.mdSigner[m] = p /\ ~\E m2 \in tab : W.mdSigner[m2] = p /\ W.mdTok[m2] = W.mdTok[m]
  THEN tab \cup {m} ELSE tab
RECURSIVE FoldMd(_, _, _)
FoldMd(tab, p, seq) == IF seq = <<>> THEN tab ELSE FoldMd(AddMd(tab, p, Head(seq)), p, Tail(seq))

(* PseudonymManager.add_attestation + IdentityDatabase.insert_attestation (INSERT OR IGNORE)           *)
Conflicts(tab, r) == \E q \in tab : q.subj = r.subj /\ q.md = r.md /\ (PkPerAuthority => q.auth = r.auth)
Insert(tab, r)    == IF Conflicts(tab, r) THEN tab ELSE tab \cup {r}
Row(subj, auth, x) == [subj |-> subj, auth |-> auth, signer |-> W.attSigner[x], md |-> W.attMd[x]]

RECURSIVE FoldAtt(_, _, _)
FoldAtt(st, p, seq) ==       \* st = [tab, ok] ; seq of <<attestation, claimed authority>>
  IF seq = <<>> THEN st
  ELSE LET x == Head(seq)[1]  a == Head(seq)[2]  valid == W.attSigner[x] = a IN
       FoldAtt([tab |-> IF valid THEN Insert(st.tab, Row(p, a, x)) ELSE st.tab, ok |-> st.ok /\ valid], p, Tail(seq))

(* --------------------------------------- should_sign --------------------------------------------- *)
Already(tab, m) == \E r \in tab : r.md = m /\ r.auth = Self
ShouldSign(p, m, e, tab) ==
  /\ W.mdTok[m] \in e
  /\ W.mdReq[m]
  /\ LET r == known[W.tokHash[W.mdTok[m]]] IN
       /\ r.subj # 0
       /\ (CheckSubject => r.subj = p)
       /\ clock <= r.time + Window
       /\ W.mdName[m] = r.name
       /\ (r.meta # 0 => W.mdExtra[m] = r.meta)
  /\ (AlreadyChecked => ~Already(tab, m))

(* ------------------------------------ abstract consent ------------------------------------------- *)
(* written from the property statement; mentions neither the known table nor the Attestations table   *)
AbsConsent(p, m) ==
  /\ W.mdSigner[m] = p /\ W.mdTok[m] \in Toks
  /\ \E r \in regHist : /\ r.h = W.tokHash[W.mdTok[m]] /\ r.subj = p /\ r.name = W.mdName[m]
                        /\ (r.meta # 0 => W.mdExtra[m] = r.meta)
                        /\ clock - r.time <= Window
RECURSIVE ChainOK(_, _, _)
ChainOK(t, e, p) == /\ t \in Toks /\ t \in e /\ W.tokOwner[t] = p
                    /\ (W.tokPar[t] = 0 \/ ChainOK(W.tokPar[t], e, p))

(* ---------------------- _received_disclosure_for_attest(peer, disclosure) ------------------------- *)
(* Order of effects in the handler (what a storage fault cuts short):                                   *)
(*   1 tokens into the in-memory tree   2 INSERT Metadata (each one that verifies, in message order)    *)
(*   3 INSERT Attestations (each piggy-backed one that verifies)   4 per credential to sign:            *)
(*   INSERT Attestations (own row), then AttestPayload   5 RequestMissingPayload                        *)
(* A failed INSERT raises out of the handler: what was written before stays, nothing after it happens.  *)
Process(p, mds, toks, atts) ==
  IF ~\E h \in Hashes : known[h].subj = p
  THEN /\ out' = NoOut                                               \* unsolicited: dropped before substantiate
       /\ UNCHANGED <<clock, attestorVars, attTab, ownerVars, fault>>
  ELSE LET g        == FoldTok([e |-> els[p], u |-> unch[p], ok |-> TRUE], p, toks)
           mt       == FoldMd(mdTab, p, mds)
           ar       == FoldAtt([tab |-> attTab, ok |-> TRUE], p, atts)
           correct  == g.ok /\ ar.ok
           required == {h \in Hashes : known[h].subj = p}
           have     == {W.tokHash[t] : t \in g.e}
           creds    == {m \in mt : W.mdSigner[m] = p}
           tosign   == IF correct /\ required \cap have # {}
                       THEN {m \in creds : ShouldSign(p, m, g.e, ar.tab)} ELSE {}
           own(m)   == [subj |-> p, auth |-> Self, signer |-> Self, md |-> m]
           entry(m) == [md |-> m, to |-> p, consent |-> AbsConsent(p, m),
                        chain |-> ChainOK(W.mdTok[m], g.e, p), fresh |-> m \notin signed]
           mdHit    == fault = TabMd  /\ \E i \in 1..Len(mds)  : W.mdSigner[mds[i]] = p
           attHit   == fault = TabAtt /\ \E i \in 1..Len(atts) : W.attSigner[atts[i][1]] = atts[i][2]
           signHit  == fault = TabAtt /\ tosign # {}
           Abort(md, at) == /\ mdTab' = md /\ attTab' = at /\ out' = NoOut /\ fault' = NoFault
                            /\ UNCHANGED <<signed, signLog>>
       IN /\ els' = [els EXCEPT ![p] = g.e] /\ unch' = [unch EXCEPT ![p] = g.u]
          /\ UNCHANGED <<clock, known, regHist, ownerVars>>
          /\ IF mdHit THEN Abort(mdTab, attTab)            \* rows before the first verifying metadata: none
             ELSE IF attHit THEN Abort(mt, attTab)         \* rows before the first verifying attestation: none
             ELSE IF signHit
             THEN IF CommitBeforeSend
                  THEN Abort(mt, ar.tab)                   \* the write of the own row fails first: nothing leaves
                  ELSE \E m \in tosign :                   \* [deviation] the packet left, then the write failed
                         /\ mdTab' = mt /\ attTab' = ar.tab /\ fault' = NoFault
                         /\ signed' = signed \cup {m} /\ signLog' = signLog \cup {entry(m)}
                         /\ out' = [NoOut EXCEPT !.to = p, !.att = {m}]
             ELSE /\ mdTab' = mt
                  /\ attTab' = ar.tab \cup {own(m) : m \in {n \in tosign : ~Conflicts(ar.tab, own(n))}}
                  /\ signed' = signed \cup tosign
                  /\ signLog' = signLog \cup {entry(m) : m \in tosign}
                  /\ out' = IF tosign = {} /\ required \subseteq have THEN NoOut
                             ELSE [NoOut EXCEPT !.to = p, !.att = tosign, !.miss = Cardinality(required \ have),
                                                !.missKnown = IF required \subseteq have THEN 0 ELSE Cardinality(g.e)]
                  /\ UNCHANGED fault

RecvDisclose(p, mds, toks, atts) == Process(p, mds, toks, atts)        \* on_disclosure
RecvMissingResponse(p, toks)     == Process(p, <<>>, toks, <<>>)        \* on_missing_response

(* ----------------------------------------- owner role -------------------------------------------- *)
(* self_advertise -> create_credential writes the new token and its metadata before the chain views  *)
(* (token_chain, permissions) change: a failed Metadata write raises out of the call, the chain does  *)
(* not grow, nothing is opened to the peer and nothing is sent.                                       *)
OwnerAbort == /\ out' = NoOut /\ fault' = NoFault
              /\ UNCHANGED <<clock, attestorVars, attTab, ownerVars>>

SelfAdvertise == IF fault = TabMd THEN OwnerAbort
                 ELSE /\ chain' = chain + 1 /\ out' = NoOut
                      /\ UNCHANGED <<clock, attestorVars, attTab, perm, handed, fault>>

(* request_attestation_advertisement(peer, ...): new credential, permission = whole chain, disclosure  *)
(* with the tokens S (the whole chain when it fits the packet)                                          *)
RequestAdvert(p, S) ==
  IF fault = TabMd THEN OwnerAbort
  ELSE /\ S \subseteq 1..(chain + 1) /\ (chain + 1 <= FitAll => S = 1..(chain + 1))
       /\ chain' = chain + 1
       /\ perm' = [perm EXCEPT ![p] = chain + 1]
       /\ handed' = [handed EXCEPT ![p] = @ \cup S]
       /\ out' = [NoOut EXCEPT !.to = p, !.discSent = TRUE, !.toks = S]
       /\ UNCHANGED <<clock, attestorVars, attTab, fault>>

(* on_request_missing(peer, known = k): one MissingResponsePayload, tokens k+1 .. permission            *)
RecvRequestMissing(p, k) ==
  LET top  == IF CheckPermission THEN perm[p] ELSE chain
      resp == {i \in 1..top : i > k /\ i <= k + RespCap}
  IN /\ handed' = [handed EXCEPT ![p] = @ \cup resp]
     /\ out' = [NoOut EXCEPT !.to = p, !.respSent = TRUE, !.toks = resp]
     /\ UNCHANGED <<clock, attestorVars, attTab, chain, perm, fault>>

(* on_attest(peer, attestation x): stored in the own pseudonym only if it verifies under the sender's key *)
(* (a storage fault on the Attestations table: the write raises, no row)                                 *)
RecvAttest(p, x) ==
  /\ IF W.attSigner[x] = p
     THEN IF fault = TabAtt THEN attTab' = attTab /\ fault' = NoFault
          ELSE attTab' = Insert(attTab, Row(Self, p, x)) /\ UNCHANGED fault
     ELSE UNCHANGED <<attTab, fault>>
  /\ out' = NoOut
  /\ UNCHANGED <<clock, attestorVars, ownerVars>>

(* ------------------------------------------ properties ------------------------------------------- *)
TypeOK == /\ \A p \in Peers : els[p] \subseteq Toks /\ unch[p] \subseteq Toks /\ els[p] \cap unch[p] = {}
          /\ mdTab \subseteq Mds /\ signed \subseteq Mds
          /\ \A p \in Peers : perm[p] <= chain
          /\ fault \in {NoFault, TabAtt, TabMd}

(* A node signs only what its user registered (hash, subject key, name, fixed metadata) less than     *)
(* five minutes earlier, over a chain that verifies, and not twice.                                    *)
SignsOnlyConsented == \A e \in signLog : e.consent /\ e.chain /\ e.fresh
(* an attestation leaves the node only when it is on record - the row is what "not attested already" *)
(* is decided from the next time, also when a write failed in between                                   *)
SentOnlyRecorded == \A m \in out.att : [subj |-> out.to, auth |-> Self, signer |-> Self, md |-> m] \in attTab
(* every stored attestation verifies under the authority it is stored for (on_attest: the sender)       *)
StoresOnlyValidlySigned == \A r \in attTab : r.signer = r.auth
(* own tokens go only to peers the user opened them to and only up to that position                     *)
TokensOnlyUpToPermitted == \A p \in Peers : handed[p] \subseteq 1..perm[p]
(* the tree of a peer only holds that peer's connected chain (what "the disclosed chain verifies" needs)  *)
TreesVerified == \A p \in Peers : \A t \in els[p] : ChainOK(t, els[p], p)
=============================================================================
