\* both roles, both subjects, clock, piggy-backed attestations together (exhaustive, thorough tier, no replay)
SPECIFICATION MCSpec
CONSTANTS AlreadyChecked = TRUE PkPerAuthority = TRUE CheckSubject = TRUE CheckPermission = TRUE CommitBeforeSend = TRUE Window = 300 RespCap = 10 FitAll = 8
  Regs = {1, 3, 4} Senders = {1, 2} TokIdx = {2, 4} MdIdx = {2, 3, 7} AttIdx = {1, 2} MissIdx = {1}
  Ticks = {301} OwnerPeers = {1} KnownVals = {0} AttSend = {1} RegFirst = TRUE FaultTabs = {}
  MaxReg = 2 MaxMsg = 3 MaxTick = 1 MaxOwn = 1 MaxFault = 0
INVARIANT TypeOK
INVARIANT SignsOnlyConsented
INVARIANT StoresOnlyValidlySigned
INVARIANT TokensOnlyUpToPermitted
INVARIANT TreesVerified
INVARIANT SentOnlyRecorded
