\* the caller's collections: 2 peers x 1 address x 2 services, one re-iterable collection and one one-shot iterator of
\* the caller, handed to discover_services as they are (the same object for several peers) and changed afterwards
SPECIFICATION Spec
CONSTANTS NP = 2 NA = 1 NS = 2 V6 = {} BlackAddr = {} BlackMid = {} IpCap = 1 IntroCap = 1 SvcCap = 1
          NB = 2 IterBufs = {2} Defects = {} MaxDepth = 4
VIEW NoRetOp
INVARIANT TypeOK
INVARIANT LookupsAgree
INVARIANT HistoryAgrees
INVARIANT BlacklistedNeverVerified
INVARIANT SnapshotRoundTrip
PROPERTY QueriesPure
PROPERTY RemovedIsGone
PROPERTY RemovedIsClean
PROPERTY ReAddWorks
PROPERTY ArgumentsNotRetained
PROPERTY OnlyTheNamedPeer
PROPERTY CallerKeepsItsCollection
